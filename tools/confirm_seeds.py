#!/usr/bin/env python3
"""Confirms seeded changes (from sub-agents) independently and files them under /verif/seeded/<prop>-<k>/.
For each /tmp/seedout/<prop>/<k>/: in a scratch worktree of the pinned snapshot: apply patch -> build, vet, full suite green;
demo fails with the patch; demo passes without it. Then runs the checks of /verif against the patched tree and records which rules report."""
import json, os, re, shutil, subprocess, sys, glob, tempfile, concurrent.futures

SNAP = "2b0dff6"
ROUND = next((n for n in (9, 8, 7, 6, 5, 4, 3, 2) if f"--round{n}" in sys.argv), 1)
ROUND2 = ROUND > 1   # later rounds: agents worked on worktrees of the repaired tree; output in /tmp/seedout<N>; demos run with -race
BASES = {1: SNAP, 2: "54253df", 3: "b97d7ea", 4: "c21cce1", 5: "b7a25ef", 6: "dacf19b", 7: "8c2be28", 8: "c5fb0fb", 9: "ae65310"}
SRC = "/tmp/seedout" if ROUND == 1 else f"/tmp/seedout{ROUND}"
BASE = BASES[ROUND]
def sid(prop, k):
    return f"{prop}-{k}" if ROUND == 1 else f"{prop}-r{ROUND}-{k}"
ENV = dict(os.environ, GOFLAGS="-mod=mod", GOPROXY="off", CGO_ENABLED="1")
ENV.pop("GOWORK", None)
RELATED = {  # properties whose checks are run against a seed of the given property
    "C01": ["C01", "C08", "C04", "C05", "C06", "C03"], "C02": ["C02", "C05", "C01", "C03"], "C03": ["C03", "C05", "C11", "C08"], "C04": ["C04", "C02", "C20", "C01", "C08"], "C05": ["C05", "C06", "C19"],
    "C06": ["C06", "C05", "C19"], "C07": ["C07", "C05", "C08", "C06"], "C08": ["C08", "C07", "C16", "C17", "C02"], "C09": ["C09", "C08", "C06"], "C10": ["C10", "C12", "C03", "C05"],
    "C11": ["C11", "C03", "C10"], "C12": ["C12", "C10", "C05", "C06", "C16"], "C13": ["C13", "C12", "C03", "C06"], "C14": ["C14"], "C15": ["C15", "C16", "C01"], "C16": ["C16", "C10", "C03", "C15"],
    "C17": ["C17", "C09"], "C18": ["C18", "C08"], "C19": ["C19", "C08", "C05"], "C20": ["C20", "C04", "C01", "C07"],
}

import threading
GITLOCK = threading.Lock()
def sh(cmd, cwd, timeout=900):
    if "git -C /repo worktree" in cmd:
        with GITLOCK:
            p = subprocess.run(cmd, cwd=cwd, env=ENV, shell=True, stdout=subprocess.PIPE, stderr=subprocess.STDOUT, text=True, timeout=timeout)
            return p.returncode, p.stdout
    p = subprocess.run(cmd, cwd=cwd, env=ENV, shell=True, stdout=subprocess.PIPE, stderr=subprocess.STDOUT, text=True, timeout=timeout)
    return p.returncode, p.stdout

def confirm(prop, k):
    src = f"{SRC}/{prop}/{k}"
    patch = f"{src}/patch.diff"
    if not os.path.exists(patch):
        return None
    meta = json.load(open(f"{src}/meta.json")) if os.path.exists(f"{src}/meta.json") else {}
    wt = tempfile.mkdtemp(prefix="seedconf-", dir="/tmp")
    os.rmdir(wt)
    res = {"property": prop, "seed": sid(prop, k), "round": ROUND, "base_commit": BASE, "agent_summary": meta.get("summary", ""), "needs_to_manifest": meta.get("needs_to_manifest", ""),
           "files_touched": meta.get("files_touched", []), "confirmed": {}, "ran": []}
    try:
        rc, out = sh(f"git -C /repo worktree add -q --detach {wt} {BASE}", "/")
        if rc: res["confirmed"]["error"] = out; return res
        rc, out = sh(f"git apply {patch}", wt); res["confirmed"]["applies_to_snapshot"] = rc == 0; res["ran"].append(f"git apply patch.diff (worktree of {BASE})")
        if rc: return res
        rc, out = sh("go build ./... && go vet ./...", wt); res["confirmed"]["build_vet"] = rc == 0; res["ran"].append("go build ./... && go vet ./...")
        rc, out = sh("go test -count=1 ./...", wt); res["confirmed"]["suite_green_with_patch"] = rc == 0; res["ran"].append("go test -count=1 ./...")
        # demo files
        demos = sorted(glob.glob(f"{src}/demo/*_test.go"))
        pkgs, pats = set(), []
        for d in demos:
            txt = open(d).read()
            m = re.search(r"^package\s+(\w+)", txt, re.M)
            dest = "cli" if m and m.group(1).startswith("cli") else "."
            shutil.copy(d, os.path.join(wt, dest, os.path.basename(d)))
            pkgs.add("./cli" if dest == "cli" else ".")
            pats += re.findall(r"^func (Test\w+)\(", txt, re.M)
        race = "-race " if prop == "C06" or ROUND2 else ""
        demo_cmd = f"go test {race}-count=1 -run '^({'|'.join(pats)})$' {' '.join(sorted(pkgs))}"
        res["demo_cmd"] = demo_cmd
        rc, out = sh(demo_cmd, wt, 1200); res["confirmed"]["demo_fails_with_patch"] = rc != 0; res["ran"].append(demo_cmd + "  (patched: expected to fail)")
        sh("git checkout -- .", wt)
        rc, out2 = sh(demo_cmd, wt, 1200); res["confirmed"]["demo_passes_without_patch"] = rc == 0; res["ran"].append(demo_cmd + "  (unpatched: expected to pass)")
        if rc: res["confirmed"]["unpatched_output"] = out2[-600:]
    finally:
        sh(f"git -C /repo worktree remove --force {wt}", "/")
    return res

def detect(prop, k):
    """runs the checks against the patched tree: /repo HEAD if the patch applies there, else a worktree of the snapshot"""
    patch = f"/verif/seeded/{sid(prop, k)}/patch.diff"
    if not os.path.exists(patch):
        patch = f"{SRC}/{prop}/{k}/patch.diff"
    wt = tempfile.mkdtemp(prefix="seeddet-", dir="/tmp"); os.rmdir(wt)
    base = "HEAD"
    rc, _ = sh(f"git -C /repo worktree add -q --detach {wt} HEAD", "/")
    rc, _ = sh(f"git apply {patch}", wt)
    if rc:
        sh(f"git -C /repo worktree remove --force {wt}", "/")
        sh(f"git -C /repo worktree add -q --detach {wt} {BASE}", "/")
        base = BASE
        rc, _ = sh(f"git apply {patch}", wt)
    found = {}
    try:
        # baseline findings of the unpatched base, to subtract (the pinned snapshot has pre-fix findings)
        for p in RELATED.get(prop, [prop]):
            rc, out = sh(f"VERIF_REPO={wt} /verif/check {p} --no-evidence", "/verif")
            hits = [l for l in out.splitlines() if l.startswith("FINDING") or l.startswith("UNDECIDED")]
            found[p] = hits
        sh("git checkout -- .", wt)
        for p in list(found):
            rc, out = sh(f"VERIF_REPO={wt} /verif/check {p} --no-evidence", "/verif")
            # what the unpatched base already reports is subtracted by rule+construct (messages quote line numbers and templates)
            def key(l):
                m = re.search(r"rule=(\S+) construct=(.*?) at ", l)
                if not m: return l
                if ROUND >= 2:
                    # later rounds: the base has no template findings, so the message (digits removed) can tell a new finding
                    # on a construct the base already reports from the old one
                    return (m.group(1), m.group(2), re.sub(r"\d+", "", l.split(" at ", 1)[1].split(":", 2)[-1])[:160])
                return (m.group(1), m.group(2))
            basehits = set(key(l) for l in out.splitlines() if l.startswith("FINDING") or l.startswith("UNDECIDED"))
            found[p] = [l for l in found[p] if key(l) not in basehits]
    finally:
        sh(f"git -C /repo worktree remove --force {wt}", "/")
    return base, found

def main():
    seeds = []
    for d in sorted(glob.glob(SRC + "/C*/[0-9]")):
        parts = d.split("/")
        seeds.append((parts[3], parts[4]))
    for d in sorted(glob.glob("/verif/seeded/C*")):
        m = re.match(r"^(C\d\d)-(?:r(\d)-)?(\d+)$", os.path.basename(d))
        if not m or int(m.group(2) or 1) != ROUND: continue
        prop, k = m.group(1), m.group(3)
        if (prop, k) not in seeds:
            seeds.append((prop, k))
    only = [a for a in sys.argv[1:] if not a.startswith("--")]
    if only:
        seeds = [s for s in seeds if sid(*s) in only or s[0] in only]
    def conf(s):
        # already confirmed and filed: only refresh the detection record
        mp = f"/verif/seeded/{sid(*s)}/meta.json"
        if os.path.exists(mp) and "--reconfirm" not in sys.argv:
            return json.load(open(mp))
        return confirm(*s)
    with concurrent.futures.ThreadPoolExecutor(max_workers=6) as ex:
        results = list(ex.map(conf, seeds))
    todo = []
    for (prop, k), res in zip(seeds, results):
        if not res: continue
        ok = all(res["confirmed"].get(x) for x in ["applies_to_snapshot", "build_vet", "suite_green_with_patch", "demo_fails_with_patch", "demo_passes_without_patch"])
        res["kept"] = ok
        print(prop, k, "CONFIRMED" if ok else "REJECTED", res["confirmed"], flush=True)
        if ok: todo.append((prop, k, res))
    # the detection runs are independent (each in a worktree of its own): run them side by side
    workers = int(os.environ.get("SEED_DETECT_WORKERS", "8"))
    with concurrent.futures.ThreadPoolExecutor(max_workers=workers) as ex:
        dets = list(ex.map(lambda t: detect(t[0], t[1]), todo))
    for (prop, k, res), (base, found) in zip(todo, dets):
        rules = sorted(set(re.search(r"rule=(\S+)", l).group(1) for hits in found.values() for l in hits if l.startswith("FINDING")))
        res["checked_against"] = base
        res["detected"] = bool(rules)
        res["detected_by_rules"] = rules
        res["findings"] = {p: [h[:400] for h in hits] for p, hits in found.items() if hits}
        out = f"/verif/seeded/{sid(prop, k)}"
        os.makedirs(out + "/demo", exist_ok=True)
        if os.path.exists(f"{SRC}/{prop}/{k}/patch.diff"):
            shutil.copy(f"{SRC}/{prop}/{k}/patch.diff", out + "/patch.diff")
            for d in glob.glob(f"{SRC}/{prop}/{k}/demo/*"):
                if os.path.isfile(d): shutil.copy(d, out + "/demo/")
        json.dump(res, open(out + "/meta.json", "w"), indent=1)
        print(prop, k, "   detected by:", rules or "NOTHING", flush=True)

main()
