#!/bin/bash
# Rebuilds the checker, regenerates MANIFEST.json, runs every quick check on /repo's current tree and validates the evidence.
# Exits non-zero if any check is not clean: nothing is committed in /verif before this passes.
set -u
cd /verif
. ./env.sh
./setup.sh >/dev/null 2>&1 || { echo "setup failed"; exit 1; }
./bin/checker -manifest > MANIFEST.json
bad=0
for i in 01 02 03 04 05 06 07 08 09 10 11 12 13 14 15 16 17 18 19 20; do
  out=$(./check C$i 2>&1); rc=$?
  s=$(echo "$out" | grep SUMMARY)
  if [ $rc -ne 0 ] || ! echo "$s" | grep -q 'violations=0 undecided=0'; then echo "NOT CLEAN: $s"; echo "$out" | grep -E '^(FINDING|UNDECIDED|VIOLATION)' | cut -c1-240 | head -5; bad=1; fi
done
./validate.sh >/dev/null 2>&1 || { echo "validate failed"; bad=1; }
[ $bad -eq 0 ] && echo "precommit: all 20 checks clean, evidence valid"
exit $bad
