#!/usr/bin/env python3
"""Regenerates the machine-derived parts of DESIGN.md (between the BEGIN/END markers): the rule inventory per property
(from `bin/checker -list`), the witness inventory and the seeded-change table (from seeded/*/meta.json)."""
import glob, json, os, re, subprocess
out = subprocess.run(["/verif/bin/checker", "-list"], stdout=subprocess.PIPE, text=True).stdout
inv = ["| property | rule | floor | what it decides |", "|---|---|---|---|"]
prop = ""
for line in out.splitlines():
    if re.match(r"^C\d\d", line):
        prop = line.split()[0]
    else:
        m = re.match(r"\s+(\S+)\s+floor=(\d+)\s+(.*)", line)
        if m:
            inv.append(f"| {prop} | {m.group(1)} | {m.group(2)} | {m.group(3)} |")
wit = {}
for f in sorted(glob.glob("/verif/witness/*.patch")):
    rule = note = ""
    for l in open(f):
        if not l.startswith("#"): break
        if l.startswith("# rule:"): rule = l.split(":",1)[1].strip()
        if l.startswith("# note:"): note = l.split(":",1)[1].strip()
    wit.setdefault(rule, []).append((os.path.basename(f)[:-6], note))
wt = ["| rule | witnesses (one seeded defect each; the rule must report it on a scratch copy of the current tree) |", "|---|---|"]
for rule in sorted(wit):
    wt.append(f"| {rule} | " + "; ".join(f"`{n}` {note}" for n, note in wit[rule]) + " |")
seeds = ["| seed | what was changed (sub-agent's words, shortened) | needs | detected by |", "|---|---|---|---|"]
nd = nn = 0
for f in sorted(glob.glob("/verif/seeded/*/meta.json")):
    m = json.load(open(f))
    det = ", ".join(m.get("detected_by_rules", [])) or "**not detected**"
    if m.get("detected_by_rules"): nd += 1
    else: nn += 1
    summ = re.sub(r"\s+", " ", m.get("agent_summary", ""))[:260].replace("|", "\\|")
    need = re.sub(r"\s+", " ", m.get("needs_to_manifest", ""))[:160].replace("|", "\\|")
    seeds.append(f"| {m['seed']} | {summ} | {need} | {det} |")
seeds.append("")
seeds.append(f"Totals: {nd+nn} confirmed seeded changes, {nd} detected by at least one rule, {nn} not detected.")
parts = {"RULES": "\n".join(inv), "WITNESSES": "\n".join(wt), "SEEDS": "\n".join(seeds)}
p = "/verif/DESIGN.md"
s = open(p).read()
for k, v in parts.items():
    s = re.sub(rf"(<!-- BEGIN {k} -->\n).*?(<!-- END {k} -->)", lambda m: m.group(1) + v + "\n" + m.group(2), s, flags=re.S)
open(p, "w").write(s)
print("rules", len(inv)-2, "witness rules", len(wit), "seeds", nd+nn, "detected", nd)
