# Toolchain environment shared by setup.sh and check. /repo needs go 1.24.0; the default go (1.23.5)
# can only auto-switch when GOSUMDB is not off, so the cached 1.24.0 toolchain is put on PATH directly.
TC=/root/go/pkg/mod/golang.org/toolchain@v0.0.1-go1.24.0.linux-amd64
if [ -x "$TC/bin/go" ]; then
  export PATH="$TC/bin:$PATH" GOROOT="$TC" GOTOOLCHAIN=local
elif command -v go1.26.8 >/dev/null 2>&1; then
  export PATH="/opt/veriftools/go1.26.8/bin:$PATH" GOTOOLCHAIN=local
fi
export GOFLAGS=-mod=mod GOPROXY=off CGO_ENABLED=0
unset GOWORK GOOS GOARCH
