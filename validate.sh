#!/bin/bash
# validates MANIFEST.json and every evidence file against the schemas
python3-vt - <<'PY'
import json,glob,jsonschema
m=json.load(open('/verif/MANIFEST.json')); s=json.load(open('/root/.vp/MANIFEST.schema.json')); jsonschema.validate(m,s)
print('manifest valid; claimed', [c['property_id'] for c in m['checks']], 'n/a', [x['property_id'] for x in m.get('not_applicable',[])])
es=json.load(open('/root/.vp/EVIDENCE.schema.json'))
for f in sorted(glob.glob('/verif/evidence/C*.json')):
    jsonschema.validate(json.load(open(f)),es); print('evidence valid', f)
PY
