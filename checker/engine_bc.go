package main

import (
	"fmt"
	"go/ast"
	"go/token"
	"go/types"
	"sort"
	"strings"
)

// Engine BC: a verifier for hand-assembled bytecode (the literal instruction lists of compileAssign,
// compileModify and compileLast, and the lowering templates of the compile* functions).
// It checks what a JVM-style verifier checks, extended with backtracking: targets in range, one data-stack
// depth per instruction over all paths (a fork's alternative resumes at the depth of the fork), no negative
// depth, depth 1 at opret, variable indices within the scope's declared count, balanced path/exp brackets.

type bcIns struct {
	Op       string
	Target   int    // index in the sequence, -1 if none
	Var      int    // variable index, -1 if none
	VarName  string
	ArgCnt   int    // natives: arguments popped besides the input
	NoReturn bool   // native whose every return is an error (never falls through)
	Scope    [2]int // opscope: variable count, arity
	Hole     string // template hole: a sub-compilation
	HolePop, HolePush int
	HoleGen  bool
	Pos      token.Pos
	VType    string // Go type of the operand expression
	PushNil  bool   // oppush of the literal nil
	Native   bool   // opcall of a native triple [3]any{callback, argcnt, name}
	Name     string // … its name operand when the lowering code determines it ("" otherwise)
}

// bcEffects: data-stack effect of each opcode in forward execution (pop count, push count), for the ops whose
// effect is not operand dependent. Cross-checked against the VM clauses by bcCrossCheck.
var bcEffects = map[string][2]int{
	"opnop": {0, 0}, "oppush": {0, 1}, "oppop": {1, 0}, "opdup": {1, 2}, "opconst": {1, 1}, "opload": {0, 1}, "opstore": {1, 0},
	"opappend": {1, 0}, "opfork": {0, 0}, "opforktrybegin": {0, 0}, "opforktryend": {0, 0}, "opforkalt": {0, 0}, "opforklabel": {0, 0},
	"opjump": {0, 0}, "opjumpifnot": {1, 0}, "opindex": {1, 1}, "opindexarray": {1, 1}, "oppushpc": {0, 1}, "opcallpc": {2, 1},
	"opscope": {0, 0}, "opiter": {1, 1}, "opexpbegin": {0, 0}, "opexpend": {0, 0}, "oppathbegin": {0, 0}, "oppathend": {2, 1},
}

// bcCrossCheck compares bcEffects with the push/pop counts found on the forward paths of the VM clauses.
// Returns a list of disagreements (the checker's table would then be wrong: undecided, not a violation).
func bcCrossCheck(vm *VM) []string {
	var out []string
	for op, eff := range bcEffects {
		cl := vm.ByOp[op]
		if cl == nil {
			out = append(out, op+": no VM clause")
			continue
		}
		want := eff[1] - eff[0]
		// forward paths: fall-through states and goto-loop exits that did not read a set backtrack flag on the guard
		nets := map[int]bool{}
		for _, s := range cl.Fall {
			if !s.errSet {
				nets[s.net] = true
			}
		}
		for _, e := range cl.Paths {
			if (e.kind == "goto "+vm.Label || e.kind == "continue") && !e.st.errSet {
				// the re-entry arm of a guarded clause also ends in goto loop: skip paths inside the guard
				if cl.Guard != nil && e.pos >= cl.Guard.Pos() && e.pos <= cl.Guard.End() {
					continue
				}
				nets[e.st.net] = true
			}
		}
		switch op {
		case "opcallpc":
			// the callee (a closure of arity 0) replaces the input: the VM clause only pops the closure
			want = -1
		case "opiter", "opscope", "opjump":
			continue // several forward shapes (iterator arms) / no stack traffic worth comparing
		}
		if len(nets) == 0 {
			out = append(out, op+": no forward path found")
			continue
		}
		for n := range nets {
			if n != want {
				var all []int
				for k := range nets {
					all = append(all, k)
				}
				sort.Ints(all)
				out = append(out, fmt.Sprintf("%s: table says %+d, VM forward paths have %v", op, want, all))
				break
			}
		}
	}
	sort.Strings(out)
	return out
}

type bcProblem struct {
	PC  int
	Msg string
}

type bcState struct{ pc, d, p, e int }

// bcVerify runs the verifier on seq starting at instruction 0 with entry depth entryDepth.
// holeEffect gives, for template holes, (pops, pushes).
func bcVerify(seq []bcIns, entryDepth int, requireRet bool) (problems []bcProblem, reached []bool, depths []int) {
	p, r, d, _ := bcVerifyFrom(seq, 0, entryDepth, requireRet)
	return p, r, d
}

// bcVerifyFrom starts at instruction `start`; endStates collects the (depth, path, exp) states that fall out of the end.
// bcLastExp / bcLastPath: exp and path nesting per instruction of the most recent bcVerifyFrom (single-threaded use).
var bcLastExp, bcLastPath []int

func bcVerifyFrom(seq []bcIns, start, entryDepth int, requireRet bool) (problems []bcProblem, reached []bool, depths []int, endStates []bcState) {
	n := len(seq)
	depth := make([]int, n)
	pathd := make([]int, n)
	expd := make([]int, n)
	bcLastExp, bcLastPath = expd, pathd
	reached = make([]bool, n)
	report := func(pc int, format string, a ...any) {
		problems = append(problems, bcProblem{pc, fmt.Sprintf(format, a...)})
	}
	varcnt := -1
	if n > 0 && seq[0].Op == "opscope" {
		varcnt = seq[0].Scope[0]
	}
	work := []bcState{{start, entryDepth, 0, 0}}
	steps := 0
	for len(work) > 0 {
		steps++
		if steps > 100000 {
			report(0, "verifier did not terminate")
			break
		}
		s := work[len(work)-1]
		work = work[:len(work)-1]
		if s.pc == n && !requireRet {
			endStates = append(endStates, s) // a template may fall out of its end; the final state is checked by the caller
			continue
		}
		if s.pc < 0 || s.pc >= n {
			report(s.pc, "control leaves the sequence at index %d", s.pc)
			continue
		}
		if reached[s.pc] {
			if depth[s.pc] != s.d || pathd[s.pc] != s.p || expd[s.pc] != s.e {
				report(s.pc, "%s is reached with differing states: stack depth %d vs %d, path nesting %d vs %d, exp nesting %d vs %d", seq[s.pc].Op, depth[s.pc], s.d, pathd[s.pc], s.p, expd[s.pc], s.e)
			}
			continue
		}
		reached[s.pc] = true
		depth[s.pc], pathd[s.pc], expd[s.pc] = s.d, s.p, s.e
		in := seq[s.pc]
		if in.Var >= 0 && varcnt >= 0 && in.Var >= varcnt {
			report(s.pc, "%s uses variable #%d (%s) but the scope declares %d", in.Op, in.Var, in.VarName, varcnt)
		}
		if in.Target >= n+1 || (in.Target >= n && requireRet) {
			report(s.pc, "%s targets index %d, outside the sequence of %d", in.Op, in.Target, n)
		}
		d, p, e := s.d, s.p, s.e
		next := true
		need := 0
		switch in.Op {
		case "hole":
			need = in.HolePop
			d += in.HolePush - in.HolePop
		case "opcall":
			need = 1 + in.ArgCnt
			d -= in.ArgCnt
			if in.NoReturn {
				next = false
			}
		case "opobject":
			need = 2 * in.ArgCnt
			d += 1 - 2*in.ArgCnt
		case "opbacktrack":
			next = false
		case "opret":
			if d != 1 || p != 0 || e != 0 {
				report(s.pc, "opret with stack depth %d (must be 1), path nesting %d, exp nesting %d", d, p, e)
			}
			next = false
		case "opcallrec":
			need = 1
		default:
			eff, ok := bcEffects[in.Op]
			if !ok {
				report(s.pc, "unknown opcode %s", in.Op)
				continue
			}
			need = eff[0]
			d += eff[1] - eff[0]
		}
		if s.d < need {
			report(s.pc, "%s needs %d value(s) on the stack, depth is %d", in.Op, need, s.d)
		}
		switch in.Op {
		case "opexpbegin":
			e++
		case "opexpend":
			e--
			if e < 0 {
				report(s.pc, "opexpend without a matching opexpbegin")
			}
		case "oppathbegin":
			p++
		case "oppathend":
			p--
			if p < 0 {
				report(s.pc, "oppathend without a matching oppathbegin")
			}
		case "opfork", "opforktrybegin", "opforkalt":
			if in.Target >= 0 {
				work = append(work, bcState{in.Target, s.d, s.p, s.e})
			}
		case "opjump":
			if in.Target >= 0 {
				work = append(work, bcState{in.Target, d, p, e})
			}
			next = false
		case "opjumpifnot":
			if in.Target >= 0 {
				work = append(work, bcState{in.Target, d, p, e})
			}
		}
		if next {
			work = append(work, bcState{s.pc + 1, d, p, e})
		}
	}
	return problems, reached, depth, endStates
}

// ---- extraction of literal lists ----

// neverReturnsValue: a native callback expression whose every return yields a value implementing error.
func nativeNeverReturns(c *Ctx, info *types.Info, e ast.Expr) bool {
	call, ok := unparen(e).(*ast.CallExpr)
	if !ok {
		return false
	}
	f, ok := callee(info, call).(*types.Func)
	if !ok {
		return false
	}
	var fd *ast.FuncDecl
	for _, g := range c.Decls(c.Gojq) {
		if info.Defs[g.Name] == f {
			fd = g
		}
	}
	if fd == nil {
		return false
	}
	errT := types.Universe.Lookup("error").Type().Underlying().(*types.Interface)
	all, any := true, false
	ast.Inspect(fd.Body, func(n ast.Node) bool {
		fl, ok := n.(*ast.FuncLit)
		if !ok {
			return true
		}
		ast.Inspect(fl.Body, func(m ast.Node) bool {
			if rs, ok := m.(*ast.ReturnStmt); ok && len(rs.Results) == 1 {
				any = true
				t := info.TypeOf(rs.Results[0])
				if t == nil || isEmptyIface(t) || !types.Implements(t, errT) {
					all = false
				}
			}
			return true
		})
		return false
	})
	return any && all
}

func bcListOf(c *Ctx, fd *ast.FuncDecl) ([]bcIns, error) {
	info := c.Gojq.TypesInfo
	// local variable operands: name := [2]int{scope.id, k}
	vars := map[types.Object]int{}
	ast.Inspect(fd.Body, func(n ast.Node) bool {
		as, ok := n.(*ast.AssignStmt)
		if !ok || len(as.Lhs) != len(as.Rhs) {
			return true
		}
		for i, rhs := range as.Rhs {
			cl, ok := unparen(rhs).(*ast.CompositeLit)
			if !ok || len(cl.Elts) != 2 {
				continue
			}
			if t := info.TypeOf(cl); t == nil || t.String() != "[2]int" {
				continue
			}
			if k, ok := constInt(info, cl.Elts[1]); ok {
				if id, ok := as.Lhs[i].(*ast.Ident); ok {
					vars[info.ObjectOf(id)] = int(k)
				}
			}
		}
		return true
	})
	var list *ast.CallExpr
	for _, e := range getEmits(c) {
		if e.Fn == fd && e.InList != nil {
			list = e.InList
		}
	}
	if list == nil {
		return nil, fmt.Errorf("no c.appends(…) list in %s", declKey(fd))
	}
	var seq []bcIns
	for _, a := range list.Args {
		var em *Emit
		for _, e := range getEmits(c) {
			if e.InList == list && a.Pos() <= e.Lit.Pos() && e.Lit.End() <= a.End() {
				em = e
			}
		}
		if em == nil || em.Op == "" {
			return nil, fmt.Errorf("argument %s of the list is not a code literal with a constant op", c.Src(a))
		}
		in := bcIns{Op: em.Op, Target: -1, Var: -1, Pos: em.Lit.Pos()}
		if em.V != nil {
			if t := info.TypeOf(em.V); t != nil {
				in.VType = types.TypeString(t, func(*types.Package) string { return "" })
			}
			switch v := unparen(em.V).(type) {
			case *ast.Ident:
				if k, ok := vars[info.ObjectOf(v)]; ok {
					in.Var, in.VarName = k, v.Name
				}
			case *ast.BinaryExpr:
				// len(c.codes) + N
				if v.Op == token.ADD && strings.HasPrefix(c.Src(v.X), "len(") {
					if k, ok := constInt(info, v.Y); ok {
						in.Target = int(k)
					}
				}
			case *ast.CompositeLit:
				switch in.VType {
				case "[3]int":
					if len(v.Elts) == 3 {
						a1, ok1 := constInt(info, v.Elts[1])
						a2, ok2 := constInt(info, v.Elts[2])
						if !ok1 || !ok2 {
							return nil, fmt.Errorf("non-constant opscope operand in %s", declKey(fd))
						}
						in.Scope = [2]int{int(a1), int(a2)}
					}
				case "[3]any":
					if len(v.Elts) == 3 {
						k, ok := constInt(info, v.Elts[1])
						if !ok {
							return nil, fmt.Errorf("non-constant argument count in a native triple of %s", declKey(fd))
						}
						in.ArgCnt = int(k)
						in.NoReturn = nativeNeverReturns(c, info, v.Elts[0])
					}
				}
			}
			if (in.Op == "opfork" || in.Op == "opjump" || in.Op == "opjumpifnot" || in.Op == "opforkalt" || in.Op == "opforktrybegin") && in.Target < 0 {
				return nil, fmt.Errorf("%s in %s has an operand %s that is not `len(c.codes)+N`", in.Op, declKey(fd), c.Src(em.V))
			}
			if (in.Op == "opload" || in.Op == "opstore" || in.Op == "opappend" || in.Op == "opforklabel") && in.Var < 0 {
				return nil, fmt.Errorf("%s in %s has an operand %s that is not a local [2]int{scope.id, k}", in.Op, declKey(fd), c.Src(em.V))
			}
		}
		seq = append(seq, in)
	}
	return seq, nil
}
