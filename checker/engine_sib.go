package main

import (
	"fmt"
	"go/ast"
	"go/token"
	"go/types"
	"strings"

	"golang.org/x/tools/go/packages"
)

// Engine SIB: normalises two hand-copied sibling functions and compares the results line by line.
// The comparison is always between two extractions from today's source, never against a stored copy.

type sibOpts struct {
	pkg *packages.Package
	// isEmit recognises a call that appends bytes to the output and returns the expression carrying the bytes.
	isEmit func(info *types.Info, call *ast.CallExpr) (ast.Expr, bool)
	// decoration: conditions / calls / assignments that only concern colour, indentation or flushing
	isDecorCond   func(info *types.Info, cond ast.Expr) bool
	isDecorCall   func(info *types.Info, call *ast.CallExpr) bool
	isDecorAssign func(info *types.Info, lhs ast.Expr) bool
	dropArg       func(info *types.Info, arg ast.Expr) bool
	rename        map[string]string // identifier / type renames applied to rendered source
	Dropped       []ast.Node        // decoration statements that were removed
}

type sibNorm struct {
	c    *Ctx
	o    *sibOpts
	info *types.Info
	out  []string
}

func (n *sibNorm) emit(depth int, format string, args ...any) {
	n.out = append(n.out, strings.Repeat("  ", depth)+fmt.Sprintf(format, args...))
}

func (n *sibNorm) src(e ast.Node) string {
	s := n.c.Src(e)
	for a, b := range n.o.rename {
		s = replaceIdent(s, a, b)
	}
	return s
}

func replaceIdent(s, a, b string) string {
	var sb strings.Builder
	i := 0
	isID := func(ch byte) bool {
		return ch == '_' || ch >= '0' && ch <= '9' || ch >= 'a' && ch <= 'z' || ch >= 'A' && ch <= 'Z'
	}
	for i < len(s) {
		if strings.HasPrefix(s[i:], a) && (i == 0 || !isID(s[i-1])) && (i+len(a) >= len(s) || !isID(s[i+len(a)])) {
			sb.WriteString(b)
			i += len(a)
			continue
		}
		sb.WriteByte(s[i])
		i++
	}
	return sb.String()
}

// bytesNorm renders the bytes an emit carries: []byte("x") → "x", 'c' → "c", []byte(e) → e.
func (n *sibNorm) bytesNorm(e ast.Expr) string {
	e = unparen(e)
	if call, ok := e.(*ast.CallExpr); ok && len(call.Args) == 1 {
		if at, ok := call.Fun.(*ast.ArrayType); ok && at.Len == nil {
			if id, ok := at.Elt.(*ast.Ident); ok && id.Name == "byte" {
				return n.bytesNorm(call.Args[0])
			}
		}
	}
	if tv, ok := n.info.Types[e]; ok && tv.Value != nil {
		if s, ok := constString(n.info, e); ok {
			return fmt.Sprintf("%q", s)
		}
		if v, ok := constInt(n.info, e); ok && v >= 0 && v < 256 {
			return fmt.Sprintf("%q", string(rune(v)))
		}
	}
	return n.src(e)
}

func (n *sibNorm) callNorm(call *ast.CallExpr) string {
	var args []string
	for _, a := range call.Args {
		if n.o.dropArg != nil && n.o.dropArg(n.info, a) {
			continue
		}
		args = append(args, n.src(a))
	}
	return n.src(call.Fun) + "(" + strings.Join(args, ", ") + ")"
}

func (n *sibNorm) stmts(list []ast.Stmt, depth int) {
	for _, s := range list {
		n.stmt(s, depth)
	}
}

func (n *sibNorm) isErrPlumbing(s *ast.IfStmt) *ast.CallExpr {
	// if err := CALL; err != nil { return err }
	as, ok := s.Init.(*ast.AssignStmt)
	if !ok || len(as.Rhs) != 1 || s.Else != nil || len(s.Body.List) != 1 {
		return nil
	}
	call, ok := as.Rhs[0].(*ast.CallExpr)
	if !ok {
		return nil
	}
	be, ok := s.Cond.(*ast.BinaryExpr)
	if !ok || be.Op != token.NEQ || !isNilIdent(be.Y) {
		return nil
	}
	if rs, ok := s.Body.List[0].(*ast.ReturnStmt); !ok || len(rs.Results) != 1 {
		return nil
	}
	return call
}

func (n *sibNorm) stmt(s ast.Stmt, depth int) {
	o := n.o
	switch x := s.(type) {
	case *ast.ExprStmt:
		if call, ok := x.X.(*ast.CallExpr); ok {
			if o.isDecorCall != nil && o.isDecorCall(n.info, call) {
				o.Dropped = append(o.Dropped, s)
				return
			}
			if o.isEmit != nil {
				if b, ok := o.isEmit(n.info, call); ok {
					n.emit(depth, "EMIT %s", n.bytesNorm(b))
					return
				}
			}
			n.emit(depth, "%s", n.callNorm(call))
			return
		}
		n.emit(depth, "%s", n.src(x))
	case *ast.IfStmt:
		if o.isDecorCond != nil && o.isDecorCond(n.info, x.Cond) {
			o.Dropped = append(o.Dropped, s)
			return
		}
		if call := n.isErrPlumbing(x); call != nil {
			if o.isEmit != nil {
				if b, ok := o.isEmit(n.info, call); ok {
					n.emit(depth, "EMIT %s", n.bytesNorm(b))
					return
				}
			}
			n.emit(depth, "%s", n.callNorm(call))
			return
		}
		hdr := ""
		if x.Init != nil {
			hdr = n.src(x.Init) + "; "
		}
		n.emit(depth, "if %s%s {", hdr, n.src(x.Cond))
		n.stmts(x.Body.List, depth+1)
		switch e := x.Else.(type) {
		case *ast.BlockStmt:
			n.emit(depth, "} else {")
			n.stmts(e.List, depth+1)
		case *ast.IfStmt:
			n.emit(depth, "} else")
			n.stmt(e, depth)
			return
		}
		n.emit(depth, "}")
	case *ast.AssignStmt:
		if o.isDecorAssign != nil {
			all := true
			for _, l := range x.Lhs {
				if !o.isDecorAssign(n.info, l) {
					all = false
				}
			}
			if all {
				o.Dropped = append(o.Dropped, s)
				return
			}
		}
		n.emit(depth, "%s", n.src(x))
	case *ast.ReturnStmt:
		if len(x.Results) == 0 || (len(x.Results) == 1 && isNilIdent(x.Results[0])) {
			n.emit(depth, "return")
			return
		}
		n.emit(depth, "%s", n.src(x))
	case *ast.BlockStmt:
		n.stmts(x.List, depth)
	case *ast.ForStmt:
		parts := []string{"", "", ""}
		if x.Init != nil {
			parts[0] = n.src(x.Init)
		}
		if x.Cond != nil {
			parts[1] = n.src(x.Cond)
		}
		if x.Post != nil {
			parts[2] = n.src(x.Post)
		}
		n.emit(depth, "for %s; %s; %s {", parts[0], parts[1], parts[2])
		n.stmts(x.Body.List, depth+1)
		n.emit(depth, "}")
	case *ast.RangeStmt:
		k, v := "_", "_"
		if x.Key != nil {
			k = n.src(x.Key)
		}
		if x.Value != nil {
			v = n.src(x.Value)
		}
		n.emit(depth, "for %s, %s := range %s {", k, v, n.src(x.X))
		n.stmts(x.Body.List, depth+1)
		n.emit(depth, "}")
	case *ast.SwitchStmt:
		tag := ""
		if x.Tag != nil {
			tag = n.src(x.Tag)
		}
		n.emit(depth, "switch %s {", tag)
		for _, cs := range x.Body.List {
			cc := cs.(*ast.CaseClause)
			var es []string
			for _, e := range cc.List {
				es = append(es, n.src(e))
			}
			if cc.List == nil {
				n.emit(depth, "default:")
			} else {
				n.emit(depth, "case %s:", strings.Join(es, ", "))
			}
			n.stmts(cc.Body, depth+1)
		}
		n.emit(depth, "}")
	case *ast.TypeSwitchStmt:
		n.emit(depth, "switch %s {", n.src(x.Assign))
		for _, cs := range x.Body.List {
			cc := cs.(*ast.CaseClause)
			var es []string
			for _, e := range cc.List {
				es = append(es, n.src(e))
			}
			if cc.List == nil {
				n.emit(depth, "default:")
			} else {
				n.emit(depth, "case %s:", strings.Join(es, ", "))
			}
			n.stmts(cc.Body, depth+1)
		}
		n.emit(depth, "}")
	default:
		n.emit(depth, "%s", n.src(s))
	}
}

// sibNormalise returns the normalised body of a function. A trailing bare `return` is dropped.
func sibNormalise(c *Ctx, fd *ast.FuncDecl, o *sibOpts) []string {
	n := &sibNorm{c: c, o: o, info: o.pkg.TypesInfo}
	n.stmts(fd.Body.List, 0)
	for len(n.out) > 0 && n.out[len(n.out)-1] == "return" {
		n.out = n.out[:len(n.out)-1]
	}
	return n.out
}

// sibDiff returns "" if equal, otherwise a description of the first differing line.
func sibDiff(a, b []string) string {
	for i := 0; i < len(a) || i < len(b); i++ {
		var x, y string
		if i < len(a) {
			x = strings.TrimSpace(a[i])
		} else {
			x = "<end>"
		}
		if i < len(b) {
			y = strings.TrimSpace(b[i])
		} else {
			y = "<end>"
		}
		if x != y {
			return fmt.Sprintf("line %d: `%s` vs `%s`", i+1, x, y)
		}
	}
	return ""
}
