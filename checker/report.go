package main

import (
	"bufio"
	"encoding/json"
	"fmt"
	"go/token"
	"os"
	"path/filepath"
	"regexp"
	"sort"
	"strings"
)

// Status of one obligation.
const (
	StOK        = "ok"
	StViolation = "violation"
	StUndecided = "undecided"
	StKnown     = "known-finding"
	StInfo      = "info"
)

// Ob is one obligation: a rule applied to one named construct.
type Ob struct {
	Rule   string `json:"rule"`
	Key    string `json:"construct"`
	Pos    string `json:"pos"`
	Status string `json:"verdict"`
	Detail string `json:"detail,omitempty"`
}

// Rule is one static rule.
type Rule struct {
	ID    string
	Props []string // properties it serves
	Floor int      // minimum number of obligations (below → undecided, never a vacuous pass)
	Doc   string
	Run   func(c *Ctx, r *Rep)
}

var rules []*Rule

func reg(r *Rule) { rules = append(rules, r) }

// Rep collects obligations for one rule.
type Rep struct {
	c    *Ctx
	rule *Rule
	obs  []Ob
	seen map[string]int
}

func (r *Rep) add(status, key string, pos token.Pos, format string, args ...any) {
	if r.seen == nil {
		r.seen = map[string]int{}
	}
	// keys are rule+construct; repeated constructs get an ordinal so they stay distinct and stable
	r.seen[key]++
	if n := r.seen[key]; n > 1 {
		key = fmt.Sprintf("%s#%d", key, n)
	}
	r.obs = append(r.obs, Ob{Rule: r.rule.ID, Key: key, Pos: r.c.Pos(pos), Status: status, Detail: fmt.Sprintf(format, args...)})
}

func (r *Rep) OK(key string, pos token.Pos, format string, args ...any) {
	r.add(StOK, key, pos, format, args...)
}
func (r *Rep) Bad(key string, pos token.Pos, format string, args ...any) {
	r.add(StViolation, key, pos, format, args...)
}
func (r *Rep) Undecided(key string, pos token.Pos, format string, args ...any) {
	r.add(StUndecided, key, pos, format, args...)
}
func (r *Rep) Info(key string, pos token.Pos, format string, args ...any) {
	r.add(StInfo, key, pos, format, args...)
}

// Check is a convenience: ok → OK else Bad.
func (r *Rep) Check(ok bool, key string, pos token.Pos, format string, args ...any) {
	if ok {
		r.add(StOK, key, pos, format, args...)
	} else {
		r.add(StViolation, key, pos, format, args...)
	}
}

// ---- property table ----

type PropInfo struct {
	ID         string
	Title      string
	Decided    string // what the rules decide (structural clauses)
	NotCovered string
	Trusted    []string
}

var props = map[string]*PropInfo{}

func regProp(p *PropInfo) {
	if t, ok := pendingDecided[p.ID]; ok {
		p.Decided += t
		delete(pendingDecided, p.ID)
	}
	props[p.ID] = p
}

func rulesFor(prop string) []*Rule {
	var out []*Rule
	for _, r := range rules {
		for _, p := range r.Props {
			if p == prop {
				out = append(out, r)
				break
			}
		}
	}
	sort.Slice(out, func(i, j int) bool { return out[i].ID < out[j].ID })
	return out
}

// ---- known findings ----

type knownFinding struct {
	Prop, Key, Text string
}

var kfLine = regexp.MustCompile(`^finding:\s+property=(\S+)\s+key=(\S+)\s+::\s*(.*)$`)

func loadKnown(path string) ([]knownFinding, error) {
	f, err := os.Open(path)
	if err != nil {
		if os.IsNotExist(err) {
			return nil, nil
		}
		return nil, err
	}
	defer f.Close()
	var out []knownFinding
	sc := bufio.NewScanner(f)
	sc.Buffer(make([]byte, 1<<20), 1<<20)
	for sc.Scan() {
		line := strings.TrimSpace(sc.Text())
		if m := kfLine.FindStringSubmatch(line); m != nil {
			out = append(out, knownFinding{m[1], m[2], m[3]})
		}
	}
	return out, sc.Err()
}

// ---- running ----

type RunResult struct {
	Obs        []Ob
	RuleCounts map[string]int
	RulesRun   []string
	Funcs      int
	Pkgs       int
}

func runRules(c *Ctx, rs []*Rule) *RunResult {
	res := &RunResult{RuleCounts: map[string]int{}}
	for _, rule := range rs {
		rep := &Rep{c: c, rule: rule}
		func() {
			defer func() {
				if e := recover(); e != nil {
					rep.add(StUndecided, "analyser-panic", token.NoPos, "rule panicked: %v", e)
				}
			}()
			rule.Run(c, rep)
		}()
		n := 0
		for _, o := range rep.obs {
			if o.Status != StInfo {
				n++
			}
		}
		if n < rule.Floor {
			rep.add(StUndecided, "instance-floor", token.NoPos,
				"rule matched %d constructs, fewer than its floor %d: it can no longer see what it claims to see", n, rule.Floor)
		}
		res.RuleCounts[rule.ID] = n
		res.RulesRun = append(res.RulesRun, rule.ID)
		res.Obs = append(res.Obs, rep.obs...)
	}
	res.Pkgs = len(c.All)
	for _, p := range []*struct{ n int }{} {
		_ = p
	}
	return res
}

func fullKey(o Ob) string { return o.Rule + ":" + o.Key }

// applyKnown marks listed violations as known findings.
func applyKnown(prop string, obs []Ob, known []knownFinding) []Ob {
	for i := range obs {
		if obs[i].Status != StViolation {
			continue
		}
		for _, k := range known {
			if k.Prop == prop && k.Key == fullKey(obs[i]) {
				obs[i].Status = StKnown
				obs[i].Detail += " [listed in known_findings.txt: " + k.Text + "]"
			}
		}
	}
	return obs
}

type evidence struct {
	PropertyID  string         `json:"property_id"`
	Tier        string         `json:"tier"`
	Seed        int            `json:"seed"`
	Level       string         `json:"level"`
	Coverage    map[string]any `json:"coverage"`
	Assumptions []string       `json:"assumptions"`
	WallS       float64        `json:"wall_s"`
	Violations  int            `json:"violations"`
}

func writeJSON(path string, v any) error {
	if err := os.MkdirAll(filepath.Dir(path), 0o755); err != nil {
		return err
	}
	b, err := json.MarshalIndent(v, "", " ")
	if err != nil {
		return err
	}
	tmp := path + ".tmp"
	if err := os.WriteFile(tmp, append(b, '\n'), 0o644); err != nil {
		return err
	}
	return os.Rename(tmp, path)
}

func safeName(s string) string {
	return regexp.MustCompile(`[^A-Za-z0-9_.-]+`).ReplaceAllString(s, "_")
}
