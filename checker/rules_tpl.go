package main

import (
	"sort"
	"fmt"
	"go/token"
	"os"
	"strings"
)

func init() {
	reg(&Rule{ID: "R-C01-template", Props: []string{"C01", "C02", "C04"}, Floor: 15,
		Doc: "every lowering function's emission templates (all AST shapes and sub-compilation size classes up to the exploration bound) verify: branch targets in range, one stack depth per instruction on all paths, net effect as declared, exp/path brackets balanced, lazy slots filled, function bodies enter with 1+arity and return with depth 1",
		Run: ruleC01Template})
}

type tplRoot struct {
	fn    string
	entry int // stack depth at entry
	end   int // stack depth when the template falls out of its end
	// inputs: concrete AST records for the parameters whose shape the grammar constrains (nil: all parameters free).
	inputs func() []map[string]tVal
}

// The alternatives of the grammar for the AST nodes whose invariants the lowering relies on. Queries, terms and strings
// inside them are opaque (a hole stands for their code); only what the compiler branches on is spelled out.
var (
	q1 = topaque("query")
	// pattern: tokVariable | '[' arraypatterns ']' | '{' objectpatterns '}'
	patVar   = rec("Pattern", "Name", tstr("$a"))
	patArr1  = rec("Pattern", "Array", tlist(patVar))
	patArr2  = rec("Pattern", "Array", tlist(patVar, rec("Pattern", "Array", tlist(patVar))))
	strPlain = rec("String", "Str", tstr("k"))
	strInter = rec("String", "Queries", tlist(q1))
	// objectpattern: objectkey ':' pattern | string ':' pattern | '(' query ')' ':' pattern | tokVariable
	poAlts = []tVal{
		rec("PatternObject", "Key", tstr("a"), "Val", patVar),
		rec("PatternObject", "Key", tstr("$a"), "Val", patArr1),
		rec("PatternObject", "KeyString", strPlain, "Val", patVar),
		rec("PatternObject", "KeyString", strInter, "Val", patVar),
		rec("PatternObject", "KeyQuery", q1, "Val", patVar),
		rec("PatternObject", "Key", tstr("$a")),
	}
	// objectkeyval: objectkey ':' objectval | string ':' objectval | '(' query ')' ':' objectval | objectkey | string
	okvAlts = []tVal{
		rec("ObjectKeyVal", "Key", tstr("a"), "Val", q1),
		rec("ObjectKeyVal", "Key", tstr("$a"), "Val", q1),
		rec("ObjectKeyVal", "KeyString", strPlain, "Val", q1),
		rec("ObjectKeyVal", "KeyString", strInter, "Val", q1),
		rec("ObjectKeyVal", "KeyQuery", q1, "Val", q1),
		rec("ObjectKeyVal", "Key", tstr("a")),
		rec("ObjectKeyVal", "Key", tstr("$a")),
		rec("ObjectKeyVal", "KeyString", strPlain),
		rec("ObjectKeyVal", "KeyString", strInter),
	}
)

func patternInputs() []map[string]tVal {
	var out []map[string]tVal
	for _, p := range []tVal{patVar, patArr1, patArr2} {
		out = append(out, map[string]tVal{"p": p})
	}
	for _, po := range poAlts {
		out = append(out, map[string]tVal{"p": rec("Pattern", "Object", tlist(po))})
	}
	out = append(out, map[string]tVal{"p": rec("Pattern", "Object", tlist(poAlts[0], poAlts[5], poAlts[4]))})
	return out
}

func bindInputs() []map[string]tVal {
	var out []map[string]tVal
	patB := rec("Pattern", "Name", tstr("$b"))
	patC := rec("Pattern", "Object", tlist(rec("PatternObject", "Key", tstr("$c")), rec("PatternObject", "Key", tstr("d"), "Val", rec("Pattern", "Name", tstr("$d")))))
	pats := [][]tVal{{patVar}, {patArr1}, {rec("Pattern", "Object", tlist(poAlts[0]))}, {patVar, patArr1}, {patArr2, patVar, rec("Pattern", "Object", tlist(poAlts[5]))},
		// alternatives binding different variables: each must be defined (null) whichever alternative matches
		{patArr1, patB}, {patB, patArr2, patC}, {patC, rec("Pattern", "Array", tlist(patVar, patB))}}
	for _, ps := range pats {
		out = append(out, map[string]tVal{"patterns": tlist(ps...)})
	}
	return out
}

func objectInputs() []map[string]tVal {
	var out []map[string]tVal
	out = append(out, map[string]tVal{"e": rec("Object")})
	for _, kv := range okvAlts {
		out = append(out, map[string]tVal{"e": rec("Object", "KeyVals", tlist(kv))})
	}
	out = append(out, map[string]tVal{"e": rec("Object", "KeyVals", tlist(okvAlts[0], okvAlts[6], okvAlts[4]))})
	out = append(out, map[string]tVal{"e": rec("Object", "KeyVals", tlist(okvAlts[0], okvAlts[0]))})
	return out
}

func keyvalInputs() []map[string]tVal {
	var out []map[string]tVal
	for _, kv := range okvAlts {
		out = append(out, map[string]tVal{"kv": kv})
	}
	return out
}

// suffix: '[' ']' | '[' query ']' | '[' query ':' ']' | '[' ':' query ']' | '[' query ':' query ']'  and  .name / ."str"
func indexInputs() []map[string]tVal {
	var out []map[string]tVal
	for _, x := range []tVal{
		rec("Index", "Name", tstr("a")), rec("Index", "Str", strPlain), rec("Index", "Str", strInter), rec("Index", "Start", q1),
		rec("Index", "Start", q1, "IsSlice", tbool(true)), rec("Index", "End", q1, "IsSlice", tbool(true)), rec("Index", "Start", q1, "End", q1, "IsSlice", tbool(true)),
	} {
		out = append(out, map[string]tVal{"x": x})
	}
	return out
}

func funcInputs() []map[string]tVal {
	var out []map[string]tVal
	add := func(name string, n int) {
		args := make([]tVal, n)
		for i := range args {
			args[i] = q1
		}
		f := rec("Func", "Name", tstr(name))
		if n > 0 {
			f.fields["Args"] = tlist(args...)
		}
		out = append(out, map[string]tVal{"e": f})
	}
	for _, x := range []struct {
		n string
		k int
	}{{"empty", 0}, {"path", 1}, {"builtins", 0}, {"input", 0}, {"modulemeta", 0}, {"debug", 1}, {"_match", 3}, {"env", 0}, {"$ENV", 0}, {"$x", 0},
		{"length", 0}, {"has", 1}, {"_add", 2}, {"_index", 2}, {"_slice", 3}, {"getpath", 1}, {"_range", 3}, {"f", 0}, {"f", 1}, {"f", 2}, {"_assign", 2}, {"_modify", 2}, {"_last", 1}} {
		add(x.n, x.k)
	}
	return out
}

func callInputs() []map[string]tVal {
	var out []map[string]tVal
	for _, x := range []struct {
		n string
		k int
	}{{"_index", 2}, {"_slice", 3}, {"getpath", 1}, {"length", 0}, {"has", 1}, {"_add", 2}, {"_plus", 0}, {"_range", 3}} {
		args := make([]tVal, x.k)
		for i := range args {
			args[i] = q1
		}
		m := map[string]tVal{"name": tstr(x.n), "args": tlist(args...)}
		if x.k == 0 {
			m["args"] = tVal{k: tvList, i: 0}
		}
		out = append(out, m)
	}
	return out
}

var tplRoots = []tplRoot{
	{"compileComma", 1, 1, nil}, {"compileAlt", 1, 1, nil}, {"compileQueryUpdate", 1, 1, nil}, {"compileBind", 1, 1, bindInputs}, {"compilePattern", 1, 0, patternInputs},
	{"compileIf", 1, 1, nil}, {"compileTry", 1, 1, nil}, {"compileReduce", 1, 1, nil}, {"compileForeach", 1, 1, nil}, {"compileLabel", 1, 1, nil},
	{"compileBreak", 1, 1, nil}, {"compileTerm", 1, 1, nil}, {"compileIndex", 1, 1, indexInputs}, {"compileFunc", 1, 1, funcInputs}, {"compileObject", 1, 1, objectInputs},
	{"compileObjectKeyVal", 0, 2, keyvalInputs}, {"compileArray", 1, 1, nil}, {"compileUnary", 1, 1, nil}, {"compileTermSuffix", 1, 1, nil},
	{"compileCall", 1, 1, callInputs}, {"compileCallPc", 1, 1, nil}, {"compileFuncDef", 1, 1, nil}, {"compileQuery", 1, 1, nil},
}

// tplRootInline: sub-compilations additionally executed (not left as holes) for the roots that are given concrete patterns,
// so that the stores of the pattern variables are visible to the definite-assignment analysis.
var tplRootInline = map[string][]string{"compileBind": {"compilePattern"}, "compilePattern": {"compilePattern"}}

var tplInline = map[string]bool{"compileCallInternal": true, "compileCall": true, "compileCallPc": true, "compileFuncDef": true, "compile": true, "compileObjectKeyVal": true}

func ruleC01Template(c *Ctx, r *Rep) {
	vm := getVM(c)
	if vm.Err != "" {
		r.Undecided("vm-model", token.NoPos, "%s", vm.Err)
		return
	}
	if dis := bcCrossCheck(vm); len(dis) > 0 {
		r.Undecided("effects-table", token.NoPos, "the verifier's per-opcode stack effects disagree with the VM clauses: %s", strings.Join(dis, "; "))
		return
	}
	debug := os.Getenv("VERIF_TPL_DEBUG")
	totalVariants, totalUnsupported := 0, 0
	for _, root := range tplRoots {
		fd := c.Decl(c.Gojq, "compiler."+root.fn)
		if fd == nil {
			r.Undecided("tpl:"+root.fn, token.NoPos, "not found")
			continue
		}
		inl := map[string]bool{}
		for k, v := range tplInline {
			if k != root.fn {
				inl[k] = v
			}
		}
		for _, k := range tplRootInline[root.fn] {
			inl[k] = true
		}
		var variants []tplVariant
		if root.inputs == nil {
			variants = tplExplore(c, fd, nil, inl, 3000)
		} else {
			for _, in := range root.inputs() {
				in := in
				bind := func(run *tplRun, env *tplEnv) {
					for _, f := range fd.Type.Params.List {
						for _, nm := range f.Names {
							if v, ok := in[nm.Name]; ok {
								env.define(run.info.Defs[nm], v)
							}
						}
					}
				}
				variants = append(variants, tplExplore(c, fd, bind, inl, 1500)...)
			}
		}
		ok, unsup := 0, 0
		var firstBad, firstBadTpl, firstBadChoices string
		unsupReasons := map[string]int{}
		for _, v := range variants {
			if v.Unsupported != "" {
				unsup++
				unsupReasons[v.Unsupported]++
				continue
			}
			msg := tplCheck(v.Items, root, v.Owned)
			if msg == "" {
				msg = tplSiblingRegions(v.HoleLog)
			}
			if debug == root.fn {
				fmt.Fprintf(os.Stderr, "%s | %s | %s\n", tplRender(v.Items), msg, strings.Join(v.Choices, " "))
			}
			if msg == "" {
				ok++
			} else if firstBad == "" {
				firstBad, firstBadTpl, firstBadChoices = msg, tplRender(v.Items), strings.Join(v.Choices, ", ")
			}
		}
		totalVariants += len(variants)
		totalUnsupported += unsup
		key := "tpl:" + root.fn
		switch {
		case firstBad != "":
			r.Bad(key, fd.Pos(), "%s emits an inconsistent template: %s — template [%s] for the shape {%s} (%d of %d variants verify)", root.fn, firstBad, firstBadTpl, firstBadChoices, ok, len(variants)-unsup)
		case ok == 0:
			var rs []string
			for k, n := range unsupReasons {
				rs = append(rs, fmt.Sprintf("%d× %s", n, k))
			}
			r.Info(key, fd.Pos(), "%s: no variant could be modelled (%s)", root.fn, strings.Join(rs, "; "))
		default:
			detail := fmt.Sprintf("%d template variants verify", ok)
			if unsup > 0 {
				detail += fmt.Sprintf("; %d variants outside the modelled subset", unsup)
			}
			r.OK(key, fd.Pos(), "%s: %s (entry depth %d, end depth %d)", root.fn, detail, root.entry, root.end)
		}
	}
	r.Info("tpl:census", token.NoPos, "%d variants explored, %d outside the modelled subset", totalVariants, totalUnsupported)
}

// tplCheck verifies one template; "" if consistent.
func tplCheck(items []tplItem, root tplRoot, owned map[string]bool) string {
	seq, why := tplToBC(items)
	if why != "" {
		return why
	}
	n := len(seq)
	// 1. the inline flow from the first instruction
	probs, reached, _, ends := bcVerifyFrom(seq, 0, root.entry, false)
	if len(probs) > 0 {
		return fmt.Sprintf("[%d] %s", probs[0].PC, probs[0].Msg)
	}
	for i, in := range seq {
		if in.Op == "opret" && reached[i] {
			return fmt.Sprintf("[%d] opret is reached by the inline flow, outside any function body", i)
		}
		if in.Op == "opscope" && reached[i] && i > 0 {
			return fmt.Sprintf("[%d] opscope is entered by the inline flow instead of being jumped over", i)
		}
	}
	for _, e := range ends {
		if e.d != root.end || e.p != 0 || e.e != 0 {
			return fmt.Sprintf("falls out of its end with stack depth %d (declared %d), path nesting %d, exp nesting %d", e.d, root.end, e.p, e.e)
		}
	}
	if msg := tplDefAssign(items, seq, owned); msg != "" {
		return msg
	}
	if msg := tplAltState(items, seq); msg != "" {
		return msg
	}
	// 2. every function body emitted inside the template: entered at its opscope with 1+arity, must return with depth 1
	covered := append([]bool(nil), reached...)
	for i, in := range seq {
		if in.Op != "opscope" || (i == 0 && false) {
			continue
		}
		if reached[i] {
			continue // a scope executed inline (the top level of Compile)
		}
		p2, r2, _, e2 := bcVerifyFrom(seq, i, 1+in.Scope[1], false)
		if len(p2) > 0 {
			return fmt.Sprintf("function body at [%d]: [%d] %s", i, p2[0].PC, p2[0].Msg)
		}
		if len(e2) > 0 {
			return fmt.Sprintf("function body at [%d] runs off the end of the template instead of returning", i)
		}
		for k, b := range r2 {
			if b {
				covered[k] = true
			}
		}
	}
	// unreachable concrete instructions are dead code: unobservable, hence not a violation (compileAlt emits one: the oppop
	// after `opbacktrack // if found, backtrack` is skipped by the jumpifnot that targets the alternative's first instruction)
	_ = covered
	_ = n
	return ""
}


// tplDefAssign is a definite-assignment analysis over the inline flow of one template: a forward must-analysis (set
// intersection at joins) of the variable slots stored so far. Variable slots are not restored on backtracking, so the set
// at a fork target is at least the set at the fork instruction; that lower bound is what is propagated. Checked:
//   - an opload/opappend of a variable created by the lowering function itself is preceded by a store on every path;
//   - at every sub-compilation (hole), every named variable that the sub-query can resolve (the model of scope.variables at
//     the time the hole is emitted) is stored on every path reaching the hole. A slot that is readable but was never written
//     in this activation holds whatever an earlier activation left in the frame.
func tplDefAssign(items []tplItem, seq []bcIns, owned map[string]bool) string {
	n := len(seq)
	if n == 0 {
		return ""
	}
	in := make([]map[string]bool, n+1)
	visited := make([]bool, n+1)
	meet := func(pc int, set map[string]bool) bool {
		if pc < 0 || pc > n {
			return false
		}
		if !visited[pc] {
			visited[pc] = true
			cp := make(map[string]bool, len(set))
			for k := range set {
				cp[k] = true
			}
			in[pc] = cp
			return true
		}
		changed := false
		for k := range in[pc] {
			if !set[k] {
				delete(in[pc], k)
				changed = true
			}
		}
		return changed
	}
	work := []int{0}
	meet(0, map[string]bool{})
	for steps := 0; len(work) > 0 && steps < 200000; steps++ {
		pc := work[len(work)-1]
		work = work[:len(work)-1]
		if pc >= n {
			continue
		}
		ins := seq[pc]
		out := in[pc]
		switch ins.Op {
		case "opstore", "opforklabel":
			out = make(map[string]bool, len(in[pc])+1)
			for k := range in[pc] {
				out[k] = true
			}
			out[ins.VarName] = true
		}
		next := true
		switch ins.Op {
		case "opbacktrack", "opret":
			next = false
		case "opjump":
			next = false
			if meet(ins.Target, out) {
				work = append(work, ins.Target)
			}
		case "opfork", "opforktrybegin", "opforkalt", "opjumpifnot":
			if meet(ins.Target, out) {
				work = append(work, ins.Target)
			}
		case "opcall":
			if ins.NoReturn {
				next = false
			}
		}
		if next && meet(pc+1, out) {
			work = append(work, pc+1)
		}
	}
	for pc := 0; pc < n; pc++ {
		if !visited[pc] {
			continue
		}
		ins := seq[pc]
		switch ins.Op {
		case "opload", "opappend":
			if owned[ins.VarName] && !in[pc][ins.VarName] {
				return fmt.Sprintf("[%d] %s reads variable %s, which is not stored on every path reaching it", pc, ins.Op, ins.VarName)
			}
		case "hole":
			for _, w := range items[pc].visible {
				if owned[w.id] && !in[pc][w.id] {
					return fmt.Sprintf("[%d] the sub-compilation %s can resolve %s (slot %s), which is not stored on every path reaching it: the slot would hold a stale value of an earlier activation", pc, ins.Hole, w.name, w.id)
				}
			}
		}
	}
	return ""
}


// tplSiblings: the sub-queries of one construct that jq scopes separately. A function, a label or a variable defined
// at the head of one of them must not be resolvable in a later one, so each is compiled inside a scope-depth region that
// is closed before the next sibling is compiled (AST field names; the parameter name does not matter).
var tplSiblings = map[string][][]string{
	"compileIf":      {{"Cond", "Then", "Else"}},
	"compileReduce":  {{"Start", "Update"}},
	"compileForeach": {{"Start", "Update", "Extract"}},
	"compileTry":     {{"Body", "Catch"}},
}

func tplSiblingRegions(log []tplHoleRec) string {
	field := func(arg string) string {
		if i := strings.LastIndex(arg, "."); i >= 0 {
			return arg[i+1:]
		}
		return arg
	}
	for i, a := range log {
		groups := tplSiblings[a.fn]
		if groups == nil {
			continue
		}
		for _, b := range log[i+1:] {
			if b.fn != a.fn || b.frame != a.frame {
				continue
			}
			fa, fb := field(a.arg), field(b.arg)
			related := false
			for _, g := range groups {
				ia, ib := -1, -1
				for k, f := range g {
					if f == fa {
						ia = k
					}
					if f == fb {
						ib = k
					}
				}
				if ia >= 0 && ib >= 0 && ia < ib {
					related = true
				}
			}
			if !related {
				continue
			}
			if len(a.regions) == 0 {
				return fmt.Sprintf("%s compiles %s outside any scope-depth region: names defined at its head stay resolvable in %s", a.fn, a.arg, b.arg)
			}
			inner := a.regions[len(a.regions)-1]
			for _, rg := range b.regions {
				if rg == inner {
					return fmt.Sprintf("%s compiles %s and %s inside the same scope-depth region: a function, label or variable defined at the head of %s is resolvable in %s (jq scopes them separately)", a.fn, a.arg, b.arg, a.arg, b.arg)
				}
			}
		}
	}
	return ""
}


// tplAltState decides, on the template of a destructuring bind with alternatives (`?//`), which pattern may have been the
// last writer of each variable when the body starts. It is a forward may-analysis of "last writer" sets
// (nil | alternative i) per variable slot with strong updates at stores, over the inline flow plus two kinds of
// backtracking edges: from every instruction of an alternative to that alternative's opforkalt target (an error anywhere
// inside it abandons it), and from every later instruction back to just after each sub-query hole (a generator is
// resumed with the slots as they were left). Checked at the end of alternative a's success path: every variable was last
// written by alternative a or by a nil store. Anything else is a value bound by an abandoned sibling (or by the
// previous output of the source generator) showing through.
func tplAltState(items []tplItem, seq []bcIns) string {
	n := len(seq)
	hasAlt := false
	for _, in := range seq {
		if in.Op == "opforkalt" {
			hasAlt = true
		}
	}
	if !hasAlt {
		return ""
	}
	altOf := func(pc int) string {
		l := strings.Trim(items[pc].loop, "[]")
		if l == "" {
			return ""
		}
		return strings.Fields(l)[0]
	}
	targeted := make([]bool, n+1)
	for _, in := range seq {
		if in.Target >= 0 && in.Target <= n {
			targeted[in.Target] = true
		}
	}
	type state map[string]map[string]bool
	clone := func(s state) state {
		c := state{}
		for v, ws := range s {
			m := map[string]bool{}
			for w := range ws {
				m[w] = true
			}
			c[v] = m
		}
		return c
	}
	in := make([]state, n+1)
	out := make([]state, n+1)
	join := func(pc int, s state) bool {
		if pc < 0 || pc > n {
			return false
		}
		if in[pc] == nil {
			in[pc] = clone(s)
			return true
		}
		changed := false
		for v, ws := range s {
			if in[pc][v] == nil {
				in[pc][v] = map[string]bool{}
			}
			for w := range ws {
				if !in[pc][v][w] {
					in[pc][v][w] = true
					changed = true
				}
			}
		}
		return changed
	}
	// "unwritten" is the initial writer of every slot: an earlier activation
	vars := map[string]bool{}
	for _, ins := range seq {
		// only the variables a query can name (pattern variables); the lowering's own temporaries are not readable
		if ins.Op == "opstore" && strings.Contains(ins.VarName, "($") {
			vars[ins.VarName] = true
		}
	}
	init := state{}
	for v := range vars {
		init[v] = map[string]bool{"stale": true}
	}
	work := []int{0}
	join(0, init)
	succs := func(pc int) []int {
		ins := seq[pc]
		var ss []int
		switch ins.Op {
		case "opbacktrack", "opret":
		case "opjump":
			ss = append(ss, ins.Target)
		case "opforkalt":
			// its target is reached only by an error while the alternative is pending: modelled by the explicit edges below
			ss = append(ss, pc+1)
		case "opfork", "opforktrybegin", "opjumpifnot":
			ss = append(ss, ins.Target, pc+1)
		case "opcall":
			if !ins.NoReturn {
				ss = append(ss, pc+1)
			}
		default:
			ss = append(ss, pc+1)
		}
		return ss
	}
	for steps := 0; steps < 400000; steps++ {
		if len(work) == 0 {
			// backtracking edges, then iterate again if anything changed
			changed := false
			forkTarget := map[string]int{}
			for f, ins := range seq {
				if ins.Op == "opforkalt" && altOf(f) != "" {
					forkTarget[altOf(f)] = ins.Target
				}
			}
			canFail := map[string]bool{"hole": true, "opindex": true, "opindexarray": true, "opcall": true, "opcallpc": true, "opcallrec": true, "opiter": true, "opobject": true, "oppathend": true}
			for pc, ins := range seq {
				if in[pc] == nil {
					continue
				}
				a := altOf(pc)
				t, has := forkTarget[a]
				if a != "" && has && t <= n {
					// an error inside alternative a, or in the body while a is the matching alternative, abandons a
					if canFail[ins.Op] {
						for _, st := range []state{in[pc], out[pc]} {
							if st != nil && join(t, st) {
								changed = true
								work = append(work, t)
							}
						}
					}
					if ins.Op == "opjump" && out[pc] != nil && join(t, out[pc]) {
						changed = true
						work = append(work, t)
					}
				}
				// the source generator (a sub-query outside the alternatives) is resumed with the slots as any later point left them
				if ins.Op == "hole" && a == "" && !strings.HasSuffix(ins.Hole, "…") {
					for q := pc + 1; q < n; q++ {
						if out[q] != nil && join(pc+1, out[q]) {
							changed = true
							work = append(work, pc+1)
						}
					}
				}
			}
			if !changed {
				break
			}
			continue
		}
		pc := work[len(work)-1]
		work = work[:len(work)-1]
		if pc >= n || in[pc] == nil {
			continue
		}
		o := in[pc]
		if ins := seq[pc]; ins.Op == "opstore" && vars[ins.VarName] {
			o = clone(in[pc])
			w := "alt:" + altOf(pc)
			if pc > 0 && seq[pc-1].Op == "oppush" && seq[pc-1].PushNil && !targeted[pc] {
				w = "nil"
			}
			o[ins.VarName] = map[string]bool{w: true}
		}
		out[pc] = o
		for _, s := range succs(pc) {
			if join(s, o) {
				work = append(work, s)
			}
		}
	}
	// the join after the alternatives: the common target of the alternatives' closing jumps
	J := -1
	for pc, ins := range seq {
		if ins.Op == "opjump" && altOf(pc) != "" && in[pc] != nil {
			J = ins.Target
		}
	}
	if J < 0 {
		return ""
	}
	check := func(pc int) string {
		a := altOf(pc)
		if a == "" || out[pc] == nil {
			return ""
		}
		var names []string
		for v := range out[pc] {
			names = append(names, v)
		}
		sort.Strings(names)
		for _, v := range names {
			for w := range out[pc][v] {
				if w == "nil" || w == "alt:"+a {
					continue
				}
				what := "the value bound by alternative " + strings.TrimPrefix(w, "alt:") + ", which was abandoned (or matched an earlier output of the source)"
				if w == "stale" {
					what = "whatever an earlier activation left in the slot"
				}
				return fmt.Sprintf("[%d] when alternative %s of ?// matches, variable %s can still hold %s: it must be null or bound by the matching alternative", pc, a, v, what)
			}
		}
		return ""
	}
	for pc, ins := range seq {
		if ins.Op == "opjump" && ins.Target == J && in[pc] != nil {
			if msg := check(pc); msg != "" {
				return msg
			}
		}
	}
	if J-1 >= 0 && J-1 < n && in[J-1] != nil && seq[J-1].Op != "opjump" && seq[J-1].Op != "opbacktrack" {
		if msg := check(J - 1); msg != "" {
			return msg
		}
	}
	return ""
}
