package main

import (
	"go/ast"
	"go/constant"
	"go/types"
	"sort"
	"fmt"
	"go/token"
	"os"
	"strings"
)

func init() {
	reg(&Rule{ID: "R-C01-template", Props: []string{"C01", "C02", "C04"}, Floor: 15,
		Doc: "every lowering function's emission templates (all AST shapes and sub-compilation size classes up to the exploration bound) verify: branch targets in range, one stack depth per instruction on all paths, net effect as declared, exp/path brackets balanced, lazy slots filled, function bodies enter with 1+arity and return with depth 1",
		Run: ruleC01Template})
}

type tplRoot struct {
	fn    string
	entry int // stack depth at entry
	end   int // stack depth when the template falls out of its end
	// inputs: concrete AST records for the parameters whose shape the grammar constrains (nil: all parameters free).
	inputs func() []map[string]tVal
	// pred: sub-compilations to execute instead of leaving a hole, decided per call from the argument (nil: none)
	pred func(short string, arg tVal) bool
	// name: obligation key when one function is explored under two set-ups ("" = fn)
	name string
	// limit: variants explored per input (0 = default)
	limit int
}

func R(fn string, entry, end int, inputs func() []map[string]tVal) tplRoot {
	return tplRoot{fn: fn, entry: entry, end: end, inputs: inputs}
}

// The alternatives of the grammar for the AST nodes whose invariants the lowering relies on. Queries, terms and strings
// inside them are opaque (a hole stands for their code); only what the compiler branches on is spelled out.
var (
	q1 = topaque("query")
	// pattern: tokVariable | '[' arraypatterns ']' | '{' objectpatterns '}'
	patVar   = rec("Pattern", "Name", tstr("$a"))
	patArr1  = rec("Pattern", "Array", tlist(patVar))
	patArr2  = rec("Pattern", "Array", tlist(patVar, rec("Pattern", "Array", tlist(patVar))))
	strPlain = rec("String", "Str", tstr("k"))
	strInter = rec("String", "Queries", tlist(q1))
	// objectpattern: objectkey ':' pattern | string ':' pattern | '(' query ')' ':' pattern | tokVariable
	poAlts = []tVal{
		rec("PatternObject", "Key", tstr("a"), "Val", patVar),
		rec("PatternObject", "Key", tstr("$a"), "Val", patArr1),
		rec("PatternObject", "KeyString", strPlain, "Val", patVar),
		rec("PatternObject", "KeyString", strInter, "Val", patVar),
		rec("PatternObject", "KeyQuery", q1, "Val", patVar),
		rec("PatternObject", "Key", tstr("$a")),
	}
	// objectkeyval: objectkey ':' objectval | string ':' objectval | '(' query ')' ':' objectval | objectkey | string
	okvAlts = []tVal{
		rec("ObjectKeyVal", "Key", tstr("a"), "Val", q1),
		rec("ObjectKeyVal", "Key", tstr("$a"), "Val", q1),
		rec("ObjectKeyVal", "KeyString", strPlain, "Val", q1),
		rec("ObjectKeyVal", "KeyString", strInter, "Val", q1),
		rec("ObjectKeyVal", "KeyQuery", q1, "Val", q1),
		rec("ObjectKeyVal", "Key", tstr("a")),
		rec("ObjectKeyVal", "Key", tstr("$a")),
		rec("ObjectKeyVal", "KeyString", strPlain),
		rec("ObjectKeyVal", "KeyString", strInter),
	}
)

func patternInputs() []map[string]tVal {
	var out []map[string]tVal
	for _, p := range []tVal{patVar, patArr1, patArr2} {
		out = append(out, map[string]tVal{"p": p})
	}
	for _, po := range poAlts {
		out = append(out, map[string]tVal{"p": rec("Pattern", "Object", tlist(po))})
	}
	out = append(out, map[string]tVal{"p": rec("Pattern", "Object", tlist(poAlts[0], poAlts[5], poAlts[4]))})
	return out
}

func bindInputs() []map[string]tVal {
	var out []map[string]tVal
	patB := rec("Pattern", "Name", tstr("$b"))
	patC := rec("Pattern", "Object", tlist(rec("PatternObject", "Key", tstr("$c")), rec("PatternObject", "Key", tstr("d"), "Val", rec("Pattern", "Name", tstr("$d")))))
	pats := [][]tVal{{patVar}, {patArr1}, {rec("Pattern", "Object", tlist(poAlts[0]))}, {patVar, patArr1}, {patArr2, patVar, rec("Pattern", "Object", tlist(poAlts[5]))},
		// alternatives binding different variables: each must be defined (null) whichever alternative matches
		{patArr1, patB}, {patB, patArr2, patC}, {patC, rec("Pattern", "Array", tlist(patVar, patB))}}
	for _, ps := range pats {
		out = append(out, map[string]tVal{"patterns": tlist(ps...)})
	}
	return out
}

func objectInputs() []map[string]tVal {
	var out []map[string]tVal
	out = append(out, map[string]tVal{"e": rec("Object")})
	for _, kv := range okvAlts {
		out = append(out, map[string]tVal{"e": rec("Object", "KeyVals", tlist(kv))})
	}
	out = append(out, map[string]tVal{"e": rec("Object", "KeyVals", tlist(okvAlts[0], okvAlts[6], okvAlts[4]))})
	out = append(out, map[string]tVal{"e": rec("Object", "KeyVals", tlist(okvAlts[0], okvAlts[0]))})
	return out
}

func keyvalInputs() []map[string]tVal {
	var out []map[string]tVal
	for _, kv := range okvAlts {
		out = append(out, map[string]tVal{"kv": kv})
	}
	return out
}

// suffix: '[' ']' | '[' query ']' | '[' query ':' ']' | '[' ':' query ']' | '[' query ':' query ']'  and  .name / ."str"
func indexInputs() []map[string]tVal {
	var out []map[string]tVal
	for _, x := range []tVal{
		rec("Index", "Name", tstr("a")), rec("Index", "Str", strPlain), rec("Index", "Str", strInter), rec("Index", "Start", q1),
		rec("Index", "Start", q1, "IsSlice", tbool(true)), rec("Index", "End", q1, "IsSlice", tbool(true)), rec("Index", "Start", q1, "End", q1, "IsSlice", tbool(true)),
	} {
		out = append(out, map[string]tVal{"x": x})
	}
	return out
}

func funcInputs() []map[string]tVal {
	var out []map[string]tVal
	add := func(name string, n int) {
		args := make([]tVal, n)
		for i := range args {
			args[i] = q1
		}
		f := rec("Func", "Name", tstr(name))
		if n > 0 {
			f.fields["Args"] = tlist(args...)
		}
		out = append(out, map[string]tVal{"e": f})
	}
	for _, x := range []struct {
		n string
		k int
	}{{"empty", 0}, {"path", 1}, {"builtins", 0}, {"input", 0}, {"modulemeta", 0}, {"debug", 1}, {"_match", 3}, {"env", 0}, {"$ENV", 0}, {"$x", 0},
		{"length", 0}, {"has", 1}, {"_add", 2}, {"_index", 2}, {"_slice", 3}, {"getpath", 1}, {"_range", 3}, {"f", 0}, {"f", 1}, {"f", 2}, {"_assign", 2}, {"_modify", 2}, {"_last", 1}} {
		add(x.n, x.k)
	}
	return out
}

// l op r for the plain assignment, the update assignment and one arithmetic update operator (l and r stay opaque)
func updInputs() []map[string]tVal {
	var out []map[string]tVal
	for _, op := range []string{"OpAssign", "OpModify", "OpUpdateAdd", "OpUpdateAlt"} {
		out = append(out, map[string]tVal{"op": tconst(tplCtx, op), "name": tstr("op-" + op)})
	}
	return out
}

func callInputs() []map[string]tVal {
	var out []map[string]tVal
	for _, x := range []struct {
		n string
		k int
	}{{"_index", 2}, {"_slice", 3}, {"getpath", 1}, {"length", 0}, {"has", 1}, {"_add", 2}, {"_plus", 0}, {"_range", 3}} {
		args := make([]tVal, x.k)
		for i := range args {
			args[i] = q1
		}
		m := map[string]tVal{"name": tstr(x.n), "args": tlist(args...)}
		if x.k == 0 {
			m["args"] = tVal{k: tvList, i: 0}
		}
		out = append(out, m)
	}
	return out
}

func tconst(c *Ctx, name string) tVal {
	if o, ok := c.Gojq.Types.Scope().Lookup(name).(*types.Const); ok {
		if v, exact := constant.Int64Val(o.Val()); exact {
			return tVal{k: tvInt, i: int(v)}
		}
	}
	return tVal{k: tvUnknown, desc: name}
}

var tplCtx *Ctx

// T[k]? with T = .a (one index suffix before the optional one), for each index form that carries a query
func optIndexInputs() []map[string]tVal {
	var out []map[string]tVal
	key := topaque("query:key")
	key2 := topaque("query:key2")
	for _, ix := range []tVal{
		rec("Index", "Start", key),
		rec("Index", "Start", key, "IsSlice", tbool(true)),
		rec("Index", "End", key, "IsSlice", tbool(true)),
		rec("Index", "Start", key, "End", key2, "IsSlice", tbool(true)),
	} {
		prefix := rec("Suffix", "Index", rec("Index", "Name", tstr("a")))
		e := rec("Term", "Type", tconst(tplCtx, "TermTypeIdentity"), "SuffixList", tlist(prefix, rec("Suffix", "Index", ix)))
		out = append(out, map[string]tVal{"e": e, "s": rec("Suffix", "Optional", tbool(true))})
		// .[k]? — the index directly after the dot is a term of its own kind, with no suffix before the `?`
		e2 := rec("Term", "Type", tconst(tplCtx, "TermTypeIndex"), "Index", ix, "SuffixList", tlist())
		out = append(out, map[string]tVal{"e": e2, "s": rec("Suffix", "Optional", tbool(true))})
	}
	return out
}

// execute what the lowering builds itself (terms and queries constructed in the code) and the index machinery; leave the
// caller's own AST (the prefix term, the key queries) as holes
func optIndexPred(short string, arg tVal) bool {
	switch short {
	case "compileTry", "compileIndex":
		return true
	case "compileQuery":
		return arg.k == tvAST && arg.astLit != nil
	case "compileTerm":
		// also the term handed in, so that the index query of `.[k]?` becomes a hole of its own
		return arg.k == tvAST && arg.astLit != nil || arg.k == tvRec
	}
	return false
}

var tplRoots = []tplRoot{
	R("compileComma", 1, 1, nil), R("compileAlt", 1, 1, nil), R("compileQueryUpdate", 1, 1, updInputs), R("compileBind", 1, 1, bindInputs), R("compilePattern", 1, 0, patternInputs),
	R("compileIf", 1, 1, nil), R("compileTry", 1, 1, nil), R("compileReduce", 1, 1, nil), R("compileForeach", 1, 1, nil), R("compileLabel", 1, 1, nil),
	R("compileBreak", 1, 1, nil), R("compileTerm", 1, 1, nil), R("compileIndex", 1, 1, indexInputs), R("compileFunc", 1, 1, funcInputs), R("compileObject", 1, 1, objectInputs),
	R("compileObjectKeyVal", 0, 2, keyvalInputs), R("compileArray", 1, 1, nil), R("compileUnary", 1, 1, nil), R("compileTermSuffix", 1, 1, nil),
	R("compileCall", 1, 1, callInputs), R("compileCallPc", 1, 1, nil), R("compileFuncDef", 1, 1, nil), R("compileQuery", 1, 1, nil),
	// the optional suffix applied to an index with a query key: T[k]?  — the sub-compilations of the suffix are executed so
	// that the key query's hole is visible to the routing analysis
	{fn: "compileTermSuffix", entry: 1, end: 1, inputs: optIndexInputs, pred: optIndexPred, name: "compileTermSuffix/optional-index"},
}

func init() {
	// the argument loop of native calls on its own (distinct opaque arguments, indexing 0 and 1): explored exhaustively
	// for one and two arguments, where the roots that inline it stop at their variant limit (R-C19-argvalues reads the
	// same templates)
	tplRoots = append(tplRoots, cciRoot)
}

// tplRootInline: sub-compilations additionally executed (not left as holes) for the roots that are given concrete patterns,
// so that the stores of the pattern variables are visible to the definite-assignment analysis.
var tplRootInline = map[string][]string{"compileBind": {"compilePattern"}, "compilePattern": {"compilePattern"}}

var tplInline = map[string]bool{"compileCallInternal": true, "compileCall": true, "compileCallPc": true, "compileFuncDef": true, "compile": true, "compileObjectKeyVal": true}

func ruleC01Template(c *Ctx, r *Rep) {
	vm := getVM(c)
	if vm.Err != "" {
		r.Undecided("vm-model", token.NoPos, "%s", vm.Err)
		return
	}
	if dis := bcCrossCheck(vm); len(dis) > 0 {
		r.Undecided("effects-table", token.NoPos, "the verifier's per-opcode stack effects disagree with the VM clauses: %s", strings.Join(dis, "; "))
		return
	}
	debug := os.Getenv("VERIF_TPL_DEBUG")
	tplCtx = c
	totalVariants, totalUnsupported := 0, 0
	var truncatedRoots []string
	for _, root := range tplRoots {
		fd := c.Decl(c.Gojq, "compiler."+root.fn)
		if fd == nil {
			r.Undecided("tpl:"+root.fn, token.NoPos, "not found")
			continue
		}
		variants := tplVariantsOf(c, root, fd)
		ok, unsup := 0, 0
		var firstBad, firstBadTpl, firstBadChoices string
		unsupReasons := map[string]int{}
		for _, v := range variants {
			if v.Unsupported != "" {
				unsup++
				unsupReasons[v.Unsupported]++
				continue
			}
			msg := v.AssertProblem
			if msg == "" {
				msg = tplCheck(v.Items, root, v.Owned)
			}
			if msg == "" && v.Label == "Func:path" && strings.Contains(strings.Join(v.Choices, " "), "fn.accept(len(e.Args))=1") {
				// (only the variants that reach the native case: a user or jq-defined function named path is an ordinary call)
				// path(f) is the bracket oppathbegin … oppathend around f, whatever f is: a shortcut that emits a constant
				// path skips the validation that the path exists in the input
				seq, _ := tplToBC(v.Items)
				hasBegin, hasEnd := false, false
				for _, in := range seq {
					hasBegin = hasBegin || in.Op == "oppathbegin"
					hasEnd = hasEnd || in.Op == "oppathend"
				}
				if !hasBegin || !hasEnd {
					msg = "the template of path(f) has no oppathbegin/oppathend bracket: the path is produced without evaluating f against the input, so `{\"a\":1} | path(.a.b)` yields [\"a\",\"b\"] where f (and getpath) fail, and try cannot catch what is no longer raised"
				}
			}
			if msg == "" && root.fn == "compileQueryUpdate" && v.Label == "call:op-OpModify" {
				// `=` and the arithmetic update operators (`l op= r` is `r as $x | l |= . op $x`) evaluate their right-hand side
				// against the input of the whole expression; the right-hand side of `|=` sees the value at each path, so it may
				// only be compiled as an argument of the update function, never inline
				for i, it := range v.Items {
					if it.isHole && it.chain == root.fn && (it.arg == "r" || strings.HasSuffix(it.arg, ".r")) {
						msg = fmt.Sprintf("[%d] the right-hand side of %s is compiled inline, against the input of the whole update: for this operator it must see the value at the path (`{\"a\":1} | .a |= .` would yield {\"a\":{\"a\":1}})", i, strings.TrimPrefix(v.Label, "call:op-"))
					}
				}
			}
			if msg == "" && root.name == "compileTermSuffix/optional-index" {
				// `T[k]?` makes the indexing optional, not k: the try bracket encloses no key query — inside it the errors
				// of k are swallowed, and the first failing index ends the outputs k still has to give
				inTry := false
				for i, it := range v.Items {
					switch {
					case !it.isHole && it.ins.Op == "opforktrybegin":
						inTry = true
					case !it.isHole && it.ins.Op == "opforktryend":
						inTry = false
					case it.isHole && inTry && strings.HasPrefix(it.argDesc, "<query:"):
						msg = fmt.Sprintf("[%d] the %s of an optional index is compiled between opforktrybegin and opforktryend: `[1,2] | [.[(0,\"a\",1)]?]` yields [1] instead of [1,2] and `{} | .[error(\"x\")]?` yields nothing instead of raising x — `?` after an index makes the indexing optional, not the evaluation of the key (the parenthesised spelling `(.)[k]?` of the same query is compiled that way)", i, strings.Trim(it.argDesc, "<>"))
					}
				}
			}
			if msg == "" && root.fn == "compileIf" {
				msg = tplCondProvenance(v.Items, v.Choices)
			}
			if msg == "" && root.fn == "compilePattern" && root.name == "" {
				// the key query of an object pattern is written between parentheses that belong to the pattern, so no term
				// opens a scope for it: compilePattern has to, or a function defined at its head is resolvable in the body
				// of the binding and in the patterns that follow
				for _, h := range v.HoleLog {
					if (h.arg == "kv.KeyQuery" || strings.HasSuffix(h.arg, ".KeyQuery")) && h.fn == "compilePattern" && len(h.regions) == 0 {
						msg = "compilePattern compiles " + h.arg + " outside any scope-depth region: a function defined at the head of a pattern's key query stays resolvable after the pattern — `def f: \"b\"; {a:1,b:2} as {(def f: \"a\"; f): $x} | [f,$x]` yields [\"a\",1] (jq: [\"b\",1])"
					}
				}
			}
			if msg == "" {
				msg = tplSiblingRegions(v.HoleLog)
			}
			if msg == "" {
				msg = tplRouteCheck(v.Items, root)
			}
			if debug == root.fn || (debug != "" && debug == root.name) {
				fmt.Fprintf(os.Stderr, "%s | %s | %s\n", tplRender(v.Items), msg, strings.Join(v.Choices, " "))
				if seq, why := tplToBC(v.Items); why == "" {
					rr := tplRoute(v.Items, seq, root.entry)
					for i, it := range v.Items {
						if it.isHole {
							fmt.Fprintf(os.Stderr, "     hole[%d] %s fn=%s arg=%s desc=%s  <- %s\n", i, it.ins.Hole, it.fn, it.arg, it.argDesc, rr.input[i])
						}
					}
				}
			}
			if msg == "" {
				ok++
			} else if firstBad == "" {
				firstBad, firstBadTpl, firstBadChoices = msg, tplRender(v.Items), strings.Join(v.Choices, ", ")
			}
		}
		totalVariants += len(variants)
		totalUnsupported += unsup
		if t := tplTruncatedInputs[root.fn+"/"+root.name]; t > 0 {
			truncatedRoots = append(truncatedRoots, fmt.Sprintf("%s (%d inputs)", key0(root), t))
		}
		key := "tpl:" + root.fn
		if root.name != "" {
			key = "tpl:" + root.name
		}
		switch {
		case firstBad != "":
			r.Bad(key, fd.Pos(), "%s emits an inconsistent template: %s — template [%s] for the shape {%s} (%d of %d variants verify)", root.fn, firstBad, firstBadTpl, firstBadChoices, ok, len(variants)-unsup)
		case ok == 0:
			var rs []string
			for k, n := range unsupReasons {
				rs = append(rs, fmt.Sprintf("%d× %s", n, k))
			}
			r.Info(key, fd.Pos(), "%s: no variant could be modelled (%s)", root.fn, strings.Join(rs, "; "))
		default:
			detail := fmt.Sprintf("%d template variants verify", ok)
			if unsup > 0 {
				detail += fmt.Sprintf("; %d variants outside the modelled subset", unsup)
			}
			r.OK(key, fd.Pos(), "%s: %s (entry depth %d, end depth %d)", root.fn, detail, root.entry, root.end)
		}
	}
	r.Info("tpl:census", token.NoPos, "%d variants explored, %d outside the modelled subset; exploration stopped at its variant limit (depth-first, remaining shape combinations not visited) for: %v", totalVariants, totalUnsupported, truncatedRoots)
}

func key0(root tplRoot) string {
	if root.name != "" {
		return root.name
	}
	return root.fn
}

// tplVariantsOf explores one root (memoised per process: several rules read the same templates).
var tplVariantCache = map[string][]tplVariant{}

// tplTruncatedInputs: per root, the number of inputs whose exploration stopped at the variant limit.
var tplTruncatedInputs = map[string]int{}

func tplVariantsOf(c *Ctx, root tplRoot, fd *ast.FuncDecl) []tplVariant {
	ck := root.fn + "/" + root.name
	if vs, ok := tplVariantCache[ck]; ok {
		return vs
	}
	tplCtx = c
	inl := map[string]bool{}
	for k, v := range tplInline {
		if k != root.fn {
			inl[k] = v
		}
	}
	for _, k := range tplRootInline[root.fn] {
		inl[k] = true
	}
	var variants []tplVariant
	tplCurrentPred = root.pred
	limit := 1500
	if root.limit > 0 {
		limit = root.limit
	}
	if *flagTier == "thorough" {
		limit *= 4
	}
	truncated := 0
	if root.inputs == nil {
		variants = tplExplore(c, fd, nil, inl, 2*limit)
		if tplLastTruncated {
			truncated++
		}
	} else {
		for _, in := range root.inputs() {
			in := in
			bind := func(run *tplRun, env *tplEnv) {
				for _, f := range fd.Type.Params.List {
					for _, nm := range f.Names {
						if v, ok := in[nm.Name]; ok {
							env.define(run.info.Defs[nm], deepCopy(v))
						}
					}
				}
			}
			vs := tplExplore(c, fd, bind, inl, limit)
			if tplLastTruncated {
				truncated++
			}
			label := ""
			if e, ok := in["e"]; ok && e.k == tvRec {
				if nm, ok := e.fields["Name"]; ok && nm.k == tvStr {
					label = e.desc + ":" + nm.s
				}
			}
			if nm, ok := in["name"]; ok && nm.k == tvStr {
				label = "call:" + nm.s
			}
			for k := range vs {
				vs[k].Label = label
			}
			variants = append(variants, vs...)
		}
	}
	tplVariantCache[ck] = variants
	tplTruncatedInputs[ck] = truncated
	return variants
}

// tplCheck verifies one template; "" if consistent.
func tplCheck(items []tplItem, root tplRoot, owned map[string]bool) string {
	seq, why := tplToBC(items)
	if why != "" {
		return why
	}
	n := len(seq)
	// 1. the inline flow from the first instruction
	probs, reached, _, ends := bcVerifyFrom(seq, 0, root.entry, false)
	if len(probs) > 0 {
		return fmt.Sprintf("[%d] %s", probs[0].PC, probs[0].Msg)
	}
	// exp nesting of the sub-queries whose outputs must stay path-trackable (a bracket turns navigation into plain evaluation)
	expAt := append([]int(nil), bcLastExp...)
	for i, it := range items {
		if !it.isHole || !reached[i] || it.chain != root.fn || i >= len(expAt) {
			continue
		}
		for _, f := range tplExpZero[root.fn] {
			if a := it.arg; (strings.HasSuffix(a, "."+f) || a == f) && expAt[i] != 0 {
				return fmt.Sprintf("[%d] %s is compiled inside an opexpbegin/opexpend bracket (nesting %d): its navigation is no longer recorded as a path, so a path expression built on this construct (path(limit(2; .a,.b)), del(first(…)), limit(1; .a[]) |= …) raises a spurious invalid-path error or silently updates the wrong place", i, a, expAt[i])
			}
		}
	}
	// the instruction that defines the construct is present in every template
	if need, ok := tplDefining[root.fn]; ok {
		for _, op := range need {
			found := false
			for _, in := range seq {
				if in.Op == op {
					found = true
				}
			}
			if !found {
				return fmt.Sprintf("the template contains no %s: %s", op, tplDefiningWhy[root.fn])
			}
		}
	}
	for i, in := range seq {
		if in.Op == "opjumpifnot" && in.Target == i+1 {
			return fmt.Sprintf("[%d] opjumpifnot targets its own successor: optimizeCodeOps rewrites a branch to the next instruction into opnop, which is an identity for opjump only — opjumpifnot pops the condition, so the condition value would stay on the stack and become the output", i)
		}
		if in.Op == "opret" && reached[i] {
			return fmt.Sprintf("[%d] opret is reached by the inline flow, outside any function body", i)
		}
		if in.Op == "opscope" && reached[i] && i > 0 {
			return fmt.Sprintf("[%d] opscope is entered by the inline flow instead of being jumped over", i)
		}
	}
	for _, e := range ends {
		if e.d != root.end || e.p != 0 || e.e != 0 {
			return fmt.Sprintf("falls out of its end with stack depth %d (declared %d), path nesting %d, exp nesting %d", e.d, root.end, e.p, e.e)
		}
	}
	if msg := tplDefAssign(items, seq, owned); msg != "" {
		return msg
	}
	if msg := tplAltState(items, seq); msg != "" {
		return msg
	}
	// 2. every function body emitted inside the template: entered at its opscope with 1+arity, must return with depth 1
	covered := append([]bool(nil), reached...)
	for i, in := range seq {
		if in.Op != "opscope" || (i == 0 && false) {
			continue
		}
		if reached[i] {
			continue // a scope executed inline (the top level of Compile)
		}
		p2, r2, _, e2 := bcVerifyFrom(seq, i, 1+in.Scope[1], false)
		if len(p2) > 0 {
			return fmt.Sprintf("function body at [%d]: [%d] %s", i, p2[0].PC, p2[0].Msg)
		}
		if len(e2) > 0 {
			return fmt.Sprintf("function body at [%d] runs off the end of the template instead of returning", i)
		}
		for k, b := range r2 {
			if b {
				covered[k] = true
			}
		}
	}
	// unreachable concrete instructions are dead code: unobservable, hence not a violation (compileAlt emits one: the oppop
	// after `opbacktrack // if found, backtrack` is skipped by the jumpifnot that targets the alternative's first instruction)
	_ = covered
	_ = n
	return ""
}


// tplDefAssign is a definite-assignment analysis over the inline flow of one template: a forward must-analysis (set
// intersection at joins) of the variable slots stored so far. Variable slots are not restored on backtracking, so the set
// at a fork target is at least the set at the fork instruction; that lower bound is what is propagated. Checked:
//   - an opload/opappend of a variable created by the lowering function itself is preceded by a store on every path;
//   - at every sub-compilation (hole), every named variable that the sub-query can resolve (the model of scope.variables at
//     the time the hole is emitted) is stored on every path reaching the hole. A slot that is readable but was never written
//     in this activation holds whatever an earlier activation left in the frame.
func tplDefAssign(items []tplItem, seq []bcIns, owned map[string]bool) string {
	n := len(seq)
	if n == 0 {
		return ""
	}
	in := make([]map[string]bool, n+1)
	visited := make([]bool, n+1)
	meet := func(pc int, set map[string]bool) bool {
		if pc < 0 || pc > n {
			return false
		}
		if !visited[pc] {
			visited[pc] = true
			cp := make(map[string]bool, len(set))
			for k := range set {
				cp[k] = true
			}
			in[pc] = cp
			return true
		}
		changed := false
		for k := range in[pc] {
			if !set[k] {
				delete(in[pc], k)
				changed = true
			}
		}
		return changed
	}
	work := []int{0}
	meet(0, map[string]bool{})
	for steps := 0; len(work) > 0 && steps < 200000; steps++ {
		pc := work[len(work)-1]
		work = work[:len(work)-1]
		if pc >= n {
			continue
		}
		ins := seq[pc]
		out := in[pc]
		switch ins.Op {
		case "opstore", "opforklabel":
			out = make(map[string]bool, len(in[pc])+1)
			for k := range in[pc] {
				out[k] = true
			}
			out[ins.VarName] = true
		}
		next := true
		switch ins.Op {
		case "opbacktrack", "opret":
			next = false
		case "opjump":
			next = false
			if meet(ins.Target, out) {
				work = append(work, ins.Target)
			}
		case "opfork", "opforktrybegin", "opforkalt", "opjumpifnot":
			if meet(ins.Target, out) {
				work = append(work, ins.Target)
			}
		case "opcall":
			if ins.NoReturn {
				next = false
			}
		}
		if next && meet(pc+1, out) {
			work = append(work, pc+1)
		}
	}
	for pc := 0; pc < n; pc++ {
		if !visited[pc] {
			continue
		}
		ins := seq[pc]
		switch ins.Op {
		case "opload", "opappend":
			if owned[ins.VarName] && !in[pc][ins.VarName] {
				return fmt.Sprintf("[%d] %s reads variable %s, which is not stored on every path reaching it", pc, ins.Op, ins.VarName)
			}
		case "hole":
			for _, w := range items[pc].visible {
				if owned[w.id] && !in[pc][w.id] {
					return fmt.Sprintf("[%d] the sub-compilation %s can resolve %s (slot %s), which is not stored on every path reaching it: the slot would hold a stale value of an earlier activation", pc, ins.Hole, w.name, w.id)
				}
			}
		}
	}
	return ""
}


// tplSiblings: the sub-queries of one construct that jq scopes separately. A function, a label or a variable defined
// at the head of one of them must not be resolvable in a later one, so each is compiled inside a scope-depth region that
// is closed before the next sibling is compiled (AST field names; the parameter name does not matter).
var tplSiblings = map[string][][]string{
	"compileIf":      {{"Cond", "Then", "Else"}},
	"compileReduce":  {{"Start", "Update"}},
	"compileForeach": {{"Start", "Update", "Extract"}},
	"compileTry":     {{"Body", "Catch"}},
}

// tplCondProvenance: what the first opjumpifnot of a conditional tests is what the condition produced. A straight-line
// simulation of the data stack by producer (item index; -1 the construct's input) from the entry to the first
// opjumpifnot; the producer of the tested value has to be a slot that came from the sub-compilation of Cond — or the input
// itself exactly when Cond compiled to nothing (`if . then`).
func tplCondProvenance(items []tplItem, choices []string) string {
	condClass := -1
	for _, ch := range choices {
		if strings.HasPrefix(ch, "hole:compileQuery@") {
			fmt.Sscanf(ch[strings.LastIndex(ch, "=")+1:], "%d", &condClass)
			break
		}
	}
	if condClass < 0 {
		return ""
	}
	stack := []int{-1}
	pop := func() int {
		if len(stack) == 0 {
			return -2
		}
		v := stack[len(stack)-1]
		stack = stack[:len(stack)-1]
		return v
	}
	for i, it := range items {
		if it.nilSlot {
			continue
		}
		if it.isHole {
			for k := 0; k < it.holePop; k++ {
				pop()
			}
			for k := 0; k < it.holePush; k++ {
				stack = append(stack, i)
			}
			continue
		}
		switch it.ins.Op {
		case "opjumpifnot":
			src := pop()
			fromCond := src >= 0 && strings.HasSuffix(items[src].origin, "Cond")
			switch {
			case condClass == 0 && src != -1:
				return fmt.Sprintf("[%d] the condition compiled to nothing, yet opjumpifnot tests the result of instruction %d instead of the input", i, src)
			case condClass != 0 && !fromCond:
				what := "the input of the conditional"
				if src >= 0 {
					what = fmt.Sprintf("the result of instruction %d, which did not come from the condition", src)
				}
				return fmt.Sprintf("[%d] opjumpifnot tests %s, not what the condition produced: a rewrite of the instructions around a short condition (a bare variable is oppop, opload) that a later rewrite of the same template does not know about erases the load — `true as $x | null | if $x then 1 else 2 end` yields 2", i, what)
			}
			return ""
		case "opdup":
			v := pop()
			stack = append(stack, v, v)
		default:
			eff, ok := bcEffects[it.ins.Op]
			if !ok {
				return "" // an instruction with an operand-dependent effect before the test: not decided here
			}
			for k := 0; k < eff[0]; k++ {
				pop()
			}
			for k := 0; k < eff[1]; k++ {
				stack = append(stack, i)
			}
		}
	}
	return ""
}

func tplSiblingRegions(log []tplHoleRec) string {
	field := func(arg string) string {
		if i := strings.LastIndex(arg, "."); i >= 0 {
			return arg[i+1:]
		}
		return arg
	}
	for i, a := range log {
		groups := tplSiblings[a.fn]
		if groups == nil {
			continue
		}
		for _, b := range log[i+1:] {
			if b.fn != a.fn || b.frame != a.frame {
				continue
			}
			fa, fb := field(a.arg), field(b.arg)
			related := false
			for _, g := range groups {
				ia, ib := -1, -1
				for k, f := range g {
					if f == fa {
						ia = k
					}
					if f == fb {
						ib = k
					}
				}
				if ia >= 0 && ib >= 0 && ia < ib {
					related = true
				}
			}
			if !related {
				continue
			}
			if len(a.regions) == 0 {
				return fmt.Sprintf("%s compiles %s outside any scope-depth region: names defined at its head stay resolvable in %s", a.fn, a.arg, b.arg)
			}
			inner := a.regions[len(a.regions)-1]
			for _, rg := range b.regions {
				if rg == inner {
					return fmt.Sprintf("%s compiles %s and %s inside the same scope-depth region: a function, label or variable defined at the head of %s is resolvable in %s (jq scopes them separately)", a.fn, a.arg, b.arg, a.arg, b.arg)
				}
			}
		}
	}
	return ""
}


// tplAltState decides, on the template of a destructuring bind with alternatives (`?//`), which pattern may have been the
// last writer of each variable when the body starts. It is a forward may-analysis of "last writer" sets
// (nil | alternative i) per variable slot with strong updates at stores, over the inline flow plus two kinds of
// backtracking edges: from every instruction of an alternative to that alternative's opforkalt target (an error anywhere
// inside it abandons it), and from every later instruction back to just after each sub-query hole (a generator is
// resumed with the slots as they were left). Checked at the end of alternative a's success path: every variable was last
// written by alternative a or by a nil store. Anything else is a value bound by an abandoned sibling (or by the
// previous output of the source generator) showing through.
func tplAltState(items []tplItem, seq []bcIns) string {
	n := len(seq)
	hasAlt := false
	for _, in := range seq {
		if in.Op == "opforkalt" {
			hasAlt = true
		}
	}
	if !hasAlt {
		return ""
	}
	altOf := func(pc int) string {
		l := strings.Trim(items[pc].loop, "[]")
		if l == "" {
			return ""
		}
		return strings.Fields(l)[0]
	}
	targeted := make([]bool, n+1)
	for _, in := range seq {
		if in.Target >= 0 && in.Target <= n {
			targeted[in.Target] = true
		}
	}
	type state map[string]map[string]bool
	clone := func(s state) state {
		c := state{}
		for v, ws := range s {
			m := map[string]bool{}
			for w := range ws {
				m[w] = true
			}
			c[v] = m
		}
		return c
	}
	in := make([]state, n+1)
	out := make([]state, n+1)
	join := func(pc int, s state) bool {
		if pc < 0 || pc > n {
			return false
		}
		if in[pc] == nil {
			in[pc] = clone(s)
			return true
		}
		changed := false
		for v, ws := range s {
			if in[pc][v] == nil {
				in[pc][v] = map[string]bool{}
			}
			for w := range ws {
				if !in[pc][v][w] {
					in[pc][v][w] = true
					changed = true
				}
			}
		}
		return changed
	}
	// "unwritten" is the initial writer of every slot: an earlier activation
	vars := map[string]bool{}
	for _, ins := range seq {
		// only the variables a query can name (pattern variables); the lowering's own temporaries are not readable
		if ins.Op == "opstore" && strings.Contains(ins.VarName, "($") {
			vars[ins.VarName] = true
		}
	}
	init := state{}
	for v := range vars {
		init[v] = map[string]bool{"stale": true}
	}
	work := []int{0}
	join(0, init)
	succs := func(pc int) []int {
		ins := seq[pc]
		var ss []int
		switch ins.Op {
		case "opbacktrack", "opret":
		case "opjump":
			ss = append(ss, ins.Target)
		case "opforkalt":
			// its target is reached only by an error while the alternative is pending: modelled by the explicit edges below
			ss = append(ss, pc+1)
		case "opfork", "opforktrybegin", "opjumpifnot":
			ss = append(ss, ins.Target, pc+1)
		case "opcall":
			if !ins.NoReturn {
				ss = append(ss, pc+1)
			}
		default:
			ss = append(ss, pc+1)
		}
		return ss
	}
	for steps := 0; steps < 400000; steps++ {
		if len(work) == 0 {
			// backtracking edges, then iterate again if anything changed
			changed := false
			forkTarget := map[string]int{}
			for f, ins := range seq {
				if ins.Op == "opforkalt" && altOf(f) != "" {
					forkTarget[altOf(f)] = ins.Target
				}
			}
			canFail := map[string]bool{"hole": true, "opindex": true, "opindexarray": true, "opcall": true, "opcallpc": true, "opcallrec": true, "opiter": true, "opobject": true, "oppathend": true}
			for pc, ins := range seq {
				if in[pc] == nil {
					continue
				}
				a := altOf(pc)
				t, has := forkTarget[a]
				if a != "" && has && t <= n {
					// an error inside alternative a, or in the body while a is the matching alternative, abandons a
					if canFail[ins.Op] {
						for _, st := range []state{in[pc], out[pc]} {
							if st != nil && join(t, st) {
								changed = true
								work = append(work, t)
							}
						}
					}
					if ins.Op == "opjump" && out[pc] != nil && join(t, out[pc]) {
						changed = true
						work = append(work, t)
					}
				}
				// the source generator (a sub-query outside the alternatives) is resumed with the slots as any later point left them
				if ins.Op == "hole" && a == "" && !strings.HasSuffix(ins.Hole, "…") {
					for q := pc + 1; q < n; q++ {
						if out[q] != nil && join(pc+1, out[q]) {
							changed = true
							work = append(work, pc+1)
						}
					}
				}
			}
			if !changed {
				break
			}
			continue
		}
		pc := work[len(work)-1]
		work = work[:len(work)-1]
		if pc >= n || in[pc] == nil {
			continue
		}
		o := in[pc]
		if ins := seq[pc]; ins.Op == "opstore" && vars[ins.VarName] {
			o = clone(in[pc])
			w := "alt:" + altOf(pc)
			if pc > 0 && seq[pc-1].Op == "oppush" && seq[pc-1].PushNil && !targeted[pc] {
				w = "nil"
			}
			o[ins.VarName] = map[string]bool{w: true}
		}
		out[pc] = o
		for _, s := range succs(pc) {
			if join(s, o) {
				work = append(work, s)
			}
		}
	}
	// the join after the alternatives: the common target of the alternatives' closing jumps
	J := -1
	for pc, ins := range seq {
		if ins.Op == "opjump" && altOf(pc) != "" && in[pc] != nil {
			J = ins.Target
		}
	}
	if J < 0 {
		return ""
	}
	check := func(pc int) string {
		a := altOf(pc)
		if a == "" || out[pc] == nil {
			return ""
		}
		var names []string
		for v := range out[pc] {
			names = append(names, v)
		}
		sort.Strings(names)
		for _, v := range names {
			for w := range out[pc][v] {
				if w == "nil" || w == "alt:"+a {
					continue
				}
				what := "the value bound by alternative " + strings.TrimPrefix(w, "alt:") + ", which was abandoned (or matched an earlier output of the source)"
				if w == "stale" {
					what = "whatever an earlier activation left in the slot"
				}
				return fmt.Sprintf("[%d] when alternative %s of ?// matches, variable %s can still hold %s: it must be null or bound by the matching alternative", pc, a, v, what)
			}
		}
		return ""
	}
	for pc, ins := range seq {
		if ins.Op == "opjump" && ins.Target == J && in[pc] != nil {
			if msg := check(pc); msg != "" {
				return msg
			}
		}
	}
	if J-1 >= 0 && J-1 < n && in[J-1] != nil && seq[J-1].Op != "opjump" && seq[J-1].Op != "opbacktrack" {
		if msg := check(J - 1); msg != "" {
			return msg
		}
	}
	return ""
}

// ---------------------------------------------------------------------------------------------------------------------
// Input routing: which value does each sub-query see as `.`?

// tplRoute is an abstract interpretation of one template over symbolic values: IN (the value the construct is applied
// to), out#k (an output of the sub-compilation at index k), val#k (the result of instruction k), pc:k (a closure), and ?
// (disagreeing values at a join). It returns, for every hole, the symbolic value it consumes.
type tplRouteRes struct {
	input map[int]string // hole index -> symbolic input
	body  map[int]string // opscope index -> symbolic input of the function body (from an eager opcallpc), "" if unknown
}

func tplRoute(items []tplItem, seq []bcIns, entryDepth int) tplRouteRes {
	n := len(seq)
	res := tplRouteRes{input: map[int]string{}, body: map[int]string{}}
	type st struct {
		stack []string
		vars  map[string]string
	}
	cloneSt := func(s *st) *st {
		c := &st{stack: append([]string(nil), s.stack...), vars: map[string]string{}}
		for k, v := range s.vars {
			c.vars[k] = v
		}
		return c
	}
	in := make([]*st, n+1)
	join := func(pc int, s *st) bool {
		if pc < 0 || pc > n {
			return false
		}
		if in[pc] == nil {
			in[pc] = cloneSt(s)
			return true
		}
		changed := false
		t := in[pc]
		if len(t.stack) != len(s.stack) {
			return false // depth mismatches are the verifier's business
		}
		for i := range t.stack {
			if t.stack[i] != s.stack[i] && t.stack[i] != "?" {
				t.stack[i] = "?"
				changed = true
			}
		}
		for k, v := range s.vars {
			if old, ok := t.vars[k]; !ok {
				t.vars[k] = v
				changed = true
			} else if old != v && old != "?" {
				t.vars[k] = "?"
				changed = true
			}
		}
		return changed
	}
	run := func(start int, entry *st) {
		work := []int{start}
		join(start, entry)
		for steps := 0; len(work) > 0 && steps < 200000; steps++ {
			pc := work[len(work)-1]
			work = work[:len(work)-1]
			if pc >= n || in[pc] == nil {
				continue
			}
			s := cloneSt(in[pc])
			ins := seq[pc]
			pop := func() string {
				if len(s.stack) == 0 {
					return "?"
				}
				v := s.stack[len(s.stack)-1]
				s.stack = s.stack[:len(s.stack)-1]
				return v
			}
			push := func(v string) { s.stack = append(s.stack, v) }
			next := []int{pc + 1}
			switch ins.Op {
			case "hole":
				top := "?"
				if ins.HolePop > 0 && len(s.stack) > 0 {
					top = s.stack[len(s.stack)-1]
				}
				if ins.HolePop > 0 {
					if old, ok := res.input[pc]; ok && old != top {
						res.input[pc] = "?"
					} else {
						res.input[pc] = top
					}
				}
				for i := 0; i < ins.HolePop; i++ {
					pop()
				}
				for i := 0; i < ins.HolePush; i++ {
					if ins.HolePop == ins.HolePush && strings.HasSuffix(ins.Hole, "…") {
						push(top) // second slot of a long sub-compilation: identity
					} else {
						push(fmt.Sprintf("out#%d", pc))
					}
				}
			case "oppush", "opconst":
				if ins.Op == "opconst" {
					pop()
				}
				push(fmt.Sprintf("const#%d", pc))
			case "oppop", "opjumpifnot", "opappend":
				pop()
				if ins.Op == "opjumpifnot" {
					next = append(next, ins.Target)
				}
			case "opdup":
				v := pop()
				push(v)
				push(v)
			case "opload":
				if v, ok := s.vars[ins.VarName]; ok && ins.VarName != "" {
					push(v)
				} else {
					push("var:" + ins.VarName)
				}
			case "opstore":
				v := pop()
				if ins.VarName != "" {
					s.vars[ins.VarName] = v
				}
			case "opforklabel":
			case "opfork", "opforktrybegin", "opforkalt":
				next = append(next, ins.Target)
			case "opjump":
				next = []int{ins.Target}
			case "opbacktrack", "opret":
				next = nil
			case "oppushpc":
				push(fmt.Sprintf("pc:%d", ins.Target))
			case "opcallpc":
				clo := pop()
				x := pop()
				if strings.HasPrefix(clo, "pc:") {
					var t int
					fmt.Sscanf(clo, "pc:%d", &t)
					if old, ok := res.body[t]; ok && old != x {
						res.body[t] = "?"
					} else {
						res.body[t] = x
					}
				}
				push(fmt.Sprintf("out#%d", pc))
			case "opcall":
				for i := 0; i < ins.ArgCnt+1; i++ {
					pop()
				}
				push(fmt.Sprintf("val#%d", pc))
				if ins.NoReturn {
					next = nil
				}
			case "opobject":
				for i := 0; i < 2*ins.ArgCnt; i++ {
					pop()
				}
				push(fmt.Sprintf("val#%d", pc))
			case "opcallrec":
				pop()
				push(fmt.Sprintf("val#%d", pc))
			default:
				eff, ok := bcEffects[ins.Op]
				if ok {
					for i := 0; i < eff[0]; i++ {
						pop()
					}
					for i := 0; i < eff[1]; i++ {
						push(fmt.Sprintf("val#%d", pc))
					}
				}
			}
			for _, t := range next {
				if t >= 0 && t <= n && join(t, s) {
					work = append(work, t)
				}
			}
		}
	}
	entry := &st{vars: map[string]string{}}
	for i := 0; i < entryDepth; i++ {
		entry.stack = append(entry.stack, "IN")
	}
	run(0, entry)
	// function bodies: entered at opscope with the value an eager call passed (callee-determined otherwise)
	for round := 0; round < 4; round++ {
		for i, ins := range seq {
			if ins.Op != "opscope" || in[i] != nil {
				continue
			}
			// the closure pc points at the scope instruction or just before it (lazy jump slot): accept both
			x, ok := res.body[i]
			if !ok {
				x, ok = res.body[i-1]
			}
			if !ok {
				x = "CALLEE"
			}
			e := &st{vars: map[string]string{}}
			// closures see the variables of the enclosing flow as they were when the closure was created; keep those that
			// are assigned exactly once in the whole template
			e.stack = append(e.stack, x)
			for k := 0; k < ins.Scope[1]; k++ {
				e.stack = append(e.stack, "param")
			}
			run(i, e)
		}
	}
	return res
}


// tplRouteIN: the sub-queries that jq evaluates against the input of the construct itself (AST field or parameter names of
// the lowering function; the parameter name of a field access does not matter).
var tplRouteIN = map[string][]string{
	"compileComma": {"l", "r"}, "compileAlt": {"l", "r"}, "compileIf": {"Cond", "Then", "Else"}, "compileTry": {"Body"},
	"compileReduce": {"Start", "Query"}, "compileForeach": {"Start", "Query"}, "compileBind": {"l", "r"},
	"compileArray": {"Query"}, "compileUnary": {"Term"}, "compileLabel": {"Body"}, "compileObjectKeyVal": {"KeyQuery", "Val"},
	"compileQuery": {"Term", "Left"}, "compileIndex": {"e"}, "compileTermSuffix": {"e"},
	"compileQueryUpdate": {"r"}, // where it is compiled inline at all (`=`, `op=`): against the input of the whole expression
}

// tplRouteCheck compares the symbolic input of every identifiable sub-query hole with jq's rule for the construct.
func tplRouteCheck(items []tplItem, root tplRoot) string {
	seq, why := tplToBC(items)
	if why != "" {
		return ""
	}
	rr := tplRoute(items, seq, root.entry)
	field := func(arg string) string {
		if i := strings.LastIndex(arg, "."); i >= 0 {
			return arg[i+1:]
		}
		return arg
	}
	leftEnd := -1 // last slot of the Left hole of a pipe in the root frame
	for i, it := range items {
		if it.isHole && it.chain == root.fn && it.fn == "compileQuery" && field(it.arg) == "Left" {
			leftEnd = i
			if i+1 < len(items) && items[i+1].isHole && strings.HasSuffix(items[i+1].ins.Hole, "…") {
				leftEnd = i + 1
			}
		}
	}
	for i, it := range items {
		if !it.isHole || strings.HasSuffix(it.ins.Hole, "…") || it.holePop == 0 {
			continue
		}
		got, ok := rr.input[i]
		if !ok {
			continue // not reached by the flow that was interpreted
		}
		want, what := "", ""
		switch {
		case strings.HasPrefix(it.argDesc, "<query:"):
			want, what = "IN", "the "+strings.Trim(it.argDesc, "<>")+" of the construct"
		case it.chain == "compileObject>compileObjectKeyVal" && root.fn == "compileObject":
			// the key/value pairs of an object construction all see the object's input
			for _, f := range tplRouteIN["compileObjectKeyVal"] {
				if field(it.arg) == f {
					want, what = "IN", it.arg
				}
			}
		case it.chain == root.fn:
			for _, f := range tplRouteIN[root.fn] {
				if field(it.arg) == f {
					want, what = "IN", it.arg
				}
			}
			if root.fn == "compileQuery" && field(it.arg) == "Right" && it.ins.Hole == "compileQuery" {
				what = it.arg + " (right-hand side of a pipe)"
				if leftEnd >= 0 {
					want = fmt.Sprintf("out#%d", leftEnd)
					if strings.HasSuffix(items[leftEnd].ins.Hole, "…") {
						want = fmt.Sprintf("out#%d", leftEnd-1)
					}
				} else {
					want = "IN"
				}
			}
		case strings.Contains(it.chain, "compileCall>compileCallInternal>") || strings.Contains(it.chain, "compileFunc>compileCallInternal>"):
			// an argument of a native: evaluated eagerly against the input of the call
			if strings.HasPrefix(it.chain, root.fn) && (root.fn == "compileCall" || root.fn == "compileIndex" || root.fn == "compileFunc" || root.fn == "compileQuery") {
				want, what = "IN", "an argument of a native function"
			}
		}
		if want == "" || got == want || strings.HasPrefix(got, "var:") {
			continue // var:… is a slot filled outside the template (a parameter of the lowering function): not decidable here
		}
		return fmt.Sprintf("[%d] %s is evaluated against %s, not against %s (%s): jq evaluates it against %s", i, what, describeTerm(got, items), describeTerm(want, items), it.chain,
			map[bool]string{true: "the input of the whole construct", false: "the output of the left-hand side"}[want == "IN"])
	}
	return ""
}

func describeTerm(t string, items []tplItem) string {
	switch {
	case t == "IN":
		return "the construct's input"
	case t == "?":
		return "different values on different paths"
	case strings.HasPrefix(t, "out#"):
		var k int
		fmt.Sscanf(t, "out#%d", &k)
		if k >= 0 && k < len(items) && items[k].isHole {
			return fmt.Sprintf("the output of ⟨%s %s⟩", items[k].ins.Hole, items[k].arg)
		}
		return "the output of instruction " + t[4:]
	case strings.HasPrefix(t, "val#"), strings.HasPrefix(t, "const#"):
		return "the result of instruction " + t[strings.Index(t, "#")+1:]
	}
	return t
}


// tplExpZero: sub-queries that jq keeps path-transparent (their outputs are locations when their input is).
var tplExpZero = map[string][]string{
	"compileForeach": {"Query", "Pattern", "Extract"},
	"compileReduce":  {"Update"},
	"compileComma":   {"l", "r"},
	"compileAlt":     {"r"},
	"compileTry":     {"Body"},
	"compileLabel":   {"Body"},
	"compileIf":      {"Then", "Else"},
}

// tplDefining: opcodes without which the lowering is not that construct at all.
var tplDefining = map[string][]string{
	"compileTry":   {"opforktrybegin", "opforktryend"},
	"compileLabel": {"opforklabel"},
	"compileComma": {"opfork"},
	"compileAlt":   {"opfork"},
}
var tplDefiningWhy = map[string]string{
	"compileTry":   "errors of the body would not be intercepted, or errors raised after the body would be",
	"compileLabel": "break $label would find nothing to break out of",
	"compileComma": "the second operand would never be evaluated",
	"compileAlt":   "the alternative would never be evaluated",
}
