package main

import (
	"bytes"
	"fmt"
	"go/ast"
	"go/scanner"
	"go/token"
	"go/types"
	"os"
	"os/exec"
	"path/filepath"
	"sort"
	"strings"
)

func init() {
	regProp(&PropInfo{
		ID:    "C09",
		Title: "Parsing follows jq's grammar and String() round-trips",
		Decided: "the precedence block of parser.go.y is jq's table ('|' right and lowest, ',' left, '//' right, update operators nonassoc, or, and, comparisons nonassoc, '+ -' left, '* / %' left, strictly increasing) and every binary rule builds Query{Left:$1, Op:<its operator>, Right:$3} with no %prec override (R-C09-prec); parser.go is exactly what goyacc generates from the current parser.go.y, with 0 conflicts (R-C09-generated); " +
			"lexer, grammar and printer agree on operator text and token class, and the keyword table equals the grammar's tokKeyword alternatives (R-C09-optext); every AST field a grammar action sets is read by the printer of that node, and Term.writeTo covers every term type (R-C09-printer-coverage, R-C08-enum); " +
			"end of input is decided by offset, never by comparing peek() with the in-band 0 (R-C09-eof); the canonical-form conditions under which distinct trees print distinctly are derivable from the grammar and hold for all shipped builtin definitions (R-C03-sync, step 2); every nonterminal has one Go type and each $k.(T) asserts it (R-C08-yacctypes).",
		NotCovered: "whitespace/comment independence of the lexer beyond the EOF sentinel; the context-dependent spacing rules of Index.writeTo (`. .x`, `0 .x`); string and escape re-encoding in String.writeTo; deep equality of the re-parsed AST.",
	})
	reg(&Rule{ID: "R-C09-prec", Props: []string{"C09"}, Floor: 20,
		Doc: "precedence/associativity block equals jq's table; each binary rule has no %prec override and builds Query{Left:$1, Op:X, Right:$3} with the operator of its token",
		Run: ruleC09Prec})
	reg(&Rule{ID: "R-C09-generated", Props: []string{"C09", "C08"}, Floor: 2,
		Doc: "goyacc run on the current parser.go.y reproduces /repo/parser.go token for token (comments and //line ignored) and reports no conflicts",
		Run: ruleC09Generated})
	reg(&Rule{ID: "R-C09-optext", Props: []string{"C09"}, Floor: 20,
		Doc: "for every lexer site setting (token text, operator, token class): Operator.String() returns that text and the class is the operator's precedence class; keywords map == tokKeyword alternatives",
		Run: ruleC09OpText})
	reg(&Rule{ID: "R-C09-printer-coverage", Props: []string{"C09"}, Floor: 30,
		Doc: "every exported AST field assigned by a grammar action is read by the writeTo of its node type (or a helper it calls)",
		Run: ruleC09PrinterCoverage})
	reg(&Rule{ID: "R-C09-eof", Props: []string{"C09", "C08"}, Floor: 1,
		Doc: "no comparison of (*lexer).peek()'s result with the constant 0 selects an end-of-input action (0 is also a literal NUL byte); only offset == len(source) may",
		Run: ruleC09EOF})
	reg(&Rule{ID: "R-C08-yacctypes", Props: []string{"C08", "C09"}, Floor: 100,
		Doc: "each grammar nonterminal is assigned values of exactly one Go type across its rules, and every $k.(T) in an action asserts the type of symbol k",
		Run: ruleC08YaccTypes})
}

type precExpect struct {
	assoc  string
	tokens []string
}

var jqPrec = []precExpect{
	{"right", []string{"'|'"}},
	{"left", []string{"','"}},
	{"right", []string{"tokAltOp"}},
	{"nonassoc", []string{"tokUpdateOp"}},
	{"left", []string{"tokOrOp"}},
	{"left", []string{"tokAndOp"}},
	{"nonassoc", []string{"tokCompareOp"}},
	{"left", []string{"'+'", "'-'"}},
	{"left", []string{"'*'", "'/'", "'%'"}},
}

// operator a binary rule must build, by its middle token ("$2" = the operator carried by the token)
var tokOp = map[string]string{
	"'|'": "OpPipe", "','": "OpComma", "tokAltOp": "$2", "tokUpdateOp": "$2", "tokOrOp": "OpOr", "tokAndOp": "OpAnd",
	"tokCompareOp": "$2", "'+'": "OpAdd", "'-'": "OpSub", "'*'": "OpMul", "'/'": "OpDiv", "'%'": "OpMod",
}

func ruleC09Prec(c *Ctx, r *Rep) {
	y := getYacc(c)
	if y.Err != "" {
		r.Undecided("grammar", token.NoPos, "parser.go.y: %s", y.Err)
		return
	}
	prev := -1
	for i, e := range jqPrec {
		lvl := -2
		for _, t := range e.tokens {
			l, assoc := y.precOf(t)
			key := "prec:" + t
			if l < 0 {
				r.Bad(key, token.NoPos, "token %s has no precedence declaration in parser.go.y", t)
				continue
			}
			r.Check(assoc == e.assoc, key+":assoc", token.NoPos, "%s is declared %%%s at parser.go.y:%d (jq: %%%s)", t, assoc, y.Levels[l].Line, e.assoc)
			if lvl == -2 {
				lvl = l
			} else {
				r.Check(l == lvl, key+":level", token.NoPos, "%s shares its precedence level with %s: %v", t, e.tokens[0], l == lvl)
			}
		}
		if lvl >= 0 {
			// exactly the expected tokens on that level
			got := append([]string(nil), y.Levels[lvl].Tokens...)
			want := append([]string(nil), e.tokens...)
			sort.Strings(got)
			sort.Strings(want)
			r.Check(strings.Join(got, " ") == strings.Join(want, " "), fmt.Sprintf("level#%d:members", i+1), token.NoPos, "precedence level of %v holds exactly %v (jq: %v)", e.tokens, got, want)
			r.Check(lvl > prev, fmt.Sprintf("level#%d:order", i+1), token.NoPos, "level of %v (index %d) binds tighter than the previous jq level (index %d)", e.tokens, lvl, prev)
			prev = lvl
		}
	}
	// binary rules
	cases := yaccCases(c)
	nbin := 0
	for _, rule := range y.Rules {
		if len(rule.RHS) != 3 || rule.RHS[0] != rule.LHS || rule.RHS[2] != rule.LHS {
			continue
		}
		op, ok := tokOp[rule.RHS[1]]
		if !ok {
			continue
		}
		nbin++
		key := fmt.Sprintf("rule:%s %s %s", rule.LHS, rule.RHS[1], rule.LHS)
		r.Check(rule.Prec == "", key+":%prec", token.NoPos, "rule `%s: %s` (parser.go.y:%d) has %%prec override %q", rule.LHS, strings.Join(rule.RHS, " "), rule.Line, rule.Prec)
		cc := cases[rule.N]
		if cc == nil {
			r.Undecided(key+":action", token.NoPos, "no case %d in the generated parser's action switch", rule.N)
			continue
		}
		left, opx, right := queryLitShape(c, cc)
		r.Check(left == "$1" && right == "$3" && opx == op, key+":action", cc.Pos(),
			"action of rule %d builds Query{Left:%s, Op:%s, Right:%s} (expected Left:$1, Op:%s, Right:$3)", rule.N, left, opx, right, op)
	}
	if nbin < 12 {
		r.Undecided("binary-rules", token.NoPos, "only %d binary operator rules found", nbin)
	}
	// the unary sign applies to the following term together with its suffixes: the rules `'+' term` and `'-' term` take the
	// precedence of their sign token, which is below every postfix token, so the parser keeps shifting suffixes; a %prec
	// that lifts the rule above them makes it reduce first (-.a.b becomes (-.a).b) while the printed text stays the same
	nun := 0
	for _, rule := range y.Rules {
		if len(rule.RHS) != 2 || (rule.RHS[0] != "'+'" && rule.RHS[0] != "'-'") || rule.RHS[1] != rule.LHS {
			continue
		}
		nun++
		r.Check(rule.Prec == "", fmt.Sprintf("rule:%s %s:%%prec", rule.RHS[0], rule.LHS), token.NoPos, "the unary rule `%s: %s` (parser.go.y:%d) has no %%prec override (found %q): with one that outranks the postfix tokens the sign binds before the suffixes, `-.a.b` parses as `(-.a).b`", rule.LHS, strings.Join(rule.RHS, " "), rule.Line, rule.Prec)
	}
	if nun < 2 {
		r.Undecided("unary-rules", token.NoPos, "only %d unary sign rules found", nun)
	}
	// objectval '|' objectval reuses '|': same shape, checked above through tokOp
}

// yaccCases maps rule number → case clause of the action switch in yyParserImpl.Parse.
func yaccCases(c *Ctx) map[int]*ast.CaseClause {
	out := map[int]*ast.CaseClause{}
	fd := c.Decl(c.Gojq, "yyParserImpl.Parse")
	if fd == nil {
		return out
	}
	info := c.Gojq.TypesInfo
	var best *ast.SwitchStmt
	ast.Inspect(fd.Body, func(n ast.Node) bool {
		if sw, ok := n.(*ast.SwitchStmt); ok && sw.Tag != nil {
			if id, ok := sw.Tag.(*ast.Ident); ok && id.Name == "yynt" {
				best = sw
			}
		}
		return true
	})
	if best == nil {
		return out
	}
	for _, s := range best.Body.List {
		cc := s.(*ast.CaseClause)
		for _, e := range cc.List {
			if v, ok := constInt(info, e); ok {
				out[int(v)] = cc
			}
		}
	}
	return out
}

// dollarOf renders an expression that is yyDollar[k].<member>[.(T)] as "$k".
func dollarOf(e ast.Expr) string {
	e = unparen(e)
	if ta, ok := e.(*ast.TypeAssertExpr); ok {
		e = unparen(ta.X)
	}
	sel, ok := e.(*ast.SelectorExpr)
	if !ok {
		return ""
	}
	ix, ok := unparen(sel.X).(*ast.IndexExpr)
	if !ok {
		return ""
	}
	if id, ok := ix.X.(*ast.Ident); !ok || id.Name != "yyDollar" {
		return ""
	}
	if bl, ok := ix.Index.(*ast.BasicLit); ok {
		return "$" + bl.Value
	}
	return ""
}

func queryLitShape(c *Ctx, cc *ast.CaseClause) (left, op, right string) {
	info := c.Gojq.TypesInfo
	left, op, right = "?", "?", "?"
	ast.Inspect(cc, func(n ast.Node) bool {
		cl, ok := n.(*ast.CompositeLit)
		if !ok || !isNamed(info.TypeOf(cl), pathGojq, "Query") {
			return true
		}
		for _, el := range cl.Elts {
			kv, ok := el.(*ast.KeyValueExpr)
			if !ok {
				continue
			}
			switch kv.Key.(*ast.Ident).Name {
			case "Left":
				left = dollarOf(kv.Value)
			case "Right":
				right = dollarOf(kv.Value)
			case "Op":
				if d := dollarOf(kv.Value); d != "" {
					op = d
				} else if id, ok := unparen(kv.Value).(*ast.Ident); ok {
					op = id.Name
				}
			}
		}
		return false
	})
	return
}

func goTokens(src []byte, name string) ([]string, error) {
	fset := token.NewFileSet()
	f := fset.AddFile(name, fset.Base(), len(src))
	var s scanner.Scanner
	var errs []string
	s.Init(f, src, func(pos token.Position, msg string) { errs = append(errs, msg) }, 0)
	var out []string
	for {
		_, tok, lit := s.Scan()
		if tok == token.EOF {
			break
		}
		if tok == token.SEMICOLON && lit == "\n" {
			out = append(out, ";")
			continue
		}
		if lit != "" {
			out = append(out, tok.String()+":"+lit)
		} else {
			out = append(out, tok.String())
		}
	}
	if len(errs) > 0 {
		return nil, fmt.Errorf("%s", strings.Join(errs, "; "))
	}
	return out, nil
}

func ruleC09Generated(c *Ctx, r *Rep) {
	goyacc := filepath.Join(*flagVerif, "bin", "goyacc")
	if _, err := os.Stat(goyacc); err != nil {
		r.Undecided("goyacc", token.NoPos, "goyacc binary not built (%v); run ./setup.sh", err)
		return
	}
	tmp, err := os.MkdirTemp("", "verifyacc-")
	if err != nil {
		r.Undecided("tmp", token.NoPos, "%v", err)
		return
	}
	defer os.RemoveAll(tmp)
	src, err := os.ReadFile(filepath.Join(c.Repo, "parser.go.y"))
	if err != nil {
		r.Undecided("parser.go.y", token.NoPos, "%v", err)
		return
	}
	os.WriteFile(filepath.Join(tmp, "parser.go.y"), src, 0o644)
	cmd := exec.Command(goyacc, "-o", "parser.go", "-v", "y.output", "parser.go.y")
	cmd.Dir = tmp
	out, err := cmd.CombinedOutput()
	if err != nil {
		r.Bad("goyacc:run", token.NoPos, "goyacc rejects the current parser.go.y: %s", firstLines(string(out), 3))
		return
	}
	conflicts := strings.TrimSpace(string(out))
	yo, _ := os.ReadFile(filepath.Join(tmp, "y.output"))
	confLine := ""
	for _, ln := range strings.Split(string(yo), "\n") {
		if strings.Contains(ln, "conflicts") || strings.Contains(ln, "conflict") {
			confLine = strings.TrimSpace(ln)
		}
	}
	noConf := !strings.Contains(conflicts, "conflict") && (confLine == "" || strings.Contains(confLine, "0 shift/reduce, 0 reduce/reduce"))
	r.Check(noConf, "conflicts", token.NoPos, "goyacc reports no conflicts (%q %q): an unresolved conflict is resolved silently by a default that need not be jq's", conflicts, confLine)
	gen, err := os.ReadFile(filepath.Join(tmp, "parser.go"))
	if err != nil {
		r.Undecided("goyacc:output", token.NoPos, "%v", err)
		return
	}
	cur, err := os.ReadFile(filepath.Join(c.Repo, "parser.go"))
	if err != nil {
		r.Undecided("parser.go", token.NoPos, "%v", err)
		return
	}
	a, err1 := goTokens(gen, "generated")
	b, err2 := goTokens(cur, "parser.go")
	if err1 != nil || err2 != nil {
		r.Undecided("tokens", token.NoPos, "cannot tokenize: %v %v", err1, err2)
		return
	}
	same := len(a) == len(b)
	first := -1
	for i := 0; i < len(a) && i < len(b); i++ {
		if a[i] != b[i] {
			same = false
			first = i
			break
		}
	}
	detail := fmt.Sprintf("%d Go tokens compared", len(b))
	if !same {
		ctx := ""
		if first >= 0 {
			lo, hi := max(0, first-4), min(len(a), first+4)
			hi2 := min(len(b), first+4)
			ctx = fmt.Sprintf("first difference at token %d: generated …%s… vs parser.go …%s…", first, strings.Join(a[lo:hi], " "), strings.Join(b[lo:hi2], " "))
		} else {
			ctx = fmt.Sprintf("lengths differ: generated %d tokens, parser.go %d", len(a), len(b))
		}
		detail = ctx
	}
	r.Check(same, "parser.go==goyacc(parser.go.y)", token.NoPos, "parser.go equals the goyacc output for the current grammar, comments and //line directives ignored: %s (a grammar edit without regeneration, or a hand edit of parser.go, leaves the shipped parser out of step with its grammar)", detail)
	_ = bytes.Equal
}

func ruleC09OpText(c *Ctx, r *Rep) {
	info := c.Gojq.TypesInfo
	// Operator.String arms
	opStr := map[string]string{}
	if fd := c.Decl(c.Gojq, "Operator.String"); fd != nil {
		ast.Inspect(fd.Body, func(n ast.Node) bool {
			cc, ok := n.(*ast.CaseClause)
			if !ok || len(cc.Body) != 1 {
				return true
			}
			rs, ok := cc.Body[0].(*ast.ReturnStmt)
			if !ok || len(rs.Results) != 1 {
				return true
			}
			if s, ok := constString(info, rs.Results[0]); ok {
				for _, e := range cc.List {
					if id, ok := e.(*ast.Ident); ok {
						opStr[id.Name] = s
					}
				}
			}
			return true
		})
	}
	if len(opStr) < 20 {
		r.Undecided("Operator.String", token.NoPos, "only %d arms extracted", len(opStr))
		return
	}
	class := func(op string) string {
		switch {
		case op == "OpAlt":
			return "tokAltOp"
		case op == "OpEq" || op == "OpNe" || op == "OpGt" || op == "OpLt" || op == "OpGe" || op == "OpLe":
			return "tokCompareOp"
		case op == "OpAssign" || op == "OpModify" || strings.HasPrefix(op, "OpUpdate"):
			return "tokUpdateOp"
		}
		return ""
	}
	// lexer sites
	fd := c.Decl(c.Gojq, "lexer.Lex")
	if fd == nil {
		r.Undecided("lexer.Lex", token.NoPos, "not found")
		return
	}
	seenOps := map[string]bool{}
	ast.Inspect(fd.Body, func(n ast.Node) bool {
		var list []ast.Stmt
		switch x := n.(type) {
		case *ast.BlockStmt:
			list = x.List
		case *ast.CaseClause:
			list = x.Body
		}
		for i, s := range list {
			as, ok := s.(*ast.AssignStmt)
			if !ok || len(as.Lhs) != 1 || len(as.Rhs) != 1 {
				continue
			}
			sel, ok := as.Lhs[0].(*ast.SelectorExpr)
			if !ok || sel.Sel.Name != "operator" {
				continue
			}
			opID, ok := as.Rhs[0].(*ast.Ident)
			if !ok {
				continue
			}
			op := opID.Name
			seenOps[op] = true
			// token text: nearest preceding `l.token = "lit"` in the same list
			text, tok := "?", "?"
			for j := i - 1; j >= 0; j-- {
				if a2, ok := list[j].(*ast.AssignStmt); ok && len(a2.Lhs) == 1 {
					if s2, ok := a2.Lhs[0].(*ast.SelectorExpr); ok && s2.Sel.Name == "token" && isNamed(info.TypeOf(s2.X), pathGojq, "lexer") {
						if v, ok := constString(info, a2.Rhs[0]); ok {
							text = v
						}
						break
					}
				}
			}
			for j := i + 1; j < len(list); j++ {
				if rs, ok := list[j].(*ast.ReturnStmt); ok && len(rs.Results) == 1 {
					if id, ok := rs.Results[0].(*ast.Ident); ok {
						tok = id.Name
					}
					break
				}
			}
			key := "lex:" + op
			r.Check(opStr[op] == text, key+":text", as.Pos(), "lexer produces %s for token text %q; Operator.String() prints %q", op, text, opStr[op])
			r.Check(class(op) == tok, key+":class", as.Pos(), "lexer returns token class %s for %s (its precedence class is %s)", tok, op, class(op))
		}
		return true
	})
	// every operator with a class must be produced by the lexer
	for op := range opStr {
		if class(op) != "" {
			r.Check(seenOps[op], "lex:"+op+":produced", fd.Pos(), "operator %s (%q) is produced by some lexer site: %v", op, opStr[op], seenOps[op])
		}
	}
	// character / keyword operators: grammar token ↔ Operator.String
	charOps := map[string]string{"OpPipe": "|", "OpComma": ",", "OpAdd": "+", "OpSub": "-", "OpMul": "*", "OpDiv": "/", "OpMod": "%", "OpOr": "or", "OpAnd": "and"}
	for op, txt := range charOps {
		r.Check(opStr[op] == txt, "print:"+op, token.NoPos, "Operator.String(%s) = %q (grammar token %q)", op, opStr[op], txt)
	}
	// keywords map == tokKeyword alternatives, and or/and map to their operator tokens
	y := getYacc(c)
	if y.Err != "" {
		r.Undecided("grammar", token.NoPos, "%s", y.Err)
		return
	}
	kwGrammar := map[string]bool{}
	for _, rule := range y.Rules {
		if rule.LHS == "tokKeyword" && len(rule.RHS) == 1 {
			kwGrammar[rule.RHS[0]] = true
		}
	}
	kwLexer := map[string]string{}
	for _, f := range c.Gojq.Syntax {
		ast.Inspect(f, func(n ast.Node) bool {
			vs, ok := n.(*ast.ValueSpec)
			if !ok || len(vs.Names) != 1 || vs.Names[0].Name != "keywords" || len(vs.Values) != 1 {
				return true
			}
			if cl, ok := vs.Values[0].(*ast.CompositeLit); ok {
				for _, el := range cl.Elts {
					kv := el.(*ast.KeyValueExpr)
					if s, ok := constString(info, kv.Key); ok {
						if id, ok := kv.Value.(*ast.Ident); ok {
							kwLexer[id.Name] = s
						}
					}
				}
			}
			return true
		})
	}
	if len(kwLexer) < 15 || len(kwGrammar) < 15 {
		r.Undecided("keywords", token.NoPos, "keywords map (%d) or tokKeyword alternatives (%d) not extracted", len(kwLexer), len(kwGrammar))
		return
	}
	var toks []string
	for t := range kwLexer {
		toks = append(toks, t)
	}
	for t := range kwGrammar {
		if _, ok := kwLexer[t]; !ok {
			toks = append(toks, t)
		}
	}
	sort.Strings(toks)
	for _, t := range toks {
		_, inLex := kwLexer[t]
		r.Check(inLex && kwGrammar[t], "keyword:"+t, token.NoPos, "keyword token %s (%q): in lexer table %v, usable as object key (tokKeyword alternative) %v", t, kwLexer[t], inLex, kwGrammar[t])
	}
	r.Check(kwLexer["tokOrOp"] == "or" && kwLexer["tokAndOp"] == "and", "keyword:or/and", token.NoPos, "`or`/`and` lex to tokOrOp/tokAndOp: %q %q", kwLexer["tokOrOp"], kwLexer["tokAndOp"])
}

func ruleC09PrinterCoverage(c *Ctx, r *Rep) {
	info := c.Gojq.TypesInfo
	nodes := astNodeTypes(c)
	// fields assigned by grammar actions (generated parser): keyed/positional composite literals and selector assignments
	assigned := map[string]map[string]token.Pos{}
	note := func(t, f string, pos token.Pos) {
		if !nodes[t] || !ast.IsExported(f) {
			return
		}
		if assigned[t] == nil {
			assigned[t] = map[string]token.Pos{}
		}
		if _, ok := assigned[t][f]; !ok {
			assigned[t][f] = pos
		}
	}
	fd := c.Decl(c.Gojq, "yyParserImpl.Parse")
	if fd == nil {
		r.Undecided("yyParse", token.NoPos, "not found")
		return
	}
	ast.Inspect(fd.Body, func(n ast.Node) bool {
		switch x := n.(type) {
		case *ast.CompositeLit:
			nt := namedOf(info.TypeOf(x))
			if nt == nil || nt.Obj().Pkg() == nil || nt.Obj().Pkg().Path() != pathGojq {
				return true
			}
			st, ok := nt.Underlying().(*types.Struct)
			if !ok {
				return true
			}
			for i, el := range x.Elts {
				if kv, ok := el.(*ast.KeyValueExpr); ok {
					note(nt.Obj().Name(), kv.Key.(*ast.Ident).Name, kv.Pos())
				} else if i < st.NumFields() {
					if id, isNil := el.(*ast.Ident); !isNil || id.Name != "nil" {
						note(nt.Obj().Name(), st.Field(i).Name(), el.Pos())
					}
				}
			}
		case *ast.AssignStmt:
			for _, l := range x.Lhs {
				if sel, ok := l.(*ast.SelectorExpr); ok {
					if nt := namedOf(info.TypeOf(sel.X)); nt != nil && nt.Obj().Pkg() != nil && nt.Obj().Pkg().Path() == pathGojq {
						note(nt.Obj().Name(), sel.Sel.Name, sel.Pos())
					}
				}
			}
		}
		return true
	})
	// fields read by T.writeTo and the in-package functions it statically calls (on any receiver)
	readBy := func(t string) map[string]bool {
		out := map[string]bool{}
		start := c.Decl(c.Gojq, t+".writeTo")
		if start == nil {
			start = c.Decl(c.Gojq, t+".String")
		}
		if start == nil {
			return nil
		}
		seen := map[*ast.FuncDecl]bool{}
		var visit func(fd *ast.FuncDecl, depth int)
		visit = func(fd *ast.FuncDecl, depth int) {
			if seen[fd] || depth > 3 {
				return
			}
			seen[fd] = true
			ast.Inspect(fd.Body, func(n ast.Node) bool {
				switch x := n.(type) {
				case *ast.SelectorExpr:
					if nt := namedOf(info.TypeOf(x.X)); nt != nil && nt.Obj().Name() == t {
						out[x.Sel.Name] = true
					}
				case *ast.CallExpr:
					if f, ok := callee(info, x).(*types.Func); ok && f.Pkg() != nil && f.Pkg().Path() == pathGojq {
						// only helpers with the same receiver type (toTerm, minify …) or plain functions
						for _, g := range c.Decls(c.Gojq) {
							if info.Defs[g.Name] == f && (recvTypeName(g) == t || recvTypeName(g) == "") {
								visit(g, depth+1)
							}
						}
					}
				}
				return true
			})
		}
		visit(start, 0)
		return out
	}
	var ts []string
	for t := range assigned {
		ts = append(ts, t)
	}
	sort.Strings(ts)
	for _, t := range ts {
		reads := readBy(t)
		if reads == nil {
			r.Bad(t+":printer", token.NoPos, "AST node type %s is built by the parser but has no writeTo/String", t)
			continue
		}
		var fs []string
		for f := range assigned[t] {
			fs = append(fs, f)
		}
		sort.Strings(fs)
		for _, f := range fs {
			r.Check(reads[f], t+"."+f, assigned[t][f], "field %s.%s is set by a grammar action and %s by %s's printer (a parsed field the printer ignores cannot round-trip)", t, f, map[bool]string{true: "read", false: "NOT read"}[reads[f]], t)
		}
	}
}

func ruleC09EOF(c *Ctx, r *Rep) {
	info := c.Gojq.TypesInfo
	n := 0
	isPeekCall := func(e ast.Expr) bool {
		call, ok := unparen(e).(*ast.CallExpr)
		return ok && calleeName(info, call) == "gojq.lexer.peek"
	}
	for _, fd := range c.Decls(c.Gojq) {
		if recvTypeName(fd) != "lexer" {
			continue
		}
		// variables holding a peek() result
		peekVar := map[types.Object]bool{}
		ast.Inspect(fd.Body, func(m ast.Node) bool {
			if as, ok := m.(*ast.AssignStmt); ok && len(as.Lhs) == len(as.Rhs) {
				for i, rhs := range as.Rhs {
					if isPeekCall(rhs) {
						if id, ok := as.Lhs[i].(*ast.Ident); ok {
							peekVar[info.ObjectOf(id)] = true
						}
					}
				}
			}
			return true
		})
		isPeek := func(e ast.Expr) bool {
			if isPeekCall(e) {
				return true
			}
			if id, ok := unparen(e).(*ast.Ident); ok {
				return peekVar[info.ObjectOf(id)]
			}
			return false
		}
		isZero := func(e ast.Expr) bool {
			v, ok := constInt(info, e)
			return ok && v == 0
		}
		ast.Inspect(fd.Body, func(m ast.Node) bool {
			switch x := m.(type) {
			case *ast.SwitchStmt:
				tag := x.Tag
				if tag == nil {
					return true
				}
				// `switch l.offset++; l.peek()` has the call as tag too
				if !isPeek(tag) {
					return true
				}
				n++
				for _, s := range x.Body.List {
					cc := s.(*ast.CaseClause)
					for _, e := range cc.List {
						if isZero(e) {
							r.Bad(declKey(fd)+":case 0", e.Pos(), "`case 0` on the result of peek() in %s: peek returns 0 both at end of input and for a literal NUL byte, so a NUL inside the source is taken for the end (Parse(\"1 # c\\x00\\n| 2\") yields the query `1`; the rest is silently dropped). Compare l.offset with len(l.source) instead", declKey(fd))
						}
					}
				}
			case *ast.BinaryExpr:
				if (x.Op == token.EQL || x.Op == token.NEQ) && ((isPeek(x.X) && isZero(x.Y)) || (isPeek(x.Y) && isZero(x.X))) {
					n++
					r.Bad(declKey(fd)+":== 0", x.Pos(), "peek() compared with 0 in %s: 0 is also a literal NUL byte in the source", declKey(fd))
				} else if isPeek(x.X) || isPeek(x.Y) {
					n++
				}
			}
			return true
		})
	}
	// the token type Lex returns is 0 only at the end of input: goyacc takes the token type 0 for $end, so a byte of the
	// source returned as its own token type (`return int(ch)`) must be known not to be NUL
	if fd := c.Decl(c.Gojq, "lexer.Lex"); fd != nil {
		isZero := func(e ast.Expr) bool {
			v, ok := constInt(info, e)
			return ok && v == 0
		}
		walkStack(fd.Body, func(m ast.Node, stack []ast.Node) bool {
			rs, ok := m.(*ast.ReturnStmt)
			if !ok || len(rs.Results) != 1 {
				return true
			}
			conv, ok := unparen(rs.Results[0]).(*ast.CallExpr)
			if !ok || len(conv.Args) != 1 {
				return true
			}
			if tv, ok := info.Types[conv.Fun]; !ok || !tv.IsType() {
				return true
			}
			id, ok := unparen(conv.Args[0]).(*ast.Ident)
			if !ok {
				return true
			}
			obj := info.ObjectOf(id)
			if b, ok := obj.Type().Underlying().(*types.Basic); !ok || b.Kind() != types.Uint8 {
				return true
			}
			n++
			// an earlier statement of an enclosing list leaves when the byte is 0, or an enclosing condition excludes it
			excluded := false
			isObj := func(e ast.Expr) bool { x, ok := unparen(e).(*ast.Ident); return ok && info.ObjectOf(x) == obj }
			zeroTest := func(cond ast.Expr, wantZero bool) bool { // cond holds ⇒ (byte == 0) == wantZero
				b, ok := unparen(cond).(*ast.BinaryExpr)
				if !ok {
					return false
				}
				if (isObj(b.X) && isZero(b.Y)) || (isObj(b.Y) && isZero(b.X)) {
					return (b.Op == token.EQL) == wantZero && (b.Op == token.EQL || b.Op == token.NEQ)
				}
				return false
			}
			for i, anc := range stack {
				var child ast.Node = rs
				if i+1 < len(stack) {
					child = stack[i+1]
				}
				if ifs, ok := anc.(*ast.IfStmt); ok {
					if child == ast.Node(ifs.Body) && zeroTest(ifs.Cond, false) {
						excluded = true
					}
					if ifs.Else != nil && child == ast.Node(ifs.Else) && zeroTest(ifs.Cond, true) {
						excluded = true
					}
				}
				var list []ast.Stmt
				switch b := anc.(type) {
				case *ast.BlockStmt:
					list = b.List
				case *ast.CaseClause:
					list = b.Body
				}
				for _, st := range list {
					if ast.Node(st) == child {
						break
					}
					if ifs, ok := st.(*ast.IfStmt); ok && ifs.Else == nil && len(ifs.Body.List) > 0 && zeroTest(ifs.Cond, true) {
						if _, ok := ifs.Body.List[len(ifs.Body.List)-1].(*ast.ReturnStmt); ok {
							excluded = true
						}
					}
					// a switch on the byte with a `case 0:` arm that returns
					if sw, ok := st.(*ast.SwitchStmt); ok && sw.Tag != nil && isObj(sw.Tag) {
						_ = sw
					}
				}
				// this return sits after a switch over the byte one of whose arms is `case 0` and returns
				if sw, ok := anc.(*ast.SwitchStmt); ok && sw.Tag != nil && isObj(sw.Tag) {
					_ = sw
				}
			}
			// or: the function's switch over the byte has an arm for 0 that returns (then the fall-through return never sees 0)
			ast.Inspect(fd.Body, func(q ast.Node) bool {
				sw, ok := q.(*ast.SwitchStmt)
				if !ok || sw.Tag == nil || !isObj(sw.Tag) || sw.End() > rs.Pos() {
					return true
				}
				for _, s := range sw.Body.List {
					cc := s.(*ast.CaseClause)
					for _, e := range cc.List {
						if isZero(e) && len(cc.Body) > 0 {
							if _, ok := cc.Body[len(cc.Body)-1].(*ast.ReturnStmt); ok {
								excluded = true
							}
						}
					}
				}
				return true
			})
			r.Check(excluded, "lexer.Lex:return "+c.Src(rs.Results[0]), rs.Pos(), "Lex returns the source byte %s as its own token type only where the byte is known not to be NUL: %v — goyacc reads the token type 0 as the end of input, so Parse(\"1\\x00| 2 garbage ((\") yields the query `1` and the rest is silently dropped", id.Name, excluded)
			return true
		})
	}
	if n < 5 {
		r.Undecided("census", token.NoPos, "only %d uses of peek() in comparisons found in the lexer", n)
		return
	}
	r.OK("census", token.NoPos, "%d comparisons/switches on peek() results examined; comparisons with non-zero constants are safe (0 matches none of them)", n)
}

func ruleC08YaccTypes(c *Ctx, r *Rep) {
	y := getYacc(c)
	if y.Err != "" {
		r.Undecided("grammar", token.NoPos, "%s", y.Err)
		return
	}
	info := c.Gojq.TypesInfo
	cases := yaccCases(c)
	if len(cases) < 100 {
		r.Undecided("cases", token.NoPos, "only %d action cases found in the generated parser", len(cases))
		return
	}
	qual := func(t types.Type) string {
		return types.TypeString(t, func(p *types.Package) string { return "" })
	}
	// nonterminal → set of types assigned to $$ ; default action propagates $1
	typesOf := map[string]map[string]bool{}
	add := func(nt, t string) bool {
		if typesOf[nt] == nil {
			typesOf[nt] = map[string]bool{}
		}
		if typesOf[nt][t] {
			return false
		}
		typesOf[nt][t] = true
		return true
	}
	type assertion struct {
		rule *YRule
		k    int
		t    string
		pos  token.Pos
	}
	var asserts []assertion
	type pending struct {
		rule *YRule
		from string // symbol whose type flows to LHS
	}
	var flows []pending
	for _, rule := range y.Rules {
		if y.ValueType[rule.LHS] != "value" {
			continue
		}
		cc := cases[rule.N]
		assignedSomething := false
		if cc != nil {
			ast.Inspect(cc, func(n ast.Node) bool {
				switch x := n.(type) {
				case *ast.AssignStmt:
					for i, l := range x.Lhs {
						sel, ok := l.(*ast.SelectorExpr)
						if !ok || sel.Sel.Name != "value" {
							continue
						}
						if id, ok := sel.X.(*ast.Ident); !ok || id.Name != "yyVAL" {
							continue
						}
						assignedSomething = true
						rhs := x.Rhs[min(i, len(x.Rhs)-1)]
						if d := dollarOf(rhs); d != "" && !strings.Contains(c.Src(rhs), ".(") {
							var k int
							fmt.Sscanf(d, "$%d", &k)
							if k >= 1 && k <= len(rule.RHS) {
								flows = append(flows, pending{rule, rule.RHS[k-1]})
							}
							continue
						}
						add(rule.LHS, qual(info.TypeOf(rhs)))
					}
				case *ast.TypeAssertExpr:
					if d := dollarOf(x); d != "" && x.Type != nil {
						var k int
						fmt.Sscanf(d, "$%d", &k)
						asserts = append(asserts, assertion{rule, k, qual(info.TypeOf(x.Type)), x.Pos()})
					}
				}
				return true
			})
		}
		if !assignedSomething && len(rule.RHS) >= 1 {
			flows = append(flows, pending{rule, rule.RHS[0]}) // default action $$ = $1
		}
		if !assignedSomething && len(rule.RHS) == 0 {
			add(rule.LHS, "<unset>")
		}
	}
	for changed := true; changed; {
		changed = false
		for _, f := range flows {
			for t := range typesOf[f.from] {
				if add(f.rule.LHS, t) {
					changed = true
				}
			}
		}
	}
	var nts []string
	for nt := range typesOf {
		nts = append(nts, nt)
	}
	sort.Strings(nts)
	for _, nt := range nts {
		var ts []string
		for t := range typesOf[nt] {
			ts = append(ts, t)
		}
		sort.Strings(ts)
		r.Check(len(ts) == 1, "nonterminal:"+nt, token.NoPos, "nonterminal %s carries Go type(s) %v (must be exactly one: its consumers assert a single type)", nt, ts)
	}
	for _, a := range asserts {
		if a.k < 1 || a.k > len(a.rule.RHS) {
			r.Bad(fmt.Sprintf("rule%d:$%d", a.rule.N, a.k), a.pos, "rule %d (%s) has no symbol $%d", a.rule.N, a.rule.LHS, a.k)
			continue
		}
		sym := a.rule.RHS[a.k-1]
		ok := typesOf[sym] != nil && len(typesOf[sym]) == 1 && typesOf[sym][a.t]
		var have []string
		for t := range typesOf[sym] {
			have = append(have, t)
		}
		r.Check(ok, fmt.Sprintf("rule%d:%s:$%d.(%s)", a.rule.N, a.rule.LHS, a.k, a.t), a.pos, "rule %d `%s: %s` asserts $%d (%s) to %s; %s carries %v", a.rule.N, a.rule.LHS, strings.Join(a.rule.RHS, " "), a.k, sym, a.t, sym, have)
	}
}
