package main

import (
	"go/token"

	"golang.org/x/tools/go/ssa"
)

func init() {
	regProp(&PropInfo{
		ID:    "C02",
		Title: "Paths and update operators equal their defining reductions",
		Decided: "every navigation site of the VM records a path only under the path-tracking guard and, when it starts from a user value, only after pathIntact() of the value navigated from, failing with an invalid-path error (R-C02-nav); the VM's set of path-tracked native names equals the compiler's indexing set (R-C01-calltriple); " +
			"opexpbegin/opexpend emissions are balanced per compiler function, with a removal idiom where the end is conditional (R-C02-expbalance); the hand-assembled bytecode of _assign and _modify verifies: jump/fork targets, stack depth on all paths, variable indices, path/exp balance, operand types (R-C02-bc); " +
			"every in-place write of update/updateObject/updateArrayIndex/updateArraySlice/deleteEmpty/delpaths/setpath goes to a container made by the allocator or dominated by allocated(v) (R-C05-own); no 2-index slice of a possibly allocator-owned array is handed to a parameter through which the callee may write or extend in place (R-C02-capleak); builtin.go equals the parse of builtin.jq for del/paths/pick/to_entries/with_entries/map_values/tostream (R-C03-sync).",
		NotCovered: "equality with the defining reduction for overlapping paths; mark-then-sweep index stability; the flow of slice views and duplicated containers through f under |= (through bytecode; the two places where the allocator trusts what comes back are checked: R-C02-release, R-C02-inplaceslice); which path expressions are path-safe.",
	})
	reg(&Rule{ID: "R-C02-capleak", Props: []string{"C02", "C05"}, Floor: 1,
		Doc: "a 2-index slice x[i:j] of a JSON array is not passed to a parameter through which the callee may write or extend in place (accepted: x[i:j:j] or a fresh copy)",
		Run: ruleC02CapLeak})
}

func ruleC02CapLeak(c *Ctx, r *Rep) {
	o := getOwn(c)
	examined := 0
	for _, f := range o.fns {
		n := 0
		for _, b := range f.Blocks {
			for _, in := range b.Instrs {
				ci, ok := in.(ssa.CallInstruction)
				if !ok {
					continue
				}
				sc := ci.Common().StaticCallee()
				if sc == nil || !o.inPkg[sc] {
					continue
				}
				for i, a := range ci.Common().Args {
					sl, ok := stripIface(a).(*ssa.Slice)
					if !ok || !isJSONContainer(sl.Type()) {
						continue
					}
					if _, isAlloc := sl.X.(*ssa.Alloc); isAlloc {
						continue // composite literal
					}
					examined++
					if sl.Max != nil {
						r.OK(fnDisplay(f)+"→"+fnOrigin(sc).Name()+":3-index", instrPos(in), "slice argument has an explicit capacity bound")
						continue
					}
					if sl.High == nil {
						continue // x[i:] keeps the original capacity semantics of x itself
					}
					if !o.paramWritable(sc, i, map[string]bool{}) {
						continue
					}
					n++
					// the view shares its backing array with x; if x is (or may be) allocator-owned and the view starts at
					// x's first element, allocated(view) holds in the callee and it may write or extend beyond j
					r.Bad(fnDisplay(f)+"→"+fnOrigin(sc).Name()+":arg"+string(rune('0'+i)), instrPos(in),
						"2-index slice of a JSON array passed to %s, which may write or extend its parameter in place under allocated(): spare capacity beyond the slice end leaks, so a write through the sub-path can overwrite elements outside the slice (use x[i:j:j])", fnOrigin(sc).Name())
				}
			}
		}
	}
	// a view handed out as a value: `.[i:j]` returns a sub-slice of its input; if it starts at the first element of an
	// array the allocator owns and becomes the new value of an update, allocated(view) holds, and a later write beyond its
	// length extends it in place and brings the elements behind its end back
	returned := 0
	for _, f := range o.fns {
		for _, b := range f.Blocks {
			for _, in := range b.Instrs {
				ret, ok := in.(*ssa.Return)
				if !ok {
					continue
				}
				for _, res := range ret.Results {
					sl, ok := stripIface(res).(*ssa.Slice)
					if !ok || !isJSONContainer(sl.Type()) || sl.High == nil {
						continue
					}
					if _, isAlloc := sl.X.(*ssa.Alloc); isAlloc {
						continue
					}
					// a slice of a parameter (somebody else's array); a compaction of an array the function owns and whose
					// tail it clears is not a view of foreign storage
					if _, isParam := sl.X.(*ssa.Parameter); !isParam {
						continue
					}
					if sl.Low == nil {
						// x[:j] of a parameter: only deleteEmpty's compaction of an owned array (under allocated(), tail cleared)
						continue
					}
					returned++
					key := fnDisplay(f) + ":return-view"
					if sl.Max != nil {
						r.OK(key, instrPos(in), "the sub-slice %s returns has an explicit capacity bound", fnDisplay(f))
					} else {
						r.Bad(key, instrPos(in), "%s returns a 2-index sub-slice of its parameter: the view keeps the capacity of the array it was cut from, and when it becomes the new value inside an update whose allocator owns that array, a later write beyond its length extends it in place — `[1,2,3,4,5] | (.[0], ., .[4]) |= (if type == \"array\" then .[0:2] else 9 end)` yields [9,2,3,4,9] instead of [9,2,null,null,9] (use x[i:j:j])", fnDisplay(f))
					}
				}
			}
		}
	}
	if returned == 0 {
		r.Undecided("return-view:census", token.NoPos, "no native returns a sub-slice of a JSON array parameter (slice does)")
	}
	r.OK("census", token.NoPos, "%d slice-typed call arguments to in-package callees examined", examined)
}
