package main

import (
	"go/ast"
	"go/token"
	"go/types"
	"sort"
	"strings"
)

func init() {
	regProp(&PropInfo{
		ID:    "C04",
		Title: "Compiler optimisations never change what a query outputs",
		Decided: "a rule-by-rule audit of the optimiser: every peephole rewrite extracted from optimizeCodeOps is an identity in the stack algebra extracted from the VM clauses (R-C04-peephole-algebra); a rewrite of two adjacent instructions is guarded by a test that control cannot enter at the second (R-C04-blockboundary); the jumpifnot→nop rewrite is unreachable because every emitted opjumpifnot targets at least two instructions ahead (R-C04-jinot); " +
			"the tail-call rewrite is conditioned on callee = innermost open scope, arity 0, only jump-like instructions between call and opret, and opjump only when the scope owns no variable (R-C04-tailrec); an instruction kept from an inlined argument scope is proved free of references to the discarded scope (R-C04-inline); constant folding reads an operand only after testing that the instruction is a literal-carrying op (R-C04-fold), and a fold pattern that matches branch instructions by opcode also pins their control flow through the AST shape or their targets (R-C04-foldshape); " +
			"AST-level folds of a Term (constant index key, signed number) are refused when the term has suffixes (R-C04-termfold); tail-call detection runs before the peephole pass (R-C20-passorder).",
		NotCovered: "equivalence of optimised and unoptimised output streams on all programs; whether a fold pattern can be matched by a non-constant emission of the same shape beyond the branch-target condition (needs the compiler's emission language); setpath shortcut equivalence for constant paths.",
	})
	reg(&Rule{ID: "R-C04-peephole-algebra", Props: []string{"C04"}, Floor: 4,
		Doc: "each (first-op set, second-op → replacement) rule of optimizeCodeOps is an identity under the per-opcode stack effects extracted from the VM",
		Run: ruleC04Peephole})
	reg(&Rule{ID: "R-C04-blockboundary", Props: []string{"C04", "C01"}, Floor: 1,
		Doc: "two-instruction peephole rewrites are control-dependent on a negative membership test of the second index in a set of branch targets built from every branching opcode",
		Run: ruleC04BlockBoundary})
	reg(&Rule{ID: "R-C04-jinot", Props: []string{"C04"}, Floor: 3,
		Doc: "no emitted opjumpifnot can target its own successor (so the non-identity rewrite jumpifnot→next ⇒ nop never fires)",
		Run: ruleC04JumpIfNot})
	reg(&Rule{ID: "R-C04-tailrec", Props: []string{"C04", "C20"}, Floor: 5,
		Doc: "optimizeTailRec rewrites a call only if it targets the innermost open scope of arity 0, skips only opjump on the way to opret, and uses opjump only for scopes without variables",
		Run: ruleC04TailRec})
	reg(&Rule{ID: "R-C04-inline", Props: []string{"C04", "C08"}, Floor: 1,
		Doc: "in compileCallInternal an instruction kept from an argument's discarded scope is guarded by a test that the scope owns no variable (or that the kept op references none)",
		Run: ruleC04Inline})
	reg(&Rule{ID: "R-C04-fold", Props: []string{"C04"}, Floor: 3,
		Doc: "every read of c.codes[k].v that is folded into a constant is preceded by a test that c.codes[k].op is opconst or oppush",
		Run: ruleC04Fold})
	reg(&Rule{ID: "R-C04-foldshape", Props: []string{"C04"}, Floor: 1,
		Doc: "a fold pattern that matches fork/jump instructions by opcode also constrains their targets or is dominated by an AST-shape test that determines them",
		Run: ruleC04FoldShape})
	reg(&Rule{ID: "R-C04-termfold", Props: []string{"C04"}, Floor: 2,
		Doc: "Term methods that fold a term to a constant (toIndexKey, toNumber, toIndices) take the term's SuffixList into account",
		Run: ruleC04TermFold})
}

// pure one-push ops: the VM clause is a single fall path `push` with no other env effect
func pureSinglePush(vm *VM, op string) (bool, string) {
	cl := vm.ByOp[op]
	if cl == nil {
		return false, "no clause"
	}
	if cl.Guarded {
		return false, "has a backtrack guard (forks or errors)"
	}
	if len(cl.Paths) > 0 {
		return false, "has non-fallthrough exits"
	}
	if len(cl.Fall) != 1 {
		return false, "several forward paths"
	}
	st := cl.Fall[0]
	if st.net != 1 || st.forked || st.pushedPath || st.errSet || st.pcSet {
		return false, "net effect is not exactly one push"
	}
	// dup is pop;push;push: minNet -1 is fine (it re-pushes the same value), but it must not call anything else on env
	other := ""
	ast.Inspect(cl.CC, func(n ast.Node) bool {
		if call, ok := n.(*ast.CallExpr); ok {
			switch m := vm.envMethod(call); m {
			case "push", "pop", "index", "":
			default:
				other = m
			}
		}
		if as, ok := n.(*ast.AssignStmt); ok {
			for _, l := range as.Lhs {
				if _, isID := l.(*ast.Ident); !isID {
					other = "assignment to " + vm.c.Src(l)
				} else if as.Tok != token.DEFINE {
					other = "assignment to " + vm.c.Src(l)
				}
			}
		}
		return true
	})
	if other != "" {
		return false, "other effect: " + other
	}
	return true, ""
}

func ruleC04Peephole(c *Ctx, r *Rep) {
	vm := getVM(c)
	if vm.Err != "" {
		r.Undecided("vm-model", token.NoPos, "%s", vm.Err)
		return
	}
	info := c.Gojq.TypesInfo
	fd := c.Decl(c.Gojq, "compiler.optimizeCodeOps")
	if fd == nil {
		r.Undecided("optimizeCodeOps", token.NoPos, "not found")
		return
	}
	var outer *ast.SwitchStmt
	ast.Inspect(fd.Body, func(n ast.Node) bool {
		if sw, ok := n.(*ast.SwitchStmt); ok && outer == nil && sw.Tag != nil && strings.HasSuffix(c.Src(sw.Tag), ".op") {
			// the rewriting switch is the one that contains a nested switch over the following instruction's op
			nested := false
			ast.Inspect(sw.Body, func(m ast.Node) bool {
				if in, ok := m.(*ast.SwitchStmt); ok && in.Tag != nil && strings.HasSuffix(c.Src(in.Tag), ".op") {
					nested = true
				}
				return true
			})
			if nested {
				outer = sw
			}
		}
		return true
	})
	if outer == nil {
		r.Undecided("optimizeCodeOps:switch", fd.Pos(), "switch over code.op not found")
		return
	}
	opOf := func(e ast.Expr) string {
		if id, ok := unparen(e).(*ast.Ident); ok {
			if k, ok := info.Uses[id].(*types.Const); ok {
				return k.Name()
			}
		}
		return ""
	}
	nrules := 0
	for _, s := range outer.Body.List {
		cc := s.(*ast.CaseClause)
		var firsts []string
		for _, e := range cc.List {
			firsts = append(firsts, opOf(e))
		}
		// two-instruction rules: nested switch over next.op
		ast.Inspect(cc, func(n ast.Node) bool {
			inner, ok := n.(*ast.SwitchStmt)
			if !ok || inner == outer || inner.Tag == nil || !strings.HasSuffix(c.Src(inner.Tag), ".op") {
				return true
			}
			for _, s2 := range inner.Body.List {
				icc := s2.(*ast.CaseClause)
				for _, se := range icc.List {
					second := opOf(se)
					// replacements
					rep := map[string]string{}
					for _, st := range icc.Body {
						if as, ok := st.(*ast.AssignStmt); ok && len(as.Lhs) == 1 && strings.HasSuffix(c.Src(as.Lhs[0]), ".op") {
							which := "first"
							if sameObj(info, as.Lhs[0].(*ast.SelectorExpr).X, inner.Tag.(*ast.SelectorExpr).X) {
								which = "second"
							}
							rep[which] = opOf(as.Rhs[0])
						}
					}
					for _, first := range firsts {
						nrules++
						key := "rule:" + first + ";" + second
						pure, why := pureSinglePush(vm, first)
						if !pure {
							r.Bad(key, icc.Pos(), "peephole rule {%s; %s} ⇒ {%s; %s}: %s is not a pure single push (%s): removing it changes the stack, a fork, an error or a path", first, second, rep["first"], rep["second"], first, why)
							continue
						}
						switch {
						case second == "oppop" && rep["first"] == "opnop" && rep["second"] == "opnop":
							r.OK(key, icc.Pos(), "X;pop ≡ nop;nop for a pure single push X")
						case second == "opconst" && rep["first"] == "opnop" && rep["second"] == "oppush":
							// const v = pop;push v.  X;pop;push v ≡ push v
							r.OK(key, icc.Pos(), "X;const v ≡ nop;push v for a pure single push X (const v is pop;push v)")
						default:
							r.Bad(key, icc.Pos(), "peephole rule {%s; %s} ⇒ {%s; %s} is not one of the two identities the stack algebra admits", first, second, rep["first"], rep["second"])
						}
					}
				}
			}
			return false
		})
		// single-instruction jump rules
		for _, first := range firsts {
			if first != "opjump" && first != "opjumpifnot" {
				continue
			}
			src := c.Src(cc)
			toNext := strings.Contains(src, "j-1 == i") || strings.Contains(src, "j == i+1")
			thread := strings.Contains(src, ".op == opjump") && strings.Contains(src, "code.v = next.v")
			nrules++
			if first == "opjump" {
				r.Check(toNext && thread, "rule:opjump", cc.Pos(), "jump→next ⇒ nop and jump→jump threading are identities (jump has no stack effect): found to-next=%v threading=%v", toNext, thread)
			} else {
				r.OK("rule:opjumpifnot", cc.Pos(), "jumpifnot→jump threading is an identity; jumpifnot→next ⇒ nop is NOT (jumpifnot pops) and is shown unreachable by R-C04-jinot")
			}
		}
	}
	if nrules < 4 {
		r.Undecided("rules", fd.Pos(), "only %d rewrite rules extracted", nrules)
	}
}

func ruleC04BlockBoundary(c *Ctx, r *Rep) {
	vm := getVM(c)
	if vm.Err != "" {
		r.Undecided("vm-model", token.NoPos, "%s", vm.Err)
		return
	}
	info := c.Gojq.TypesInfo
	fd := c.Decl(c.Gojq, "compiler.optimizeCodeOps")
	if fd == nil {
		r.Undecided("optimizeCodeOps", token.NoPos, "not found")
		return
	}
	branch := vm.BranchOps()
	branch["oppushpc"] = true
	// the target set: a map populated from `.v.(int)` of instructions selected by a case list
	var setObj types.Object
	covered := map[string]bool{}
	ast.Inspect(fd.Body, func(n ast.Node) bool {
		rs, ok := n.(*ast.RangeStmt)
		if !ok {
			return true
		}
		ast.Inspect(rs.Body, func(m ast.Node) bool {
			cc, ok := m.(*ast.CaseClause)
			if !ok {
				return true
			}
			var target types.Object
			ast.Inspect(cc, func(k ast.Node) bool {
				if as, ok := k.(*ast.AssignStmt); ok && len(as.Lhs) == 1 {
					if ix, ok := as.Lhs[0].(*ast.IndexExpr); ok {
						if _, isMap := info.TypeOf(ix.X).Underlying().(*types.Map); isMap {
							if id, ok := unparen(ix.X).(*ast.Ident); ok {
								target = info.ObjectOf(id)
							}
						}
					}
				}
				return true
			})
			if target != nil {
				setObj = target
				for _, e := range cc.List {
					if id, ok := e.(*ast.Ident); ok {
						covered[id.Name] = true
					}
				}
			}
			return true
		})
		return true
	})
	// the two-instruction rewrites: the case clause whose body has the nested switch over next.op
	var twoInstr *ast.CaseClause
	ast.Inspect(fd.Body, func(n ast.Node) bool {
		cc, ok := n.(*ast.CaseClause)
		if !ok {
			return true
		}
		for _, s := range cc.Body {
			if sw, ok := s.(*ast.SwitchStmt); ok && sw.Tag != nil && strings.HasSuffix(c.Src(sw.Tag), "next.op") {
				twoInstr = cc
			}
			if ifs, ok := s.(*ast.IfStmt); ok {
				_ = ifs
			}
		}
		ast.Inspect(cc, func(m ast.Node) bool {
			if sw, ok := m.(*ast.SwitchStmt); ok && sw.Tag != nil && strings.HasSuffix(c.Src(sw.Tag), "next.op") {
				twoInstr = cc
			}
			return true
		})
		return twoInstr == nil
	})
	if twoInstr == nil {
		r.Undecided("two-instruction", fd.Pos(), "no two-instruction rewrite found")
		return
	}
	key := "optimizeCodeOps:two-instruction-rewrites"
	if setObj == nil {
		r.Bad(key, twoInstr.Pos(), "the push/dup/load;pop and push/dup/load;const rewrites fuse two adjacent instructions without checking that the second one is not a branch target: when a jump or fork lands on it, the path arriving there finds its instruction turned into nop/push (`1 | (if . then 1 else 2 end | 3) + 10` prints 4 instead of 13; `1 | {a: (if . then 1 else 2 end | 3)}` is an object-key error)")
		return
	}
	// membership test guarding the rewrite: `if _, ok := targets[i+1]; ok { break }` before the nested switch, or the switch inside `if !ok`
	guarded := false
	for _, s := range twoInstr.Body {
		ifs, ok := s.(*ast.IfStmt)
		if !ok || ifs.Init == nil {
			continue
		}
		as, ok := ifs.Init.(*ast.AssignStmt)
		if !ok || len(as.Rhs) != 1 {
			continue
		}
		ix, ok := as.Rhs[0].(*ast.IndexExpr)
		if !ok {
			continue
		}
		if id, ok := unparen(ix.X).(*ast.Ident); ok && info.ObjectOf(id) == setObj && strings.Contains(c.Src(ix.Index), "i+1") || strings.Contains(c.Src(ix.Index), "i + 1") {
			if len(ifs.Body.List) == 1 {
				if b, ok := ifs.Body.List[0].(*ast.BranchStmt); ok && b.Tok == token.BREAK {
					guarded = true
				}
			}
		}
	}
	// `next` must be the adjacent instruction: the loop body ends with an unconditional `next = code`
	adjacent := false
	ast.Inspect(fd.Body, func(n ast.Node) bool {
		fs, ok := n.(*ast.ForStmt)
		if !ok || len(fs.Body.List) == 0 {
			return true
		}
		if as, ok := fs.Body.List[len(fs.Body.List)-1].(*ast.AssignStmt); ok && len(as.Lhs) == 1 && c.Src(as.Lhs[0]) == "next" && c.Src(as.Rhs[0]) == "code" {
			adjacent = true
		}
		return true
	})
	r.Check(adjacent, "optimizeCodeOps:adjacent", twoInstr.Pos(), "the second instruction of a two-instruction rule is the adjacent one (`next = code` ends every loop turn unconditionally): %v — matching through instructions already turned into nop fuses a pair separated by a join point (`. as $x | {a: (($x, .) | 3)}`)", adjacent)
	var missing []string
	for op := range branch {
		if !covered[op] {
			missing = append(missing, op)
		}
	}
	sort.Strings(missing)
	r.Check(guarded && len(missing) == 0, key, twoInstr.Pos(), "two-instruction rewrites are skipped when the second instruction is in the branch-target set (guard found: %v); the set is built from %v; branching opcodes not covered: %v", guarded, keysOf(covered), missing)
}

func ruleC04JumpIfNot(c *Ctx, r *Rep) {
	info := c.Gojq.TypesInfo
	n := 0
	for _, e := range getEmits(c) {
		if e.Op != "opjumpifnot" {
			continue
		}
		n++
		key := "jumpifnot@" + e.FnKey
		switch {
		case e.InList != nil:
			// target len(c.codes)+K in a list whose base is the list start: own index is ListIx
			if be, ok := unparen(e.V).(*ast.BinaryExpr); ok {
				if k, ok := constInt(info, be.Y); ok {
					r.Check(int(k) >= e.ListIx+2, key, e.Lit.Pos(), "list instruction %d targets index %d (≥ own index + 2)", e.ListIx, k)
					continue
				}
			}
			r.Undecided(key, e.Lit.Pos(), "target of a list opjumpifnot is not len(c.codes)+K")
		case e.InLazy:
			// the placeholder is appended first; the target is read when the closer runs, after at least the lazy jump placeholder
			// of the enclosing construct was appended: accept when another lazy/append occurs between the placeholder and the closer call
			fd := e.Fn
			// find `name := c.lazy(func…)` and the call `name()`; between them there must be a c.lazy(...) or c.append(...) statement at the same level
			var def *ast.AssignStmt
			for i := len(e.Stack) - 1; i >= 0; i-- {
				if as, ok := e.Stack[i].(*ast.AssignStmt); ok {
					def = as
					break
				}
			}
			okc := false
			if def != nil {
				obj := info.ObjectOf(def.Lhs[0].(*ast.Ident))
				list, idx := stmtListOf(fd.Body, def)
				for j := idx + 1; j < len(list); j++ {
					if es, ok := list[j].(*ast.ExprStmt); ok {
						if call, ok := es.X.(*ast.CallExpr); ok {
							if id, ok := call.Fun.(*ast.Ident); ok && info.Uses[id] == obj {
								break // closer runs here
							}
						}
					}
					emitsOne := false
					ast.Inspect(list[j], func(m ast.Node) bool {
						if call, ok := m.(*ast.CallExpr); ok {
							switch calleeName(info, call) {
							case "gojq.compiler.lazy", "gojq.compiler.append":
								// must be unconditional at this level: a direct statement (defer c.lazy(...)() or c.append(...))
								emitsOne = true
							}
						}
						return true
					})
					switch list[j].(type) {
					case *ast.DeferStmt, *ast.ExprStmt:
						if emitsOne {
							okc = true
						}
					}
				}
			}
			r.Check(okc, key, e.Lit.Pos(), "lazy opjumpifnot in %s: at least one instruction (the construct's jump placeholder) is unconditionally appended between its slot and the point where its target is read: %v", e.FnKey, okc)
		default:
			// eager len(c.codes)+K: own index is len(c.codes) at evaluation time, so the target is own+K
			if be, ok := unparen(e.V).(*ast.BinaryExpr); ok && be.Op == token.ADD && strings.HasPrefix(c.Src(be.X), "len(") {
				if k, ok := constInt(info, be.Y); ok {
					r.Check(k >= 2, key, e.Lit.Pos(), "eager opjumpifnot targets own index + %d", k)
					continue
				}
			}
			r.Undecided(key, e.Lit.Pos(), "cannot bound the target %s", c.Src(e.V))
		}
	}
	if n < 3 {
		r.Undecided("census", token.NoPos, "only %d opjumpifnot emissions found", n)
	}
}

func ruleC04TailRec(c *Ctx, r *Rep) {
	vm := getVM(c)
	if vm.Err != "" {
		r.Undecided("vm-model", token.NoPos, "%s", vm.Err)
		return
	}
	fd := c.Decl(c.Gojq, "compiler.optimizeTailRec")
	if fd == nil {
		r.Undecided("optimizeTailRec", token.NoPos, "not found")
		return
	}
	src := c.Src(fd.Body)
	// (a) callee pc == innermost open scope pc
	a := strings.Contains(src, "pcs[len(pcs)-1] != j")
	r.Check(a, "cond:innermost-scope", fd.Pos(), "the rewrite requires the call target to be the innermost open opscope (pcs[len(pcs)-1] != j ⇒ no rewrite): %v", a)
	// (b) arity 0 recorded from the opscope operand
	b := strings.Contains(src, "v[2] == 0") && strings.Contains(src, "scopes[i] = v[1] == 0")
	r.Check(b, "cond:arity0", fd.Pos(), "only scopes whose arity operand is 0 are candidates, and `canjump` is exactly `variable count == 0`: %v (a function with parameters re-reads them after the frame was reused)", b)
	// (c) the follow loop skips only jump-like ops and stops at anything else
	info := c.Gojq.TypesInfo
	var follow *ast.SwitchStmt
	ast.Inspect(fd.Body, func(n ast.Node) bool {
		if sw, ok := n.(*ast.SwitchStmt); ok && sw.Tag != nil && strings.Contains(c.Src(sw.Tag), "c.codes[j].op") {
			follow = sw
		}
		return true
	})
	if follow == nil {
		r.Undecided("follow-loop", fd.Pos(), "the look-ahead switch over c.codes[j].op was not found")
		return
	}
	var skipped []string
	retRewrites := false
	defaultAborts := false
	for _, s := range follow.Body.List {
		cc := s.(*ast.CaseClause)
		if cc.List == nil {
			defaultAborts = strings.Contains(c.Src(cc), "continue L")
			continue
		}
		for _, e := range cc.List {
			id, ok := e.(*ast.Ident)
			if !ok {
				continue
			}
			if id.Name == "opret" {
				body := c.Src(cc)
				retRewrites = strings.Contains(body, "code.op = opjump") && strings.Contains(body, "code.op = opcallrec") && strings.Contains(body, "if canjump")
			} else {
				skipped = append(skipped, id.Name)
			}
		}
	}
	_ = info
	okSkip := true
	for _, op := range skipped {
		// must be an op with no stack effect whose only effect is pc := v
		cl := vm.ByOp[op]
		if cl == nil || op != "opjump" {
			okSkip = false
			continue
		}
		for _, e := range cl.Paths {
			if e.st.net != 0 || e.st.forked || e.st.errSet {
				okSkip = false
			}
		}
	}
	r.Check(okSkip && len(skipped) >= 1, "follow:skips", follow.Pos(), "between the call and opret the look-ahead skips only %v (ops whose sole effect is pc := v)", skipped)
	r.Check(defaultAborts, "follow:default", follow.Pos(), "any other instruction aborts the rewrite (default: continue L): %v — otherwise a non-tail call would be treated as a tail call", defaultAborts)
	r.Check(retRewrites, "follow:ret", follow.Pos(), "at opret the call becomes opjump when the scope owns no variable, else opcallrec: %v", retRewrites)
	// (e) writer side: the arity operand of every emitted opscope is the definition's parameter count
	infoG := c.Gojq.TypesInfo
	for _, e := range getEmits(c) {
		if e.Op != "opscope" || e.V == nil {
			continue
		}
		cl, ok := unparen(e.V).(*ast.CompositeLit)
		if !ok || len(cl.Elts) != 3 {
			r.Undecided("arity-operand@"+e.FnKey, e.Lit.Pos(), "opscope operand is not a [3]int literal")
			continue
		}
		ar := c.Src(cl.Elts[2])
		okc := false
		want := ""
		switch e.FnKey {
		case "compiler.compileFuncDef":
			want = "len(e.Args)"
			okc = ar == want
		case "Compile":
			want = "0"
			okc = ar == "0"
		default:
			// literal lists: the arity given to appendBuiltin in the same function
			ast.Inspect(e.Fn.Body, func(n ast.Node) bool {
				if call, ok := n.(*ast.CallExpr); ok && calleeName(infoG, call) == "gojq.compiler.appendBuiltin" && len(call.Args) == 2 {
					want = c.Src(call.Args[1])
					okc = want == ar
				}
				return true
			})
		}
		r.Check(okc, "arity-operand@"+e.FnKey, e.Lit.Pos(), "opscope emitted in %s carries arity %s (the definition's parameter count is %s): the tail-call pass trusts this operand — a count of closure parameters only would let functions with $value parameters reuse a frame whose parameters are still read (`def gcd($a;$b): …` returns a wrong result)", e.FnKey, ar, want)
	}
	// (d) jump target is scope pc + 1 (skips the opscope itself)
	d := strings.Contains(src, "code.v = pcs[len(pcs)-1] + 1")
	r.Check(d, "jump-target", fd.Pos(), "the opjump form re-enters after the opscope instruction (pcs[len(pcs)-1] + 1): %v", d)
}

func ruleC04Inline(c *Ctx, r *Rep) {
	info := c.Gojq.TypesInfo
	fd := c.Decl(c.Gojq, "compiler.compileCallInternal")
	if fd == nil {
		r.Undecided("compileCallInternal", token.NoPos, "not found")
		return
	}
	n := 0
	walkStack(fd.Body, func(m ast.Node, stack []ast.Node) bool {
		as, ok := m.(*ast.AssignStmt)
		if !ok || len(as.Lhs) != 1 || len(as.Rhs) != 1 {
			return true
		}
		// a move of a whole instruction: c.codes[a] = c.codes[b]
		l, ok1 := unparen(as.Lhs[0]).(*ast.IndexExpr)
		rr, ok2 := unparen(as.Rhs[0]).(*ast.IndexExpr)
		if !ok1 || !ok2 || c.Src(l.X) != "c.codes" || c.Src(rr.X) != "c.codes" {
			return true
		}
		// only inside the argument-inlining switch (under `if internal`)
		inInline := false
		for _, a := range stack {
			if cc, ok := a.(*ast.CaseClause); ok && len(cc.List) == 1 {
				if v, ok := constInt(info, cc.List[0]); ok && v == 3 {
					inInline = true
				}
			}
		}
		if !inInline {
			return true
		}
		n++
		kept := c.Src(rr)
		// accepted guards on a dominating if/else-if condition: the discarded scope's variable count is 0, or the kept op is not a variable op
		guard := ""
		for i := len(stack) - 1; i >= 0; i-- {
			ifs, ok := stack[i].(*ast.IfStmt)
			if !ok {
				continue
			}
			// the move must be in the Body of this if (positive condition)
			if !(ifs.Body.Pos() <= as.Pos() && as.End() <= ifs.Body.End()) {
				continue
			}
			cs := c.Src(ifs.Cond)
			if strings.Contains(cs, ".([3]int)[1] == 0") || strings.Contains(cs, "variablecnt == 0") {
				guard = cs
			}
			if strings.Contains(cs, ".op != opload") && strings.Contains(cs, ".op != opstore") && strings.Contains(cs, ".op != opforklabel") && strings.Contains(cs, ".op != opappend") {
				guard = cs
			}
		}
		r.Check(guard != "", "compileCallInternal:keep "+kept, as.Pos(), "the instruction %s is kept after its enclosing argument scope was discarded: %s", kept,
			map[bool]string{true: "guarded by `" + guard + "`", false: "NOT guarded by a test that the scope owns no variable — an opforklabel/opload/opstore kept this way addresses a scope that no longer exists at run time (`1 + (label $l | .)` panics in env.index)"}[guard != ""])
		return true
	})
	if n == 0 {
		r.Undecided("compileCallInternal", fd.Pos(), "the one-instruction argument inlining (case 3) was not found")
	}
}

func ruleC04Fold(c *Ctx, r *Rep) {
	n := 0
	for _, fn := range []string{"compiler.compileObject", "compiler.compileArray", "compiler.compileCallInternal", "compiler.compileIf"} {
		fd := c.Decl(c.Gojq, fn)
		if fd == nil {
			continue
		}
		ast.Inspect(fd.Body, func(m ast.Node) bool {
			sel, ok := m.(*ast.SelectorExpr)
			if !ok || sel.Sel.Name != "v" {
				return true
			}
			ix, ok := unparen(sel.X).(*ast.IndexExpr)
			if !ok || c.Src(ix.X) != "c.codes" {
				return true
			}
			// reads only (not the lhs of an assignment)
			isLHS := false
			ast.Inspect(fd.Body, func(q ast.Node) bool {
				if as, ok := q.(*ast.AssignStmt); ok {
					for _, l := range as.Lhs {
						if l == ast.Expr(sel) {
							isLHS = true
						}
					}
				}
				return true
			})
			if isLHS {
				return true
			}
			// reads inside a condition are guards, not folds
			inCond := false
			ast.Inspect(fd.Body, func(q ast.Node) bool {
				if ifs, ok := q.(*ast.IfStmt); ok && ifs.Cond.Pos() <= sel.Pos() && sel.End() <= ifs.Cond.End() {
					inCond = true
				}
				return true
			})
			if inCond {
				return true
			}
			n++
			// an earlier test in the function of `c.codes[<same index>].op` against opconst/oppush
			tested := ""
			ast.Inspect(fd.Body, func(q ast.Node) bool {
				be, ok := q.(*ast.BinaryExpr)
				if !ok || be.Pos() > sel.Pos() || (be.Op != token.EQL && be.Op != token.NEQ) {
					return true
				}
				s2, ok := unparen(be.X).(*ast.SelectorExpr)
				if !ok || s2.Sel.Name != "op" {
					return true
				}
				i2, ok := unparen(s2.X).(*ast.IndexExpr)
				if !ok || c.Src(i2.X) != "c.codes" || c.Src(i2.Index) != c.Src(ix.Index) {
					return true
				}
				if op := c.Src(be.Y); op == "opconst" || op == "oppush" {
					tested = op
				}
				return true
			})
			r.Check(tested != "", fn+":read "+c.Src(sel), sel.Pos(), "%s reads %s into a folded constant after testing that instruction's op against %s: %v", fn, c.Src(sel), tested, tested != "")
			return true
		})
	}
	if n < 3 {
		r.Undecided("census", token.NoPos, "only %d operand reads found in the folding functions", n)
	}
}

func ruleC04FoldShape(c *Ctx, r *Rep) {
	vm := getVM(c)
	if vm.Err != "" {
		r.Undecided("vm-model", token.NoPos, "%s", vm.Err)
		return
	}
	branch := vm.BranchOps()
	n := 0
	for _, fn := range []string{"compiler.compileObject", "compiler.compileArray"} {
		fd := c.Decl(c.Gojq, fn)
		if fd == nil {
			r.Undecided(fn, token.NoPos, "not found")
			continue
		}
		// which branch opcodes does the fold pattern compare `.op` against?
		var matched []string
		var firstPos token.Pos
		ast.Inspect(fd.Body, func(m ast.Node) bool {
			be, ok := m.(*ast.BinaryExpr)
			if !ok || (be.Op != token.EQL && be.Op != token.NEQ) {
				return true
			}
			s2, ok := unparen(be.X).(*ast.SelectorExpr)
			if !ok || s2.Sel.Name != "op" || !strings.HasPrefix(c.Src(s2.X), "c.codes[") {
				return true
			}
			if op := c.Src(be.Y); branch[op] {
				matched = append(matched, op)
				if !firstPos.IsValid() {
					firstPos = be.Pos()
				}
			}
			return true
		})
		if len(matched) == 0 {
			r.OK(fn+":no-branch-ops", fd.Pos(), "the fold pattern of %s matches no branching opcode", fn)
			continue
		}
		n++
		// accepted: the pattern also reads the targets (`.v` of an instruction compared with a position), or an AST-shape test:
		// a count derived from walking the query's comma chain (a loop over `.Left` with `.Op == OpComma`) compared with the pattern length
		src := c.Src(fd.Body)
		readsTargets := false
		ast.Inspect(fd.Body, func(m ast.Node) bool {
			be, ok := m.(*ast.BinaryExpr)
			if !ok || (be.Op != token.EQL && be.Op != token.NEQ) {
				return true
			}
			if s2, ok := unparen(be.X).(*ast.SelectorExpr); ok && s2.Sel.Name == "v" && strings.HasPrefix(c.Src(s2.X), "c.codes[") {
				readsTargets = true
			}
			if ta, ok := unparen(be.X).(*ast.TypeAssertExpr); ok {
				if s2, ok := unparen(ta.X).(*ast.SelectorExpr); ok && s2.Sel.Name == "v" && strings.HasPrefix(c.Src(s2.X), "c.codes[") {
					readsTargets = true
				}
			}
			return true
		})
		astShape := false
		ast.Inspect(fd.Body, func(m ast.Node) bool {
			fs, ok := m.(*ast.ForStmt)
			if !ok || fs.Cond == nil {
				return true
			}
			if strings.Contains(c.Src(fs.Cond), ".Op == OpComma") && fs.Post != nil && strings.Contains(c.Src(fs.Post), ".Left") {
				astShape = true
			}
			return true
		})
		_ = src
		sort.Strings(matched)
		r.Check(readsTargets || astShape, fn+":branch-pattern", firstPos, "the constant-folding pattern of %s matches %v by opcode and %s", fn, matched,
			map[bool]string{true: "also pins their control flow (targets read: " + boolStr(readsTargets) + ", comma-chain shape test: " + boolStr(astShape) + ")", false: "never looks at their targets or at the AST shape: a different nesting with the same opcode sequence is folded as if it were a literal (`[(1,.|2)]` compiles to fork,fork,const,jump,const like `[1,2]` and is folded to [1,2]; the value is [2,2])"}[readsTargets || astShape])
	}
	if n == 0 {
		r.Undecided("census", token.NoPos, "no fold pattern over branching opcodes found")
	}
}

func boolStr(b bool) string {
	if b {
		return "yes"
	}
	return "no"
}

func ruleC04TermFold(c *Ctx, r *Rep) {
	info := c.Gojq.TypesInfo
	n := 0
	for _, fd := range c.Decls(c.Gojq) {
		if recvTypeName(fd) != "Term" || !strings.HasPrefix(fd.Name.Name, "to") || c.PhysFile(fd.Pos()) != "query.go" {
			continue
		}
		// does it read type-specific payload fields?
		payload := false
		suffix := false
		ast.Inspect(fd.Body, func(m ast.Node) bool {
			sel, ok := m.(*ast.SelectorExpr)
			if !ok || !isNamed(info.TypeOf(sel.X), pathGojq, "Term") {
				return true
			}
			switch sel.Sel.Name {
			case "Number", "Str", "Unary", "Index", "Query", "Func", "Object", "Array":
				payload = true
			case "SuffixList":
				suffix = true
			}
			return true
		})
		if !payload {
			continue
		}
		n++
		key := "Term." + fd.Name.Name
		r.Check(suffix, key, fd.Pos(), "%s folds a term from its payload fields and %s its SuffixList: a term with suffixes is not the constant its head denotes (`.[\"abc\"[1:2]]` is folded to .[\"abc\"]; `-1[0]` to -1 although 1[0] is an error)", key, map[bool]string{true: "takes into account", false: "IGNORES"}[suffix])
	}
	if n < 2 {
		r.Undecided("census", token.NoPos, "only %d folding methods on Term found", n)
	}
}
