package main

import (
	"go/ast"
	"go/token"
	"go/types"
	"sort"
	"strings"

	"golang.org/x/tools/go/packages"
)

func init() {
	regProp(&PropInfo{
		ID:    "C11",
		Title: "One total order governs comparison, sorting, grouping and key order",
		Decided: "every ordering and equality decision on JSON values goes through Compare: the operators and natives named by the property call it, they derive no other equality key (no serialisation or hashing), package gojq contains no other ==/!= between two interface-typed JSON operands outside three reviewed identity tests, no reflect.DeepEqual, and pointer-identity shortcuts exist only in the allocator and pathIntact (R-C11-single); " +
			"every sort whose comparator calls Compare uses a stable sort API (R-C11-stable); every site that orders object keys uses Go's native string order (R-C11-keys); map traversals are collect-then-sort with a total comparator (R-C05-maporder); typeIndex returns null 0 < false 1 < true 2 < numbers 3 < strings 4 < arrays 5 < objects 6 with all four numeric representations in the number arm (R-C11-typeorder); integer cells of Compare use exact integer comparison (R-C03-dispatch, R-C11-cmpcells).",
		NotCovered: "reflexivity/antisymmetry/transitivity of Compare (value-level); bsearch's -1-insertion arithmetic; which of several equal elements min/max/unique keep (index arithmetic).",
	})
	reg(&Rule{ID: "R-C11-single", Props: []string{"C11"}, Floor: 14,
		Doc: "ordering natives call Compare and derive no other equality key; no other interface==interface comparison, reflect.DeepEqual or pointer-identity shortcut in package gojq",
		Run: ruleC11Single})
	reg(&Rule{ID: "R-C11-stable", Props: []string{"C11", "C03"}, Floor: 1,
		Doc: "every sort whose comparator (transitively) calls Compare uses a stable sort API",
		Run: ruleC11Stable})
	reg(&Rule{ID: "R-C11-keys", Props: []string{"C11", "C12"}, Floor: 4,
		Doc: "object keys are ordered by Go's native string order at every site (keys, opiter, both encodeObject)",
		Run: ruleC11Keys})
	reg(&Rule{ID: "R-C11-typeorder", Props: []string{"C11"}, Floor: 7,
		Doc: "typeIndex's constants are 0..6 in jq's type order and its number arm lists all four numeric representations",
		Run: ruleC11TypeOrder})
	reg(&Rule{ID: "R-C11-cmpcells", Props: []string{"C11", "C10"}, Floor: 3,
		Doc: "Compare passes cmp.Compare[int] for int pairs, (*big.Int).Cmp for big pairs and cmp.Compare for strings",
		Run: ruleC11CmpCells})
}

func callsFunc(c *Ctx, info *types.Info, n ast.Node, names ...string) string {
	found := ""
	ast.Inspect(n, func(m ast.Node) bool {
		if call, ok := m.(*ast.CallExpr); ok {
			nm := calleeName(info, call)
			for _, w := range names {
				if nm == w {
					found = nm
				}
			}
		}
		return found == ""
	})
	return found
}

func ruleC11Single(c *Ctx, r *Rep) {
	info := c.Gojq.TypesInfo
	ordering := []string{"funcOpEq", "funcOpNe", "funcOpGt", "funcOpLt", "funcOpGe", "funcOpLe", "sortItems", "funcGroupBy", "uniqueBy", "minMaxBy",
		"funcBsearch", "indices", "funcIndex", "funcRindex", "funcOpSub", "rangeIter.Next"}
	for _, fn := range ordering {
		fd := c.Decl(c.Gojq, fn)
		if fd == nil {
			r.Undecided("calls:"+fn, token.NoPos, "%s not found", fn)
			continue
		}
		calls := callsFunc(c, info, fd.Body, "gojq.Compare") != ""
		r.Check(calls, "calls:"+fn, fd.Pos(), "%s decides order/equality through Compare: %v", fn, calls)
		// no second equality key
		other := callsFunc(c, info, fd.Body, "gojq.jsonMarshal", "gojq.Marshal", "gojq.funcToJSON", "gojq.funcToString", "fmt.Sprint", "fmt.Sprintf", "fmt.Sprintln", "reflect.DeepEqual", "gojq.Preview")
		r.Check(other == "", "nokey:"+fn, fd.Pos(), "%s derives no other equality key %s(values equal under Compare may serialise differently: 1, 1.0, 1e0, -0)", fn, map[bool]string{true: "", false: "— but calls " + other + " "}[other == ""])
	}
	// interface == interface comparisons
	reviewed := map[string]string{
		"env.pathIntact":  "identity of the value navigated from (a scalar is the same value iff ==)",
		"funcContains":    "fallback for operands of differing dynamic type: `contains` is true only for identical scalars",
		"env.Next":        "label identity: e.v == label compares the int label stored by opforklabel",
		"updateObject":    "n == struct{}{}: the deletion marker",
		"updateArrayIndex": "n == struct{}{}: the deletion marker",
		"updateArraySlice": "n == struct{}{}: the deletion marker",
		"deleteEmpty":     "w == struct{}{}: the deletion marker",
		"funcMatch":       "testing == true: a flag passed as a JSON value",
		"funcOpAlt":       "l == nil || l == false: jq truthiness",
		"funcIsnan":       "v == nil",
	}
	constOperand := func(e ast.Expr) bool {
		e = unparen(e)
		if isNilIdent(e) {
			return true
		}
		if tv, ok := info.Types[e]; ok && tv.Value != nil {
			return true
		}
		if cl, ok := e.(*ast.CompositeLit); ok && len(cl.Elts) == 0 {
			if st, ok := info.TypeOf(cl).Underlying().(*types.Struct); ok && st.NumFields() == 0 {
				return true
			}
		}
		return false
	}
	nIface := 0
	for _, fd := range c.Decls(c.Gojq) {
		if c.PhysFile(fd.Pos()) == "parser.go" {
			continue
		}
		fn := declKey(fd)
		ast.Inspect(fd.Body, func(m ast.Node) bool {
			be, ok := m.(*ast.BinaryExpr)
			if !ok || (be.Op != token.EQL && be.Op != token.NEQ) {
				return true
			}
			tx, ty := info.TypeOf(be.X), info.TypeOf(be.Y)
			if tx == nil || ty == nil || !(isEmptyIface(tx) || isEmptyIface(ty)) {
				return true
			}
			nIface++
			if constOperand(be.X) || constOperand(be.Y) {
				return true // against nil / true / false / struct{}{}
			}
			// both operands are dynamic JSON values
			top := fn
			if why, ok := reviewed[top]; ok && (top == "env.pathIntact" || top == "funcContains" || top == "env.Next") {
				r.OK("ifaceeq:"+fn, be.Pos(), "reviewed identity test %s: %s", c.Src(be), why)
				return true
			}
			r.Bad("ifaceeq:"+fn, be.Pos(), "`%s` in %s compares two interface-typed JSON values with Go's ==: that is not jq's order (1 == 1.0 is false, []any panics); every comparison must go through Compare", c.Src(be), fn)
			return true
		})
	}
	r.OK("ifaceeq:census", token.NoPos, "%d ==/!= comparisons with an interface-typed operand examined in package gojq", nIface)
	// pointer identity shortcuts
	for _, fd := range c.Decls(c.Gojq) {
		if c.PhysFile(fd.Pos()) == "parser.go" {
			continue
		}
		fn := declKey(fd)
		ast.Inspect(fd.Body, func(m ast.Node) bool {
			switch x := m.(type) {
			case *ast.CallExpr:
				nm := calleeName(info, x)
				if nm == "reflect.Value.Pointer" || nm == "reflect.Value.UnsafePointer" || nm == "reflect.Value.UnsafeAddr" || strings.HasPrefix(nm, "unsafe.") {
					// containsSliceOf: the ownership test of the in-place slice update (does the replacement look back into the
					// array it is written into?) — an address-range test that decides where to write, never whether two values
					// are equal
					ok := strings.HasPrefix(fn, "allocator.") || fn == "env.pathIntact" || fn == "containsSliceOf"
					r.Check(ok, "identity:"+fn+":"+nm, x.Pos(), "%s in %s (pointer identity is allowed only in the allocator, its containsSliceOf test and pathIntact; an identity shortcut inside comparison treats aliased values of different length as equal)", nm, fn)
				}
				if nm == "reflect.DeepEqual" {
					r.Bad("deepequal:"+fn, x.Pos(), "reflect.DeepEqual in %s is not jq's equality", fn)
				}
			case *ast.BinaryExpr:
				if x.Op == token.EQL || x.Op == token.NEQ {
					isAddrOfElem := func(e ast.Expr) bool {
						u, ok := unparen(e).(*ast.UnaryExpr)
						if !ok || u.Op != token.AND {
							return false
						}
						_, ok = unparen(u.X).(*ast.IndexExpr)
						return ok
					}
					if isAddrOfElem(x.X) || isAddrOfElem(x.Y) {
						r.Bad("identity:"+fn+":&elem", x.Pos(), "`%s` in %s compares element addresses: slices sharing a backing array (.[:n] does not copy) would be judged by identity, not by value and length", c.Src(x), fn)
					}
				}
			}
			return true
		})
	}
}

func ruleC11Stable(c *Ctx, r *Rep) {
	n := 0
	for _, p := range []*packages.Package{c.Gojq} {
		info := p.TypesInfo
		for _, fd := range c.Decls(p) {
			ast.Inspect(fd.Body, func(m ast.Node) bool {
				call, ok := m.(*ast.CallExpr)
				if !ok {
					return true
				}
				nm := calleeName(info, call)
				// selection helpers whose tie-breaking is fixed by the library, not by jq: slices.MaxFunc returns the FIRST maximal
				// element, jq's max/max_by the LAST (and agrees with `sort | last`); with Compare as comparator, elements that
				// compare equal are still distinguishable (1 and 1.0, `1e2` and `100`)
				if nm == "slices.MaxFunc" { // slices.MinFunc returns the first minimal element, which is jq's min
					for _, a := range call.Args {
						if callsFunc(c, info, a, "gojq.Compare") != "" || strings.HasSuffix(c.Src(a), "Compare") {
							n++
							r.Bad(declKey(fd)+":"+nm, call.Pos(), "%s in %s selects an extreme with Compare: among elements that compare equal it returns the first, jq's max the last (max must agree with max_by(.) and sort|last); equal elements can differ in spelling (1, 1.0, 1e0)", nm, declKey(fd))
						}
					}
					return true
				}
				if !(strings.HasPrefix(nm, "sort.") || strings.HasPrefix(nm, "slices.Sort")) || strings.HasPrefix(nm, "sort.Search") {
					return true
				}
				usesCompare := false
				for _, a := range call.Args {
					if callsFunc(c, info, a, "gojq.Compare") != "" {
						usesCompare = true
					}
				}
				if !usesCompare {
					return true
				}
				n++
				stable := nm == "sort.SliceStable" || nm == "sort.Stable" || nm == "slices.SortStableFunc"
				r.Check(stable, declKey(fd)+":"+nm, call.Pos(), "%s in %s orders JSON values with Compare: %s (sort/sort_by/group_by/unique_by must be stable; Go's unstable sorts happen to be stable only up to 12 elements, which is why tests stay green)", nm, declKey(fd), map[bool]string{true: "stable API", false: "NOT a stable sort API"}[stable])
				return true
			})
		}
	}
	if n == 0 {
		r.Undecided("census", token.NoPos, "no sort with a Compare-based comparator found")
	}
}

func ruleC11Keys(c *Ctx, r *Rep) {
	type site struct {
		pkg *packages.Package
		fn  string
	}
	for _, s := range []site{{c.Gojq, "keys"}, {c.Gojq, "env.Next"}, {c.Gojq, "encoder.encodeObject"}, {c.Cli, "encoder.encodeObject"}} {
		info := s.pkg.TypesInfo
		fd := c.Decl(s.pkg, s.fn)
		key := s.pkg.Name + "." + s.fn
		if fd == nil {
			r.Undecided(key, token.NoPos, "not found")
			continue
		}
		found := false
		ast.Inspect(fd.Body, func(m ast.Node) bool {
			call, ok := m.(*ast.CallExpr)
			if !ok {
				return true
			}
			nm := calleeName(info, call)
			switch {
			case nm == "sort.Strings" || nm == "slices.Sort":
				found = true
				t := info.TypeOf(call.Args[0])
				r.Check(t != nil && t.String() == "[]string", key+":"+nm, call.Pos(), "%s sorts keys with %s on %s: native string order", key, nm, t)
			case nm == "sort.Slice" || nm == "sort.SliceStable" || nm == "slices.SortFunc" || nm == "slices.SortStableFunc":
				fl, ok := unparen(call.Args[len(call.Args)-1]).(*ast.FuncLit)
				if !ok {
					return true
				}
				found = true
				// the comparator is a single `a < b` (or cmp.Compare/strings.Compare) on string operands
				okc := false
				desc := c.Src(fl.Body)
				if len(fl.Body.List) == 1 {
					if rs, ok := fl.Body.List[0].(*ast.ReturnStmt); ok && len(rs.Results) == 1 {
						switch e := unparen(rs.Results[0]).(type) {
						case *ast.BinaryExpr:
							tx, ty := info.TypeOf(e.X), info.TypeOf(e.Y)
							hasCall := mentions(e, func(x ast.Expr) bool { _, ok := x.(*ast.CallExpr); return ok })
							if e.Op == token.LSS && tx != nil && ty != nil && tx.String() == "string" && ty.String() == "string" && !hasCall {
								okc = true
							}
						case *ast.CallExpr:
							cn := calleeName(info, e)
							if cn == "strings.Compare" || cn == "cmp.Compare" {
								okc = true
							}
						}
					}
				}
				r.Check(okc, key+":"+nm, call.Pos(), "%s orders object keys with comparator %s: %s", key, desc, map[bool]string{true: "native string order", false: "NOT plain `<` on strings (keys, iteration, Compare on objects and output must share one key order)"}[okc])
			}
			return true
		})
		if !found {
			r.Bad(key+":nosort", fd.Pos(), "%s no longer sorts the keys it collects", key)
		}
	}
}

func ruleC11TypeOrder(c *Ctx, r *Rep) {
	info := c.Gojq.TypesInfo
	fd := c.Decl(c.Gojq, "typeIndex")
	if fd == nil {
		r.Undecided("typeIndex", token.NoPos, "not found")
		return
	}
	var ts *ast.TypeSwitchStmt
	ast.Inspect(fd.Body, func(m ast.Node) bool {
		if x, ok := m.(*ast.TypeSwitchStmt); ok && ts == nil {
			ts = x
		}
		return true
	})
	if ts == nil {
		r.Undecided("typeIndex", fd.Pos(), "type switch not found")
		return
	}
	want := map[string][]int64{"default": {0}, "bool": {1, 2}, "int": {3}, "float64": {3}, "*math/big.Int": {3}, "encoding/json.Number": {3}, "string": {4}, "[]any": {5}, "map[string]any": {6}}
	seen := map[string]bool{}
	for _, s := range ts.Body.List {
		cc := s.(*ast.CaseClause)
		var rets []int64
		ast.Inspect(cc, func(m ast.Node) bool {
			if rs, ok := m.(*ast.ReturnStmt); ok && len(rs.Results) == 1 {
				if v, ok := constInt(info, rs.Results[0]); ok {
					rets = append(rets, v)
				}
			}
			return true
		})
		sort.Slice(rets, func(i, j int) bool { return rets[i] < rets[j] })
		names := []string{"default"}
		if cc.List != nil {
			names = nil
			for _, e := range cc.List {
				names = append(names, strings.ReplaceAll(info.TypeOf(e).String(), "interface {}", "any"))
			}
		}
		for _, nm := range names {
			seen[nm] = true
			w, ok := want[nm]
			eq := ok && len(w) == len(rets)
			for i := range w {
				if eq && w[i] != rets[i] {
					eq = false
				}
			}
			r.Check(eq, "typeIndex:"+nm, cc.Pos(), "typeIndex returns %v for %s (jq's order: %v)", rets, nm, w)
		}
	}
	for nm := range want {
		if !seen[nm] {
			r.Bad("typeIndex:"+nm, fd.Pos(), "typeIndex has no arm for %s", nm)
		}
	}
	// the bool arm: false → 1, true → 2
	okb := false
	ast.Inspect(ts, func(m ast.Node) bool {
		if ifs, ok := m.(*ast.IfStmt); ok {
			if u, ok := unparen(ifs.Cond).(*ast.UnaryExpr); ok && u.Op == token.NOT && len(ifs.Body.List) == 1 {
				if rs, ok := ifs.Body.List[0].(*ast.ReturnStmt); ok {
					if v, ok := constInt(info, rs.Results[0]); ok && v == 1 {
						okb = true
					}
				}
			}
		}
		return true
	})
	r.Check(okb, "typeIndex:false<true", fd.Pos(), "typeIndex maps false to 1 (and true to 2): %v", okb)
}

func ruleC11CmpCells(c *Ctx, r *Rep) {
	info := c.Gojq.TypesInfo
	fd := c.Decl(c.Gojq, "Compare")
	if fd == nil {
		r.Undecided("Compare", token.NoPos, "not found")
		return
	}
	var call *ast.CallExpr
	ast.Inspect(fd.Body, func(m ast.Node) bool {
		if x, ok := m.(*ast.CallExpr); ok && call == nil && strings.HasPrefix(calleeName(info, x), "gojq.binopTypeSwitch") {
			call = x
		}
		return true
	})
	if call == nil || len(call.Args) != 9 {
		r.Undecided("Compare", fd.Pos(), "call to binopTypeSwitch with 9 arguments not found")
		return
	}
	name := func(e ast.Expr) string {
		switch x := unparen(e).(type) {
		case *ast.SelectorExpr:
			if o, ok := info.Uses[x.Sel]; ok {
				return objName(o)
			}
		case *ast.IndexExpr:
			if s, ok := x.X.(*ast.SelectorExpr); ok {
				return objName(info.Uses[s.Sel])
			}
		}
		return c.Src(e)
	}
	ints, bigs, strs := name(call.Args[2]), name(call.Args[4]), name(call.Args[5])
	r.Check(ints == "cmp.Compare", "ints", call.Args[2].Pos(), "int × int is compared with %s (exact)", ints)
	r.Check(bigs == "big.Int.Cmp", "bigs", call.Args[4].Pos(), "big × big is compared with %s (exact)", bigs)
	r.Check(strs == "cmp.Compare", "strings", call.Args[5].Pos(), "string × string is compared with %s (byte order = code point order for UTF-8)", strs)
}
