package main

import (
	"go/ast"
	"go/token"
	"go/types"
	"strings"

	"golang.org/x/tools/go/cfg"
)

func init() {
	regProp(&PropInfo{
		ID:    "C07",
		Title: "Cancellation is prompt, prefix-consistent and terminal",
		Decided: "in (*env).Next every cycle that fetches an instruction contains the context poll and no instruction is dispatched after a fetch without passing it (R-C07-poll); the poll's ready arm stores len(env.codes) to pc, drops the fork stack and returns (ctx.Err(), true), its default arm is empty, and the run state is only changed there (R-C07-cancel-terminal); " +
			"the resumption state (env.pc, env.backtrack) is saved on every return (R-C07-resume); every `return nil,false` is reached with the saved pc at or past the end of the code, so exhaustion is sticky (R-C07-exhaust-terminal); in clauses without a backtrack guard every error exit is stack-neutral or has pushed a fork, so the iterator can be advanced after an emitted error (R-C07-errexit); " +
			"argument-count and compile errors are one-shot iterators and unitIter/sliceIter/emptyIter are terminal (R-C07-oneshot).",
		NotCovered: "how many VM steps a single native may take (one instruction = one poll); re-entry at a guarded handler after an error (run-time depth argument); equality of the emitted prefix (follows from the poll being the only place a context acts, which is what R-C07-cancel-terminal decides).",
	})
	reg(&Rule{ID: "R-C07-poll", Props: []string{"C07"}, Floor: 3,
		Doc: "every CFG cycle of (*env).Next containing an instruction fetch contains the ctx.Done() poll, and no path leads from a fetch to the dispatch switch without it",
		Run: ruleC07Poll})
	reg(&Rule{ID: "R-C07-cancel-terminal", Props: []string{"C07"}, Floor: 4,
		Doc: "the ready arm of the poll sets pc past the end, clears the forks and returns (ctx.Err(), true); the default arm is empty; hasCtx is false only for context.Background()",
		Run: ruleC07CancelTerminal})
	reg(&Rule{ID: "R-C07-resume", Props: []string{"C07"}, Floor: 2,
		Doc: "the resumption state env.pc/env.backtrack is saved on every return of Next (deferred save, or a save immediately before each return)",
		Run: ruleC07Resume})
	reg(&Rule{ID: "R-C07-exhaust-terminal", Props: []string{"C07", "C08"}, Floor: 1,
		Doc: "every `return nil, false` of Next is preceded by pc = len(env.codes) (exhaustion is terminal: a further Next executes no handler)",
		Run: ruleC07Exhaust})
	reg(&Rule{ID: "R-C07-errexit", Props: []string{"C07", "C08"}, Floor: 1,
		Doc: "in every dispatch clause without a backtrack guard, each path that sets a non-nil err and leaves the loop is stack-neutral or has pushed a fork",
		Run: ruleC07ErrExit})
	reg(&Rule{ID: "R-C07-oneshot", Props: []string{"C07"}, Floor: 5,
		Doc: "iterators of iter.go are terminal (value paths consume receiver state; false paths are sticky); (*Query).RunWithContext turns a compile error into NewIter(err)",
		Run: ruleC07OneShot})
}

// isEnvField reports whether e is `<env>.name`.
func isEnvField(info *types.Info, e ast.Expr, name string) bool {
	f, ok := selectorOn(info, e, "env")
	return ok && f == name
}

func isLenEnvCodes(info *types.Info, e ast.Expr) bool {
	call, ok := unparen(e).(*ast.CallExpr)
	if !ok || len(call.Args) != 1 {
		return false
	}
	id, ok := call.Fun.(*ast.Ident)
	if !ok || id.Name != "len" || info.Uses[id] != types.Universe.Lookup("len") {
		return false
	}
	return isEnvField(info, call.Args[0], "codes")
}

type pollModel struct {
	ifStmt   *ast.IfStmt
	sel      *ast.SelectStmt
	ready    *ast.CommClause
	deflt    *ast.CommClause
}

func findPoll(vm *VM) *pollModel {
	info := vm.info
	var pm *pollModel
	ast.Inspect(vm.Loop.Body, func(n ast.Node) bool {
		if _, ok := n.(*ast.FuncLit); ok {
			return false
		}
		sel, ok := n.(*ast.SelectStmt)
		if !ok || pm != nil {
			return true
		}
		m := &pollModel{sel: sel}
		for _, s := range sel.Body.List {
			cc := s.(*ast.CommClause)
			if cc.Comm == nil {
				m.deflt = cc
				continue
			}
			var recv ast.Expr
			switch c := cc.Comm.(type) {
			case *ast.ExprStmt:
				recv = c.X
			case *ast.AssignStmt:
				if len(c.Rhs) == 1 {
					recv = c.Rhs[0]
				}
			}
			if u, ok := unparen(recv).(*ast.UnaryExpr); ok && u.Op == token.ARROW {
				if call, ok := unparen(u.X).(*ast.CallExpr); ok {
					if sel2, ok := call.Fun.(*ast.SelectorExpr); ok && sel2.Sel.Name == "Done" && isEnvField(info, sel2.X, "ctx") {
						m.ready = cc
					}
				}
			}
		}
		if m.ready != nil {
			pm = m
		}
		return true
	})
	if pm == nil {
		return nil
	}
	// enclosing if hasCtx
	walkStack(vm.Loop.Body, func(n ast.Node, stack []ast.Node) bool {
		if n == pm.sel {
			for i := len(stack) - 1; i >= 0; i-- {
				if ifs, ok := stack[i].(*ast.IfStmt); ok {
					pm.ifStmt = ifs
					break
				}
			}
		}
		return true
	})
	return pm
}

func ruleC07Poll(c *Ctx, r *Rep) {
	vm := getVM(c)
	if vm.Err != "" {
		r.Undecided("vm-model", token.NoPos, "%s", vm.Err)
		return
	}
	info := vm.info
	pm := findPoll(vm)
	if pm == nil {
		r.Bad("poll", vm.Loop.Pos(), "no non-blocking receive on env.ctx.Done() inside the interpreter loop: a cancelled context is never observed")
		return
	}
	g := cfg.New(vm.Next.Body, func(call *ast.CallExpr) bool {
		if id, ok := call.Fun.(*ast.Ident); ok && id.Name == "panic" {
			return false
		}
		return true
	})
	contains := func(b *cfg.Block, pred func(ast.Node) bool) bool {
		for _, n := range b.Nodes {
			found := false
			ast.Inspect(n, func(m ast.Node) bool {
				if _, ok := m.(*ast.FuncLit); ok {
					return false
				}
				if m != nil && pred(m) {
					found = true
				}
				return !found
			})
			if found {
				return true
			}
		}
		return false
	}
	isFetch := func(n ast.Node) bool {
		ix, ok := n.(*ast.IndexExpr)
		return ok && isEnvField(info, ix.X, "codes")
	}
	var fetchBlocks, pollBlocks, switchBlocks []*cfg.Block
	for _, b := range g.Blocks {
		if !b.Live {
			continue
		}
		if contains(b, isFetch) {
			fetchBlocks = append(fetchBlocks, b)
		}
		// the poll block: holds the receive expression of the ready arm, or the guarding condition
		if contains(b, func(n ast.Node) bool {
			if pm.ifStmt != nil && n == ast.Node(pm.ifStmt.Cond) {
				return true
			}
			u, ok := n.(*ast.UnaryExpr)
			return ok && u.Op == token.ARROW && pm.ready != nil && u.Pos() >= pm.ready.Pos() && u.End() <= pm.ready.End()
		}) {
			pollBlocks = append(pollBlocks, b)
		}
		if contains(b, func(n ast.Node) bool { return n == ast.Node(vm.Sw.Tag) }) {
			switchBlocks = append(switchBlocks, b)
		}
	}
	if len(fetchBlocks) == 0 || len(pollBlocks) == 0 || len(switchBlocks) == 0 {
		r.Undecided("cfg", vm.Next.Pos(), "could not locate fetch (%d), poll (%d) or dispatch (%d) blocks in the CFG", len(fetchBlocks), len(pollBlocks), len(switchBlocks))
		return
	}
	isPoll := map[*cfg.Block]bool{}
	for _, b := range pollBlocks {
		isPoll[b] = true
	}
	// reach(from) in the CFG with poll blocks removed
	reach := func(from *cfg.Block) map[*cfg.Block]bool {
		seen := map[*cfg.Block]bool{}
		var st []*cfg.Block
		for _, s := range from.Succs {
			st = append(st, s)
		}
		for len(st) > 0 {
			b := st[len(st)-1]
			st = st[:len(st)-1]
			if seen[b] || isPoll[b] {
				continue
			}
			seen[b] = true
			st = append(st, b.Succs...)
		}
		return seen
	}
	for i, fb := range fetchBlocks {
		pos := token.NoPos
		for _, n := range fb.Nodes {
			ast.Inspect(n, func(m ast.Node) bool {
				if m != nil && isFetch(m) && pos == token.NoPos {
					pos = m.Pos()
				}
				return true
			})
		}
		if isPoll[fb] {
			// fetch and poll condition in the same block: the order inside the block is irrelevant for the cycle rule
			r.OK("fetch#"+string(rune('1'+i))+":cycle", pos, "instruction fetch %s and the poll share a basic block: every cycle through the fetch passes the poll", c.Pos(pos))
			r.OK("fetch#"+string(rune('1'+i))+":dispatch", pos, "instruction fetch %s and the poll share a basic block: the dispatch switch is only reached through it", c.Pos(pos))
			continue
		}
		rs := reach(fb)
		r.Check(!rs[fb], "fetch#"+string(rune('1'+i))+":cycle", pos, "instruction fetch %s: every cycle through it passes the ctx.Done() poll", c.Pos(pos))
		toSwitch := false
		for _, sb := range switchBlocks {
			if rs[sb] || sb == fb {
				toSwitch = true
			}
		}
		r.Check(!toSwitch, "fetch#"+string(rune('1'+i))+":dispatch", pos, "no path from instruction fetch %s to the dispatch switch avoids the ctx.Done() poll", c.Pos(pos))
	}
	// the poll is guarded by hasCtx only
	if pm.ifStmt == nil {
		r.OK("poll:guard", pm.sel.Pos(), "poll is unconditional")
	} else {
		r.Check(vm.isVar(pm.ifStmt.Cond, "hasCtx") && pm.ifStmt.Else == nil, "poll:guard", pm.ifStmt.Pos(), "poll is guarded by `%s` (accepted: hasCtx alone)", c.Src(pm.ifStmt.Cond))
	}
}

func ruleC07CancelTerminal(c *Ctx, r *Rep) {
	vm := getVM(c)
	if vm.Err != "" {
		r.Undecided("vm-model", token.NoPos, "%s", vm.Err)
		return
	}
	info := vm.info
	pm := findPoll(vm)
	if pm == nil {
		r.Undecided("poll", vm.Loop.Pos(), "poll not found (reported by R-C07-poll)")
		return
	}
	var setsPC, clearsForks, returnsErr bool
	var otherEffects []string
	for _, s := range pm.ready.Body {
		switch x := s.(type) {
		case *ast.AssignStmt:
			for i, l := range x.Lhs {
				var rhs ast.Expr
				if len(x.Rhs) == len(x.Lhs) {
					rhs = x.Rhs[i]
				}
				switch {
				case vm.isVar(l, "pc") && rhs != nil && isLenEnvCodes(info, rhs):
					setsPC = true
				case isEnvField(info, l, "pc") && rhs != nil && isLenEnvCodes(info, rhs) && !hasDeferredSave(vm):
					setsPC = true // saved directly; valid only when no deferred save overwrites it
				case isEnvField(info, l, "forks") && rhs != nil && isNilIdent(rhs):
					clearsForks = true
				default:
					otherEffects = append(otherEffects, c.Src(x))
				}
			}
		case *ast.ReturnStmt:
			if len(x.Results) == 2 {
				if tv, ok := info.Types[x.Results[1]]; ok && tv.Value != nil && tv.Value.String() == "true" {
					if call, ok := unparen(x.Results[0]).(*ast.CallExpr); ok {
						if sel, ok := call.Fun.(*ast.SelectorExpr); ok && sel.Sel.Name == "Err" && isEnvField(info, sel.X, "ctx") {
							returnsErr = true
						}
					}
				}
			}
		default:
			otherEffects = append(otherEffects, c.Src(s))
		}
	}
	r.Check(setsPC, "ready:pc", pm.ready.Pos(), "ready arm assigns pc = len(env.codes): %v (the iterator is exhausted after cancellation)", setsPC)
	r.Check(clearsForks, "ready:forks", pm.ready.Pos(), "ready arm assigns env.forks = nil: %v (no pending alternative survives cancellation)", clearsForks)
	r.Check(returnsErr, "ready:return", pm.ready.Pos(), "ready arm returns (env.ctx.Err(), true): %v", returnsErr)
	r.Check(len(otherEffects) == 0, "ready:effects", pm.ready.Pos(), "ready arm has no other effect %v", otherEffects)
	if pm.deflt == nil {
		r.Bad("default", pm.sel.Pos(), "the poll has no default arm: it blocks until the context is cancelled")
	} else {
		r.Check(len(pm.deflt.Body) == 0, "default", pm.deflt.Pos(), "default arm of the poll is empty (a live context changes nothing)")
	}
	// hasCtx := env.ctx != context.Background()
	okDef := false
	ast.Inspect(vm.Next.Body, func(n ast.Node) bool {
		as, ok := n.(*ast.AssignStmt)
		if !ok || as.Pos() > vm.Loop.Pos() {
			return true
		}
		for i, l := range as.Lhs {
			if id, ok := l.(*ast.Ident); ok && info.Defs[id] == vm.Vars["hasCtx"] && vm.Vars["hasCtx"] != nil && i < len(as.Rhs) {
				if be, ok := unparen(as.Rhs[i]).(*ast.BinaryExpr); ok && be.Op == token.NEQ && isEnvField(info, be.X, "ctx") {
					if call, ok := unparen(be.Y).(*ast.CallExpr); ok && calleeName(info, call) == "context.Background" {
						okDef = true
					}
				}
			}
		}
		return true
	})
	if pm.ifStmt != nil {
		r.Check(okDef, "hasCtx", vm.Next.Pos(), "hasCtx is defined as env.ctx != context.Background(): %v (the poll is skipped only for the never-cancelled background context)", okDef)
	}
}

// stmtListOf returns the statement list that directly contains s, and its index.
func stmtListOf(root ast.Node, s ast.Stmt) ([]ast.Stmt, int) {
	var list []ast.Stmt
	idx := -1
	ast.Inspect(root, func(n ast.Node) bool {
		var l []ast.Stmt
		switch x := n.(type) {
		case *ast.BlockStmt:
			l = x.List
		case *ast.CaseClause:
			l = x.Body
		case *ast.CommClause:
			l = x.Body
		}
		for i, st := range l {
			if st == s {
				list, idx = l, i
			}
		}
		return idx < 0
	})
	return list, idx
}

func nextReturns(vm *VM) []*ast.ReturnStmt {
	var out []*ast.ReturnStmt
	ast.Inspect(vm.Next.Body, func(n ast.Node) bool {
		if _, ok := n.(*ast.FuncLit); ok {
			return false
		}
		if rs, ok := n.(*ast.ReturnStmt); ok {
			out = append(out, rs)
		}
		return true
	})
	return out
}

func ruleC07Resume(c *Ctx, r *Rep) {
	vm := getVM(c)
	if vm.Err != "" {
		r.Undecided("vm-model", token.NoPos, "%s", vm.Err)
		return
	}
	info := vm.info
	assignsEnvPC := func(n ast.Node) (pc, bt bool) {
		ast.Inspect(n, func(m ast.Node) bool {
			if as, ok := m.(*ast.AssignStmt); ok {
				for i, l := range as.Lhs {
					if isEnvField(info, l, "pc") && len(as.Rhs) == len(as.Lhs) && vm.isVar(as.Rhs[i], "pc") {
						pc = true
					}
					if isEnvField(info, l, "backtrack") {
						bt = true
					}
				}
			}
			return true
		})
		return
	}
	// deferred save at the top level of the body, before the loop
	deferred := false
	for _, s := range vm.Next.Body.List {
		if s.Pos() > vm.Loop.Pos() {
			break
		}
		if d, ok := s.(*ast.DeferStmt); ok {
			if fl, ok := d.Call.Fun.(*ast.FuncLit); ok {
				if pc, bt := assignsEnvPC(fl.Body); pc && bt {
					deferred = true
				}
			}
		}
	}
	// entry restores
	entry := false
	ast.Inspect(vm.Next.Body, func(n ast.Node) bool {
		if as, ok := n.(*ast.AssignStmt); ok && as.Pos() < vm.Loop.Pos() {
			for i, l := range as.Lhs {
				if id, ok := l.(*ast.Ident); ok && info.Defs[id] == vm.Vars["pc"] && i < len(as.Rhs) && isEnvField(info, as.Rhs[i], "pc") {
					entry = true
				}
			}
		}
		return true
	})
	r.Check(entry, "entry", vm.Next.Pos(), "Next resumes from env.pc on entry: %v", entry)
	rets := nextReturns(vm)
	if deferred {
		r.OK("deferred-save", vm.Next.Pos(), "a deferred closure saves env.pc and env.backtrack on every return (%d return statements)", len(rets))
		return
	}
	for _, rs := range rets {
		list, idx := stmtListOf(vm.Next.Body, rs)
		saved := false
		for i := idx - 1; i >= 0; i-- {
			as, direct := list[i].(*ast.AssignStmt)
			if !direct {
				break
			}
			for _, l := range as.Lhs {
				if isEnvField(info, l, "pc") {
					saved = true
				}
			}
			if saved {
				break
			}
		}
		r.Check(saved, "return:"+c.Src(rs), rs.Pos(), "%s: env.pc saved immediately before: %v (without it the next call to Next resumes from a stale pc)", c.Src(rs), saved)
	}
}

func ruleC07Exhaust(c *Ctx, r *Rep) {
	vm := getVM(c)
	if vm.Err != "" {
		r.Undecided("vm-model", token.NoPos, "%s", vm.Err)
		return
	}
	info := vm.info
	n := 0
	for _, rs := range nextReturns(vm) {
		if len(rs.Results) != 2 {
			continue
		}
		tv, ok := info.Types[rs.Results[1]]
		if ok && tv.Value != nil && tv.Value.String() == "true" {
			continue // a value or an error is delivered
		}
		if !ok || tv.Value == nil {
			// a computed second result (`return err, err != nil`): it is false on some path, and that path has no
			// statement of its own in which pc could be parked
			n++
			parked := false
			if list, idx := stmtListOf(vm.Next.Body, rs); idx > 0 {
				// accepted: the statement before is `if err == nil { pc = len(env.codes) }`
				if ifs, ok := list[idx-1].(*ast.IfStmt); ok && ifs.Else == nil && strings.Contains(c.Src(ifs.Cond), "err == nil") {
					for _, st := range ifs.Body.List {
						if as, ok := st.(*ast.AssignStmt); ok && len(as.Lhs) == 1 && len(as.Rhs) == 1 && vm.isVar(as.Lhs[0], "pc") && isLenEnvCodes(info, as.Rhs[0]) {
							parked = true
						}
					}
				}
			}
			if parked {
				r.OK("return-false", rs.Pos(), "`%s`: pc is parked under `err == nil` immediately before", c.Src(rs))
				continue
			}
			r.Bad("return-false", rs.Pos(), "`%s` reports exhaustion through a computed result: on the path where it is false nothing assigns pc = len(env.codes), so a further call re-enters the handler that backtracked last (`[] | .[]`, Next twice after false → index out of range)", c.Src(rs))
			continue
		}
		n++
		list, idx := stmtListOf(vm.Next.Body, rs)
		terminal := false
		for i := idx - 1; i >= 0 && !terminal; i-- {
			stop := false
			ast.Inspect(list[i], func(m ast.Node) bool {
				if as, ok := m.(*ast.AssignStmt); ok {
					for j, l := range as.Lhs {
						if vm.isVar(l, "pc") {
							if len(as.Rhs) == len(as.Lhs) && isLenEnvCodes(info, as.Rhs[j]) {
								if _, direct := list[i].(*ast.AssignStmt); direct {
									terminal = true
								}
							} else {
								stop = true
							}
						}
					}
				}
				return true
			})
			if stop {
				break
			}
		}
		r.Check(terminal, "return-false", rs.Pos(),
			"`%s` %s preceded by pc = len(env.codes): after Next has reported exhaustion a further call must execute no handler (today the saved pc still points at the handler that backtracked last, e.g. opiter or opforklabel, which pops an empty stack: `[] | .[]`, Next twice after false → index out of range)",
			c.Src(rs), map[bool]string{true: "is", false: "is NOT"}[terminal])
	}
	if n == 0 {
		r.Undecided("return-false", vm.Next.Pos(), "Next has no `return _, false`")
	}
}

func ruleC07ErrExit(c *Ctx, r *Rep) {
	vm := getVM(c)
	if vm.Err != "" {
		r.Undecided("vm-model", token.NoPos, "%s", vm.Err)
		return
	}
	unguarded := 0
	for _, cl := range vm.Clauses {
		if cl.Guarded {
			continue
		}
		unguarded++
		name := strings.Join(cl.Ops, ",")
		nerr := 0
		for _, e := range cl.Paths {
			if e.kind != "break "+vm.Label || !e.st.errSet {
				continue
			}
			nerr++
			ok := e.st.net == 0 || e.st.forked
			r.Check(ok, "clause:"+name+":errexit", e.pos,
				"error exit of unguarded clause %s at %s: net stack effect %d, fork pushed %v (trace: %s) — the clause is re-entered on the next call to Next and pops again; a non-neutral exit leaves the stack one short (`path([1,2] | .[])`: error, then Next panics)",
				name, c.Pos(e.pos), e.st.net, e.st.forked, strings.Join(e.st.trace, " "))
		}
		if nerr == 0 {
			r.OK("clause:"+name, cl.CC.Pos(), "unguarded clause %s has no error exit", name)
		}
	}
	if unguarded == 0 {
		r.Undecided("clauses", vm.Sw.Pos(), "no unguarded clause found")
	}
}

func ruleC07OneShot(c *Ctx, r *Rep) {
	info := c.Gojq.TypesInfo
	n := 0
	for _, fd := range c.Decls(c.Gojq) {
		if fd.Name.Name != "Next" || fd.Recv == nil || c.PhysFile(fd.Pos()) != "iter.go" {
			continue
		}
		n++
		recvName := ""
		if len(fd.Recv.List[0].Names) > 0 {
			recvName = fd.Recv.List[0].Names[0].Name
		}
		var recvObj types.Object
		if recvName != "" && recvName != "_" {
			recvObj = info.Defs[fd.Recv.List[0].Names[0]]
		}
		usesRecv := func(n ast.Node) bool {
			found := false
			ast.Inspect(n, func(m ast.Node) bool {
				if id, ok := m.(*ast.Ident); ok && recvObj != nil && info.Uses[id] == recvObj {
					found = true
				}
				return !found
			})
			return found
		}
		key := declKey(fd)
		var trueRets, falseRets []*ast.ReturnStmt
		ast.Inspect(fd.Body, func(m ast.Node) bool {
			if rs, ok := m.(*ast.ReturnStmt); ok && len(rs.Results) == 2 {
				if tv, ok := info.Types[rs.Results[1]]; ok && tv.Value != nil {
					if tv.Value.String() == "true" {
						trueRets = append(trueRets, rs)
					} else {
						falseRets = append(falseRets, rs)
					}
				} else {
					trueRets = append(trueRets, rs) // non-constant ok: treat as a value path
				}
			}
			return true
		})
		r.Check(len(falseRets) > 0, key+":terminates", fd.Pos(), "%s has %d exhausted-return(s)", key, len(falseRets))
		for _, rs := range trueRets {
			list, idx := stmtListOf(fd.Body, rs)
			consumes := false
			for i := idx - 1; i >= 0; i-- {
				if as, ok := list[i].(*ast.AssignStmt); ok {
					for _, l := range as.Lhs {
						if usesRecv(l) {
							consumes = true
						}
					}
				}
			}
			r.Check(consumes, key+":value-path", rs.Pos(), "%s: the path returning a value first consumes receiver state (done flag / shrinking slice): %v — otherwise the same value is produced forever", key, consumes)
		}
		// the false path must depend on receiver state (sticky) unless there is no value path at all
		if len(trueRets) > 0 {
			sticky := false
			ast.Inspect(fd.Body, func(m ast.Node) bool {
				if ifs, ok := m.(*ast.IfStmt); ok && usesRecv(ifs.Cond) {
					for _, s := range ifs.Body.List {
						for _, fr := range falseRets {
							if s == ast.Stmt(fr) {
								sticky = true
							}
						}
					}
				}
				return true
			})
			r.Check(sticky, key+":sticky", fd.Pos(), "%s: the exhausted-return is taken on a test of the receiver state the value path sets: %v", key, sticky)
		}
	}
	if n < 3 {
		r.Undecided("iter.go", token.NoPos, "expected the Next methods of emptyIter, unitIter and sliceIter in iter.go, found %d", n)
	}
	// (*Query).RunWithContext: compile error → NewIter(err)
	if fd := c.Decl(c.Gojq, "Query.RunWithContext"); fd != nil {
		ok := false
		ast.Inspect(fd.Body, func(m ast.Node) bool {
			if ifs, ok2 := m.(*ast.IfStmt); ok2 {
				if be, ok3 := ifs.Cond.(*ast.BinaryExpr); ok3 && be.Op == token.NEQ && isNilIdent(be.Y) {
					for _, s := range ifs.Body.List {
						if rs, ok4 := s.(*ast.ReturnStmt); ok4 && len(rs.Results) == 1 {
							if call, ok5 := unparen(rs.Results[0]).(*ast.CallExpr); ok5 && calleeName(info, call) == "gojq.NewIter" && len(call.Args) == 1 && sameObj(info, call.Args[0], be.X) {
								ok = true
							}
						}
					}
				}
			}
			return true
		})
		r.Check(ok, "Query.RunWithContext:compile-error", fd.Pos(), "a compile error is returned as the one-shot iterator NewIter(err): %v", ok)
	} else {
		r.Undecided("Query.RunWithContext", token.NoPos, "not found")
	}
}

func hasDeferredSave(vm *VM) bool {
	for _, s := range vm.Next.Body.List {
		if s.Pos() > vm.Loop.Pos() {
			break
		}
		if d, ok := s.(*ast.DeferStmt); ok {
			if fl, ok := d.Call.Fun.(*ast.FuncLit); ok {
				found := false
				ast.Inspect(fl.Body, func(m ast.Node) bool {
					if as, ok := m.(*ast.AssignStmt); ok {
						for _, l := range as.Lhs {
							if isEnvField(vm.info, l, "pc") {
								found = true
							}
						}
					}
					return true
				})
				if found {
					return true
				}
			}
		}
	}
	return false
}
