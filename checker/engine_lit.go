package main

// Engine LIT: evaluates the composite literal assigned to builtinFuncDefs in builtin.go into a generic AST,
// prints it as a jq token list, tokenizes builtin.jq with an independent tokenizer, and checks canonical form.
// No gojq code is run or imported.

import (
	"fmt"
	"go/ast"
	"go/token"
	"strconv"
	"strings"
)



type litNode struct {
	typ    string
	fields map[string]any // *litNode, []any, string, bool
}

var litStructs = map[string]map[string]ast.Expr{} // struct name -> field -> type expr
var _ = token.NoPos

func litLoadStructs(files []*ast.File) {
	litStructs = map[string]map[string]ast.Expr{}
	for _, f := range files {
		for _, d := range f.Decls {
			gd, ok := d.(*ast.GenDecl)
			if !ok {
				continue
			}
			for _, sp := range gd.Specs {
				ts, ok := sp.(*ast.TypeSpec)
				if !ok {
					continue
				}
				st, ok := ts.Type.(*ast.StructType)
				if !ok {
					continue
				}
				m := map[string]ast.Expr{}
				for _, fl := range st.Fields.List {
					for _, n := range fl.Names {
						m[n.Name] = fl.Type
					}
				}
				litStructs[ts.Name.Name] = m
			}
		}
	}
}

func litDeref(t ast.Expr) ast.Expr {
	if s, ok := t.(*ast.StarExpr); ok {
		return s.X
	}
	return t
}

func litEval(e ast.Expr, expected ast.Expr) any {
	switch e := e.(type) {
	case *ast.UnaryExpr:
		if e.Op == token.AND {
			return litEval(e.X, expected)
		}
	case *ast.BasicLit:
		if e.Kind == token.STRING {
			s, err := strconv.Unquote(e.Value)
			if err != nil {
				panic(err)
			}
			return s
		}
		return e.Value
	case *ast.Ident:
		switch e.Name {
		case "true":
			return true
		case "false":
			return false
		case "nil":
			return nil
		}
		return "const:" + e.Name
	case *ast.CompositeLit:
		t := e.Type
		if t == nil {
			t = litDeref(expected)
		}
		switch t := t.(type) {
		case *ast.ArrayType:
			var xs []any
			for _, el := range e.Elts {
				xs = append(xs, litEval(el, t.Elt))
			}
			if xs == nil {
				xs = []any{}
			}
			return xs
		case *ast.MapType:
			m := &litNode{typ: "map", fields: map[string]any{}}
			for _, el := range e.Elts {
				kv := el.(*ast.KeyValueExpr)
				k := litEval(kv.Key, nil).(string)
				m.fields[k] = litEval(kv.Value, t.Value)
			}
			return m
		case *ast.Ident:
			st, ok := litStructs[t.Name]
			if !ok {
				panic("unknown struct " + t.Name)
			}
			n := &litNode{typ: t.Name, fields: map[string]any{}}
			for _, el := range e.Elts {
				kv, ok := el.(*ast.KeyValueExpr)
				if !ok {
					panic("positional struct literal in " + t.Name)
				}
				fname := kv.Key.(*ast.Ident).Name
				n.fields[fname] = litEval(kv.Value, st[fname])
			}
			return n
		}
	}
	panic(fmt.Sprintf("cannot evaluate %T", e))
}

// ---------- jqPrinter: AST -> tokens ----------

type jqTok struct {
	kind string // id, var, num, nStr, fmt, op, field
	text string
}

type jqPrinter struct{ out []jqTok }

func (p *jqPrinter) op(s string)            { p.out = append(p.out, jqTok{"op", s}) }
func (p *jqPrinter) add(kind, s string)     { p.out = append(p.out, jqTok{kind, s}) }
func nStr(n *litNode, f string) string {
	if v, ok := n.fields[f]; ok && v != nil {
		return v.(string)
	}
	return ""
}
func nSub(n *litNode, f string) *litNode {
	if v, ok := n.fields[f]; ok && v != nil {
		return v.(*litNode)
	}
	return nil
}
func nList(n *litNode, f string) []any {
	if v, ok := n.fields[f]; ok && v != nil {
		return v.([]any)
	}
	return nil
}

var litOpText = map[string]string{"OpPipe": "|", "OpComma": ",", "OpAdd": "+", "OpSub": "-", "OpMul": "*", "OpDiv": "/", "OpMod": "%",
	"OpEq": "==", "OpNe": "!=", "OpGt": ">", "OpLt": "<", "OpGe": ">=", "OpLe": "<=", "OpAnd": "and", "OpOr": "or", "OpAlt": "//",
	"OpAssign": "=", "OpModify": "|=", "OpUpdateAdd": "+=", "OpUpdateSub": "-=", "OpUpdateMul": "*=", "OpUpdateDiv": "/=", "OpUpdateMod": "%=", "OpUpdateAlt": "//="}

func (p *jqPrinter) ident(s string) {
	switch {
	case strings.HasPrefix(s, "$"):
		p.add("var", s)
	default:
		p.add("id", s)
	}
}

func (p *jqPrinter) funcdef(n *litNode) {
	p.add("id", "def")
	p.add("id", nStr(n, "Name"))
	if args := nList(n, "Args"); len(args) > 0 {
		p.op("(")
		for i, a := range args {
			if i > 0 {
				p.op(";")
			}
			p.ident(a.(string))
		}
		p.op(")")
	}
	p.op(":")
	p.query(nSub(n, "Body"))
	p.op(";")
}

func (p *jqPrinter) query(n *litNode) {
	for _, fd := range nList(n, "FuncDefs") {
		p.funcdef(fd.(*litNode))
	}
	if t := nSub(n, "Term"); t != nil {
		p.term(t)
		return
	}
	p.query(nSub(n, "Left"))
	for i, pat := range nList(n, "Patterns") {
		if i == 0 {
			p.add("id", "as")
		} else {
			p.op("?//")
		}
		p.pattern(pat.(*litNode))
	}
	o := strings.TrimPrefix(nStr(n, "Op"), "const:")
	txt, ok := litOpText[o]
	if !ok {
		panic("op " + o)
	}
	if txt == "and" || txt == "or" {
		p.add("id", txt)
	} else {
		p.op(txt)
	}
	p.query(nSub(n, "Right"))
}

func (p *jqPrinter) pattern(n *litNode) {
	if s := nStr(n, "Name"); s != "" {
		p.add("var", s)
	} else if xs := nList(n, "Array"); len(xs) > 0 {
		p.op("[")
		for i, x := range xs {
			if i > 0 {
				p.op(",")
			}
			p.pattern(x.(*litNode))
		}
		p.op("]")
	} else {
		p.op("{")
		for i, x := range nList(n, "Object") {
			if i > 0 {
				p.op(",")
			}
			o := x.(*litNode)
			if k := nStr(o, "Key"); k != "" {
				p.ident(k)
			} else if ks := nSub(o, "KeyString"); ks != nil {
				p.string(ks)
			} else if kq := nSub(o, "KeyQuery"); kq != nil {
				p.op("(")
				p.query(kq)
				p.op(")")
			}
			if v := nSub(o, "Val"); v != nil {
				p.op(":")
				p.pattern(v)
			}
		}
		p.op("}")
	}
}

func (p *jqPrinter) string(n *litNode) {
	if qs := nList(n, "Queries"); qs != nil {
		panic("interpolated string in builtins: extend prototype")
	}
	p.add("str", nStr(n, "Str"))
}

func (p *jqPrinter) index(n *litNode, leadingDot bool) {
	if s := nStr(n, "Name"); s != "" {
		p.add("field", "."+s)
		return
	}
	if s := nSub(n, "Str"); s != nil {
		p.op(".")
		p.string(s)
		return
	}
	if leadingDot {
		p.op(".")
	}
	p.op("[")
	if n.fields["IsSlice"] == true {
		if s := nSub(n, "Start"); s != nil {
			p.query(s)
		}
		p.op(":")
		if e := nSub(n, "End"); e != nil {
			p.query(e)
		}
	} else {
		p.query(nSub(n, "Start"))
	}
	p.op("]")
}

func (p *jqPrinter) term(n *litNode) {
	switch strings.TrimPrefix(nStr(n, "Type"), "const:") {
	case "TermTypeIdentity":
		p.op(".")
	case "TermTypeRecurse":
		p.op("..")
	case "TermTypeNull":
		p.add("id", "null")
	case "TermTypeTrue":
		p.add("id", "true")
	case "TermTypeFalse":
		p.add("id", "false")
	case "TermTypeIndex":
		p.index(nSub(n, "Index"), true)
	case "TermTypeFunc":
		f := nSub(n, "Func")
		p.ident(nStr(f, "Name"))
		if args := nList(f, "Args"); len(args) > 0 {
			p.op("(")
			for i, a := range args {
				if i > 0 {
					p.op(";")
				}
				p.query(a.(*litNode))
			}
			p.op(")")
		}
	case "TermTypeObject":
		p.op("{")
		for i, kv := range nList(nSub(n, "Object"), "KeyVals") {
			if i > 0 {
				p.op(",")
			}
			o := kv.(*litNode)
			if k := nStr(o, "Key"); k != "" {
				p.ident(k)
			} else if ks := nSub(o, "KeyString"); ks != nil {
				p.string(ks)
			} else if kq := nSub(o, "KeyQuery"); kq != nil {
				p.op("(")
				p.query(kq)
				p.op(")")
			}
			if v := nSub(o, "Val"); v != nil {
				p.op(":")
				p.query(v)
			}
		}
		p.op("}")
	case "TermTypeArray":
		p.op("[")
		if q := nSub(nSub(n, "Array"), "Query"); q != nil {
			p.query(q)
		}
		p.op("]")
	case "TermTypeNumber":
		p.add("num", nStr(n, "Number"))
	case "TermTypeUnary":
		u := nSub(n, "Unary")
		p.op(litOpText[strings.TrimPrefix(nStr(u, "Op"), "const:")])
		p.term(nSub(u, "Term"))
	case "TermTypeFormat":
		p.add("fmt", nStr(n, "Format"))
		if s := nSub(n, "Str"); s != nil {
			p.string(s)
		}
	case "TermTypeString":
		p.string(nSub(n, "Str"))
	case "TermTypeIf":
		i := nSub(n, "If")
		p.add("id", "if")
		p.query(nSub(i, "Cond"))
		p.add("id", "then")
		p.query(nSub(i, "Then"))
		for _, e := range nList(i, "Elif") {
			p.add("id", "elif")
			p.query(nSub(e.(*litNode), "Cond"))
			p.add("id", "then")
			p.query(nSub(e.(*litNode), "Then"))
		}
		if e := nSub(i, "Else"); e != nil {
			p.add("id", "else")
			p.query(e)
		}
		p.add("id", "end")
	case "TermTypeTry":
		t := nSub(n, "Try")
		p.add("id", "try")
		p.query(nSub(t, "Body"))
		if c := nSub(t, "Catch"); c != nil {
			p.add("id", "catch")
			p.query(c)
		}
	case "TermTypeReduce":
		r := nSub(n, "Reduce")
		p.add("id", "reduce")
		p.query(nSub(r, "Query"))
		p.add("id", "as")
		p.pattern(nSub(r, "Pattern"))
		p.op("(")
		p.query(nSub(r, "Start"))
		p.op(";")
		p.query(nSub(r, "Update"))
		p.op(")")
	case "TermTypeForeach":
		r := nSub(n, "Foreach")
		p.add("id", "foreach")
		p.query(nSub(r, "Query"))
		p.add("id", "as")
		p.pattern(nSub(r, "Pattern"))
		p.op("(")
		p.query(nSub(r, "Start"))
		p.op(";")
		p.query(nSub(r, "Update"))
		if e := nSub(r, "Extract"); e != nil {
			p.op(";")
			p.query(e)
		}
		p.op(")")
	case "TermTypeLabel":
		l := nSub(n, "Label")
		p.add("id", "label")
		p.add("var", nStr(l, "Ident"))
		p.op("|")
		p.query(nSub(l, "Body"))
	case "TermTypeBreak":
		p.add("id", "break")
		p.add("var", nStr(n, "Break"))
	case "TermTypeQuery":
		p.op("(")
		p.query(nSub(n, "Query"))
		p.op(")")
	default:
		panic("term type " + nStr(n, "Type"))
	}
	for _, s := range nList(n, "SuffixList") {
		sn := s.(*litNode)
		if ix := nSub(sn, "Index"); ix != nil {
			p.index(ix, false)
		} else if sn.fields["Iter"] == true {
			p.op("[")
			p.op("]")
		} else if sn.fields["Optional"] == true {
			p.op("?")
		}
	}
}

// ---------- tokenizer for builtin.jq ----------

func jqIsIdStart(c byte) bool { return c == '_' || 'a' <= c && c <= 'z' || 'A' <= c && c <= 'Z' }
func jqIsDigit(c byte) bool   { return '0' <= c && c <= '9' }

func jqTokenize(src string) []jqTok {
	var out []jqTok
	i := 0
	scanID := func(j int) int {
		for j < len(src) && (jqIsIdStart(src[j]) || jqIsDigit(src[j])) {
			j++
		}
		for j+2 < len(src) && src[j] == ':' && src[j+1] == ':' && jqIsIdStart(src[j+2]) {
			j += 2
			for j < len(src) && (jqIsIdStart(src[j]) || jqIsDigit(src[j])) {
				j++
			}
		}
		return j
	}
	for i < len(src) {
		c := src[i]
		switch {
		case c == ' ' || c == '\t' || c == '\n' || c == '\r':
			i++
		case c == '#':
			for i < len(src) && src[i] != '\n' {
				i++
			}
		case jqIsIdStart(c):
			j := scanID(i)
			out = append(out, jqTok{"id", src[i:j]})
			i = j
		case c == '$' && i+1 < len(src) && jqIsIdStart(src[i+1]):
			j := scanID(i + 1)
			out = append(out, jqTok{"var", src[i:j]})
			i = j
		case c == '@' && i+1 < len(src) && jqIsIdStart(src[i+1]):
			j := scanID(i + 1)
			out = append(out, jqTok{"fmt", src[i:j]})
			i = j
		case jqIsDigit(c) || c == '.' && i+1 < len(src) && jqIsDigit(src[i+1]):
			j := i
			for j < len(src) && (jqIsDigit(src[j]) || src[j] == '.' || src[j] == 'e' || src[j] == 'E' ||
				(src[j] == '+' || src[j] == '-') && (src[j-1] == 'e' || src[j-1] == 'E')) {
				j++
			}
			out = append(out, jqTok{"num", src[i:j]})
			i = j
		case c == '.' && i+1 < len(src) && jqIsIdStart(src[i+1]):
			j := i + 1
			for j < len(src) && (jqIsIdStart(src[j]) || jqIsDigit(src[j])) {
				j++
			}
			out = append(out, jqTok{"field", src[i:j]})
			i = j
		case c == '"':
			j := i + 1
			for src[j] != '"' {
				if src[j] == '\\' {
					if src[j+1] == '(' {
						panic("interpolation in builtin.jq: extend prototype")
					}
					j++
				}
				j++
			}
			s, err := strconv.Unquote(src[i : j+1])
			if err != nil {
				panic(err)
			}
			out = append(out, jqTok{"str", s})
			i = j + 1
		default:
			ops := []string{"?//", "//=", "..", "|=", "+=", "-=", "*=", "/=", "%=", "==", "!=", ">=", "<=", "//"}
			matched := false
			for _, o := range ops {
				if strings.HasPrefix(src[i:], o) {
					out = append(out, jqTok{"op", o})
					i += len(o)
					matched = true
					break
				}
			}
			if !matched {
				out = append(out, jqTok{"op", string(c)})
				i++
			}
		}
	}
	return out
}

// split the token stream of builtin.jq into top-level defs
func jqSplitDefs(ts []jqTok) [][]jqTok {
	var defs [][]jqTok
	depth := 0 // nesting of def ... ; (a def body ends at ';' when paren depth and inner def depth are 0)
	start := 0
	var stack []int // for each open def: paren depth at its start
	paren := 0
	_ = depth
	for i, t := range ts {
		switch {
		case t.kind == "id" && t.text == "def":
			if len(stack) == 0 {
				start = i
			}
			stack = append(stack, paren)
		case t.kind == "op" && (t.text == "(" || t.text == "[" || t.text == "{"):
			paren++
		case t.kind == "op" && (t.text == ")" || t.text == "]" || t.text == "}"):
			paren--
		case t.kind == "op" && t.text == ";":
			if len(stack) > 0 && stack[len(stack)-1] == paren {
				// could be the ';' separating args in "def f(a; b):" -> those are inside parens, so paren differs; ok
				stack = stack[:len(stack)-1]
				if len(stack) == 0 {
					defs = append(defs, ts[start:i+1])
				}
			}
		}
	}
	return defs
}



type ctxKind int

const (
	ctxQuery ctxKind = iota
	ctxExpr
	ctxObjVal
	ctxTermOnly
)

// prec and assoc are derived from parser.go.y on every run (setCanonPrec).
var prec = map[string]int{}
var assoc = map[int]string{}

func setCanonPrec(y *Yacc) error {
	prec = map[string]int{}
	assoc = map[int]string{}
	opsOfTok := map[string][]string{
		"'|'": {"OpPipe"}, "','": {"OpComma"}, "tokAltOp": {"OpAlt"},
		"tokUpdateOp": {"OpAssign", "OpModify", "OpUpdateAdd", "OpUpdateSub", "OpUpdateMul", "OpUpdateDiv", "OpUpdateMod", "OpUpdateAlt"},
		"tokOrOp": {"OpOr"}, "tokAndOp": {"OpAnd"}, "tokCompareOp": {"OpEq", "OpNe", "OpGt", "OpLt", "OpGe", "OpLe"},
		"'+'": {"OpAdd"}, "'-'": {"OpSub"}, "'*'": {"OpMul"}, "'/'": {"OpDiv"}, "'%'": {"OpMod"},
	}
	// rank = 1 + number of distinct lower levels among operator tokens
	levels := map[int]bool{}
	for t := range opsOfTok {
		l, _ := y.precOf(t)
		if l < 0 {
			return fmt.Errorf("token %s has no precedence", t)
		}
		levels[l] = true
	}
	rank := func(l int) int {
		n := 1
		for k := range levels {
			if k < l {
				n++
			}
		}
		return n
	}
	for t, ops := range opsOfTok {
		l, a := y.precOf(t)
		r := rank(l)
		for _, o := range ops {
			prec[o] = r
		}
		if a == "nonassoc" {
			a = "non"
		}
		if prev, ok := assoc[r]; ok && prev != a {
			return fmt.Errorf("tokens on one level disagree on associativity")
		}
		assoc[r] = a
	}
	if prec["OpPipe"] != 1 || prec["OpComma"] != 2 {
		// the canonical-form conditions assume query-level operators are exactly | and , (the two lowest)
		return fmt.Errorf("'|' and ',' are not the two lowest operator levels (ranks %d, %d): the query/expr split of the canonical-form conditions no longer matches the grammar", prec["OpPipe"], prec["OpComma"])
	}
	return nil
}

var canonProblems []string
var canonChecked int

func problem(where string, f string, a ...any) {
	canonProblems = append(canonProblems, where+": "+fmt.Sprintf(f, a...))
}

func opOf(n *litNode) string { return strings.TrimPrefix(nStr(n, "Op"), "const:") }

func isBinary(n *litNode) bool { return nSub(n, "Term") == nil }

func isLabelTerm(n *litNode) bool {
	t := nSub(n, "Term")
	return t != nil && strings.HasSuffix(nStr(t, "Type"), "TermTypeLabel") && len(nList(t, "SuffixList")) == 0
}

// extendsRight: query-level forms that swallow everything to their right
func extendsRight(n *litNode) bool {
	return len(nList(n, "FuncDefs")) > 0 || len(nList(n, "Patterns")) > 0 || isLabelTerm(n)
}

func canonQuery(n *litNode, ctx ctxKind, where string) {
	canonChecked++
	hasTerm := nSub(n, "Term") != nil
	hasBin := nSub(n, "Left") != nil || nSub(n, "Right") != nil
	if hasTerm == hasBin {
		if !(len(nList(n, "FuncDefs")) > 0 && !hasTerm && !hasBin) { // module body of only defs
			problem(where, "exactly one of Term / Left+Right expected")
		}
	}
	if len(nList(n, "FuncDefs")) > 0 && ctx != ctxQuery {
		problem(where, "FuncDefs in non-query context")
	}
	for _, fd := range nList(n, "FuncDefs") {
		canonQuery(nSub(fd.(*litNode), "Body"), ctxQuery, where+"/def "+nStr(fd.(*litNode), "Name"))
	}
	if hasTerm {
		if isLabelTerm(n) && ctx != ctxQuery {
			problem(where, "label in non-query context")
		}
		canonTerm(nSub(n, "Term"), where)
		return
	}
	if !hasBin {
		return
	}
	op := opOf(n)
	p := prec[op]
	if p == 0 {
		problem(where, "unknown op %s", op)
		return
	}
	if ctx == ctxTermOnly {
		problem(where, "binary %s where only a postfix term can appear without parentheses", op)
	}
	if ctx == ctxExpr && p <= 2 {
		problem(where, "%s in expr context", op)
	}
	if ctx == ctxObjVal && (p == 2 || len(nList(n, "Patterns")) > 0) {
		problem(where, "%s/as in object value", op)
	}
	if len(nList(n, "Patterns")) > 0 && op != "OpPipe" {
		problem(where, "patterns with %s", op)
	}
	l, r := nSub(n, "Left"), nSub(n, "Right")
	if l == nil || r == nil {
		problem(where, "missing operand")
		return
	}
	childCtx := ctxExpr
	if p <= 2 {
		childCtx = ctxQuery
	}
	// left operand
	if extendsRight(l) {
		problem(where, "left operand of %s extends to the right (def/as/label) without parentheses", op)
	}
	if len(nList(n, "Patterns")) > 0 { // as-binding: left must be expr-level
		if isBinary(l) && prec[opOf(l)] <= 2 {
			problem(where, "left of `as` is %s", opOf(l))
		}
		canonQuery(l, ctxExpr, where+"/as-left")
	} else {
		if isBinary(l) {
			pl := prec[opOf(l)]
			if !(pl > p || pl == p && assoc[p] == "left") {
				problem(where, "left child %s under %s needs parentheses", opOf(l), op)
			}
		}
		lc := childCtx
		if ctx == ctxObjVal && op == "OpPipe" {
			lc = ctxObjVal
		}
		canonQuery(l, lc, where+"/L")
	}
	// right operand
	if isBinary(r) && !extendsRight(r) {
		pr := prec[opOf(r)]
		if !(pr > p || pr == p && assoc[p] == "right") {
			problem(where, "right child %s under %s needs parentheses", opOf(r), op)
		}
	}
	if extendsRight(r) && p > 2 {
		problem(where, "def/as/label as right operand of expr-level %s", op)
	}
	rc := childCtx
	if ctx == ctxObjVal && op == "OpPipe" {
		rc = ctxObjVal
	}
	canonQuery(r, rc, where+"/R")
}

func canonTerm(t *litNode, where string) {
	typ := strings.TrimPrefix(nStr(t, "Type"), "const:")
	q := func(n *litNode, f string, ctx ctxKind) {
		if c := nSub(n, f); c != nil {
			canonQuery(c, ctx, where+"/"+typ+"."+f)
		}
	}
	need := func(f string) {
		if t.fields[f] == nil {
			problem(where, "%s without %s", typ, f)
		}
	}
	switch typ {
	case "TermTypeIndex":
		need("Index")
		canonIndex(nSub(t, "Index"), where)
	case "TermTypeFunc":
		need("Func")
		for i, a := range nList(nSub(t, "Func"), "Args") {
			canonQuery(a.(*litNode), ctxQuery, fmt.Sprintf("%s/%s.arg%d", where, nStr(nSub(t, "Func"), "Name"), i))
		}
	case "TermTypeObject":
		need("Object")
		for _, kv := range nList(nSub(t, "Object"), "KeyVals") {
			o := kv.(*litNode)
			q(o, "KeyQuery", ctxQuery)
			q(o, "Val", ctxObjVal)
		}
	case "TermTypeArray":
		need("Array")
		q(nSub(t, "Array"), "Query", ctxQuery)
	case "TermTypeUnary":
		need("Unary")
		canonTerm(nSub(nSub(t, "Unary"), "Term"), where+"/unary")
	case "TermTypeIf":
		need("If")
		i := nSub(t, "If")
		q(i, "Cond", ctxQuery)
		q(i, "Then", ctxQuery)
		for _, e := range nList(i, "Elif") {
			q(e.(*litNode), "Cond", ctxQuery)
			q(e.(*litNode), "Then", ctxQuery)
		}
		q(i, "Else", ctxQuery)
	case "TermTypeTry":
		need("Try")
		q(nSub(t, "Try"), "Body", ctxTermOnly)
		q(nSub(t, "Try"), "Catch", ctxTermOnly)
	case "TermTypeReduce":
		need("Reduce")
		r := nSub(t, "Reduce")
		q(r, "Query", ctxExpr)
		q(r, "Start", ctxQuery)
		q(r, "Update", ctxQuery)
	case "TermTypeForeach":
		need("Foreach")
		r := nSub(t, "Foreach")
		q(r, "Query", ctxExpr)
		q(r, "Start", ctxQuery)
		q(r, "Update", ctxQuery)
		q(r, "Extract", ctxQuery)
	case "TermTypeLabel":
		need("Label")
		q(nSub(t, "Label"), "Body", ctxQuery)
	case "TermTypeQuery":
		need("Query")
		q(t, "Query", ctxQuery)
	}
	for _, s := range nList(t, "SuffixList") {
		if ix := nSub(s.(*litNode), "Index"); ix != nil {
			canonIndex(ix, where)
		}
	}
}

func canonIndex(ix *litNode, where string) {
	if s := nSub(ix, "Start"); s != nil {
		canonQuery(s, ctxQuery, where+"/index.start")
	}
	if e := nSub(ix, "End"); e != nil {
		canonQuery(e, ctxQuery, where+"/index.end")
	}
}
