package main

import (
	"go/ast"
	"go/token"
	"go/types"
	"strings"

	"golang.org/x/tools/go/ssa"
)

func init() {
	regProp(&PropInfo{
		ID:    "C14",
		Title: "String positions are code points and regex builtins agree with match",
		Decided: "a byte-offset taint analysis over the natives (func.go, operator.go, execute.go): values produced by regexp Find*Index, strings/bytes Index*, len(string), the key of a range over a string and utf8 sizes may only be used as bounds of string slices, in comparisons and arithmetic, or be stored in locals; reaching a JSON value, a return, or any call other than the conversion idiom len([]rune(s[:x])) is a leak of a byte position into jq-visible positions (R-C14-taint); " +
			"index/rindex/indices on strings go through explode on both operands and have no string-search fast path; length counts runes (R-C14-explode); in funcMatch the subject string flows only into methods of the one compiled regexp, slices and rune conversions — test and match cannot disagree through a second matcher (R-C14-matchsingle); the jq-level sub/gsub/splits/scan/capture/test definitions shipped in builtin.go equal builtin.jq (R-C03-sync).",
		NotCovered: "that sub/gsub/splits are the documented compositions of match; termination on empty matches; which overlapping occurrences indices reports; correctness of the offset arithmetic inside the accepted idiom.",
	})
	reg(&Rule{ID: "R-C14-taint", Props: []string{"C14"}, Floor: 6,
		Doc: "byte offsets never reach a JSON value, a return or a foreign call unconverted",
		Run: ruleC14Taint})
	reg(&Rule{ID: "R-C14-explode", Props: []string{"C14"}, Floor: 5,
		Doc: "string index/rindex/indices explode both operands; no strings.* search in them; funcLength counts []rune",
		Run: ruleC14Explode})
	reg(&Rule{ID: "R-C14-matchsingle", Props: []string{"C14"}, Floor: 3,
		Doc: "in funcMatch the subject string is used only by methods of the compiled regexp, in slices and in []rune conversions",
		Run: ruleC14MatchSingle})
}

func isStringType(t types.Type) bool {
	b, ok := t.Underlying().(*types.Basic)
	return ok && b.Info()&types.IsString != 0
}

func ruleC14Taint(c *Ctx, r *Rep) {
	files := map[string]bool{"func.go": true, "operator.go": true, "execute.go": true}
	exceptions := map[string]string{
		"funcUtf8ByteLength": "utf8bytelength returns the byte length by definition",
	}
	nSources, nUses := 0, 0
	paramTaint := map[*ssa.Parameter]string{}
	retTaint := map[*ssa.Function]string{}
	inPkg := map[*ssa.Function]bool{}
	for _, f := range c.PkgFuncs(c.Gojq) {
		inPkg[f] = true
	}
	calleeOf := func(cc *ssa.CallCommon) *ssa.Function {
		if sc := cc.StaticCallee(); sc != nil {
			return sc
		}
		return nil
	}
	// two rounds: the first discovers tainted parameters and returns of in-package helpers, the second reports
	for round := 0; round < 3; round++ {
	report := round == 2
	for _, f := range c.PkgFuncs(c.Gojq) {
		if !files[c.PhysFile(f.Pos())] {
			continue
		}
		tainted := map[ssa.Value]string{}
		taintedCell := map[*ssa.Alloc]string{}
		taintedFree := map[*ssa.FreeVar]string{}
		for _, p := range f.Params {
			if w, ok := paramTaint[p]; ok {
				tainted[p] = w
			}
		}
		isSource := func(v ssa.Value) string {
			switch x := v.(type) {
			case *ssa.Call:
				cc := x.Common()
				if b, ok := cc.Value.(*ssa.Builtin); ok {
					if b.Name() == "len" && len(cc.Args) == 1 && isStringType(cc.Args[0].Type()) {
						return "len(string)"
					}
					return ""
				}
				if sc := cc.StaticCallee(); sc != nil {
					if w, ok := retTaint[sc]; ok {
						return w
					}
					q := fnQual(sc)
					switch {
					case strings.HasPrefix(q, "regexp.") && strings.Contains(q, "Index"):
						return q
					case (strings.HasPrefix(q, "strings.") || strings.HasPrefix(q, "bytes.")) && (strings.Contains(q, ".Index") || strings.Contains(q, ".LastIndex")):
						return q
					case q == "unicode/utf8.RuneLen":
						return q
					}
				}
			case *ssa.Extract:
				if n, ok := x.Tuple.(*ssa.Next); ok && n.IsString && x.Index == 1 {
					return "key of range over string"
				}
				if call, ok := x.Tuple.(*ssa.Call); ok {
					if sc := call.Common().StaticCallee(); sc != nil {
						q := fnQual(sc)
						if strings.HasPrefix(q, "unicode/utf8.Decode") && x.Index == 1 {
							return q + " size"
						}
					}
				}
			}
			return ""
		}
		// propagate to fixpoint
		for changed := true; changed; {
			changed = false
			mark := func(v ssa.Value, why string) {
				if _, ok := tainted[v]; !ok {
					tainted[v] = why
					changed = true
				}
			}
			for _, b := range f.Blocks {
				for _, in := range b.Instrs {
					v, isVal := in.(ssa.Value)
					if isVal {
						if why := isSource(v); why != "" {
							if _, ok := tainted[v]; !ok && report {
								nSources++
							}
							mark(v, why)
						}
					}
					switch x := in.(type) {
					case *ssa.BinOp:
						switch x.Op {
						case token.ADD, token.SUB, token.MUL, token.QUO, token.REM, token.SHL, token.SHR:
							if w, ok := tainted[x.X]; ok {
								mark(x, w)
							} else if w, ok := tainted[x.Y]; ok {
								mark(x, w)
							}
						}
					case *ssa.Phi:
						for _, e := range x.Edges {
							if w, ok := tainted[e]; ok {
								mark(x, w)
							}
						}
					case *ssa.Convert:
						if w, ok := tainted[x.X]; ok && !isStringType(x.Type()) {
							mark(x, w)
						}
					case *ssa.ChangeType:
						if w, ok := tainted[x.X]; ok {
							mark(x, w)
						}
					case *ssa.UnOp:
						if x.Op == token.MUL {
							// load from a tainted container element or a tainted local cell
							if ia, ok := x.X.(*ssa.IndexAddr); ok {
								if w, ok := tainted[ia.X]; ok {
									mark(x, w)
								}
							}
							if a, ok := x.X.(*ssa.Alloc); ok {
								if w, ok := taintedCell[a]; ok {
									mark(x, w)
								}
							}
							if fv, ok := x.X.(*ssa.FreeVar); ok {
								if w, ok := taintedFree[fv]; ok {
									mark(x, w)
								}
							}
						} else if x.Op == token.SUB {
							if w, ok := tainted[x.X]; ok {
								mark(x, w)
							}
						}
					case *ssa.Index:
						if w, ok := tainted[x.X]; ok && !isStringType(x.X.Type()) {
							mark(x, w)
						}
					case *ssa.Extract:
						if n, ok := x.Tuple.(*ssa.Next); ok && !n.IsString && x.Index == 2 {
							if rg, ok := n.Iter.(*ssa.Range); ok {
								if w, ok := tainted[rg.X]; ok {
									mark(x, w)
								}
							}
						}
					case *ssa.Slice:
						// a sub-slice of a tainted []int / [][]int stays tainted
						if w, ok := tainted[x.X]; ok && !isStringType(x.X.Type()) {
							mark(x, w)
						}
					case *ssa.Store:
						if w, ok := tainted[x.Val]; ok {
							if a, ok := x.Addr.(*ssa.Alloc); ok {
								if _, ok := taintedCell[a]; !ok {
									taintedCell[a] = w
									changed = true
								}
							}
							if fv, ok := x.Addr.(*ssa.FreeVar); ok {
								if _, ok := taintedFree[fv]; !ok {
									taintedFree[fv] = w
									changed = true
								}
							}
						}
					}
				}
			}
		}
		if len(tainted) == 0 {
			continue
		}
		top := topName(f)
		// uses
		for v, why := range tainted {
			rs := v.Referrers()
			if rs == nil {
				continue
			}
			for _, ref := range *rs {
				nUses++
				bad := ""
				switch y := ref.(type) {
				case *ssa.BinOp, *ssa.Phi, *ssa.Convert, *ssa.ChangeType, *ssa.If, *ssa.DebugRef, *ssa.Index, *ssa.IndexAddr, *ssa.Extract, *ssa.Range, *ssa.Next:
				case *ssa.UnOp:
				case *ssa.Slice:
					// as a bound: fine. as the sliced operand (tainted container): fine.
				case *ssa.Store:
					if y.Val == v {
						if _, isFV := y.Addr.(*ssa.FreeVar); isFV {
							// a captured local of the enclosing function: still a local position holder
						} else if _, ok := y.Addr.(*ssa.Alloc); !ok {
							if ia, ok := y.Addr.(*ssa.IndexAddr); ok && !isJSONContainer(ia.X.Type()) {
								// storing into a local []int etc.
								tainted[ia.X] = why
							} else {
								bad = "stored outside a local variable"
							}
						}
					}
				case *ssa.MakeInterface:
					bad = "converted to a JSON value (any)"
				case *ssa.Return:
					// natives (result type any/error) must not return it; an int-returning helper hands it back to its caller
					if isEmptyIface(y.Parent().Signature.Results().At(0).Type()) {
						bad = "returned"
					} else if _, ok := retTaint[y.Parent()]; !ok {
						retTaint[y.Parent()] = why
					}
				case *ssa.MapUpdate:
					bad = "stored in a map"
				case ssa.CallInstruction:
					cc := y.Common()
					if b, ok := cc.Value.(*ssa.Builtin); ok {
						switch b.Name() {
						case "len", "cap", "min", "max", "make", "copy", "append":
						default:
							bad = "passed to builtin " + b.Name()
						}
					} else if sc := calleeOf(cc); sc != nil {
						q := fnQual(sc)
						switch {
						case strings.HasPrefix(q, "strings.") || strings.HasPrefix(q, "bytes.") || strings.HasPrefix(q, "unicode/utf8.") || strings.HasPrefix(q, "regexp."):
						case q == pathGojq+".clampIndex":
							// clampIndex(i, min, len) is given rune counts everywhere
							bad = "passed to clampIndex (which works in code points)"
						case inPkg[sc]:
							// follow the value into the in-package helper: its parameter becomes a byte position there
							for i, a := range cc.Args {
								if a == v && i < len(sc.Params) {
									if _, ok := paramTaint[sc.Params[i]]; !ok {
										paramTaint[sc.Params[i]] = why
									}
								}
							}
						default:
							bad = "passed to " + fnOrigin(sc).Name()
						}
					} else {
						bad = "passed to a dynamic call"
					}
				default:
					_ = y
				}
				if bad == "" || !report {
					continue
				}
				key := top + ":" + why + "→" + bad
				if reason, ok := exceptions[top]; ok {
					r.OK(key, instrPos(ref), "reviewed exception: %s", reason)
					continue
				}
				r.Bad(key, instrPos(ref), "a byte position (%s) in %s is %s: jq positions are code points; with multi-byte characters before the position the reported offset is wrong (invisible to ASCII tests)", why, top, bad)
			}
		}
		if report {
			r.OK("fn:"+fnDisplay(f), f.Pos(), "%d byte-position values tracked in %s; all uses are slice bounds, comparisons, arithmetic, rune counting or in-package helpers analysed in turn", len(tainted), fnDisplay(f))
		}
	}
	}
	if nSources < 6 {
		r.Undecided("census", token.NoPos, "only %d byte-position sources found in func.go/operator.go/execute.go", nSources)
	}
}

func ruleC14Explode(c *Ctx, r *Rep) {
	info := c.Gojq.TypesInfo
	for _, fn := range []string{"funcIndices", "funcIndex", "funcRindex"} {
		fd := c.Decl(c.Gojq, fn)
		if fd == nil {
			r.Undecided(fn, token.NoPos, "not found")
			continue
		}
		viaIndexFunc := len(fd.Body.List) == 1 && callsFunc(c, info, fd.Body, "gojq.indexFunc") != ""
		strSearch := ""
		ast.Inspect(fd.Body, func(m ast.Node) bool {
			if call, ok := m.(*ast.CallExpr); ok {
				if nm := calleeName(info, call); strings.HasPrefix(nm, "strings.") || strings.HasPrefix(nm, "bytes.") {
					strSearch = nm
				}
			}
			return true
		})
		r.Check(viaIndexFunc && strSearch == "", fn, fd.Pos(), "%s is a single call of indexFunc (%v) with no string-search fast path (%q): strings and arrays share one algorithm over code points", fn, viaIndexFunc, strSearch)
	}
	// indexFunc's string arm explodes both operands
	if fd := c.Decl(c.Gojq, "indexFunc"); fd != nil {
		ok := false
		ast.Inspect(fd.Body, func(m ast.Node) bool {
			cc, isCC := m.(*ast.CaseClause)
			if !isCC || len(cc.List) != 1 || info.TypeOf(cc.List[0]) == nil || info.TypeOf(cc.List[0]).String() != "string" {
				return true
			}
			ast.Inspect(cc, func(k ast.Node) bool {
				if call, isCall := k.(*ast.CallExpr); isCall && len(call.Args) == 2 {
					a, okA := unparen(call.Args[0]).(*ast.CallExpr)
					b, okB := unparen(call.Args[1]).(*ast.CallExpr)
					if okA && okB && calleeName(info, a) == "gojq.explode" && calleeName(info, b) == "gojq.explode" {
						ok = true
					}
				}
				return true
			})
			return true
		})
		r.Check(ok, "indexFunc:string", fd.Pos(), "indexFunc's string arm passes explode(v), explode(x) to the array algorithm: %v", ok)
	} else {
		r.Undecided("indexFunc", token.NoPos, "not found")
	}
	// funcLength: string arm is len([]rune(v))
	if fd := c.Decl(c.Gojq, "funcLength"); fd != nil {
		ok := false
		ast.Inspect(fd.Body, func(m ast.Node) bool {
			cc, isCC := m.(*ast.CaseClause)
			if !isCC || len(cc.List) != 1 || info.TypeOf(cc.List[0]) == nil || info.TypeOf(cc.List[0]).String() != "string" {
				return true
			}
			if strings.Contains(c.Src(cc), "len([]rune(") {
				ok = true
			}
			return true
		})
		r.Check(ok, "funcLength:string", fd.Pos(), "length of a string counts runes: %v", ok)
	}
	// explode ranges over the string (code points), implode converts through rune
	if fd := c.Decl(c.Gojq, "explode"); fd != nil {
		ok := false
		ast.Inspect(fd.Body, func(m ast.Node) bool {
			if rs, isR := m.(*ast.RangeStmt); isR && isStringType(info.TypeOf(rs.X)) && rs.Value != nil {
				ok = true
			}
			return true
		})
		r.Check(ok, "explode", fd.Pos(), "explode ranges over the string's runes: %v", ok)
	}
}

func ruleC14MatchSingle(c *Ctx, r *Rep) {
	info := c.Gojq.TypesInfo
	fd := c.Decl(c.Gojq, "funcMatch")
	if fd == nil {
		r.Undecided("funcMatch", token.NoPos, "not found")
		return
	}
	// the subject: the string variable asserted from the first parameter
	var subj types.Object
	var first types.Object
	if fd.Type.Params != nil && len(fd.Type.Params.List) > 0 && len(fd.Type.Params.List[0].Names) > 0 {
		first = info.Defs[fd.Type.Params.List[0].Names[0]]
	}
	ast.Inspect(fd.Body, func(m ast.Node) bool {
		as, ok := m.(*ast.AssignStmt)
		if !ok || len(as.Rhs) != 1 {
			return true
		}
		ta, ok := as.Rhs[0].(*ast.TypeAssertExpr)
		if !ok || ta.Type == nil || info.TypeOf(ta.Type).String() != "string" {
			return true
		}
		if id, ok := unparen(ta.X).(*ast.Ident); ok && info.Uses[id] == first {
			subj = info.ObjectOf(as.Lhs[0].(*ast.Ident))
		}
		return true
	})
	if subj == nil {
		r.Undecided("funcMatch:subject", fd.Pos(), "the subject string variable was not identified")
		return
	}
	// regexp values compiled in this function
	nRe := 0
	ast.Inspect(fd.Body, func(m ast.Node) bool {
		if call, ok := m.(*ast.CallExpr); ok {
			nm := calleeName(info, call)
			if nm == "gojq.compileRegexp" || strings.HasPrefix(nm, "regexp.Compile") || strings.HasPrefix(nm, "regexp.MustCompile") {
				nRe++
			}
		}
		return true
	})
	r.Check(nRe == 1, "funcMatch:one-regexp", fd.Pos(), "funcMatch compiles exactly one regexp (%d): test and match use the same matcher", nRe)
	uses := 0
	walkStack(fd.Body, func(m ast.Node, stack []ast.Node) bool {
		id, ok := m.(*ast.Ident)
		if !ok || info.Uses[id] != subj || len(stack) == 0 {
			return true
		}
		uses++
		okc := false
		ctx := "?"
		// climb through slice expressions
		i := len(stack) - 1
		for i >= 0 {
			if se, ok := stack[i].(*ast.SliceExpr); ok && se.X.Pos() <= id.Pos() && id.End() <= se.X.End() {
				i--
				okc = true
				ctx = "slice"
				continue
			}
			break
		}
		if i >= 0 {
			switch p := stack[i].(type) {
			case *ast.CallExpr:
				nm := calleeName(info, p)
				switch {
				case strings.HasPrefix(nm, "regexp.Regexp."):
					okc, ctx = true, nm
				case nm == "" && len(p.Args) == 1: // conversion []rune(…)
					if at, ok := p.Fun.(*ast.ArrayType); ok {
						if e, ok := at.Elt.(*ast.Ident); ok && e.Name == "rune" {
							okc, ctx = true, "[]rune conversion"
						}
					}
				case strings.HasPrefix(nm, "strings.") || strings.HasPrefix(nm, "bytes.") || (strings.HasPrefix(nm, "regexp.") && !strings.HasPrefix(nm, "regexp.Regexp.")):
					okc, ctx = false, nm // a second matcher / search over the subject
				case nm != "":
					okc, ctx = true, nm // helpers (rune counting etc.) are fine; byte positions are policed by R-C14-taint
				}
			case *ast.KeyValueExpr, *ast.CompositeLit:
				// "string": s[a:b] in a result object
				if okc {
					ctx = "slice stored in the result"
				}
			case *ast.AssignStmt:
				// the defining assignment
				for _, l := range p.Lhs {
					if l == ast.Expr(id) {
						okc, ctx = true, "definition"
					}
				}
			}
		}
		r.Check(okc, "funcMatch:subject-use:"+ctx, id.Pos(), "the subject string is used by %s: %s", ctx, map[bool]string{true: "allowed (regexp method, slice, rune conversion)", false: "NOT allowed — a second matcher or search (e.g. a literal fast path via strings.Contains) can disagree with the regexp"}[okc])
		return true
	})
	if uses < 5 {
		r.Undecided("funcMatch:uses", fd.Pos(), "only %d uses of the subject found", uses)
	}
}
