// Command checker decides the structural clauses of properties C01–C20 of itchyny/gojq from
// /repo's current source, by static analysis only (see /verif/DESIGN.md).
package main

import (
	"encoding/json"
	"flag"
	"fmt"
	"os"
	"os/exec"
	"path/filepath"
	"sort"
	"strconv"
	"strings"
	"time"
)

var (
	flagProp    = flag.String("prop", "", "property id (C01..C20)")
	flagTier    = flag.String("tier", "quick", "quick | thorough")
	flagRepo    = flag.String("repo", "/repo", "repository root to analyse")
	flagVerif   = flag.String("verif", "/verif", "verification root (evidence, known findings, witnesses)")
	flagRule    = flag.String("rule", "", "run only this rule (comma separated list allowed)")
	flagReplay  = flag.String("replay", "", "replay file: re-run the rule on the construct it names")
	flagConfig  = flag.String("config", "default", "build configuration name (default, gojq_debug, 386, windows, darwin)")
	flagSubJSON = flag.String("sub-json", "", "internal: write raw obligations as JSON to this file and print nothing else")
	flagList    = flag.Bool("list", false, "list rules and properties")
	flagNoEvid  = flag.Bool("no-evidence", false, "do not write the evidence file")
	flagManif   = flag.Bool("manifest", false, "print MANIFEST.json for the rules built into this binary")
)

var configs = map[string]Config{
	"default":    {Name: "default"},
	"gojq_debug": {Name: "gojq_debug", Tags: "gojq_debug"},
	"386":        {Name: "386", GOARCH: "386"},
	"windows":    {Name: "windows", GOOS: "windows"},
	"darwin":     {Name: "darwin", GOOS: "darwin"},
}

var thoroughConfigs = []string{"gojq_debug", "386", "windows", "darwin"}

func main() {
	flag.Parse()
	if *flagManif {
		b, _ := json.MarshalIndent(manifest(), "", " ")
		fmt.Println(string(b))
		return
	}
	if *flagList {
		ids := make([]string, 0, len(props))
		for id := range props {
			ids = append(ids, id)
		}
		sort.Strings(ids)
		for _, id := range ids {
			fmt.Printf("%s  %s\n", id, props[id].Title)
			for _, r := range rulesFor(id) {
				fmt.Printf("    %-28s floor=%d  %s\n", r.ID, r.Floor, r.Doc)
			}
		}
		return
	}
	os.Exit(run())
}

func selectRules(prop string) []*Rule {
	rs := rulesFor(prop)
	if *flagRule != "" {
		want := map[string]bool{}
		for _, x := range strings.Split(*flagRule, ",") {
			want[strings.TrimSpace(x)] = true
		}
		var out []*Rule
		for _, r := range rules {
			if want[r.ID] {
				out = append(out, r)
			}
		}
		return out
	}
	return rs
}

type replayFile struct {
	Property string `json:"property"`
	Rule     string `json:"rule"`
	Key      string `json:"construct"`
	Pos      string `json:"pos"`
	Detail   string `json:"detail"`
	Replay   string `json:"replay_cmd"`
}

func run() int {
	start := time.Now()
	prop := *flagProp
	var replay *replayFile
	if *flagReplay != "" {
		b, err := os.ReadFile(*flagReplay)
		if err != nil {
			fmt.Printf("UNDECIDED property=%s rule=- reason=cannot read replay file: %v\n", prop, err)
			return 2
		}
		replay = &replayFile{}
		if err := json.Unmarshal(b, replay); err != nil {
			fmt.Printf("UNDECIDED property=%s rule=- reason=bad replay file: %v\n", prop, err)
			return 2
		}
		if prop == "" {
			prop = replay.Property
		}
		*flagRule = replay.Rule
	}
	pi := props[prop]
	if pi == nil && *flagRule == "" {
		fmt.Printf("UNDECIDED property=%s rule=- reason=unknown property or no rules registered\n", prop)
		return 2
	}
	cfg, ok := configs[*flagConfig]
	if !ok {
		fmt.Printf("UNDECIDED property=%s rule=- reason=unknown config %q\n", prop, *flagConfig)
		return 2
	}
	c, err := Load(*flagRepo, cfg)
	if err != nil {
		if *flagSubJSON != "" {
			writeJSON(*flagSubJSON, map[string]any{"error": err.Error()})
		}
		fmt.Printf("UNDECIDED property=%s rule=loader reason=%v\n", prop, err)
		return 2
	}
	rs := selectRules(prop)
	if len(rs) == 0 {
		fmt.Printf("UNDECIDED property=%s rule=- reason=no rules selected\n", prop)
		return 2
	}
	res := runRules(c, rs)
	nfuncs := 0
	for _, p := range c.All {
		nfuncs += len(c.index(p))
	}
	res.Funcs = nfuncs

	if *flagSubJSON != "" {
		writeJSON(*flagSubJSON, res)
		return 0
	}

	known, err := loadKnown(filepath.Join(*flagVerif, "known_findings.txt"))
	if err != nil {
		fmt.Printf("UNDECIDED property=%s rule=- reason=cannot read known_findings.txt: %v\n", prop, err)
		return 2
	}
	obs := applyKnown(prop, res.Obs, known)

	if replay != nil {
		hit := false
		for _, o := range obs {
			if o.Rule == replay.Rule && o.Key == replay.Key {
				hit = true
				fmt.Printf("REPLAY %s %s %s: %s — %s\n", o.Rule, o.Key, o.Pos, o.Status, o.Detail)
				if o.Status == StViolation {
					fmt.Printf("VIOLATION property=%s replay=%s\n", prop, *flagReplay)
					return 1
				}
			}
		}
		if !hit {
			fmt.Printf("REPLAY %s %s: construct no longer reported by the rule\n", replay.Rule, replay.Key)
		}
		return 0
	}

	configsRun := []string{cfg.Name}
	var witnessLog []map[string]any
	if *flagTier == "thorough" && *flagRule == "" {
		// other build configurations, each in its own process
		for _, name := range thoroughConfigs {
			sub, err := runSub(prop, *flagRepo, name, "")
			if err != nil {
				obs = append(obs, Ob{Rule: "loader", Key: "config:" + name, Pos: "-", Status: StUndecided, Detail: err.Error()})
				continue
			}
			configsRun = append(configsRun, name)
			extra := applyKnown(prop, sub.Obs, known)
			// only non-ok obligations that are new (by rule+construct) are merged
			have := map[string]bool{}
			for _, o := range obs {
				have[fullKey(o)+"|"+o.Status] = true
			}
			for _, o := range extra {
				if o.Status == StOK || o.Status == StInfo {
					continue
				}
				if !have[fullKey(o)+"|"+o.Status] {
					o.Detail = "[config " + name + "] " + o.Detail
					obs = append(obs, o)
				}
			}
		}
		wobs, wlog := runWitnesses(prop, rs)
		obs = append(obs, wobs...)
		witnessLog = wlog
	}

	// verdict
	var nOK, nViol, nUndec, nKnown, nInfo int
	for _, o := range obs {
		switch o.Status {
		case StOK:
			nOK++
		case StViolation:
			nViol++
		case StUndecided:
			nUndec++
		case StKnown:
			nKnown++
		case StInfo:
			nInfo++
		}
	}
	replayDir := filepath.Join(*flagVerif, "evidence", "replay")
	for _, o := range obs {
		switch o.Status {
		case StKnown:
			fmt.Printf("KNOWN-FINDING: property=%s %s %s %s\n", prop, fullKey(o), o.Pos, o.Detail)
		case StViolation:
			path := filepath.Join(replayDir, safeName(prop+"_"+fullKey(o))+".json")
			writeJSON(path, replayFile{Property: prop, Rule: o.Rule, Key: o.Key, Pos: o.Pos, Detail: o.Detail,
				Replay: fmt.Sprintf("./check %s --replay %s", prop, path)})
			fmt.Printf("FINDING rule=%s construct=%s at %s: %s\n", o.Rule, o.Key, o.Pos, o.Detail)
			fmt.Printf("VIOLATION property=%s replay=%s\n", prop, path)
		case StUndecided:
			fmt.Printf("UNDECIDED property=%s rule=%s construct=%s at %s reason=%s\n", prop, o.Rule, o.Key, o.Pos, o.Detail)
		}
	}

	if !*flagNoEvid && *flagRule == "" {
		samples := []Ob{}
		perRule := map[string]int{}
		for _, o := range obs {
			if o.Status != StOK {
				samples = append(samples, o)
				continue
			}
			if perRule[o.Rule] < 4 {
				perRule[o.Rule]++
				samples = append(samples, o)
			}
		}
		ruleDocs := map[string]any{}
		for _, r := range rs {
			ruleDocs[r.ID] = map[string]any{"doc": r.Doc, "floor": r.Floor, "obligations": res.RuleCounts[r.ID]}
		}
		seed, _ := strconv.Atoi(os.Getenv("VERIF_SEED"))
		cov := map[string]any{
			"explanation": "Static analysis of /repo's current source (go/packages + go/types, go/cfg, go/ssa, VTA call graph; goyacc for the grammar). " +
				"DECIDED: " + pi.Decided + " NOT COVERED (declined, no static argument in reach): " + pi.NotCovered +
				" The behaviour itself is not claimed; each rule is a necessary structural condition of it.",
			"obligations":        nOK + nViol + nUndec + nKnown,
			"discharged":         nOK,
			"undecided":          nUndec,
			"known_findings":     nKnown,
			"informational":      nInfo,
			"rules":              ruleDocs,
			"rules_run":          len(rs),
			"packages":           res.Pkgs,
			"functions_analysed": res.Funcs,
			"configs":            configsRun,
			"checker_cmd":        strings.Join(os.Args, " "),
			"trusted_base":       append([]string{"go/types, go/ssa, go/cfg, x/tools v0.29.0 callgraph/vta", "the rule definitions and exception tables in /verif/checker"}, pi.Trusted...),
			"samples":            samples,
			"exhaustive":         false,
		}
		if witnessLog != nil {
			cov["witnesses"] = witnessLog
		}
		ev := evidence{PropertyID: prop, Tier: *flagTier, Seed: seed, Level: "other", Coverage: cov,
			Assumptions: []string{
				"the Go type checker and SSA builder model the language faithfully",
				"rules decide necessary structural conditions only; value-level behaviour is out of scope (see explanation)",
			},
			WallS: time.Since(start).Seconds(), Violations: nViol}
		if err := writeJSON(filepath.Join(*flagVerif, "evidence", prop+".json"), ev); err != nil {
			fmt.Printf("UNDECIDED property=%s rule=- reason=cannot write evidence: %v\n", prop, err)
			return 2
		}
	}
	fmt.Printf("SUMMARY property=%s tier=%s rules=%d obligations=%d ok=%d violations=%d undecided=%d known=%d wall=%.1fs\n",
		prop, *flagTier, len(rs), nOK+nViol+nUndec+nKnown, nOK, nViol, nUndec, nKnown, time.Since(start).Seconds())
	if nViol > 0 {
		return 1
	}
	if nUndec > 0 {
		return 2
	}
	return 0
}

// runSub runs this binary on another configuration / repository copy and returns its raw result.
func runSub(prop, repo, config, rule string) (*RunResult, error) {
	tmp, err := os.CreateTemp("", "verifsub-*.json")
	if err != nil {
		return nil, err
	}
	tmp.Close()
	defer os.Remove(tmp.Name())
	args := []string{"-prop", prop, "-repo", repo, "-verif", *flagVerif, "-config", config, "-sub-json", tmp.Name()}
	if rule != "" {
		args = append(args, "-rule", rule)
	}
	cmd := exec.Command(os.Args[0], args...)
	out, err := cmd.CombinedOutput()
	b, rerr := os.ReadFile(tmp.Name())
	if rerr != nil || len(b) == 0 {
		return nil, fmt.Errorf("sub-run %s/%s failed: %v %s", config, rule, err, strings.TrimSpace(string(out)))
	}
	var probe map[string]any
	json.Unmarshal(b, &probe)
	if e, ok := probe["error"]; ok {
		return nil, fmt.Errorf("sub-run %s: %v", config, e)
	}
	res := &RunResult{}
	if err := json.Unmarshal(b, res); err != nil {
		return nil, err
	}
	return res, nil
}
