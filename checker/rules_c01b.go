package main

import (
	"fmt"
	"go/ast"
	"go/token"
	"go/types"
	"sort"
	"strings"

	"golang.org/x/tools/go/cfg"
)

func init() {
	reg(&Rule{ID: "R-C01-operand", Props: []string{"C01", "C08"}, Floor: 150,
		Doc: "at every construction &code{op:X, v:E} and every in-place rewrite of .op/.v in the compiler, the Go type of the operand is one the VM clause of X asserts",
		Run: ruleC01Operand})
	reg(&Rule{ID: "R-C01-calltriple", Props: []string{"C01", "C02", "C08"}, Floor: 12,
		Doc: "every [3]any{f, n, name} operand is (func(any,[]any) any, int, string); names built from internalFuncs[K] equal K with n in K's arity mask; every native the VM records a path for is compiled by compileCall with its key arguments bracketed (indexing >= 0)",
		Run: ruleC01CallTriple})
	reg(&Rule{ID: "R-C01-closers", Props: []string{"C01", "C08"}, Floor: 30,
		Doc: "the result of every newScopeDepth(), lazy() and appendBuiltin() is invoked (deferred, or called on every path that does not return a non-nil error)",
		Run: ruleC01Closers})
	reg(&Rule{ID: "R-C01-scopecount", Props: []string{"C01"}, Floor: 10,
		Doc: "opscope operands that read a scope's variablecnt and branch operands `len(c.codes)` naming a forward target are built inside the function literal given to lazy (evaluated after the body was compiled)",
		Run: ruleC01ScopeCount})
}

func operandTypes(vm *VM) map[string][]string {
	out := map[string][]string{}
	for _, cl := range vm.Clauses {
		for _, op := range cl.Ops {
			out[op] = cl.Operand
		}
	}
	return out
}

func inSet(s string, set []string) bool {
	for _, x := range set {
		if x == s {
			return true
		}
	}
	return false
}

// staticArgTypes: the set of static types passed for parameter `param` of fd at all of its call sites in package gojq.
func staticArgTypes(c *Ctx, fd *ast.FuncDecl, param types.Object) ([]string, bool) {
	info := c.Gojq.TypesInfo
	idx := -1
	k := 0
	for _, f := range fd.Type.Params.List {
		for _, nm := range f.Names {
			if info.Defs[nm] == param {
				idx = k
			}
			k++
		}
	}
	if idx < 0 {
		return nil, false
	}
	fobj := info.Defs[fd.Name]
	set := map[string]bool{}
	n := 0
	for _, g := range c.Decls(c.Gojq) {
		ast.Inspect(g.Body, func(m ast.Node) bool {
			call, ok := m.(*ast.CallExpr)
			if !ok || callee(info, call) != fobj || idx >= len(call.Args) {
				return true
			}
			n++
			t := info.TypeOf(call.Args[idx])
			set[types.TypeString(t, func(*types.Package) string { return "" })] = true
			return true
		})
	}
	var out []string
	for t := range set {
		out = append(out, t)
	}
	sort.Strings(out)
	return out, n > 0
}

func typeStr(t types.Type) string {
	if t == nil {
		return "?"
	}
	return strings.ReplaceAll(types.TypeString(t, func(*types.Package) string { return "" }), "interface{}", "any")
}

func ruleC01Operand(c *Ctx, r *Rep) {
	vm := getVM(c)
	if vm.Err != "" {
		r.Undecided("vm-model", token.NoPos, "%s", vm.Err)
		return
	}
	info := c.Gojq.TypesInfo
	ot := operandTypes(vm)
	check := func(key string, pos token.Pos, op string, ts []string, src string) {
		want := ot[op]
		if len(want) == 0 {
			r.OK(key, pos, "%s takes any operand (the VM does not assert it)", op)
			return
		}
		for _, t := range ts {
			if !inSet(t, want) {
				r.Bad(key, pos, "%s is given an operand of Go type %s (%s); its VM clause asserts %v: a type-assertion panic on first execution", op, t, src, want)
				return
			}
		}
		r.OK(key, pos, "%s operand %v ∈ %v", op, ts, want)
	}
	// 1. constructions
	for _, e := range getEmits(c) {
		key := fmt.Sprintf("emit:%s:%s", e.FnKey, e.Op)
		if e.Op == "" {
			// op given by a variable: only moves of whole instructions are expected
			r.Undecided(key, e.Lit.Pos(), "code literal with a non-constant op in %s", e.FnKey)
			continue
		}
		want := ot[e.Op]
		if e.V == nil {
			r.Check(len(want) == 0, key, e.Lit.Pos(), "%s emitted without operand in %s; its VM clause asserts %v", e.Op, e.FnKey, want)
			continue
		}
		t := info.TypeOf(e.V)
		ts := []string{typeStr(t)}
		if t != nil && isEmptyIface(t) && len(want) > 0 {
			// an `any` variable: a parameter → look at the call sites; otherwise undecided
			if id, ok := unparen(e.V).(*ast.Ident); ok {
				if at, ok := staticArgTypes(c, e.Fn, info.ObjectOf(id)); ok {
					ts = nil
					for _, x := range at {
						ts = append(ts, strings.ReplaceAll(x, "interface{}", "any"))
					}
					check(key, e.Lit.Pos(), e.Op, ts, "parameter "+id.Name+", types at the call sites")
					continue
				}
			}
			r.Undecided(key, e.Lit.Pos(), "%s is given an operand of static type any (%s) that cannot be resolved", e.Op, c.Src(e.V))
			continue
		}
		if isNilIdent(e.V) && len(want) > 0 {
			r.Bad(key, e.Lit.Pos(), "%s emitted with a nil operand; its VM clause asserts %v", e.Op, want)
			continue
		}
		check(key, e.Lit.Pos(), e.Op, ts, c.Src(e.V))
	}
	// 2. in-place rewrites X.op = K / X.v = E
	for _, fd := range c.Decls(c.Gojq) {
		fn := declKey(fd)
		walkStack(fd.Body, func(m ast.Node, stack []ast.Node) bool {
			as, ok := m.(*ast.AssignStmt)
			if !ok {
				return true
			}
			for i, l := range as.Lhs {
				sel, ok := unparen(l).(*ast.SelectorExpr)
				if !ok || !isNamed(info.TypeOf(sel.X), pathGojq, "code") || i >= len(as.Rhs) {
					continue
				}
				switch sel.Sel.Name {
				case "op":
					id, ok := unparen(as.Rhs[i]).(*ast.Ident)
					if !ok {
						r.Undecided("rewrite:"+fn+":op", as.Pos(), "non-constant op rewrite %s", c.Src(as))
						continue
					}
					newOp := id.Name
					key := "rewrite:" + fn + ":" + c.Src(sel.X) + ".op=" + newOp
					want := ot[newOp]
					if len(want) == 0 {
						r.OK(key, as.Pos(), "%s ignores its operand", newOp)
						continue
					}
					// accepted: X.v assigned in the same statement list with a matching type
					list, idx := stmtListOf(fd.Body, as)
					okc := false
					why := ""
					for j := idx - 2; j <= idx+2 && j < len(list); j++ {
						if j < 0 || j == idx {
							continue
						}
						if a2, ok := list[j].(*ast.AssignStmt); ok && len(a2.Lhs) == 1 {
							if s2, ok := unparen(a2.Lhs[0]).(*ast.SelectorExpr); ok && s2.Sel.Name == "v" && sameObj(info, s2.X, sel.X) {
								t := typeStr(info.TypeOf(a2.Rhs[0]))
								if inSet(t, want) {
									okc, why = true, "operand assigned alongside with type "+t
								}
							}
						}
					}
					// accepted: a preceding `if x, ok := X.v.(T); !ok || … { break/return/continue }` with T ∈ want
					if !okc {
						for k := len(stack) - 1; k >= 0 && !okc; k-- {
							var lst []ast.Stmt
							switch x := stack[k].(type) {
							case *ast.BlockStmt:
								lst = x.List
							case *ast.CaseClause:
								lst = x.Body
							}
							for _, s := range lst {
								if s.Pos() >= as.Pos() {
									break
								}
								ifs, ok := s.(*ast.IfStmt)
								if !ok || ifs.Init == nil {
									continue
								}
								a2, ok := ifs.Init.(*ast.AssignStmt)
								if !ok || len(a2.Rhs) != 1 || len(a2.Lhs) != 2 {
									continue
								}
								ta, ok := a2.Rhs[0].(*ast.TypeAssertExpr)
								if !ok || ta.Type == nil {
									continue
								}
								s2, ok := unparen(ta.X).(*ast.SelectorExpr)
								if !ok || s2.Sel.Name != "v" || !sameObj(info, s2.X, sel.X) {
									continue
								}
								t := typeStr(info.TypeOf(ta.Type))
								// the condition must fail on !ok and the branch must leave
								leaves := false
								if len(ifs.Body.List) > 0 {
									switch ifs.Body.List[len(ifs.Body.List)-1].(type) {
									case *ast.BranchStmt, *ast.ReturnStmt:
										leaves = true
									}
								}
								negOK := mentions(ifs.Cond, func(e ast.Expr) bool {
									u, ok := e.(*ast.UnaryExpr)
									if !ok || u.Op != token.NOT {
										return false
									}
									id, ok := u.X.(*ast.Ident)
									return ok && info.ObjectOf(id) == info.ObjectOf(a2.Lhs[1].(*ast.Ident))
								})
								if inSet(t, want) && leaves && negOK {
									okc, why = true, "old operand asserted to "+t+" by a dominating comma-ok test"
								}
							}
						}
					}
					if okc {
						r.OK(key, as.Pos(), "%s: %s", newOp, why)
					} else {
						r.Bad(key, as.Pos(), "op rewritten to %s (asserts %v) in %s without evidence that the operand has that type", newOp, want, fn)
					}
				case "v":
					// X.v = E: the ops X can have here come from the enclosing case list of a switch on X.op or a co-located X.op assignment
					key := "rewrite:" + fn + ":" + c.Src(sel.X) + ".v"
					var ops []string
					list, idx := stmtListOf(fd.Body, as)
					for j := idx - 2; j <= idx+2 && j < len(list); j++ {
						if j < 0 || j == idx {
							continue
						}
						if a2, ok := list[j].(*ast.AssignStmt); ok && len(a2.Lhs) == 1 {
							if s2, ok := unparen(a2.Lhs[0]).(*ast.SelectorExpr); ok && s2.Sel.Name == "op" && sameObj(info, s2.X, sel.X) {
								if id, ok := unparen(a2.Rhs[0]).(*ast.Ident); ok {
									ops = []string{id.Name}
								}
							}
						}
					}
					if ops == nil {
						for k := len(stack) - 1; k >= 0 && ops == nil; k-- {
							if cc, ok := stack[k].(*ast.CaseClause); ok && k > 0 {
								if sw, ok := stack[k-2].(*ast.SwitchStmt); ok && sw.Tag != nil {
									if s2, ok := unparen(sw.Tag).(*ast.SelectorExpr); ok && s2.Sel.Name == "op" && sameObj(info, s2.X, sel.X) {
										for _, e := range cc.List {
											if id, ok := e.(*ast.Ident); ok {
												ops = append(ops, id.Name)
											}
										}
									}
								}
							}
						}
					}
					if ops == nil {
						r.Undecided(key, as.Pos(), "cannot determine which opcodes %s may have where its operand is rewritten", c.Src(sel.X))
						continue
					}
					// type set of E
					var ts []string
					rhs := as.Rhs[i]
					if t := info.TypeOf(rhs); t != nil && !isEmptyIface(t) {
						ts = []string{typeStr(t)}
					} else if s2, ok := unparen(rhs).(*ast.SelectorExpr); ok && s2.Sel.Name == "v" {
						// Y.v under a guard Y.op == K  →  OperandType[K]
						for k := len(stack) - 1; k >= 0 && ts == nil; k-- {
							if ifs, ok := stack[k].(*ast.IfStmt); ok {
								ast.Inspect(ifs, func(q ast.Node) bool {
									if be, ok := q.(*ast.BinaryExpr); ok && be.Op == token.EQL && be.End() <= as.Pos() {
										if s3, ok := unparen(be.X).(*ast.SelectorExpr); ok && s3.Sel.Name == "op" && sameObj(info, s3.X, s2.X) {
											if id, ok := unparen(be.Y).(*ast.Ident); ok {
												ts = ot[id.Name]
											}
										}
									}
									return true
								})
							}
						}
					}
					if ts == nil {
						r.Undecided(key, as.Pos(), "cannot determine the type of the new operand %s", c.Src(rhs))
						continue
					}
					bad := ""
					for _, op := range ops {
						for _, t := range ts {
							if len(ot[op]) > 0 && !inSet(t, ot[op]) {
								bad = fmt.Sprintf("%s asserts %v, new operand has type %s", op, ot[op], t)
							}
						}
					}
					r.Check(bad == "", key, as.Pos(), "operand of %v rewritten with type(s) %v%s", ops, ts, map[bool]string{true: "", false: " — " + bad}[bad == ""])
				}
			}
			return true
		})
	}
}

func ruleC01CallTriple(c *Ctx, r *Rep) {
	info := c.Gojq.TypesInfo
	ents, err := nativeEntries(c)
	if err != nil {
		r.Undecided("internalFuncs", token.NoPos, "%v", err)
		return
	}
	mask := map[string]int64{}
	for _, e := range ents {
		mask[e.Name] = e.Mask
	}
	for _, fd := range c.Decls(c.Gojq) {
		ast.Inspect(fd.Body, func(m ast.Node) bool {
			cl, ok := m.(*ast.CompositeLit)
			if !ok || len(cl.Elts) != 3 {
				return true
			}
			if a, ok := info.TypeOf(cl).Underlying().(*types.Array); !ok || a.Len() != 3 || !isEmptyIface(a.Elem()) {
				return true
			}
			key := "triple@" + declKey(fd) + ":" + firstWords(c.Src(cl.Elts[2]), 1)
			t0, t1, t2 := typeStr(info.TypeOf(cl.Elts[0])), typeStr(info.TypeOf(cl.Elts[1])), typeStr(info.TypeOf(cl.Elts[2]))
			okT := isNativeSig(info.TypeOf(cl.Elts[0])) && t1 == "int" && t2 == "string"
			if !okT {
				r.Bad(key, cl.Pos(), "native-call operand %s has element types (%s, %s, %s); the VM asserts (func(any, []any) any, int, string)", c.Src(cl), t0, t1, t2)
				return true
			}
			// internalFuncs["K"].callback → name must be "K", n within K's mask
			detail := "element types ok"
			if sel, ok := unparen(cl.Elts[0]).(*ast.SelectorExpr); ok && sel.Sel.Name == "callback" {
				if ix, ok := unparen(sel.X).(*ast.IndexExpr); ok && c.Src(ix.X) == "internalFuncs" {
					if k, ok := constString(info, ix.Index); ok {
						name, okN := constString(info, cl.Elts[2])
						n, okC := constInt(info, cl.Elts[1])
						m, known := mask[k]
						good := okN && name == k && okC && known && m&(1<<uint(n)) != 0
						r.Check(good, key, cl.Pos(), "triple built from internalFuncs[%q]: name %q, count %d, mask %#x (the name selects the VM's path-tracking arm; the count must be an arity the native accepts)", k, name, n, m)
						return true
					}
				} else if id, ok := unparen(sel.X).(*ast.Ident); ok {
					// fn.callback with fn := internalFuncs[name] / customFuncs[e.Name]: the name element must be the lookup key
					var keyExpr ast.Expr
					ast.Inspect(fd.Body, func(q ast.Node) bool {
						switch as := q.(type) {
						case *ast.AssignStmt:
							for i, l := range as.Lhs {
								if lid, ok := l.(*ast.Ident); ok && info.ObjectOf(lid) == info.ObjectOf(id) && i < len(as.Rhs) {
									if ix, ok := unparen(as.Rhs[i]).(*ast.IndexExpr); ok {
										keyExpr = ix.Index
									}
								}
							}
						}
						return true
					})
					if keyExpr != nil {
						same := sameExprShape(info, keyExpr, cl.Elts[2])
						r.Check(same, key, cl.Pos(), "triple built from a table lookup by %s carries the name %s: %v", c.Src(keyExpr), c.Src(cl.Elts[2]), same)
						return true
					}
				}
			}
			r.OK(key, cl.Pos(), "%s", detail)
			return true
		})
	}
	// name sets: VM path-tracked arms vs compileCall's indexing switch
	vm := getVM(c)
	if vm.Err != "" {
		r.Undecided("vm-model", token.NoPos, "%s", vm.Err)
		return
	}
	vmNames := map[string]bool{}
	if cl := vm.ByOp["opcall"]; cl != nil {
		ast.Inspect(cl.CC, func(m ast.Node) bool {
			sw, ok := m.(*ast.SwitchStmt)
			if !ok {
				return true
			}
			// a switch over the native's name: any string-typed tag whose arms record a path
			recordsPath := false
			ast.Inspect(sw.Body, func(q ast.Node) bool {
				if call, ok := q.(*ast.CallExpr); ok && vm.envMethod(call) == "paths.push" {
					recordsPath = true
				}
				return true
			})
			if sw.Tag == nil && recordsPath {
				// tagless form: arms of the shape `name == "<native>" && …`
				for _, s := range sw.Body.List {
					for _, e := range s.(*ast.CaseClause).List {
						ast.Inspect(e, func(q ast.Node) bool {
							b, ok := q.(*ast.BinaryExpr)
							if !ok || b.Op != token.EQL {
								return true
							}
							for _, pr := range [][2]ast.Expr{{b.X, b.Y}, {b.Y, b.X}} {
								if v, ok := constString(vm.info, pr[0]); ok {
									if _, isc := constString(vm.info, pr[1]); !isc {
										vmNames[v] = true
									}
								}
							}
							return true
						})
					}
				}
				return true
			}
			if sw.Tag == nil {
				return true
			}
			if t := vm.info.TypeOf(sw.Tag); t != nil && typeStr(t) == "string" && recordsPath {
				for _, s := range sw.Body.List {
					for _, e := range s.(*ast.CaseClause).List {
						if v, ok := constString(vm.info, e); ok {
							vmNames[v] = true
						}
					}
				}
			}
			return true
		})
	}
	// the value compileCall gives `indexing` per native name (explicit arms and the default arm)
	ccIdx := map[string]int64{}
	var ccDefault *int64
	ccSeen := false
	if fd := c.Decl(c.Gojq, "compiler.compileCall"); fd != nil {
		ast.Inspect(fd.Body, func(m ast.Node) bool {
			sw, ok := m.(*ast.SwitchStmt)
			if !ok {
				return true
			}
			for _, s := range sw.Body.List {
				cc := s.(*ast.CaseClause)
				var val *int64
				for _, st := range cc.Body {
					if as, ok := st.(*ast.AssignStmt); ok && len(as.Rhs) == 1 {
						if v, ok := constInt(info, as.Rhs[0]); ok && c.Src(as.Lhs[0]) == "indexing" {
							v := v
							val = &v
						}
					}
				}
				if val == nil {
					continue
				}
				ccSeen = true
				if cc.List == nil {
					ccDefault = val
				}
				for _, e := range cc.List {
					if v, ok := constString(info, e); ok {
						ccIdx[v] = *val
					}
				}
			}
			return true
		})
	}
	a := keysOf(vmNames)
	if len(a) == 0 || !ccSeen {
		r.Undecided("nameset", token.NoPos, "the name switch of the VM's opcall clause (%v) or of compileCall (%v) was not recognised", a, ccIdx)
		return
	}
	var bad []string
	for _, nm := range a {
		v, ok := ccIdx[nm]
		if !ok && ccDefault != nil {
			v, ok = *ccDefault, true
		}
		if !ok || v < 0 {
			bad = append(bad, nm)
		}
	}
	r.Check(len(a) >= 3 && len(bad) == 0, "nameset", token.NoPos, "every native the VM records a path for %v is compiled by compileCall with its key/path arguments bracketed by opexpbegin/opexpend (indexing >= 0); not so: %v", a, bad)
}

// ---- closers ----

func isErrorReturn(info *types.Info, rs *ast.ReturnStmt, stack []ast.Node) bool {
	if len(rs.Results) == 0 {
		return false
	}
	last := unparen(rs.Results[len(rs.Results)-1])
	t := info.TypeOf(last)
	errT := types.Universe.Lookup("error").Type()
	if t == nil {
		return false
	}
	switch x := last.(type) {
	case *ast.Ident:
		if x.Name == "nil" {
			return false
		}
		// `return err` inside `if err != nil` (or if-init form)
		if types.Identical(t, errT) {
			for i := len(stack) - 1; i >= 0; i-- {
				if ifs, ok := stack[i].(*ast.IfStmt); ok {
					if be, ok := unparen(ifs.Cond).(*ast.BinaryExpr); ok && be.Op == token.NEQ && isNilIdent(be.Y) {
						if id, ok := unparen(be.X).(*ast.Ident); ok && info.ObjectOf(id) == info.ObjectOf(x) {
							return true
						}
					}
				}
			}
		}
	case *ast.UnaryExpr:
		if x.Op == token.AND {
			return true // &someError{…}
		}
	case *ast.CallExpr:
		switch calleeName(info, x) {
		case "fmt.Errorf", "errors.New":
			return true
		}
	}
	return false
}

func ruleC01Closers(c *Ctx, r *Rep) {
	info := c.Gojq.TypesInfo
	sources := map[string]bool{"gojq.compiler.newScopeDepth": true, "gojq.compiler.lazy": true, "gojq.compiler.appendBuiltin": true}
	for _, fd := range c.Decls(c.Gojq) {
		fn := declKey(fd)
		if recvTypeName(fd) != "compiler" && fn != "Compile" {
			continue
		}
		var g *cfg.CFG
		getCFG := func() *cfg.CFG {
			if g == nil {
				g = cfg.New(fd.Body, func(call *ast.CallExpr) bool {
					if id, ok := call.Fun.(*ast.Ident); ok && id.Name == "panic" {
						return false
					}
					return true
				})
			}
			return g
		}
		walkStack(fd.Body, func(m ast.Node, stack []ast.Node) bool {
			if _, ok := m.(*ast.FuncLit); ok {
				// closers created inside literals are handled when the literal itself is … not needed: none exist
			}
			call, ok := m.(*ast.CallExpr)
			if !ok || !sources[calleeName(info, call)] || len(stack) == 0 {
				return true
			}
			what := strings.TrimPrefix(calleeName(info, call), "gojq.compiler.")
			key := "closer:" + fn + ":" + what
			parent := stack[len(stack)-1]
			// form 1: defer X()()   /   X()() immediately
			if outer, ok := parent.(*ast.CallExpr); ok && outer.Fun == ast.Expr(call) {
				r.OK(key, call.Pos(), "%s() is invoked in place (deferred or immediate)", what)
				return true
			}
			// form 2: f := X(); … f() on every non-error path (go/cfg)
			as, ok := parent.(*ast.AssignStmt)
			if !ok || len(as.Lhs) != 1 {
				if rs, ok := parent.(*ast.ReturnStmt); ok {
					_ = rs
					r.OK(key, call.Pos(), "%s() is returned to the caller, which is itself checked as a closer source", what)
					return true
				}
				r.Bad(key, call.Pos(), "the closer returned by %s() in %s is dropped: the lexical depth is never restored / the lazy instruction slot stays nil (a nil instruction is a nil dereference in optimizeCodeOps or Next)", what, fn)
				return true
			}
			id, ok := as.Lhs[0].(*ast.Ident)
			if !ok {
				r.Undecided(key, call.Pos(), "closer assigned to a non-identifier")
				return true
			}
			obj := info.ObjectOf(id)
			isInvoke := func(n ast.Node) bool {
				found := false
				ast.Inspect(n, func(k ast.Node) bool {
					if fl, ok := k.(*ast.FuncLit); ok {
						// captured by a closure that calls it (appendBuiltin's returned closure)
						ast.Inspect(fl.Body, func(q ast.Node) bool {
							if cl, ok := q.(*ast.CallExpr); ok {
								if f, ok := cl.Fun.(*ast.Ident); ok && info.Uses[f] == obj {
									found = true
								}
							}
							return true
						})
						return false
					}
					if cl, ok := k.(*ast.CallExpr); ok {
						if f, ok := cl.Fun.(*ast.Ident); ok && info.Uses[f] == obj {
							found = true
						}
					}
					return !found
				})
				return found
			}
			isRedef := func(n ast.Node) bool {
				a2, ok := n.(*ast.AssignStmt)
				if !ok || n == ast.Node(as) {
					return false
				}
				for _, l := range a2.Lhs {
					if lid, ok := l.(*ast.Ident); ok && info.ObjectOf(lid) == obj {
						return true
					}
				}
				return false
			}
			graph := getCFG()
			// locate the defining node
			var startB *cfg.Block
			startI := -1
			for _, b := range graph.Blocks {
				for i, n := range b.Nodes {
					if n == ast.Node(as) {
						startB, startI = b, i
					}
				}
			}
			if startB == nil {
				r.Undecided(key, call.Pos(), "definition not found in the control-flow graph")
				return true
			}
			// DFS: a path is bad if it reaches a non-error return, the function end, or a redefinition without invoking
			type pos struct {
				b *cfg.Block
				i int
			}
			seen := map[*cfg.Block]bool{}
			bad := ""
			var walk func(b *cfg.Block, from int)
			walk = func(b *cfg.Block, from int) {
				if bad != "" {
					return
				}
				for i := from; i < len(b.Nodes); i++ {
					n := b.Nodes[i]
					if isInvoke(n) {
						return
					}
					if isRedef(n) {
						bad = "it is overwritten at " + c.Pos(n.Pos()) + " before being called"
						return
					}
					if rs, ok := n.(*ast.ReturnStmt); ok {
						// find the ancestor stack of rs for the error-return test
						var st []ast.Node
						walkStack(fd.Body, func(q ast.Node, s2 []ast.Node) bool {
							if q == ast.Node(rs) {
								st = append([]ast.Node(nil), s2...)
							}
							return true
						})
						if !isErrorReturn(info, rs, st) {
							bad = "the return at " + c.Pos(rs.Pos()) + " is reached without calling it"
						}
						return
					}
				}
				if len(b.Succs) == 0 {
					// function end (implicit return) or panic
					if len(b.Nodes) > 0 {
						if es, ok := b.Nodes[len(b.Nodes)-1].(*ast.ExprStmt); ok {
							if cl, ok := es.X.(*ast.CallExpr); ok {
								if f, ok := cl.Fun.(*ast.Ident); ok && f.Name == "panic" {
									return
								}
							}
						}
					}
					bad = "the end of the function is reached without calling it"
					return
				}
				for _, s := range b.Succs {
					if !seen[s] {
						seen[s] = true
						walk(s, 0)
					}
				}
			}
			walk(startB, startI+1)
			if bad == "" {
				r.OK(key, call.Pos(), "closer %s := %s() is called on every path that does not return an error", id.Name, what)
			} else {
				r.Bad(key, call.Pos(), "closer %s := %s() in %s is not invoked on every non-error path: %s (a leaked scope depth gives later siblings the wrong shadowing; an unfilled lazy slot is a nil instruction)", id.Name, what, fn, bad)
			}
			return true
		})
	}
}

func ruleC01ScopeCount(c *Ctx, r *Rep) {
	info := c.Gojq.TypesInfo
	for _, e := range getEmits(c) {
		if e.V == nil {
			continue
		}
		readsVarCnt := mentions(e.V, func(x ast.Expr) bool {
			sel, ok := x.(*ast.SelectorExpr)
			return ok && sel.Sel.Name == "variablecnt"
		})
		readsLen := mentions(e.V, func(x ast.Expr) bool {
			call, ok := x.(*ast.CallExpr)
			if !ok || len(call.Args) != 1 {
				return false
			}
			id, ok := call.Fun.(*ast.Ident)
			if !ok || id.Name != "len" {
				return false
			}
			f, ok := selectorOn(info, call.Args[0], "compiler")
			return ok && f == "codes"
		})
		switch {
		case e.Op == "opscope" && readsVarCnt:
			r.Check(e.InLazy, "opscope@"+e.FnKey, e.Lit.Pos(), "opscope operand %s reads variablecnt %s: variables declared while compiling the body must be counted, so the operand has to be built when the closer runs (built eagerly it reserves too few registers and env.values is corrupted only for bodies that bind variables)", c.Src(e.V), map[bool]string{true: "inside the lazy literal", false: "EAGERLY"}[e.InLazy])
		case readsLen && e.InList == nil:
			// a bare len(c.codes) names the next instruction to be emitted: forward target → must be lazy.
			// len(c.codes)+K with a constant K is a fixed skip over the next K-1 single emissions (checked by the template verifier)
			bare := strings.HasPrefix(c.Src(e.V), "len(") && !strings.Contains(c.Src(e.V), "+")
			if bare {
				r.Check(e.InLazy, e.Op+"@"+e.FnKey, e.Lit.Pos(), "%s operand len(c.codes) in %s is evaluated %s (a forward target is only known after the skipped code was emitted)", e.Op, e.FnKey, map[bool]string{true: "inside the lazy literal", false: "EAGERLY: it names the instruction itself or its successor"}[e.InLazy])
			} else {
				r.Info(e.Op+"@"+e.FnKey+":offset", e.Lit.Pos(), "%s operand %s: fixed forward offset", e.Op, c.Src(e.V))
			}
		}
	}
}

func isNativeSig(t types.Type) bool {
	sig, ok := t.(*types.Signature)
	if !ok || sig.Params().Len() != 2 || sig.Results().Len() != 1 || sig.Variadic() {
		return false
	}
	p1, ok := sig.Params().At(1).Type().(*types.Slice)
	return isEmptyIface(sig.Params().At(0).Type()) && ok && isEmptyIface(p1.Elem()) && isEmptyIface(sig.Results().At(0).Type())
}
