package main

import (
	"fmt"
	"os"
	"path/filepath"
	"strings"
	"unicode"
)

// Engine YACC: a reader for parser.go.y (declarations, precedence block, rules with actions).

type YRule struct {
	N      int // 1-based rule number in order of appearance (0 is $accept)
	LHS    string
	RHS    []string // symbols: identifiers or 'c' character tokens
	Prec   string   // %prec override, "" if none
	Action string   // raw action text without the outer braces, "" if none
	Line   int
}

type YPrecLevel struct {
	Assoc  string // left, right, nonassoc
	Tokens []string
	Line   int
}

type Yacc struct {
	Path       string
	Levels     []YPrecLevel
	Rules      []*YRule
	ValueType  map[string]string // symbol → union member (value, token, operator)
	Tokens     map[string]bool
	Err        string
}

var yaccCache = map[*Ctx]*Yacc{}

func getYacc(c *Ctx) *Yacc {
	if y, ok := yaccCache[c]; ok {
		return y
	}
	y := parseYacc(filepath.Join(c.Repo, "parser.go.y"))
	yaccCache[c] = y
	return y
}

type ytok struct {
	kind string // id, char, action, punct, directive
	text string
	line int
}

func ylex(src string, startLine int) ([]ytok, error) {
	var out []ytok
	line := startLine
	i := 0
	for i < len(src) {
		ch := src[i]
		switch {
		case ch == '\n':
			line++
			i++
		case ch == ' ' || ch == '\t' || ch == '\r':
			i++
		case ch == '/' && i+1 < len(src) && src[i+1] == '/':
			for i < len(src) && src[i] != '\n' {
				i++
			}
		case ch == '/' && i+1 < len(src) && src[i+1] == '*':
			j := strings.Index(src[i+2:], "*/")
			if j < 0 {
				return nil, fmt.Errorf("unterminated comment at line %d", line)
			}
			line += strings.Count(src[i:i+2+j+2], "\n")
			i += 2 + j + 2
		case ch == '\'':
			j := i + 1
			for j < len(src) && src[j] != '\'' {
				if src[j] == '\\' {
					j++
				}
				j++
			}
			out = append(out, ytok{"char", src[i : j+1], line})
			i = j + 1
		case ch == '{':
			// balanced action block; skip strings, runes and comments inside
			depth := 0
			j := i
			l0 := line
			for j < len(src) {
				switch src[j] {
				case '{':
					depth++
				case '}':
					depth--
				case '\n':
					line++
				case '"':
					j++
					for j < len(src) && src[j] != '"' {
						if src[j] == '\\' {
							j++
						}
						j++
					}
				case '`':
					j++
					for j < len(src) && src[j] != '`' {
						if src[j] == '\n' {
							line++
						}
						j++
					}
				case '\'':
					j++
					for j < len(src) && src[j] != '\'' {
						if src[j] == '\\' {
							j++
						}
						j++
					}
				}
				j++
				if depth == 0 {
					break
				}
			}
			out = append(out, ytok{"action", src[i+1 : j-1], l0})
			i = j
		case ch == '%':
			j := i + 1
			for j < len(src) && (unicode.IsLetter(rune(src[j])) || src[j] == '%') {
				j++
			}
			out = append(out, ytok{"directive", src[i:j], line})
			i = j
		case unicode.IsLetter(rune(ch)) || ch == '_':
			j := i
			for j < len(src) && (unicode.IsLetter(rune(src[j])) || unicode.IsDigit(rune(src[j])) || src[j] == '_') {
				j++
			}
			out = append(out, ytok{"id", src[i:j], line})
			i = j
		case ch == '<':
			j := strings.IndexByte(src[i:], '>')
			out = append(out, ytok{"tag", src[i+1 : i+j], line})
			i += j + 1
		default:
			out = append(out, ytok{"punct", string(ch), line})
			i++
		}
	}
	return out, nil
}

func parseYacc(path string) *Yacc {
	y := &Yacc{Path: path, ValueType: map[string]string{}, Tokens: map[string]bool{}}
	b, err := os.ReadFile(path)
	if err != nil {
		y.Err = err.Error()
		return y
	}
	src := string(b)
	parts := strings.Split(src, "\n%%")
	if len(parts) < 2 {
		y.Err = "no %% separator"
		return y
	}
	decl := parts[0]
	// strip %{ … %} and %union { … }
	if i := strings.Index(decl, "%{"); i >= 0 {
		if j := strings.Index(decl, "%}"); j > i {
			decl = decl[:i] + strings.Repeat("\n", strings.Count(decl[i:j+2], "\n")) + decl[j+2:]
		}
	}
	for _, ln := range strings.Split(decl, "\n") {
		_ = ln
	}
	lines := strings.Split(decl, "\n")
	inUnion := false
	for li, ln := range lines {
		t := strings.TrimSpace(ln)
		if strings.HasPrefix(t, "%union") {
			inUnion = true
			continue
		}
		if inUnion {
			if t == "}" {
				inUnion = false
			}
			continue
		}
		f := strings.Fields(t)
		if len(f) == 0 {
			continue
		}
		switch {
		case strings.HasPrefix(f[0], "%type") || strings.HasPrefix(f[0], "%token"):
			tag := ""
			if i := strings.Index(f[0], "<"); i >= 0 {
				tag = strings.TrimSuffix(f[0][i+1:], ">")
			}
			for _, s := range f[1:] {
				y.ValueType[s] = tag
				if strings.HasPrefix(f[0], "%token") {
					y.Tokens[s] = true
				}
			}
		case f[0] == "%left" || f[0] == "%right" || f[0] == "%nonassoc":
			y.Levels = append(y.Levels, YPrecLevel{Assoc: f[0][1:], Tokens: f[1:], Line: li + 1})
			for _, s := range f[1:] {
				y.Tokens[s] = true
			}
		}
	}
	startLine := strings.Count(parts[0], "\n") + 2
	toks, err := ylex(parts[1], startLine)
	if err != nil {
		y.Err = err.Error()
		return y
	}
	// rules: id ':' alt ('|' alt)*   — a new rule starts at `id ':'`
	i := 0
	n := 0
	for i < len(toks) {
		if toks[i].kind != "id" || i+1 >= len(toks) || toks[i+1].text != ":" {
			y.Err = fmt.Sprintf("line %d: expected `name :`, got %q", toks[i].line, toks[i].text)
			return y
		}
		lhs := toks[i].text
		i += 2
		for {
			n++
			r := &YRule{N: n, LHS: lhs, Line: toks[min(i, len(toks)-1)].line}
			for i < len(toks) {
				t := toks[i]
				if t.kind == "punct" && t.text == "|" {
					break
				}
				if t.kind == "id" && i+1 < len(toks) && toks[i+1].kind == "punct" && toks[i+1].text == ":" {
					break
				}
				switch t.kind {
				case "id", "char":
					r.RHS = append(r.RHS, t.text)
				case "directive":
					if t.text == "%prec" && i+1 < len(toks) {
						r.Prec = toks[i+1].text
						i++
					}
				case "action":
					r.Action = t.text
				case "punct":
					if t.text != ";" {
						y.Err = fmt.Sprintf("line %d: unexpected %q in rule %s", t.line, t.text, lhs)
						return y
					}
				}
				i++
			}
			y.Rules = append(y.Rules, r)
			if i < len(toks) && toks[i].text == "|" {
				i++
				continue
			}
			break
		}
	}
	return y
}

// precOf returns (level index, assoc) of a token in the precedence block, -1 if absent.
func (y *Yacc) precOf(tok string) (int, string) {
	for i, l := range y.Levels {
		for _, t := range l.Tokens {
			if t == tok {
				return i, l.Assoc
			}
		}
	}
	return -1, ""
}

// rulePrecToken: the %prec override or the last terminal of the RHS.
func (y *Yacc) rulePrecToken(r *YRule) string {
	if r.Prec != "" {
		return r.Prec
	}
	for i := len(r.RHS) - 1; i >= 0; i-- {
		s := r.RHS[i]
		if strings.HasPrefix(s, "'") || y.Tokens[s] {
			return s
		}
	}
	return ""
}
