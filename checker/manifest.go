package main

import (
	"fmt"
	"sort"
	"strings"
)

// notApplicable lists the properties that are not claimed, with the reason (DESIGN.md section 4).
var notApplicable = map[string]string{}

var techniques = map[string]string{
	"C01": "custom static analysis: VM dispatch model (AST+types), fork save/restore pairing, CFG closer-pairing, writer/reader operand-type agreement, bytecode verifier over literal instruction lists and lowering templates",
	"C02": "custom static analysis: path-tracking discipline at navigation sites (control dependence), bytecode verifier for hand-compiled = and |=, SSA ownership/capacity-leak analysis of update helpers",
	"C03": "custom static analysis: builtin.go literal evaluated and compared token-wise with builtin.jq + grammar-derived canonical form; numeric-representation exhaustiveness and single-normalisation-point lints over type switches",
	"C04": "custom static analysis: rule-by-rule audit of the optimiser (rewrite rules extracted from source, checked against per-opcode stack effects extracted from the VM)",
	"C05": "custom SSA ownership analysis of every write into []any / map[string]any (greatest fixpoint, guard-sensitive), allocator-registration and *big.Int receiver freshness, map-range order-insensitivity shapes",
	"C06": "custom SSA/call-graph effect analysis: no store rooted at package globals, *Code, code, AST or compiler state reachable from a run; ownership analysis shared with C05",
	"C07": "custom CFG/AST analysis of (*env).Next: context poll on every instruction-fetch cycle, terminal cancellation/exhaustion typestate, stack-neutral error exits",
	"C08": "custom static analysis: enum exhaustiveness, panic-site census with call-graph reachability, type-assertion discharge, grammar semantic-value typing, optional-method dispatch chains, range-over-func yield protocol (CFG), parallel-slice length relations discharged at call sites, length facts implied by dominating conditions for every constant cut of a string, argument-count bounds on the VM's positional native-argument reads, lexer step licensing (go/cfg)",
	"C09": "custom static analysis: parser.go.y precedence/associativity audit, goyacc regeneration compared as Go AST with parser.go, lexer↔grammar↔printer operator text agreement, printer field coverage, in-band EOF sentinel lint",
	"C10": "custom static analysis: overflow-guard presence on int fast paths (CFG), guarded int negation, integer cells never routed through float64, UseNumber typestate on every JSON decoder, verbatim number plumbing in both encoders, json.Number provenance through third-party decoders (dependency source inspected), range tests before narrowing conversions, clamp-before-multiply and side-of-overflow bounds on saturated conversions of JSON numbers (interprocedural provenance)",
	"C11": "custom static analysis: single comparison function (call graph + interface-equality census), stable sort API, native string order for keys, typeIndex constants",
	"C12": "custom static analysis: sibling agreement of the two JSON encoders modulo decoration, single encoder per package, decoration writes are whitespace/SGR constants; audit of what reaches the YAML encoder (type-switch arms of the converter, premise read from the dependency source)",
	"C13": "custom static analysis: codec-pair agreement (matching alphabet, escape, location and conversion halves)",
	"C14": "custom SSA taint analysis: byte offsets (regexp/strings/len/range-over-string) must not reach jq-visible values unconverted; cache-key determinacy by backward slicing, flag forwarding in the shipped regex definitions (evaluated builtin.go literal), sentinel-first use of clamped positions, no multiplied cut positions",
	"C15": "custom static analysis: stream discipline (stdout writers), status-constant and ExitCode table, input-loop exits, terminator bytes, HaltError let through at every error-interception site of the VM",
	"C16": "custom static analysis: shared-iterator identity, sticky-error typestate over all input iterators, UseNumber typestate",
	"C17": "custom static analysis: tee capture-buffer window protocol (bytes dropped only up to the decoder's InputOffset), must-assign analysis of the lexer's token over its CFG, token-is-source-slice lint, reconciliation of encoding/json's two offset conventions, terminator agreement between the discarded-line counters and the excerpt scanner, seek-origin audit of the input re-read, rune-boundary reaching-definitions over the excerpt cuts, licensing of every lexer step by a test of the byte stepped over (go/cfg)",
	"C18": "custom static analysis: defer/pairing and capture-time audit of compileModule, emission census of data imports, total-comparator check of modulemeta lists, shape of the two lookup candidates, unnormalised search-path flow, user metadata before computed keys; floor audit of compileModule and of every search through the open scopes (importer names invisible inside imported modules)",
	"C19": "custom capability analysis: ambient-authority symbol census over the call graph, option-only field stores, nil-guarded capability uses, sibling call sites of custom functions, exp-bracket placement of native arguments in the emission templates of compileCallInternal with a checked value predicate",
	"C20": "custom static analysis: tail-position check of recursive builtin definitions over the evaluated builtin.go AST, tail-call rewrite conditions, frame reuse ordering, per-iteration backtrack pairing; capture-buffer trimming of the input iterators, bounded regexp cache",
}

func claimed() []string {
	var ids []string
	for id := range props {
		if len(rulesFor(id)) > 0 {
			if _, na := notApplicable[id]; !na {
				ids = append(ids, id)
			}
		}
	}
	sort.Strings(ids)
	return ids
}

func manifest() map[string]any {
	var checks []map[string]any
	for _, id := range claimed() {
		p := props[id]
		var rs []string
		for _, r := range rulesFor(id) {
			rs = append(rs, r.ID)
		}
		checks = append(checks, map[string]any{
			"property_id":         id,
			"quick_cmd":           "./check " + id,
			"thorough_cmd":        "./check " + id + " --tier thorough",
			"evidence_file":       "/verif/evidence/" + id + ".json",
			"replay_cmd_template": "./check " + id + " --replay {path}",
			"engine":              "checker",
			"technique":           techniques[id],
			"level_claimed": map[string]any{
				"category": "other",
				"text": "Static analysis only; structural necessary conditions, not the behaviour. Decided: " + p.Decided +
					" Not covered: " + p.NotCovered + " Rules: " + strings.Join(rs, ", ") +
					". This is the right level because the property quantifies over programs × inputs (or schedules/histories), which no sound static argument in reach decides whole; what static analysis can settle, and sampled tests cannot, is that these conditions hold on every path of the implementation.",
				"design_ref": "DESIGN.md section 2, " + id,
			},
			"level_note": "Trusted: go/types, go/ssa, go/cfg and the VTA call graph of golang.org/x/tools v0.29.0; the rule definitions, accepted-idiom lists and per-construct exception tables in /verif/checker (each exception is one named construct with a reason). Undecided (unresolved anchor, type errors, instance floor not met) exits 2 and is never reported as a violation.",
		})
	}
	na := []map[string]any{}
	var naIDs []string
	for id := range notApplicable {
		naIDs = append(naIDs, id)
	}
	for i := 1; i <= 20; i++ {
		id := fmt.Sprintf("C%02d", i)
		if _, ok := notApplicable[id]; ok {
			continue
		}
		if props[id] == nil || len(rulesFor(id)) == 0 {
			notApplicable[id] = "not yet claimed: no rule for this property has been built and validated so far (see DESIGN.md section 5.2 for the order of construction)"
			naIDs = append(naIDs, id)
		}
	}
	sort.Strings(naIDs)
	for _, id := range naIDs {
		na = append(na, map[string]any{"property_id": id, "reason": notApplicable[id]})
	}
	return map[string]any{
		"version":   1,
		"setup_cmd": "./setup.sh",
		"hooks": map[string]any{
			"guard":            "verif",
			"enable":           "none: static analysis needs no instrumentation; no source in /repo is guarded by the tag",
			"baseline_off_cmd": "cd /repo && go test -mod=mod -vet=off -count=1 -timeout 25m ./...",
			"source_commits":   []string{},
			"add_only":         true,
		},
		"engines": []map[string]any{
			{"name": "checker", "path": "/verif/checker", "serves_properties": claimed(),
				"kind_free_text": "one Go binary (go/packages, go/types, go/cfg, go/ssa, VTA call graph, goyacc) holding all repository-specific rules; ./check <id> runs the rules of one property against /repo's working tree"},
		},
		"checks":         checks,
		"not_applicable": na,
		"notes": "Family: static analysis. Every verdict is decided from /repo's current source without running gojq. Exit 0 = all obligations discharged; exit 1 + VIOLATION = a named construct breaks a named rule; exit 2 + UNDECIDED = the machinery cannot see what it claims to see (never reported as a violation). " +
			"Known findings: /verif/known_findings.txt. Seeded changes and which rules catch them: /verif/seeded/ and DESIGN.md section 6.",
	}
}
