package main

import (
	"go/ast"
	"go/types"
	"sort"

	"golang.org/x/tools/go/packages"
)

// EnumSwitch is a switch statement whose tag has a named integer type with declared constants.
type EnumSwitch struct {
	Fn       string
	Sw       *ast.SwitchStmt
	TypeName string
	Cases    map[string]bool
	Other    int    // case expressions that are not declared constants (e.g. Operator(0))
	Default  string // "absent" | "panics" | "returns" | "other"
	DefCC    *ast.CaseClause
}

func classifyDefault(info *types.Info, cc *ast.CaseClause) string {
	if cc == nil {
		return "absent"
	}
	if len(cc.Body) == 0 {
		return "other"
	}
	last := cc.Body[len(cc.Body)-1]
	switch s := last.(type) {
	case *ast.ExprStmt:
		if call, ok := s.X.(*ast.CallExpr); ok {
			if id, ok := call.Fun.(*ast.Ident); ok && id.Name == "panic" && info.Uses[id] == types.Universe.Lookup("panic") {
				return "panics"
			}
		}
	case *ast.ReturnStmt:
		return "returns"
	}
	return "other"
}

func enumSwitches(c *Ctx, p *packages.Package, typeName string) []*EnumSwitch {
	info := p.TypesInfo
	var out []*EnumSwitch
	for _, fd := range c.Decls(p) {
		ast.Inspect(fd.Body, func(n ast.Node) bool {
			sw, ok := n.(*ast.SwitchStmt)
			if !ok || sw.Tag == nil {
				return true
			}
			tv, ok := info.Types[sw.Tag]
			if !ok || !isNamed(tv.Type, p.PkgPath, typeName) {
				return true
			}
			if _, isPtr := tv.Type.(*types.Pointer); isPtr {
				return true
			}
			es := &EnumSwitch{Fn: declKey(fd), Sw: sw, TypeName: typeName, Cases: map[string]bool{}}
			for _, s := range sw.Body.List {
				cc := s.(*ast.CaseClause)
				if cc.List == nil {
					es.DefCC = cc
					continue
				}
				for _, e := range cc.List {
					if id, ok := unparen(e).(*ast.Ident); ok {
						if k, ok := info.Uses[id].(*types.Const); ok {
							es.Cases[k.Name()] = true
							continue
						}
					}
					es.Other++
				}
			}
			es.Default = classifyDefault(info, es.DefCC)
			out = append(out, es)
			return true
		})
	}
	return out
}

func missingFrom(all []*types.Const, have map[string]bool) []string {
	var out []string
	for _, k := range all {
		if !have[k.Name()] {
			out = append(out, k.Name())
		}
	}
	sort.Strings(out)
	return out
}
