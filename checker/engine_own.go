package main

import (
	"fmt"
	"go/token"
	"go/types"
	"sort"
	"strings"

	"golang.org/x/tools/go/ssa"
)

// Engine OWN: ownership of JSON containers ([]any, map[string]any, [][]any) in package gojq.
// For every instruction that writes into such a container it decides whether the destination is
// owned by the running reduction (DESIGN.md, C05). Greatest fixpoint over phi nodes, loops,
// parameter summaries and return summaries; guard-sensitive for allocator.allocated(x).

type ownSink struct {
	Fn    *ssa.Function
	Instr ssa.Instruction
	Dest  ssa.Value
	Kind  string // store, mapupdate, append, copy, delete, clear, maps.Copy, sort
	Key   string
	Owned bool
	Why   string
}

type ownKey struct {
	kind string // "v" value@ctx, "p" param, "r" return, "c" cell, "e" elements-of
	val  ssa.Value
	ctx  *ssa.BasicBlock
	fn   *ssa.Function
	idx  int
}

type guardFact struct {
	val  ssa.Value
	blk  *ssa.BasicBlock // block in which (and in blocks dominated by which) val is allocator-owned
	edge [2]*ssa.BasicBlock
}

type Own struct {
	c         *Ctx
	fns       []*ssa.Function
	inPkg     map[*ssa.Function]bool
	memo      map[ownKey]bool
	order     []ownKey
	guards    map[*ssa.Function][]guardFact
	callSites map[*ssa.Function][]ssa.CallInstruction
	addrTaken map[*ssa.Function]bool
	closureOf map[*ssa.Function]*ssa.MakeClosure
	cellStores map[*ssa.Alloc][]*ssa.Store
	cellDirty  map[*ssa.Alloc]bool
	trusted   map[ssa.Value]string
	Sinks     []*ownSink
	TrustedUsed map[string]bool
}

// trustedSources: one named call each, with a reason, instead of trusting sinks.
var ownTrustedSources = []struct{ inFn, callee, reason string }{
	{"add", "funcOpAdd", "in add the accumulator v is only passed to funcOpAdd together with a non-container, non-nil x (the container×container and nil cases `continue` earlier), so the result is a scalar, a string or an error — never a container that a later append/maps.Copy could write into"},
}

var ownCache = map[*Ctx]*Own{}

func getOwn(c *Ctx) *Own {
	if o, ok := ownCache[c]; ok {
		return o
	}
	o := buildOwn(c)
	ownCache[c] = o
	return o
}

func fnOrigin(f *ssa.Function) *ssa.Function {
	if o := f.Origin(); o != nil {
		return o
	}
	return f
}

func fnQual(f *ssa.Function) string {
	f = fnOrigin(f)
	if f.Pkg != nil {
		return f.Pkg.Pkg.Path() + "." + f.Name()
	}
	if f.Object() != nil && f.Object().Pkg() != nil {
		return f.Object().Pkg().Path() + "." + f.Name()
	}
	return f.Name()
}

// topName is the name of the outermost enclosing declared function ("add" for "add$1").
func topName(f *ssa.Function) string {
	for f.Parent() != nil {
		f = f.Parent()
	}
	n := fnOrigin(f).Name()
	if r := fnOrigin(f).Signature.Recv(); r != nil {
		t := r.Type()
		if p, ok := t.(*types.Pointer); ok {
			t = p.Elem()
		}
		if nt, ok := t.(*types.Named); ok {
			n = nt.Obj().Name() + "." + n
		}
	}
	return n
}

func mayHoldContainer(t types.Type) bool {
	if isJSONContainer(t) {
		return true
	}
	switch u := t.Underlying().(type) {
	case *types.Interface:
		return true
	case *types.Tuple:
		for i := 0; i < u.Len(); i++ {
			if mayHoldContainer(u.At(i).Type()) {
				return true
			}
		}
	}
	return false
}

func buildOwn(c *Ctx) *Own {
	o := &Own{c: c, memo: map[ownKey]bool{}, inPkg: map[*ssa.Function]bool{},
		guards: map[*ssa.Function][]guardFact{}, callSites: map[*ssa.Function][]ssa.CallInstruction{},
		addrTaken: map[*ssa.Function]bool{}, closureOf: map[*ssa.Function]*ssa.MakeClosure{},
		cellStores: map[*ssa.Alloc][]*ssa.Store{}, cellDirty: map[*ssa.Alloc]bool{}, trusted: map[ssa.Value]string{},
		TrustedUsed: map[string]bool{}}
	o.fns = c.PkgFuncs(c.Gojq)
	for _, f := range o.fns {
		o.inPkg[f] = true
	}
	// pass 1: call sites, address-taken functions, closures, cells, guards, trusted sources
	for _, f := range o.fns {
		for _, b := range f.Blocks {
			for _, in := range b.Instrs {
				if mc, ok := in.(*ssa.MakeClosure); ok {
					o.closureOf[mc.Fn.(*ssa.Function)] = mc
				}
				var calleeVal ssa.Value
				if ci, ok := in.(ssa.CallInstruction); ok {
					cc := ci.Common()
					if !cc.IsInvoke() {
						calleeVal = cc.Value
					}
					if sc := cc.StaticCallee(); sc != nil {
						o.callSites[sc] = append(o.callSites[sc], ci)
						for _, t := range ownTrustedSources {
							if topName(f) == t.inFn && fnOrigin(sc).Name() == t.callee {
								if v, ok := in.(ssa.Value); ok {
									o.trusted[v] = t.inFn + "→" + t.callee
								}
							}
						}
					}
				}
				for _, op := range in.Operands(nil) {
					if *op == nil {
						continue
					}
					if fn, ok := (*op).(*ssa.Function); ok && *op != calleeVal {
						o.addrTaken[fn] = true
					}
					if mc, ok := in.(*ssa.MakeClosure); ok && *op == mc.Fn {
						delete(o.addrTaken, mc.Fn.(*ssa.Function))
					}
				}
			}
		}
	}
	// cells: resolve addresses, collect stores, mark dirty cells
	for _, f := range o.fns {
		for _, b := range f.Blocks {
			for _, in := range b.Instrs {
				switch x := in.(type) {
				case *ssa.Store:
					if a := o.resolveCell(x.Addr); a != nil {
						o.cellStores[a] = append(o.cellStores[a], x)
					}
					// storing the address of a cell somewhere makes it dirty
					if a := o.resolveCell(x.Val); a != nil {
						o.cellDirty[a] = true
					}
				case *ssa.UnOp, *ssa.MakeClosure, *ssa.DebugRef:
				default:
					for _, op := range in.Operands(nil) {
						if *op == nil {
							continue
						}
						if a := o.resolveCell(*op); a != nil {
							if _, isAlloc := (*op).(*ssa.Alloc); isAlloc || true {
								// IndexAddr/FieldAddr/Slice on an array/struct alloc are fine (composite literal init)
								switch in.(type) {
								case *ssa.IndexAddr, *ssa.FieldAddr, *ssa.Slice:
									continue
								}
								o.cellDirty[a] = true
							}
						}
					}
				}
			}
		}
	}
	for _, f := range o.fns {
		o.guards[f] = o.findGuards(f)
	}
	// pass 2: sinks
	for _, f := range o.fns {
		counts := map[string]int{}
		for _, b := range f.Blocks {
			for _, in := range b.Instrs {
				kind, dest := o.sinkOf(in)
				if dest == nil {
					continue
				}
				counts[kind]++
				o.Sinks = append(o.Sinks, &ownSink{Fn: f, Instr: in, Dest: dest, Kind: kind,
					Key: fmt.Sprintf("%s:%s#%d", fnDisplay(f), kind, counts[kind])})
			}
		}
	}
	// fixpoint
	for _, s := range o.Sinks {
		o.query(ownKey{kind: "v", val: s.Dest, ctx: s.Instr.Block()})
	}
	for changed := true; changed; {
		changed = false
		for i := 0; i < len(o.order); i++ {
			k := o.order[i]
			if !o.memo[k] {
				continue
			}
			if !o.eval(k) {
				o.memo[k] = false
				changed = true
			}
		}
	}
	for _, s := range o.Sinks {
		s.Owned = o.memo[ownKey{kind: "v", val: s.Dest, ctx: s.Instr.Block()}]
		s.Why = o.explain(s.Dest, s.Instr.Block(), 0)
	}
	sort.SliceStable(o.Sinks, func(i, j int) bool { return o.Sinks[i].Instr.Pos() < o.Sinks[j].Instr.Pos() })
	return o
}

func fnDisplay(f *ssa.Function) string {
	n := topName(f)
	if f.Parent() != nil {
		// closure ordinal path
		s := f.Name()
		if i := strings.Index(s, "$"); i >= 0 {
			n += s[i:]
		}
	}
	return n
}

func (o *Own) resolveCell(addr ssa.Value) *ssa.Alloc {
	for depth := 0; depth < 8; depth++ {
		switch a := addr.(type) {
		case *ssa.Alloc:
			return a
		case *ssa.FreeVar:
			fn := a.Parent()
			mc := o.closureOf[fn]
			if mc == nil {
				return nil
			}
			idx := -1
			for i, fv := range fn.FreeVars {
				if fv == a {
					idx = i
				}
			}
			if idx < 0 || idx >= len(mc.Bindings) {
				return nil
			}
			addr = mc.Bindings[idx]
		default:
			return nil
		}
	}
	return nil
}

func stripIface(v ssa.Value) ssa.Value {
	for {
		switch x := v.(type) {
		case *ssa.MakeInterface:
			v = x.X
		case *ssa.ChangeType:
			v = x.X
		default:
			return v
		}
	}
}

func (o *Own) findGuards(f *ssa.Function) []guardFact {
	var out []guardFact
	for _, b := range f.Blocks {
		if len(b.Instrs) == 0 {
			continue
		}
		ifi, ok := b.Instrs[len(b.Instrs)-1].(*ssa.If)
		if !ok {
			continue
		}
		cond := ifi.Cond
		neg := false
		for {
			if u, ok := cond.(*ssa.UnOp); ok && u.Op == token.NOT {
				neg = !neg
				cond = u.X
				continue
			}
			break
		}
		call, ok := cond.(*ssa.Call)
		if !ok {
			continue
		}
		sc := call.Common().StaticCallee()
		if sc == nil || fnQual(sc) != pathGojq+".allocated" || len(call.Common().Args) != 2 {
			continue
		}
		val := stripIface(call.Common().Args[1])
		tIdx := 0
		if neg {
			tIdx = 1
		}
		succ := b.Succs[tIdx]
		if b.Succs[0] == b.Succs[1] {
			continue
		}
		g := guardFact{val: val, edge: [2]*ssa.BasicBlock{b, succ}}
		if len(succ.Preds) == 1 {
			g.blk = succ
		}
		out = append(out, g)
	}
	return out
}

// fact reports whether val is known allocator-owned in block ctx.
func (o *Own) fact(val ssa.Value, ctx *ssa.BasicBlock) bool {
	if ctx == nil {
		return false
	}
	val = stripIface(val)
	for _, g := range o.guards[ctx.Parent()] {
		if g.val == val && g.blk != nil && g.blk.Dominates(ctx) {
			return true
		}
	}
	return false
}

func (o *Own) edgeFact(val ssa.Value, from, to *ssa.BasicBlock) bool {
	val = stripIface(val)
	for _, g := range o.guards[from.Parent()] {
		if g.val == val && g.edge[0] == from && g.edge[1] == to {
			return true
		}
	}
	return false
}

func (o *Own) sinkOf(in ssa.Instruction) (string, ssa.Value) {
	switch x := in.(type) {
	case *ssa.Store:
		if ia, ok := x.Addr.(*ssa.IndexAddr); ok && isJSONContainer(ia.X.Type()) {
			return "store", ia.X
		}
	case *ssa.MapUpdate:
		if isJSONContainer(x.Map.Type()) {
			return "mapupdate", x.Map
		}
	case ssa.CallInstruction:
		cc := x.Common()
		if b, ok := cc.Value.(*ssa.Builtin); ok {
			switch b.Name() {
			case "append", "copy", "delete", "clear":
				if len(cc.Args) > 0 && isJSONContainer(cc.Args[0].Type()) {
					if c, ok := cc.Args[0].(*ssa.Const); ok && c.IsNil() {
						return "", nil
					}
					return b.Name(), cc.Args[0]
				}
			}
			return "", nil
		}
		if sc := cc.StaticCallee(); sc != nil {
			q := fnQual(sc)
			switch {
			case q == "maps.Copy", q == "maps.Insert", q == "maps.DeleteFunc":
				if len(cc.Args) > 0 && isJSONContainer(cc.Args[0].Type()) {
					return q, cc.Args[0]
				}
			case strings.HasPrefix(q, "sort.") || (strings.HasPrefix(q, "slices.") &&
				(strings.Contains(q, "Sort") || q == "slices.Reverse" || q == "slices.Delete" || q == "slices.Insert" ||
					q == "slices.Compact" || q == "slices.CompactFunc" || q == "slices.DeleteFunc" || q == "slices.Replace" || q == "slices.Grow")):
				if len(cc.Args) > 0 {
					a := stripIface(cc.Args[0])
					if isJSONContainer(a.Type()) {
						return q, a
					}
				}
			}
		}
	}
	return "", nil
}

func (o *Own) query(k ownKey) bool {
	if v, ok := o.memo[k]; ok {
		return v
	}
	o.memo[k] = true // optimistic: greatest fixpoint
	o.order = append(o.order, k)
	return true
}

func (o *Own) owned(v ssa.Value, ctx *ssa.BasicBlock) bool {
	return o.query(ownKey{kind: "v", val: v, ctx: ctx})
}

// envRooted: address/value derived from a field of *env (VM-private storage).
func (o *Own) envRooted(v ssa.Value) bool {
	for depth := 0; depth < 8; depth++ {
		switch x := v.(type) {
		case *ssa.FieldAddr:
			if isNamed(x.X.Type(), pathGojq, "env") {
				return true
			}
			v = x.X
		case *ssa.UnOp:
			if x.Op != token.MUL {
				return false
			}
			v = x.X
		case *ssa.Slice:
			v = x.X
		case *ssa.IndexAddr:
			v = x.X
		default:
			return false
		}
	}
	return false
}

func (o *Own) eval(k ownKey) bool {
	switch k.kind {
	case "v":
		return o.evalValue(k.val, k.ctx)
	case "p":
		return o.evalParam(k.fn, k.idx)
	case "r":
		return o.evalReturn(k.fn, k.idx)
	case "c":
		return o.evalCell(k.val.(*ssa.Alloc))
	case "e":
		return o.evalElems(k.val)
	}
	return false
}

func (o *Own) evalValue(v ssa.Value, ctx *ssa.BasicBlock) bool {
	if !mayHoldContainer(v.Type()) {
		// pointers to arrays (composite literal backing store) are fresh; other non-container types hold no container
		return true
	}
	if o.fact(v, ctx) {
		return true
	}
	if _, ok := o.trusted[v]; ok {
		return true
	}
	switch x := v.(type) {
	case *ssa.Const:
		return true
	case *ssa.MakeSlice, *ssa.MakeMap:
		return true
	case *ssa.Slice:
		if _, ok := x.X.(*ssa.Alloc); ok {
			return true // slice of a fresh array (composite literal)
		}
		if o.envRooted(x.X) {
			return true
		}
		return o.owned(x.X, ctx) || (x.Block() != ctx && o.owned(x.X, x.Block()))
	case *ssa.MakeInterface:
		return o.owned(x.X, ctx)
	case *ssa.ChangeType:
		return o.owned(x.X, ctx)
	case *ssa.ChangeInterface:
		return o.owned(x.X, ctx)
	case *ssa.TypeAssert:
		return o.owned(x.X, ctx)
	case *ssa.Phi:
		for i, e := range x.Edges {
			pred := x.Block().Preds[i]
			if o.edgeFact(e, pred, x.Block()) {
				continue
			}
			if !o.owned(e, pred) {
				return false
			}
		}
		return true
	case *ssa.Extract:
		switch t := x.Tuple.(type) {
		case *ssa.Call:
			if sc := t.Common().StaticCallee(); sc != nil {
				return o.calleeReturnOwned(sc, x.Index)
			}
			return false
		case *ssa.TypeAssert:
			return x.Index != 0 || o.owned(t.X, ctx)
		case *ssa.Lookup:
			return x.Index != 0 || o.query(ownKey{kind: "e", val: t.X})
		case *ssa.Next:
			// range over map/string: key, value. value of a map range = element of the map
			if x.Index == 2 {
				if r, ok := t.Iter.(*ssa.Range); ok {
					return o.query(ownKey{kind: "e", val: r.X})
				}
			}
			return x.Index != 2
		}
		return false
	case *ssa.Call:
		cc := x.Common()
		if b, ok := cc.Value.(*ssa.Builtin); ok {
			if b.Name() == "append" {
				return o.owned(cc.Args[0], ctx) || (x.Block() != ctx && o.owned(cc.Args[0], x.Block()))
			}
			return false
		}
		if sc := cc.StaticCallee(); sc != nil {
			return o.calleeReturnOwned(sc, 0)
		}
		return false
	case *ssa.Parameter:
		f := x.Parent()
		for i, p := range f.Params {
			if p == x {
				return o.query(ownKey{kind: "p", fn: f, idx: i})
			}
		}
		return false
	case *ssa.UnOp:
		if x.Op != token.MUL {
			return false
		}
		if o.envRooted(x.X) {
			return true
		}
		if a := o.resolveCell(x.X); a != nil {
			return o.query(ownKey{kind: "c", val: a})
		}
		if ia, ok := x.X.(*ssa.IndexAddr); ok {
			return o.query(ownKey{kind: "e", val: ia.X})
		}
		return false
	case *ssa.Lookup:
		return o.query(ownKey{kind: "e", val: x.X})
	}
	return false
}

func (o *Own) calleeReturnOwned(sc *ssa.Function, idx int) bool {
	q := fnQual(sc)
	switch q {
	case "maps.Clone", "slices.Clone", "slices.Collect", "maps.Collect", "slices.Concat", "slices.Repeat":
		return true
	}
	if !o.inPkg[sc] {
		// a function outside the package returning a container/interface: unknown
		return false
	}
	return o.query(ownKey{kind: "r", fn: sc, idx: idx})
}

func (o *Own) evalReturn(f *ssa.Function, idx int) bool {
	found := false
	for _, b := range f.Blocks {
		for _, in := range b.Instrs {
			if ret, ok := in.(*ssa.Return); ok {
				found = true
				if idx >= len(ret.Results) {
					return false
				}
				if !o.owned(ret.Results[idx], b) {
					return false
				}
			}
		}
	}
	return found
}

func (o *Own) evalParam(f *ssa.Function, idx int) bool {
	if f.Parent() != nil || o.addrTaken[f] || len(o.callSites[f]) == 0 {
		return false
	}
	if f.Object() != nil && f.Object().Exported() {
		return false
	}
	// methods reachable through interfaces get no credit
	if f.Signature.Recv() != nil && idx == 0 {
		return false
	}
	for _, cs := range o.callSites[f] {
		args := cs.Common().Args
		if idx >= len(args) {
			return false
		}
		if !o.inPkg[cs.Parent()] {
			return false
		}
		if !o.owned(args[idx], cs.Block()) {
			return false
		}
	}
	return true
}

func (o *Own) evalCell(a *ssa.Alloc) bool {
	if o.cellDirty[a] {
		return false
	}
	for _, st := range o.cellStores[a] {
		if !o.owned(st.Val, st.Block()) {
			return false
		}
	}
	return true
}

// family: values linked to c by phi / append / slice / type change inside the function
func (o *Own) family(c ssa.Value) map[ssa.Value]bool {
	fam := map[ssa.Value]bool{}
	var add func(v ssa.Value)
	add = func(v ssa.Value) {
		if v == nil || fam[v] {
			return
		}
		fam[v] = true
		switch x := v.(type) {
		case *ssa.Phi:
			for _, e := range x.Edges {
				add(e)
			}
		case *ssa.Slice:
			add(x.X)
		case *ssa.Call:
			if b, ok := x.Common().Value.(*ssa.Builtin); ok && b.Name() == "append" {
				add(x.Common().Args[0])
			}
		case *ssa.ChangeType:
			add(x.X)
		case *ssa.UnOp:
			if a := o.resolveCell(x.X); a != nil {
				for _, st := range o.cellStores[a] {
					add(st.Val)
				}
			}
		}
		if rs := v.Referrers(); rs != nil {
			for _, r := range *rs {
				switch y := r.(type) {
				case *ssa.Phi:
					add(y)
				case *ssa.Slice:
					if y.X == v {
						add(y)
					}
				case *ssa.Call:
					if b, ok := y.Common().Value.(*ssa.Builtin); ok && b.Name() == "append" && y.Common().Args[0] == v {
						add(y)
					}
				case *ssa.ChangeType:
					add(y)
				case *ssa.Store:
					if y.Val == v {
						if a := o.resolveCell(y.Addr); a != nil {
							// loads of that cell join the family
							if rr := a.Referrers(); rr != nil {
								for _, ld := range *rr {
									if u, ok := ld.(*ssa.UnOp); ok {
										add(u)
									}
								}
							}
						}
					}
				}
			}
		}
	}
	add(c)
	return fam
}

// evalElems: every element ever stored into (the family of) container c is owned and c itself is owned (O4).
func (o *Own) evalElems(c ssa.Value) bool {
	fam := o.family(c)
	for v := range fam {
		switch v.(type) {
		case *ssa.Phi, *ssa.Slice, *ssa.ChangeType:
			continue
		case *ssa.MakeSlice, *ssa.MakeMap, *ssa.Alloc, *ssa.Const:
			continue
		case *ssa.UnOp:
			if a := o.resolveCell(v.(*ssa.UnOp).X); a != nil && !o.cellDirty[a] {
				continue
			}
			return false
		case *ssa.Call:
			if b, ok := v.(*ssa.Call).Common().Value.(*ssa.Builtin); ok && b.Name() == "append" {
				continue
			}
			return false
		default:
			return false // parameter, global, field …: not fresh here
		}
	}
	// all stores into the family
	for v := range fam {
		rs := v.Referrers()
		if rs == nil {
			continue
		}
		for _, r := range *rs {
			switch y := r.(type) {
			case *ssa.IndexAddr:
				if y.X != v {
					continue
				}
				if irs := y.Referrers(); irs != nil {
					for _, u := range *irs {
						if st, ok := u.(*ssa.Store); ok && st.Addr == y {
							if !o.owned(st.Val, st.Block()) {
								return false
							}
						}
					}
				}
			case *ssa.MapUpdate:
				if y.Map == v && !o.owned(y.Value, y.Block()) {
					return false
				}
			case *ssa.Call:
				cc := y.Common()
				if b, ok := cc.Value.(*ssa.Builtin); ok {
					switch b.Name() {
					case "append":
						if cc.Args[0] == v && len(cc.Args) > 1 {
							if !o.query(ownKey{kind: "e", val: cc.Args[1]}) {
								return false
							}
						}
					case "copy":
						if cc.Args[0] == v && !o.query(ownKey{kind: "e", val: cc.Args[1]}) {
							return false
						}
					case "len", "cap", "delete", "clear":
					default:
						return false
					}
				} else {
					// passed to a call: escapes → elements unknown
					for _, a := range cc.Args {
						if a == v {
							return false
						}
					}
				}
			case *ssa.Store:
				if y.Val == v {
					if a := o.resolveCell(y.Addr); a == nil {
						return false // stored somewhere we do not track
					}
				}
			}
		}
	}
	return true
}

func (o *Own) explain(v ssa.Value, ctx *ssa.BasicBlock, depth int) string {
	if depth > 6 {
		return "…"
	}
	own := o.memo[ownKey{kind: "v", val: v, ctx: ctx}]
	tag := map[bool]string{true: "owned", false: "UNOWNED"}[own]
	if o.fact(v, ctx) {
		return "guarded by allocated()"
	}
	if t, ok := o.trusted[v]; ok {
		o.TrustedUsed[t] = true
		return "trusted source " + t
	}
	switch x := v.(type) {
	case *ssa.MakeSlice, *ssa.MakeMap:
		return "make"
	case *ssa.Const:
		return "nil"
	case *ssa.Parameter:
		return tag + " parameter " + x.Name()
	case *ssa.Slice:
		if _, ok := x.X.(*ssa.Alloc); ok {
			return "literal"
		}
		if o.envRooted(x.X) {
			return "VM-private (env field)"
		}
		return "slice of " + o.explain(x.X, ctx, depth+1)
	case *ssa.TypeAssert:
		return "assert of " + o.explain(x.X, ctx, depth+1)
	case *ssa.MakeInterface:
		return o.explain(x.X, ctx, depth+1)
	case *ssa.Phi:
		var parts []string
		for i, e := range x.Edges {
			pred := x.Block().Preds[i]
			if o.edgeFact(e, pred, x.Block()) {
				parts = append(parts, "guarded edge")
			} else {
				parts = append(parts, o.explain(e, pred, depth+1))
			}
		}
		return "phi(" + strings.Join(parts, " | ") + ")"
	case *ssa.Call:
		cc := x.Common()
		if b, ok := cc.Value.(*ssa.Builtin); ok && b.Name() == "append" {
			return "append to " + o.explain(cc.Args[0], ctx, depth+1)
		}
		if sc := cc.StaticCallee(); sc != nil {
			return tag + " result of " + fnOrigin(sc).Name()
		}
		return tag + " result of dynamic call"
	case *ssa.UnOp:
		if o.envRooted(x.X) {
			return "VM-private (env field)"
		}
		if a := o.resolveCell(x.X); a != nil {
			return tag + " local cell " + a.Comment
		}
		if ia, ok := x.X.(*ssa.IndexAddr); ok {
			return tag + " element of [" + o.explain(ia.X, ctx, depth+1) + "]"
		}
		return tag + " load"
	case *ssa.Extract:
		return tag + " extract of " + x.Tuple.Name()
	case *ssa.Lookup:
		return tag + " map element of [" + o.explain(x.X, ctx, depth+1) + "]"
	}
	return tag + fmt.Sprintf(" %T", v)
}

// paramWritable: a sink's destination derives from parameter idx of f (directly, or through a callee parameter).
func (o *Own) paramWritable(f *ssa.Function, idx int, seen map[string]bool) bool {
	k := fmt.Sprintf("%p/%d", f, idx)
	if seen[k] {
		return false
	}
	seen[k] = true
	if idx >= len(f.Params) {
		return false
	}
	p := f.Params[idx]
	derived := map[ssa.Value]bool{}
	var flow func(v ssa.Value)
	flow = func(v ssa.Value) {
		if derived[v] {
			return
		}
		derived[v] = true
		rs := v.Referrers()
		if rs == nil {
			return
		}
		for _, r := range *rs {
			switch y := r.(type) {
			case *ssa.Phi, *ssa.TypeAssert, *ssa.MakeInterface, *ssa.ChangeType, *ssa.Slice:
				flow(y.(ssa.Value))
			case *ssa.Extract:
				flow(y)
			}
		}
	}
	flow(p)
	for _, s := range o.Sinks {
		if s.Fn == f && derived[s.Dest] {
			return true
		}
	}
	for _, b := range f.Blocks {
		for _, in := range b.Instrs {
			ci, ok := in.(ssa.CallInstruction)
			if !ok {
				continue
			}
			sc := ci.Common().StaticCallee()
			if sc == nil || !o.inPkg[sc] {
				continue
			}
			for i, a := range ci.Common().Args {
				if derived[a] && o.paramWritable(sc, i, seen) {
					return true
				}
			}
		}
	}
	return false
}
