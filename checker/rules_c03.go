package main

import (
	"fmt"
	"go/ast"
	"go/token"
	"go/types"
	"os"
	"path/filepath"
	"sort"
	"strings"
)

func init() {
	regProp(&PropInfo{
		ID:    "C03",
		Title: "Every builtin computes its documented function on all argument types",
		Decided: "builtin.go is the parse of builtin.jq: the literal shipped in builtin.go, evaluated statically, prints to the same token sequence as each definition of builtin.jq and is in the canonical form the grammar yields for that token sequence (R-C03-sync); every native registered with a nil callback is intercepted by the compiler before the generic call (R-C03-nilcallback); every args[k] of a native lies within its declared arity (R-C03-arity); " +
			"every type switch or single-kind assertion over a JSON number names all four Go representations int, float64, *big.Int, json.Number unless the value was normalised before (R-C03-numrep); every json.Number arm passes the value through, manipulates only its sign text, or normalises through parseNumber — there is no second notion of the number (R-C03-normpoint); " +
			"binopTypeSwitch routes integer pairs to the int or big callback, never through float64 (R-C03-dispatch); sibling read/write paths of slices agree on the rounding helper for the end index (R-C03-slicesib).",
		NotCovered: "the documented value of each builtin on each argument tuple; which argument tuples are ill-typed (specification knowledge); error vs value on ill-typed arguments; jq's own semantics of repeat/limit etc. as pinned by the test suite.",
	})
	reg(&Rule{ID: "R-C03-sync", Props: []string{"C03", "C01", "C02", "C13", "C14", "C20", "C09"}, Floor: 80,
		Doc: "builtin.go (statically evaluated literal) is token-equal to builtin.jq definition by definition, and every shipped AST is in grammar-canonical form",
		Run: ruleC03Sync})
	reg(&Rule{ID: "R-C03-nilcallback", Props: []string{"C03", "C08"}, Floor: 6,
		Doc: "every internalFuncs entry whose callback wraps nil is intercepted in compileFunc before the generic compileCall",
		Run: ruleC03NilCallback})
	reg(&Rule{ID: "R-C03-arity", Props: []string{"C03", "C08"}, Floor: 4,
		Doc: "constant indices into the args slice of a native are below the minimum arity of its mask or dominated by a len(args) test; native-call triples pass a count covering the indices the callee reads",
		Run: ruleC03Arity})
	reg(&Rule{ID: "R-C03-numrep", Props: []string{"C03", "C10"}, Floor: 18,
		Doc: "type switches and single-kind assertions over JSON numbers handle int, float64, *big.Int and json.Number (or follow a normalisation)",
		Run: ruleC03NumRep})
	reg(&Rule{ID: "R-C03-normpoint", Props: []string{"C03", "C10"}, Floor: 8,
		Doc: "json.Number is interpreted only through parseNumber (or passed through / sign-text edited); no direct Float64()/Int64()/strconv parse elsewhere",
		Run: ruleC03NormPoint})
	reg(&Rule{ID: "R-C03-dispatch", Props: []string{"C03", "C10"}, Floor: 9,
		Doc: "binopTypeSwitch's 3x3 numeric matrix sends (int|big)x(int|big) cells to the int or big callback and only cells with a float64 operand to the float callback",
		Run: ruleC03Dispatch})
	reg(&Rule{ID: "R-C03-slicesib", Props: []string{"C03", "C02"}, Floor: 3,
		Doc: "slice, sliceString and updateArraySlice (read and write paths of .[a:b]) convert start with toInt and end with toIntCeil alike",
		Run: ruleC03SliceSib})
}

func findBuiltinLiteral(c *Ctx) *ast.CompositeLit {
	var lit *ast.CompositeLit
	for _, f := range c.Gojq.Syntax {
		if c.PhysFile(f.Pos()) != "builtin.go" {
			continue
		}
		ast.Inspect(f, func(n ast.Node) bool {
			if as, ok := n.(*ast.AssignStmt); ok && len(as.Lhs) == 1 && len(as.Rhs) == 1 {
				if id, ok := as.Lhs[0].(*ast.Ident); ok && id.Name == "builtinFuncDefs" {
					lit, _ = as.Rhs[0].(*ast.CompositeLit)
				}
			}
			return true
		})
	}
	return lit
}

var litCache = map[*Ctx]*litNode{}

func getBuiltinLit(c *Ctx) (*litNode, error) {
	if m, ok := litCache[c]; ok {
		return m, nil
	}
	var files []*ast.File
	for _, f := range c.Gojq.Syntax {
		if c.PhysFile(f.Pos()) == "query.go" {
			files = append(files, f)
		}
	}
	litLoadStructs(files)
	if len(litStructs) < 15 {
		return nil, fmt.Errorf("AST struct declarations not found in query.go")
	}
	lit := findBuiltinLiteral(c)
	if lit == nil {
		return nil, fmt.Errorf("assignment to builtinFuncDefs not found in builtin.go")
	}
	var m *litNode
	var err error
	func() {
		defer func() {
			if e := recover(); e != nil {
				err = fmt.Errorf("cannot evaluate the builtinFuncDefs literal: %v", e)
			}
		}()
		m = litEval(lit, nil).(*litNode)
	}()
	if err != nil {
		return nil, err
	}
	litCache[c] = m
	return m, nil
}

func tokStr(ts []jqTok) string {
	var parts []string
	for _, t := range ts {
		parts = append(parts, t.text)
	}
	return strings.Join(parts, " ")
}

func ruleC03Sync(c *Ctx, r *Rep) {
	m, err := getBuiltinLit(c)
	if err != nil {
		r.Undecided("builtin.go", token.NoPos, "%v", err)
		return
	}
	y := getYacc(c)
	if y.Err != "" {
		r.Undecided("grammar", token.NoPos, "%s", y.Err)
		return
	}
	src, err := os.ReadFile(filepath.Join(c.Repo, "builtin.jq"))
	if err != nil {
		r.Undecided("builtin.jq", token.NoPos, "%v", err)
		return
	}
	var defs [][]jqTok
	func() {
		defer func() {
			if e := recover(); e != nil {
				err = fmt.Errorf("cannot tokenize builtin.jq: %v", e)
			}
		}()
		defs = jqSplitDefs(jqTokenize(string(src)))
	}()
	if err != nil {
		r.Undecided("builtin.jq", token.NoPos, "%v", err)
		return
	}
	seen := map[string]int{}
	for _, d := range defs {
		if len(d) < 2 {
			continue
		}
		name := d[1].text
		idx := seen[name]
		seen[name]++
		arity := 0
		if len(d) > 2 && d[2].text == "(" {
			arity = 1
			for _, t := range d[3:] {
				if t.text == ")" {
					break
				}
				if t.text == ";" {
					arity++
				}
			}
		}
		key := fmt.Sprintf("def %s/%d", name, arity)
		lst, _ := m.fields[name].([]any)
		if idx >= len(lst) {
			r.Bad(key, token.NoPos, "builtin.jq defines %s (definition #%d of that name) but builtin.go has only %d: builtin.go was not regenerated", name, idx+1, len(lst))
			continue
		}
		var out []jqTok
		func() {
			defer func() {
				if e := recover(); e != nil {
					err = fmt.Errorf("%v", e)
				}
			}()
			p := &jqPrinter{}
			p.funcdef(lst[idx].(*litNode))
			out = p.out
		}()
		if err != nil {
			r.Undecided(key, token.NoPos, "cannot print the shipped AST: %v", err)
			err = nil
			continue
		}
		diff := -1
		if len(out) != len(d) {
			diff = min(len(out), len(d))
		}
		for i := 0; i < len(d) && i < len(out); i++ {
			if d[i] != out[i] {
				diff = i
				break
			}
		}
		if diff < 0 {
			r.OK(key, token.NoPos, "%d tokens equal", len(d))
		} else {
			lo := max(0, diff-3)
			r.Bad(key, token.NoPos, "builtin.go is out of sync with builtin.jq at token %d of %s: source `…%s…`, shipped AST prints `…%s…` (the precompiled definition is not the published one)", diff, key,
				tokStr(d[lo:min(len(d), diff+4)]), tokStr(out[lo:min(len(out), diff+4)]))
		}
	}
	// every name in builtin.go must have the same number of definitions in builtin.jq; the hand-compiled three are nil
	var names []string
	for k := range m.fields {
		names = append(names, k)
	}
	sort.Strings(names)
	for _, k := range names {
		n := 0
		if l, ok := m.fields[k].([]any); ok {
			n = len(l)
		}
		switch k {
		case "_assign", "_modify", "_last":
			r.Check(n == 0 && seen[k] == 0, "handcompiled:"+k, token.NoPos, "%s maps to an empty list in builtin.go (%d) and is not defined in builtin.jq (%d): it is assembled by the compiler", k, n, seen[k])
		default:
			if n != seen[k] {
				r.Bad("count:"+k, token.NoPos, "builtin.go ships %d definition(s) of %s, builtin.jq has %d", n, k, seen[k])
			}
		}
	}
	for k, n := range seen {
		if _, ok := m.fields[k]; !ok {
			r.Bad("missing:"+k, token.NoPos, "builtin.jq defines %s (%d) but builtin.go has no entry", k, n)
		}
	}
	// step 2: canonical form, with precedence and associativity read from parser.go.y on this run
	if err := setCanonPrec(y); err != nil {
		r.Bad("canon:derivable", token.NoPos, "the canonical-form conditions cannot be derived from the grammar: %v", err)
		return
	}
	canonProblems = nil
	canonChecked = 0
	func() {
		defer func() {
			if e := recover(); e != nil {
				err = fmt.Errorf("%v", e)
			}
		}()
		for _, name := range names {
			if l, ok := m.fields[name].([]any); ok {
				for i, fd := range l {
					canonQuery(nSub(fd.(*litNode), "Body"), ctxQuery, fmt.Sprintf("%s#%d", name, i))
				}
			}
		}
	}()
	if err != nil {
		r.Undecided("canon", token.NoPos, "canonical-form walk failed: %v", err)
		return
	}
	for _, p := range canonProblems {
		r.Bad("canon:"+p, token.NoPos, "shipped AST is not the tree the grammar yields for its own token string: %s", p)
	}
	r.Check(canonChecked >= 400, "canon:census", token.NoPos, "%d query nodes of the shipped definitions are in grammar-canonical form (precedence ranks from parser.go.y: %v)", canonChecked, prec)
}

// internalFuncs entries: name → (mask, callback expr, nil-wrapped?)
type nativeEntry struct {
	Name   string
	Mask   int64
	Ctor   string // argFunc0, mathFunc, "" for literal
	Arg    ast.Expr
	NilCB  bool
	Pos    token.Pos
	FnDecl *ast.FuncDecl // resolved callback function, if a plain function
}

func maskOfCtor(c *Ctx, name string, depth int) (int64, bool) {
	if depth > 4 {
		return 0, false
	}
	info := c.Gojq.TypesInfo
	fd := c.Decl(c.Gojq, name)
	if fd == nil || len(fd.Body.List) != 1 {
		return 0, false
	}
	rs, ok := fd.Body.List[0].(*ast.ReturnStmt)
	if !ok || len(rs.Results) != 1 {
		return 0, false
	}
	switch x := unparen(rs.Results[0]).(type) {
	case *ast.CompositeLit:
		if len(x.Elts) > 0 {
			e := x.Elts[0]
			if kv, ok := e.(*ast.KeyValueExpr); ok {
				e = kv.Value
			}
			return constInt(info, e)
		}
	case *ast.CallExpr:
		if id, ok := x.Fun.(*ast.Ident); ok {
			return maskOfCtor(c, id.Name, depth+1)
		}
	}
	return 0, false
}

func nativeEntries(c *Ctx) ([]*nativeEntry, error) {
	info := c.Gojq.TypesInfo
	var lit *ast.CompositeLit
	for _, f := range c.Gojq.Syntax {
		ast.Inspect(f, func(n ast.Node) bool {
			if as, ok := n.(*ast.AssignStmt); ok && len(as.Lhs) == 1 && len(as.Rhs) == 1 {
				if id, ok := as.Lhs[0].(*ast.Ident); ok && id.Name == "internalFuncs" {
					lit, _ = as.Rhs[0].(*ast.CompositeLit)
				}
			}
			return true
		})
	}
	if lit == nil {
		return nil, fmt.Errorf("assignment to internalFuncs not found")
	}
	var out []*nativeEntry
	for _, el := range lit.Elts {
		kv, ok := el.(*ast.KeyValueExpr)
		if !ok {
			continue
		}
		name, ok := constString(info, kv.Key)
		if !ok {
			return nil, fmt.Errorf("non-constant key in internalFuncs")
		}
		e := &nativeEntry{Name: name, Pos: kv.Pos()}
		switch v := unparen(kv.Value).(type) {
		case *ast.CallExpr:
			id, ok := v.Fun.(*ast.Ident)
			if !ok {
				return nil, fmt.Errorf("internalFuncs[%q]: unexpected constructor", name)
			}
			e.Ctor = id.Name
			m, ok := maskOfCtor(c, id.Name, 0)
			if !ok {
				return nil, fmt.Errorf("internalFuncs[%q]: cannot derive the arity mask of %s", name, id.Name)
			}
			e.Mask = m
			if len(v.Args) > 0 {
				e.Arg = v.Args[len(v.Args)-1]
				e.NilCB = isNilIdent(e.Arg)
			}
		case *ast.CompositeLit:
			if len(v.Elts) != 3 {
				return nil, fmt.Errorf("internalFuncs[%q]: unexpected literal", name)
			}
			m, ok := constInt(info, v.Elts[0])
			if !ok {
				return nil, fmt.Errorf("internalFuncs[%q]: non-constant mask", name)
			}
			e.Mask = m
			e.Arg = v.Elts[2]
			e.NilCB = isNilIdent(e.Arg)
		default:
			return nil, fmt.Errorf("internalFuncs[%q]: unexpected value", name)
		}
		if id, ok := unparen(e.Arg).(*ast.Ident); ok && e.Arg != nil {
			if f, ok := info.Uses[id].(*types.Func); ok {
				for _, fd := range c.Decls(c.Gojq) {
					if info.Defs[fd.Name] == f {
						e.FnDecl = fd
					}
				}
			}
		}
		out = append(out, e)
	}
	return out, nil
}

func ruleC03NilCallback(c *Ctx, r *Rep) {
	info := c.Gojq.TypesInfo
	ents, err := nativeEntries(c)
	if err != nil {
		r.Undecided("internalFuncs", token.NoPos, "%v", err)
		return
	}
	fd := c.Decl(c.Gojq, "compiler.compileFunc")
	if fd == nil {
		r.Undecided("compileFunc", token.NoPos, "not found")
		return
	}
	// the switch on e.Name under the internalFuncs lookup
	intercepted := map[string]bool{}
	ast.Inspect(fd.Body, func(n ast.Node) bool {
		sw, ok := n.(*ast.SwitchStmt)
		if !ok || sw.Tag == nil {
			return true
		}
		if sel, ok := unparen(sw.Tag).(*ast.SelectorExpr); !ok || sel.Sel.Name != "Name" {
			return true
		}
		for _, s := range sw.Body.List {
			cc := s.(*ast.CaseClause)
			// a clause intercepts if it does not end in the generic `return c.compileCall(e.Name, e.Args)` with the callback left in place
			generic := false
			if len(cc.Body) == 1 {
				if rs, ok := cc.Body[0].(*ast.ReturnStmt); ok && len(rs.Results) == 1 {
					if call, ok := rs.Results[0].(*ast.CallExpr); ok && calleeName(info, call) == "gojq.compiler.compileCall" {
						generic = true
					}
				}
			}
			for _, e := range cc.List {
				if s, ok := constString(info, e); ok && !generic {
					intercepted[s] = true
				}
			}
		}
		return true
	})
	// `env`/`$ENV` and `debug/0`-style names handled before the internalFuncs lookup: string comparisons e.Name == "x"
	ast.Inspect(fd.Body, func(n ast.Node) bool {
		if be, ok := n.(*ast.BinaryExpr); ok && be.Op == token.EQL {
			if sel, ok := unparen(be.X).(*ast.SelectorExpr); ok && sel.Sel.Name == "Name" {
				if s, ok := constString(info, be.Y); ok {
					intercepted[s] = true
				}
			}
		}
		return true
	})
	n := 0
	for _, e := range ents {
		if !e.NilCB {
			continue
		}
		n++
		r.Check(intercepted[e.Name], "nil-callback:"+e.Name, e.Pos, "native %q is registered with a nil callback and %s intercepted in compileFunc before the generic call (otherwise: nil function call at run time)", e.Name, map[bool]string{true: "is", false: "is NOT"}[intercepted[e.Name]])
	}
	if n < 6 {
		r.Undecided("census", token.NoPos, "only %d nil-callback natives found", n)
	}
}

func minArity(mask int64) int {
	for i := 0; i < 62; i++ {
		if mask&(1<<i) != 0 {
			return i
		}
	}
	return 0
}

func ruleC03Arity(c *Ctx, r *Rep) {
	info := c.Gojq.TypesInfo
	ents, err := nativeEntries(c)
	if err != nil {
		r.Undecided("internalFuncs", token.NoPos, "%v", err)
		return
	}
	// argFuncN wrappers: indices used inside the closure must be < N
	for _, w := range []string{"argFunc0", "argFunc1", "argFunc2", "argFunc3"} {
		fd := c.Decl(c.Gojq, w)
		if fd == nil {
			r.Undecided(w, token.NoPos, "not found")
			continue
		}
		mask, ok := maskOfCtor(c, w, 0)
		if !ok {
			r.Undecided(w, fd.Pos(), "mask not derivable")
			continue
		}
		n := minArity(mask)
		maxIdx := int64(-1)
		ast.Inspect(fd.Body, func(m ast.Node) bool {
			if ix, ok := m.(*ast.IndexExpr); ok {
				if id, ok := unparen(ix.X).(*ast.Ident); ok && id.Name == "args" {
					if v, ok := constInt(info, ix.Index); ok && v > maxIdx {
						maxIdx = v
					}
				}
			}
			return true
		})
		r.Check(mask == 1<<n && maxIdx == int64(n)-1, w, fd.Pos(), "%s declares exactly arity %d (mask %#x) and reads args[0..%d]", w, n, mask, maxIdx)
	}
	// natives taking the raw args slice: every constant index is < min arity or dominated by a len(args) test
	checkRaw := func(fd *ast.FuncDecl, min int, label string) {
		var argsObj types.Object
		if fd.Type.Params != nil {
			for _, f := range fd.Type.Params.List {
				if t := info.TypeOf(f.Type); t != nil && t.String() == "[]any" {
					for _, nm := range f.Names {
						argsObj = info.Defs[nm]
					}
				}
			}
		}
		if argsObj == nil {
			return
		}
		walkStack(fd.Body, func(m ast.Node, stack []ast.Node) bool {
			ix, ok := m.(*ast.IndexExpr)
			if !ok {
				return true
			}
			id, ok := unparen(ix.X).(*ast.Ident)
			if !ok || info.Uses[id] != argsObj {
				return true
			}
			v, ok := constInt(info, ix.Index)
			if !ok {
				return true
			}
			okc := int(v) < min
			why := fmt.Sprintf("index %d < minimum arity %d", v, min)
			if !okc {
				// dominated by `len(args) > K` (K >= v) / `len(args) == 0` else-branch
				for i := len(stack) - 1; i >= 0 && !okc; i-- {
					ifs, ok := stack[i].(*ast.IfStmt)
					if !ok {
						continue
					}
					be, ok := unparen(ifs.Cond).(*ast.BinaryExpr)
					if !ok {
						continue
					}
					call, ok := unparen(be.X).(*ast.CallExpr)
					if !ok || len(call.Args) != 1 {
						continue
					}
					if f, ok := call.Fun.(*ast.Ident); !ok || f.Name != "len" {
						continue
					}
					if a, ok := unparen(call.Args[0]).(*ast.Ident); !ok || info.Uses[a] != argsObj {
						continue
					}
					k, ok := constInt(info, be.Y)
					if !ok {
						continue
					}
					inBody := i+1 < len(stack) && stack[i+1] == ast.Node(ifs.Body)
					switch {
					case inBody && be.Op == token.GTR && k >= v:
						okc, why = true, fmt.Sprintf("inside `if len(args) > %d`", k)
					case inBody && be.Op == token.GEQ && k > v:
						okc, why = true, fmt.Sprintf("inside `if len(args) >= %d`", k)
					case !inBody && be.Op == token.EQL && k == v && min >= 0:
						// else-branch of len(args) == v: len != v; with mask bits only v and v+1 … accept when v == min
						if int(v) == min {
							okc, why = true, fmt.Sprintf("else-branch of `len(args) == %d` where %d is the minimum arity", k, min)
						}
					}
				}
			}
			r.Check(okc, label+":args["+fmt.Sprint(v)+"]", ix.Pos(), "%s reads args[%d]: %s", label, v, map[bool]string{true: why, false: "NOT within its declared arity and not guarded by a len(args) test"}[okc])
			return true
		})
	}
	for _, e := range ents {
		if e.Ctor == "" && e.FnDecl != nil {
			checkRaw(e.FnDecl, minArity(e.Mask), "native "+e.Name)
		}
	}
	// triples in hand-assembled code: count n covers the indices read by a plain-function callee
	for _, fd := range c.Decls(c.Gojq) {
		ast.Inspect(fd.Body, func(m ast.Node) bool {
			cl, ok := m.(*ast.CompositeLit)
			if !ok || len(cl.Elts) != 3 {
				return true
			}
			if a, ok := info.TypeOf(cl).Underlying().(*types.Array); !ok || a.Len() != 3 || !isEmptyIface(a.Elem()) {
				return true
			}
			id, ok := unparen(cl.Elts[0]).(*ast.Ident)
			if !ok {
				return true
			}
			f, ok := info.Uses[id].(*types.Func)
			if !ok {
				return true
			}
			cnt, ok := constInt(info, cl.Elts[1])
			if !ok {
				return true
			}
			for _, g := range c.Decls(c.Gojq) {
				if info.Defs[g.Name] == f {
					checkRaw(g, int(cnt), "triple "+f.Name()+"@"+declKey(fd))
				}
			}
			return true
		})
	}
}

var numKinds = []string{"int", "float64", "*math/big.Int", "encoding/json.Number"}

func numKindOf(t types.Type) string {
	if t == nil {
		return ""
	}
	s := t.String()
	for _, k := range numKinds {
		if s == k {
			return k
		}
	}
	return ""
}

// rootIsVMInternal: the switched value is an instruction operand, an operand triple or VM bookkeeping.
func rootIsVMInternal(c *Ctx, info *types.Info, e ast.Expr) bool {
	for {
		switch x := unparen(e).(type) {
		case *ast.SelectorExpr:
			if x.Sel.Name == "v" && isNamed(info.TypeOf(x.X), pathGojq, "code") {
				return true
			}
			e = x.X
		case *ast.IndexExpr:
			if a, ok := info.TypeOf(x.X).Underlying().(*types.Array); ok && a.Len() == 3 {
				return true
			}
			e = x.X
		case *ast.CallExpr:
			n := calleeName(info, x)
			if strings.HasSuffix(n, "stack.pop") || strings.HasSuffix(n, "stack.top") || strings.HasSuffix(n, "env.pop") {
				// env.paths.pop()/top(): bookkeeping; env.pop(): a data value
				if sel, ok := x.Fun.(*ast.SelectorExpr); ok {
					if in, ok := unparen(sel.X).(*ast.SelectorExpr); ok && in.Sel.Name == "paths" {
						return true
					}
				}
			}
			return false
		default:
			return false
		}
	}
}

func ruleC03NumRep(c *Ctx, r *Rep) {
	info := c.Gojq.TypesInfo
	normalisers := map[string]bool{"gojq.parseNumber": true, "gojq.toInt": true, "gojq.toFloat": true}
	for _, fd := range c.Decls(c.Gojq) {
		if c.PhysFile(fd.Pos()) == "parser.go" || c.PhysFile(fd.Pos()) == "debug.go" {
			continue
		}
		fn := declKey(fd)
		// variables assigned from a normaliser or re-assigned after a json.Number normalisation prologue
		normalised := map[types.Object]bool{}
		ast.Inspect(fd.Body, func(m ast.Node) bool {
			switch x := m.(type) {
			case *ast.AssignStmt:
				for i, rhs := range x.Rhs {
					if call, ok := unparen(rhs).(*ast.CallExpr); ok && normalisers[calleeName(info, call)] && i < len(x.Lhs) {
						if id, ok := x.Lhs[i].(*ast.Ident); ok {
							normalised[info.ObjectOf(id)] = true
						}
					}
				}
			}
			return true
		})
		walkStack(fd.Body, func(m ast.Node, stack []ast.Node) bool {
			switch x := m.(type) {
			case *ast.TypeSwitchStmt:
				var subject ast.Expr
				switch a := x.Assign.(type) {
				case *ast.AssignStmt:
					subject = a.Rhs[0].(*ast.TypeAssertExpr).X
				case *ast.ExprStmt:
					subject = a.X.(*ast.TypeAssertExpr).X
				}
				if t := info.TypeOf(subject); t == nil || !isEmptyIface(t) {
					return true
				}
				if rootIsVMInternal(c, info, subject) {
					return true
				}
				have := map[string]bool{}
				for _, s := range x.Body.List {
					for _, te := range s.(*ast.CaseClause).List {
						if k := numKindOf(info.TypeOf(te)); k != "" {
							have[k] = true
						}
					}
				}
				if len(have) == 0 {
					return true
				}
				var miss []string
				for _, k := range numKinds {
					if !have[k] {
						miss = append(miss, k)
					}
				}
				key := fn + ":switch " + c.Src(subject)
				if len(miss) == 0 {
					r.OK(key, x.Pos(), "all four numeric representations handled")
					return true
				}
				// normalised before?
				if id, ok := unparen(subject).(*ast.Ident); ok && normalised[info.ObjectOf(id)] {
					r.OK(key, x.Pos(), "subject normalised through parseNumber/toInt/toFloat before the switch; missing %v cannot occur", miss)
					return true
				}
				// inside binopTypeSwitch after its prologue (l, r re-assigned from parseNumber)
				if fn == "binopTypeSwitch" && len(miss) == 1 && miss[0] == "encoding/json.Number" {
					r.OK(key, x.Pos(), "inside binopTypeSwitch after its json.Number-normalising prologue (checked by R-C03-dispatch)")
					return true
				}
				if fn == "env.pathIntact" {
					r.OK(key, x.Pos(), "reviewed: identity test; the float64 arm only adds NaN==NaN, every other representation falls through to ==")
					return true
				}
				r.Bad(key, x.Pos(), "type switch over a JSON value in %s handles %v but not %v: the result depends on which Go representation carries the number (int, float64, *big.Int and json.Number are interchangeable)", fn, keysOf(have), miss)
			case *ast.TypeAssertExpr:
				if x.Type == nil {
					return true
				}
				k := numKindOf(info.TypeOf(x.Type))
				if k == "" {
					return true
				}
				if t := info.TypeOf(x.X); t == nil || !isEmptyIface(t) {
					return true
				}
				if rootIsVMInternal(c, info, x.X) {
					return true
				}
				key := fn + ":assert " + c.Src(x)
				// accepted: the normalising prologue itself `n, ok := x.(json.Number)` followed by parseNumber
				if k == "encoding/json.Number" {
					r.OK(key, x.Pos(), "json.Number probe (normalisation prologue; R-C03-normpoint checks what is done with it)")
					return true
				}
				if id, ok := unparen(x.X).(*ast.Ident); ok && normalised[info.ObjectOf(id)] {
					r.OK(key, x.Pos(), "subject was normalised before")
					return true
				}
				// preceded in the same function by a json.Number probe of the same variable that re-assigns it through parseNumber
				if id, ok := unparen(x.X).(*ast.Ident); ok {
					o := info.ObjectOf(id)
					pre := false
					ast.Inspect(fd.Body, func(q ast.Node) bool {
						ifs, ok := q.(*ast.IfStmt)
						if !ok || ifs.Pos() > x.Pos() || ifs.Init == nil {
							return true
						}
						as, ok := ifs.Init.(*ast.AssignStmt)
						if !ok || len(as.Rhs) != 1 {
							return true
						}
						ta, ok := as.Rhs[0].(*ast.TypeAssertExpr)
						if !ok || ta.Type == nil || numKindOf(info.TypeOf(ta.Type)) != "encoding/json.Number" {
							return true
						}
						if sid, ok := unparen(ta.X).(*ast.Ident); !ok || info.ObjectOf(sid) != o {
							return true
						}
						for _, s := range ifs.Body.List {
							if a2, ok := s.(*ast.AssignStmt); ok && len(a2.Lhs) == 1 && len(a2.Rhs) == 1 {
								if lid, ok := a2.Lhs[0].(*ast.Ident); ok && info.ObjectOf(lid) == o {
									if call, ok := a2.Rhs[0].(*ast.CallExpr); ok && calleeName(info, call) == "gojq.parseNumber" {
										pre = true
									}
								}
							}
						}
						return true
					})
					if pre {
						r.OK(key, x.Pos(), "preceded by a json.Number → parseNumber normalisation of the same variable")
						return true
					}
				}
				if fn == "env.pathIntact" {
					r.OK(key, x.Pos(), "reviewed: identity test; the float64 arm only adds NaN==NaN, every other representation falls through to ==")
					return true
				}
				r.Bad(key, x.Pos(), "single-kind assertion %s on an un-normalised JSON value in %s: a json.Number (what every number read from input is) or another representation of the same number takes the other branch (`echo 1.5 | gojq -c '. as $e | [1,2,3][:$e]'` gives [1]; the literal 1.5 gives [1,2])", c.Src(x), fn)
			}
			return true
		})
	}
}

func ruleC03NormPoint(c *Ctx, r *Rep) {
	info := c.Gojq.TypesInfo
	n := 0
	for _, fd := range c.Decls(c.Gojq) {
		if c.PhysFile(fd.Pos()) == "parser.go" || c.PhysFile(fd.Pos()) == "debug.go" {
			continue
		}
		fn := declKey(fd)
		ast.Inspect(fd.Body, func(m ast.Node) bool {
			call, ok := m.(*ast.CallExpr)
			if !ok {
				return true
			}
			name := calleeName(info, call)
			switch name {
			case "json.Number.Float64", "json.Number.Int64":
				n++
				r.Check(fn == "parseNumber", fn+":"+name, call.Pos(), "%s called in %s: json.Number must be interpreted in one place only (parseNumber); a second parse is a second, diverging notion of the number (`echo 1e1000 | gojq floor` is a type error while the literal 1e1000 | floor is 1.797e308)", name, fn)
			case "strconv.ParseFloat", "strconv.ParseInt", "strconv.Atoi", "strconv.ParseUint":
				// parsing the text of a json.Number?
				for _, a := range call.Args {
					if mentions(a, func(e ast.Expr) bool {
						t := info.TypeOf(e)
						return t != nil && t.String() == "encoding/json.Number"
					}) {
						n++
						r.Check(fn == "parseNumber", fn+":"+name, call.Pos(), "%s applied to a json.Number in %s (only parseNumber may interpret it)", name, fn)
					}
				}
			}
			return true
		})
	}
	// every json.Number arm of a type switch in package gojq: pass-through, sign-text edit, or parseNumber/toInt/toFloat/binop
	for _, fd := range c.Decls(c.Gojq) {
		if c.PhysFile(fd.Pos()) == "parser.go" || c.PhysFile(fd.Pos()) == "debug.go" {
			continue
		}
		fn := declKey(fd)
		ast.Inspect(fd.Body, func(m ast.Node) bool {
			ts, ok := m.(*ast.TypeSwitchStmt)
			if !ok {
				return true
			}
			for _, s := range ts.Body.List {
				cc := s.(*ast.CaseClause)
				only := len(cc.List) == 1 && numKindOf(info.TypeOf(cc.List[0])) == "encoding/json.Number"
				if !only {
					continue
				}
				n++
				bad := ""
				ast.Inspect(cc, func(k ast.Node) bool {
					if call, ok := k.(*ast.CallExpr); ok {
						name := calleeName(info, call)
						switch {
						case name == "json.Number.String", name == "strings.HasPrefix", name == "gojq.parseNumber", name == "gojq.toInt", name == "gojq.toFloat",
							strings.HasPrefix(name, "gojq."), name == "":
						case name == "json.Number.Float64" || name == "json.Number.Int64":
							bad = name
						case strings.HasPrefix(name, "strconv."):
							bad = name
						}
					}
					return true
				})
				r.Check(bad == "", fn+":case json.Number", cc.Pos(), "json.Number arm in %s: %s", fn, map[bool]string{true: "passes through, edits the sign text, or normalises through parseNumber", false: "parses the number itself with " + bad}[bad == ""])
			}
			return true
		})
	}
	if n < 8 {
		r.Undecided("census", token.NoPos, "only %d json.Number interpretation sites found", n)
	}
}

func ruleC03Dispatch(c *Ctx, r *Rep) {
	info := c.Gojq.TypesInfo
	fd := c.Decl(c.Gojq, "binopTypeSwitch")
	if fd == nil {
		r.Undecided("binopTypeSwitch", token.NoPos, "not found")
		return
	}
	// callback parameter names by element type
	cbKind := map[types.Object]string{}
	for _, f := range fd.Type.Params.List {
		ft, ok := info.TypeOf(f.Type).(*types.Signature)
		if !ok || ft.Params().Len() != 2 {
			continue
		}
		k := ft.Params().At(0).Type().String()
		for _, nm := range f.Names {
			cbKind[info.Defs[nm]] = k
		}
	}
	// prologue: both l and r normalised
	pro := 0
	for _, s := range fd.Body.List {
		if ifs, ok := s.(*ast.IfStmt); ok && ifs.Init != nil {
			if as, ok := ifs.Init.(*ast.AssignStmt); ok && len(as.Rhs) == 1 {
				if ta, ok := as.Rhs[0].(*ast.TypeAssertExpr); ok && ta.Type != nil && numKindOf(info.TypeOf(ta.Type)) == "encoding/json.Number" {
					for _, b := range ifs.Body.List {
						if a2, ok := b.(*ast.AssignStmt); ok && len(a2.Rhs) == 1 {
							if call, ok := a2.Rhs[0].(*ast.CallExpr); ok && calleeName(info, call) == "gojq.parseNumber" && sameObj(info, a2.Lhs[0], ta.X) {
								pro++
							}
						}
					}
				}
			}
		}
	}
	r.Check(pro == 2, "prologue", fd.Pos(), "binopTypeSwitch normalises json.Number on both operands through parseNumber before dispatch (%d of 2)", pro)
	// matrix
	var outer *ast.TypeSwitchStmt
	for _, s := range fd.Body.List {
		if ts, ok := s.(*ast.TypeSwitchStmt); ok {
			outer = ts
		}
	}
	if outer == nil {
		r.Undecided("matrix", fd.Pos(), "outer type switch not found")
		return
	}
	cells := 0
	for _, s := range outer.Body.List {
		occ := s.(*ast.CaseClause)
		if len(occ.List) != 1 {
			continue
		}
		lk := numKindOf(info.TypeOf(occ.List[0]))
		if lk == "" {
			continue
		}
		for _, st := range occ.Body {
			inner, ok := st.(*ast.TypeSwitchStmt)
			if !ok {
				continue
			}
			for _, s2 := range inner.Body.List {
				icc := s2.(*ast.CaseClause)
				if len(icc.List) != 1 {
					continue
				}
				rk := numKindOf(info.TypeOf(icc.List[0]))
				if rk == "" {
					continue
				}
				cells++
				called := ""
				ast.Inspect(icc, func(k ast.Node) bool {
					if call, ok := k.(*ast.CallExpr); ok {
						if id, ok := call.Fun.(*ast.Ident); ok {
							if kind, ok := cbKind[info.Uses[id]]; ok {
								called = kind
							}
						}
					}
					return true
				})
				want := "float64"
				isInt := func(k string) bool { return k == "int" || k == "*math/big.Int" }
				if isInt(lk) && isInt(rk) {
					if lk == "int" && rk == "int" {
						want = "int"
					} else {
						want = "*math/big.Int"
					}
				}
				r.Check(called == want, fmt.Sprintf("cell:%s×%s", lk, rk), icc.Pos(), "cell (%s, %s) dispatches to the %s callback (expected %s: integer pairs must stay exact, never through float64)", lk, rk, called, want)
			}
		}
	}
	if cells != 9 {
		r.Undecided("matrix", fd.Pos(), "expected a 3x3 numeric matrix, found %d cells", cells)
	}
}

func ruleC03SliceSib(c *Ctx, r *Rep) {
	info := c.Gojq.TypesInfo
	// in each sibling: the conversions applied to the start and the end bound, in source order; the three must agree with
	// each other (no names are expected: the comparison is between today's siblings)
	seqs := map[string][]string{}
	decls := map[string]*ast.FuncDecl{}
	for _, fn := range []string{"slice", "sliceString", "updateArraySlice"} {
		fd := c.Decl(c.Gojq, fn)
		if fd == nil {
			r.Undecided(fn, token.NoPos, "not found")
			continue
		}
		decls[fn] = fd
		ast.Inspect(fd.Body, func(m ast.Node) bool {
			if call, ok := m.(*ast.CallExpr); ok {
				if nm := calleeName(info, call); strings.HasPrefix(nm, "gojq.toInt") {
					seqs[fn] = append(seqs[fn], strings.TrimPrefix(nm, "gojq."))
				}
			}
			return true
		})
	}
	ref := seqs["slice"]
	for _, fn := range []string{"slice", "sliceString", "updateArraySlice"} {
		fd := decls[fn]
		if fd == nil {
			continue
		}
		same := len(seqs[fn]) == 2 && len(ref) == 2 && seqs[fn][0] == ref[0] && seqs[fn][1] == ref[1]
		r.Check(same, fn, fd.Pos(), "%s converts start/end with %v (sibling slice: %v; a write path that rounds a bound differently from the read path updates a different range than .[a:b] reads)", fn, seqs[fn], ref)
	}
	// (fourth session) and the two conversions round outward: the start's converter applies math.Floor, the end's math.Ceil
	// (truncation toward zero is neither for a negative fractional bound: `[1,2,3,4] | .[-1.5:]` is [3,4], D29)
	if len(ref) == 2 {
		calls := func(fn, target string) bool {
			d := c.Decl(c.Gojq, fn)
			if d == nil {
				return false
			}
			found := false
			ast.Inspect(d.Body, func(m ast.Node) bool {
				if call, ok := m.(*ast.CallExpr); ok && calleeName(info, call) == target {
					found = true
				}
				return true
			})
			return found
		}
		fl, ce := calls(ref[0], "math.Floor"), calls(ref[1], "math.Ceil")
		r.Check(fl && ce, "rounding:outward", decls["slice"].Pos(), "the start bound's converter %s applies math.Floor (%v) and the end bound's converter %s applies math.Ceil (%v): a fractional bound widens the slice on both sides, negative bounds included", ref[0], fl, ref[1], ce)
	}
}
