package main

import (
	"fmt"
	"go/ast"
	"go/constant"
	"go/token"
	"go/types"
	"sort"
	"strings"

	"golang.org/x/tools/go/packages"
)

func init() {
	regProp(&PropInfo{
		ID:    "C15",
		Title: "The command prints exactly what the library yields, with documented statuses",
		Decided: "stream discipline: cli.outStream is written only by printValues (value, terminator, YAML separator) and by the help/version blocks; every diagnostic goes to cli.errStream; cli and gojq never touch os.Stdout/os.Stderr/fmt.Print*/log/println outside cli.Run's wiring (R-C15-streams); " +
			"the status constants are 0..5 in their documented roles and every error type's ExitCode returns its role, halt_error/error build code 5, halt 0, breakError 3, cli.run falls back to 5 (R-C15-status); the --exit-status cell starts at 4 and is set to 1/0 only after a value was marshalled (R-C15-exitstatus); " +
			"the input loop of process is left only at end of input or on a *HaltError; other errors are reported and the loop continues (R-C15-loop); the terminator written after a value is the constant NUL under --raw-output0, else '\\n' unless -j, nothing under YAML, and rawMarshaler rejects NUL only when built with outputRaw0 (R-C15-term).",
		NotCovered: "that stdout equals the concatenation of the library's outputs for every option set; formatting of each value (C12); flag parsing of every argv; status modulo 256.",
	})
	regProp(&PropInfo{
		ID:    "C16",
		Title: "Input modes and argument flags mean what their in-language equivalents mean",
		Decided: "the iterator handed to gojq.WithInputIter and the one process consumes are the same value except under --null-input (R-C16-shared); all input iterators are sticky: Next starts with the test of the iterator's err field, and every path that reports end of input or a decode error has stored a non-nil err first, Close makes the iterator terminal (R-C16-sticky); every JSON decoder feeding queries calls UseNumber before decoding (R-C10-usenumber).",
		NotCovered: "the --stream state machine and its equivalence with tostream; -s/-R equivalences; binding order and precedence of --arg/--argjson/--slurpfile/--rawfile/--args/--jsonargs; -f equals literal text.",
	})
	regProp(&PropInfo{
		ID:    "C17",
		Title: "Reported error positions point at the offending byte",
		Decided: "for the capture buffer that tees a non-seekable input beside the buffering json.Decoder, bytes are discarded only up to the decoder's InputOffset (or after EOF), never the decoder's read-ahead (R-C17-window).",
		NotCovered: "every number the messages print: the arithmetic of line, column and caret; what is decided about them is structural — which terminators each line counter recognises and that CRLF is never split (R-C17-newlinesib), where the re-read of a seekable input starts (R-C17-seekorigin), that the excerpt is cut at repaired rune boundaries (R-C17-runeboundary) and measured with StringWidth (R-C17-graphemewidth), that the query text reaches the parser unmodified (R-C16-fileverbatim); YAML positions beyond the character-to-byte conversion; the numeric value of ParseError.Offset.",
	})
	reg(&Rule{ID: "R-C15-streams", Props: []string{"C15"}, Floor: 8,
		Doc: "cli.outStream is written only in printValues and the help/version blocks; diagnostics target cli.errStream; no os.Stdout/os.Stderr/fmt.Print*/log/println in cli or gojq",
		Run: ruleC15Streams})
	reg(&Rule{ID: "R-C15-status", Props: []string{"C15", "C08"}, Floor: 10,
		Doc: "exit status constants and every ExitCode method return their documented role; cli.run maps any other error to 5",
		Run: ruleC15Status})
	reg(&Rule{ID: "R-C15-exitstatus", Props: []string{"C15"}, Floor: 3,
		Doc: "the --exit-status cell is initialised to 4 and set to 1 (null/false) or 0 only after a successful marshal in printValues",
		Run: ruleC15ExitStatus})
	reg(&Rule{ID: "R-C15-loop", Props: []string{"C15"}, Floor: 3,
		Doc: "process leaves its input loop only on end of input or *HaltError; input errors and run-time errors are reported on errStream and the loop continues",
		Run: ruleC15Loop})
	reg(&Rule{ID: "R-C15-term", Props: []string{"C15"}, Floor: 4,
		Doc: "terminator bytes after a value are constants selected by outputRaw0/outputJoin/outputYAML; rawMarshaler's NUL check is armed by outputRaw0",
		Run: ruleC15Term})
	reg(&Rule{ID: "R-GEN-indexcmp", Props: []string{"C15", "C14", "C03", "C08"}, Floor: 1,
		Doc: "no result of strings/bytes/slices Index* is compared with 0 by > or <= (index 0 is a match): containment tests must be >= 0 / != -1 or a Contains* call",
		Run: ruleGenIndexCmp})
	reg(&Rule{ID: "R-C16-shared", Props: []string{"C16"}, Floor: 2,
		Doc: "the iterator passed to gojq.WithInputIter is the one process consumes (or newNullInputIter under InputNull)",
		Run: ruleC16Shared})
	reg(&Rule{ID: "R-C16-sticky", Props: []string{"C16", "C15"}, Floor: 16,
		Doc: "every inputIter implementation: Next begins with the sticky err test; end-of-input and decode-error returns store err first; Close makes it terminal",
		Run: ruleC16Sticky})
	reg(&Rule{ID: "R-C17-window", Props: []string{"C17"}, Floor: 1,
		Doc: "bytes of the tee capture buffer are discarded only up to the decoder's InputOffset or after EOF (never a bare Reset while decoding continues)",
		Run: ruleC17Window})
}

func isCliField(info *types.Info, e ast.Expr, name string) bool {
	sel, ok := unparen(e).(*ast.SelectorExpr)
	if !ok || sel.Sel.Name != name {
		return false
	}
	return isNamed(info.TypeOf(sel.X), pathCli, "cli")
}

func mentions(n ast.Node, pred func(ast.Expr) bool) bool {
	found := false
	ast.Inspect(n, func(m ast.Node) bool {
		if e, ok := m.(ast.Expr); ok && pred(e) {
			found = true
		}
		return !found
	})
	return found
}

func ruleC15Streams(c *Ctx, r *Rep) {
	info := c.Cli.TypesInfo
	for _, fd := range c.Decls(c.Cli) {
		fn := declKey(fd)
		walkStack(fd.Body, func(n ast.Node, stack []ast.Node) bool {
			sel, ok := n.(*ast.SelectorExpr)
			if !ok || !isCliField(info, sel, "outStream") || len(stack) == 0 {
				return true
			}
			switch p := stack[len(stack)-1].(type) {
			case *ast.TypeAssertExpr:
				r.OK(fn+":outStream:probe", sel.Pos(), "outStream is only probed for a file descriptor (tty detection)")
				return true
			case *ast.KeyValueExpr:
				_ = p
				r.OK(fn+":outStream:wiring", sel.Pos(), "outStream is wired in a cli literal")
				return true
			}
			okc := false
			why := ""
			switch fn {
			case "cli.printValues":
				okc, why = true, "the one place values are printed"
			case "cli.runInternal":
				// must be inside `if opts.Help` / `if opts.Version`
				for i := len(stack) - 1; i >= 0; i-- {
					if ifs, ok := stack[i].(*ast.IfStmt); ok {
						if s2, ok := unparen(ifs.Cond).(*ast.SelectorExpr); ok && (s2.Sel.Name == "Help" || s2.Sel.Name == "Version") && isNamed(info.TypeOf(s2.X), pathCli, "flagopts") {
							okc, why = true, "help/version text requested by a flag"
						}
					}
				}
			}
			if okc {
				r.OK(fn+":outStream", sel.Pos(), "write to outStream in %s: %s", fn, why)
			} else {
				r.Bad(fn+":outStream", sel.Pos(), "cli.outStream used in %s: stdout must carry only the values printed by printValues (and help/version text); diagnostics belong on errStream", fn)
			}
			return true
		})
		// fmt.Fprint* destinations
		ast.Inspect(fd.Body, func(n ast.Node) bool {
			call, ok := n.(*ast.CallExpr)
			if !ok {
				return true
			}
			name := calleeName(info, call)
			if strings.HasPrefix(name, "fmt.Fprint") && len(call.Args) > 0 {
				dst := call.Args[0]
				switch {
				case isCliField(info, dst, "errStream"):
					r.OK(fn+":"+name+"→errStream", call.Pos(), "diagnostic written to errStream")
				case isCliField(info, dst, "outStream"):
					// judged above
				default:
					// a local writer (strings.Builder etc.) is fine; a raw os.File is not
					if t := info.TypeOf(dst); t != nil && strings.Contains(t.String(), "os.File") {
						r.Bad(fn+":"+name, call.Pos(), "%s writes to an *os.File directly", name)
					}
				}
			}
			return true
		})
	}
	// the stdout marshaler (which follows the output-format flags) is built only by printValues
	for _, fd := range c.Decls(c.Cli) {
		ast.Inspect(fd.Body, func(n ast.Node) bool {
			if call, ok := n.(*ast.CallExpr); ok && calleeName(info, call) == "cli.cli.createMarshaler" {
				r.Check(declKey(fd) == "cli.printValues", declKey(fd)+":createMarshaler", call.Pos(), "the stdout marshaler is created in %s (allowed only in printValues: diagnostics such as halt_error messages must not follow the stdout format flags)", declKey(fd))
			}
			return true
		})
	}
	// forbidden sinks in cli and gojq
	n := 0
	for _, p := range []*packages.Package{c.Cli, c.Gojq} {
		info := p.TypesInfo
		for id, o := range info.Uses {
			if o.Pkg() == nil {
				if b, ok := o.(*types.Builtin); ok && (b.Name() == "println" || b.Name() == "print") {
					r.Bad(p.Name+":"+b.Name(), id.Pos(), "builtin %s writes to stderr behind the command's back", b.Name())
				}
				continue
			}
			q := o.Pkg().Path() + "." + o.Name()
			bad := false
			switch {
			case q == "os.Stdout" || q == "os.Stderr" || q == "os.Stdin":
				fd := c.EnclosingDecl(p, id.Pos())
				if p == c.Cli && fd != nil && declKey(fd) == "Run" {
					n++
					continue // the wiring of the three streams
				}
				if c.PhysFile(id.Pos()) == "debug.go" && c.Cfg.Tags == "gojq_debug" {
					continue
				}
				bad = true
			case strings.HasPrefix(q, "fmt.Print"), o.Pkg().Path() == "log":
				if c.PhysFile(id.Pos()) == "parser.go" {
					continue // goyacc's trace output, compiled in but dead: guarded by yyDebug, which is 0 and never assigned (R-C06-global)
				}
				bad = true
			}
			if bad {
				fd := c.EnclosingDecl(p, id.Pos())
				fn := "<package level>"
				if fd != nil {
					fn = declKey(fd)
				}
				r.Bad(p.Name+":"+fn+":"+q, id.Pos(), "%s used in %s.%s: output must go through cli.outStream/cli.errStream", q, p.Name, fn)
			}
		}
	}
	r.Check(n == 3, "wiring", token.NoPos, "os.Stdin/os.Stdout/os.Stderr are referenced exactly in cli.Run's wiring (%d references)", n)
}

func constOf(p *types.Package, name string) (int64, bool) {
	k, ok := p.Scope().Lookup(name).(*types.Const)
	if !ok {
		return 0, false
	}
	return constant.Int64Val(k.Val())
}

// returnedConst: the single constant returned by a no-branch method body `return K`.
func returnedConsts(info *types.Info, fd *ast.FuncDecl) (vals []int64, nonConst int) {
	ast.Inspect(fd.Body, func(n ast.Node) bool {
		if rs, ok := n.(*ast.ReturnStmt); ok && len(rs.Results) == 1 {
			if v, ok := constInt(info, rs.Results[0]); ok {
				vals = append(vals, v)
			} else {
				nonConst++
			}
		}
		return true
	})
	return
}

func ruleC15Status(c *Ctx, r *Rep) {
	want := map[string]int64{"exitCodeOK": 0, "exitCodeFalsyErr": 1, "exitCodeFlagParseErr": 2, "exitCodeCompileErr": 3, "exitCodeNoValueErr": 4, "exitCodeDefaultErr": 5}
	for _, name := range []string{"exitCodeOK", "exitCodeFalsyErr", "exitCodeFlagParseErr", "exitCodeCompileErr", "exitCodeNoValueErr", "exitCodeDefaultErr"} {
		v, ok := constOf(c.Cli.Types, name)
		if !ok {
			r.Undecided("const:"+name, token.NoPos, "constant not found")
			continue
		}
		r.Check(v == want[name], "const:"+name, token.NoPos, "%s = %d (documented %d)", name, v, want[name])
	}
	// constant ExitCode methods
	type row struct {
		pkg  *packages.Package
		key  string
		want int64
	}
	for _, rw := range []row{
		{c.Cli, "flagParseError.ExitCode", 2}, {c.Cli, "compileError.ExitCode", 3}, {c.Cli, "queryParseError.ExitCode", 3},
		{c.Gojq, "breakError.ExitCode", 3},
	} {
		fd := c.Decl(rw.pkg, rw.key)
		if fd == nil {
			r.Undecided(rw.key, token.NoPos, "not found")
			continue
		}
		vals, nc := returnedConsts(rw.pkg.TypesInfo, fd)
		r.Check(nc == 0 && len(vals) == 1 && vals[0] == rw.want, rw.key, fd.Pos(), "%s returns %v (documented %d)", rw.key, vals, rw.want)
	}
	// emptyError.ExitCode: delegates to the wrapped error's ExitCode, else default 5
	if fd := c.Decl(c.Cli, "emptyError.ExitCode"); fd != nil {
		vals, nc := returnedConsts(c.Cli.TypesInfo, fd)
		r.Check(len(vals) == 1 && vals[0] == 5 && nc == 1, "emptyError.ExitCode", fd.Pos(), "emptyError.ExitCode delegates to the wrapped error or returns %v (documented 5)", vals)
	} else {
		r.Undecided("emptyError.ExitCode", token.NoPos, "not found")
	}
	// cli.run: returns err.ExitCode() if present else exitCodeDefaultErr; nil error → exitCodeOK
	if fd := c.Decl(c.Cli, "cli.run"); fd != nil {
		vals, nc := returnedConsts(c.Cli.TypesInfo, fd)
		sort.Slice(vals, func(i, j int) bool { return vals[i] < vals[j] })
		r.Check(len(vals) == 2 && vals[0] == 0 && vals[1] == 5 && nc == 1, "cli.run", fd.Pos(), "cli.run returns ExitCode() when the error has one, else %v (documented: 5 for any other error, 0 for none)", vals)
	} else {
		r.Undecided("cli.run", token.NoPos, "not found")
	}
	// natives: funcError → code 5, funcHalt → 0, funcHaltError default 5
	info := c.Gojq.TypesInfo
	litCode := func(fd *ast.FuncDecl, typ string) (vals []string) {
		ast.Inspect(fd.Body, func(n ast.Node) bool {
			if cl, ok := n.(*ast.CompositeLit); ok && isNamed(info.TypeOf(cl), pathGojq, typ) && len(cl.Elts) == 2 {
				e := cl.Elts[1]
				if kv, ok := e.(*ast.KeyValueExpr); ok {
					e = kv.Value
				}
				if v, ok := constInt(info, e); ok {
					vals = append(vals, fmt.Sprint(v))
				} else {
					vals = append(vals, c.Src(e))
				}
			}
			return true
		})
		return
	}
	if fd := c.Decl(c.Gojq, "funcError"); fd != nil {
		v := litCode(fd, "exitCodeError")
		r.Check(len(v) == 1 && v[0] == "5", "funcError", fd.Pos(), "error/0,1 build exit code %v (documented 5)", v)
	}
	if fd := c.Decl(c.Gojq, "funcHalt"); fd != nil {
		v := litCode(fd, "HaltError")
		r.Check(len(v) == 1 && v[0] == "0", "funcHalt", fd.Pos(), "halt builds exit code %v (documented 0)", v)
	}
	if fd := c.Decl(c.Gojq, "funcHaltError"); fd != nil {
		v := litCode(fd, "HaltError")
		// the code variable defaults to 5
		def := false
		ast.Inspect(fd.Body, func(n ast.Node) bool {
			if as, ok := n.(*ast.AssignStmt); ok && as.Tok == token.DEFINE && len(as.Lhs) == 1 && len(as.Rhs) == 1 {
				if id, ok := as.Lhs[0].(*ast.Ident); ok && len(v) == 1 && id.Name == v[0] {
					if k, ok := constInt(info, as.Rhs[0]); ok && k == 5 {
						def = true
					}
				}
			}
			return true
		})
		r.Check(def, "funcHaltError", fd.Pos(), "halt_error defaults to exit code 5: %v", def)
	}
	// HaltError.ExitCode / exitCodeError.ExitCode return the stored code
	for _, k := range []string{"exitCodeError.ExitCode", "HaltError.ExitCode"} {
		if fd := c.Decl(c.Gojq, k); fd != nil {
			_, nc := returnedConsts(info, fd)
			r.Check(nc == 1, k, fd.Pos(), "%s returns the stored code", k)
		}
	}
}

func ruleC15ExitStatus(c *Ctx, r *Rep) {
	info := c.Cli.TypesInfo
	codeOf := func(e ast.Expr) (int64, bool) {
		u, ok := unparen(e).(*ast.UnaryExpr)
		if !ok {
			return 0, false
		}
		cl, ok := u.X.(*ast.CompositeLit)
		if !ok || !isNamed(info.TypeOf(cl), pathCli, "exitCodeError") || len(cl.Elts) != 1 {
			return 0, false
		}
		e0 := cl.Elts[0]
		if kv, ok := e0.(*ast.KeyValueExpr); ok {
			e0 = kv.Value
		}
		return constInt(info, e0)
	}
	for _, fd := range c.Decls(c.Cli) {
		fn := declKey(fd)
		ast.Inspect(fd.Body, func(n ast.Node) bool {
			as, ok := n.(*ast.AssignStmt)
			if !ok {
				return true
			}
			for i, l := range as.Lhs {
				if !isCliField(info, l, "exitCodeError") || i >= len(as.Rhs) {
					continue
				}
				v, okc := codeOf(as.Rhs[i])
				switch fn {
				case "cli.runInternal":
					r.Check(okc && v == 4, fn+":init", as.Pos(), "--exit-status cell initialised to %d (documented 4: no value produced)", v)
				case "cli.printValues":
					// must come after the marshal call in the loop body
					var marshalPos token.Pos
					ast.Inspect(fd.Body, func(m ast.Node) bool {
						if call, ok := m.(*ast.CallExpr); ok {
							if sel, ok := call.Fun.(*ast.SelectorExpr); ok && sel.Sel.Name == "marshal" {
								marshalPos = call.Pos()
							}
						}
						return true
					})
					r.Check(okc && (v == 0 || v == 1) && marshalPos.IsValid() && marshalPos < as.Pos(), fn+":set", as.Pos(), "--exit-status cell set to %d after the value was marshalled (marshal at %s)", v, c.Pos(marshalPos))
				default:
					r.Bad(fn+":exitCodeError", as.Pos(), "cli.exitCodeError assigned in %s", fn)
				}
			}
			return true
		})
	}
}

func ruleC15Loop(c *Ctx, r *Rep) {
	info := c.Cli.TypesInfo
	fd := c.Decl(c.Cli, "cli.process")
	if fd == nil {
		r.Undecided("cli.process", token.NoPos, "not found")
		return
	}
	var loop *ast.ForStmt
	for _, s := range fd.Body.List {
		if f, ok := s.(*ast.ForStmt); ok && f.Cond == nil {
			loop = f
		}
	}
	if loop == nil {
		r.Undecided("cli.process:loop", fd.Pos(), "input loop not found")
		return
	}
	// exits of the loop: break / return statements not inside an inner loop or func literal
	walkStack(loop.Body, func(n ast.Node, stack []ast.Node) bool {
		if _, ok := n.(*ast.FuncLit); ok {
			return false
		}
		var kind string
		switch x := n.(type) {
		case *ast.BranchStmt:
			if x.Tok == token.BREAK || x.Tok == token.GOTO {
				kind = x.Tok.String()
				for _, a := range stack {
					switch a.(type) {
					case *ast.ForStmt, *ast.RangeStmt, *ast.SwitchStmt, *ast.TypeSwitchStmt, *ast.SelectStmt:
						if x.Label == nil {
							kind = ""
						}
					}
				}
			}
		case *ast.ReturnStmt:
			kind = "return"
		}
		if kind == "" {
			return true
		}
		// the innermost enclosing if decides why we leave
		reason := ""
		for i := len(stack) - 1; i >= 0 && reason == ""; i-- {
			ifs, ok := stack[i].(*ast.IfStmt)
			if !ok {
				continue
			}
			if u, ok := unparen(ifs.Cond).(*ast.UnaryExpr); ok && u.Op == token.NOT {
				if id, ok := u.X.(*ast.Ident); ok && id.Name == "ok" && ifs.Init == nil {
					reason = "end of input (!ok from iter.Next)"
				}
			}
			if as, ok := ifs.Init.(*ast.AssignStmt); ok && len(as.Rhs) == 1 {
				if ta, ok := as.Rhs[0].(*ast.TypeAssertExpr); ok && ta.Type != nil {
					if t := info.TypeOf(ta.Type); t != nil && strings.HasSuffix(t.String(), "gojq.HaltError") {
						reason = "*gojq.HaltError"
					}
				}
			}
		}
		r.Check(reason != "", "exit:"+kind, n.Pos(), "the input loop is left by `%s` because: %s (allowed: end of input, *HaltError) — any other exit would skip later inputs", kind, map[bool]string{true: reason, false: "UNRECOGNISED CONDITION"}[reason != ""])
		return true
	})
	// input errors: reported and `continue`
	cont := false
	ast.Inspect(loop.Body, func(n ast.Node) bool {
		ifs, ok := n.(*ast.IfStmt)
		if !ok {
			return true
		}
		as, ok := ifs.Init.(*ast.AssignStmt)
		if !ok || len(as.Rhs) != 1 {
			return true
		}
		ta, ok := as.Rhs[0].(*ast.TypeAssertExpr)
		if !ok || ta.Type == nil || info.TypeOf(ta.Type).String() != "error" {
			return true
		}
		reports, continues := false, false
		for _, s := range ifs.Body.List {
			if es, ok := s.(*ast.ExprStmt); ok {
				if call, ok := es.X.(*ast.CallExpr); ok && strings.HasPrefix(calleeName(info, call), "fmt.Fprint") && len(call.Args) > 0 && isCliField(info, call.Args[0], "errStream") {
					reports = true
				}
			}
			if b, ok := s.(*ast.BranchStmt); ok && b.Tok == token.CONTINUE {
				continues = true
			}
		}
		if reports && continues {
			cont = true
		}
		return true
	})
	r.Check(cont, "input-error", loop.Pos(), "an error value from the input iterator is reported on errStream and the loop continues: %v", cont)
	// after the loop: any recorded error → &emptyError{err}
	ret := false
	ast.Inspect(fd.Body, func(n ast.Node) bool {
		if rs, ok := n.(*ast.ReturnStmt); ok && rs.Pos() > loop.End() && len(rs.Results) == 1 {
			if u, ok := unparen(rs.Results[0]).(*ast.UnaryExpr); ok {
				if cl, ok := u.X.(*ast.CompositeLit); ok && isNamed(info.TypeOf(cl), pathCli, "emptyError") {
					ret = true
				}
			}
		}
		return true
	})
	r.Check(ret, "final-status", fd.Pos(), "after the loop a recorded error is returned wrapped in emptyError (status from the error, already printed): %v", ret)
}

func ruleC15Term(c *Ctx, r *Rep) {
	info := c.Cli.TypesInfo
	fd := c.Decl(c.Cli, "cli.printValues")
	if fd == nil {
		r.Undecided("cli.printValues", token.NoPos, "not found")
		return
	}
	// collect outStream.Write([]byte{K}) / Write([]byte("...")) with their guarding conditions
	type w struct {
		bytes string
		conds []string
		pos   token.Pos
	}
	var ws []w
	walkStack(fd.Body, func(n ast.Node, stack []ast.Node) bool {
		call, ok := n.(*ast.CallExpr)
		if !ok {
			return true
		}
		sel, ok := call.Fun.(*ast.SelectorExpr)
		if !ok || sel.Sel.Name != "Write" || !isCliField(info, sel.X, "outStream") || len(call.Args) != 1 {
			return true
		}
		b := "?"
		switch a := unparen(call.Args[0]).(type) {
		case *ast.CompositeLit:
			var parts []string
			for _, e := range a.Elts {
				if v, ok := constInt(info, e); ok {
					parts = append(parts, fmt.Sprintf("0x%02x", v))
				} else {
					parts = append(parts, "?")
				}
			}
			b = strings.Join(parts, " ")
		case *ast.CallExpr:
			if len(a.Args) == 1 {
				if s, ok := constString(info, a.Args[0]); ok {
					b = fmt.Sprintf("%q", s)
				}
			}
		}
		var conds []string
		for i := len(stack) - 1; i >= 0; i-- {
			if ifs, ok := stack[i].(*ast.IfStmt); ok {
				neg := ""
				if i+1 < len(stack) && stack[i+1] != ast.Node(ifs.Body) {
					neg = "else-of "
				}
				conds = append(conds, neg+c.Src(ifs.Cond))
			}
		}
		ws = append(ws, w{b, conds, call.Pos()})
		return true
	})
	find := func(b string) *w {
		for i := range ws {
			if ws[i].bytes == b {
				return &ws[i]
			}
		}
		return nil
	}
	has := func(x *w, s string) bool {
		if x == nil {
			return false
		}
		for _, cnd := range x.conds {
			if cnd == s {
				return true
			}
		}
		return false
	}
	nul, nl, sep := find("0x00"), find("0x0a"), find(`"---\n"`)
	r.Check(nul != nil && has(nul, "cli.outputRaw0") && has(nul, "!cli.outputYAML"), "terminator:NUL", fd.Pos(), "a NUL byte is written after a value exactly under outputRaw0 and not YAML: %+v", nul)
	r.Check(nl != nil && has(nl, "!cli.outputJoin") && has(nl, "else-of cli.outputRaw0") && has(nl, "!cli.outputYAML"), "terminator:newline", fd.Pos(), "a newline is written after a value unless -j, --raw-output0 or YAML: %+v", nl)
	r.Check(sep != nil && has(sep, "cli.outputYAMLSeparator"), "separator:yaml", fd.Pos(), "the YAML document separator is written only between documents: %+v", sep)
	r.Check(len(ws) == 3, "writes", fd.Pos(), "printValues performs exactly %d direct writes to outStream besides the marshaler (expected 3: separator, NUL, newline)", len(ws))
	// rawMarshaler{f, cli.outputRaw0}
	cm := c.Decl(c.Cli, "cli.createMarshaler")
	okRaw := false
	if cm != nil {
		ast.Inspect(cm.Body, func(n ast.Node) bool {
			if cl, ok := n.(*ast.CompositeLit); ok && isNamed(info.TypeOf(cl), pathCli, "rawMarshaler") {
				var chk ast.Expr
				for i, e := range cl.Elts {
					if kv, ok := e.(*ast.KeyValueExpr); ok {
						if kv.Key.(*ast.Ident).Name == "checkNul" {
							chk = kv.Value
						}
					} else if i == 1 {
						chk = e
					}
				}
				if chk != nil && isCliField(info, chk, "outputRaw0") {
					okRaw = true
				}
			}
			return true
		})
	}
	r.Check(okRaw, "rawMarshaler:checkNul", fd.Pos(), "createMarshaler arms rawMarshaler's NUL rejection from outputRaw0: %v", okRaw)
	// rawMarshaler.marshal rejects NUL only under checkNul
	rm := c.Decl(c.Cli, "rawMarshaler.marshal")
	okChk := false
	if rm != nil {
		ast.Inspect(rm.Body, func(n ast.Node) bool {
			if ifs, ok := n.(*ast.IfStmt); ok {
				if be, ok := unparen(ifs.Cond).(*ast.BinaryExpr); ok && be.Op == token.LAND {
					if s, ok := unparen(be.X).(*ast.SelectorExpr); ok && s.Sel.Name == "checkNul" && endsInReturn(ifs.Body) {
						okChk = true
					}
				}
			}
			return true
		})
	}
	r.Check(okChk, "rawMarshaler:guard", fd.Pos(), "rawMarshaler rejects a string containing NUL only when checkNul is set: %v", okChk)
}

func ruleC16Shared(c *Ctx, r *Rep) {
	info := c.Cli.TypesInfo
	fd := c.Decl(c.Cli, "cli.runInternal")
	if fd == nil {
		r.Undecided("cli.runInternal", token.NoPos, "not found")
		return
	}
	var withIter, procIter types.Object
	var procCall *ast.CallExpr
	ast.Inspect(fd.Body, func(n ast.Node) bool {
		call, ok := n.(*ast.CallExpr)
		if !ok {
			return true
		}
		switch calleeName(info, call) {
		case "gojq.WithInputIter":
			if id, ok := unparen(call.Args[0]).(*ast.Ident); ok {
				withIter = info.Uses[id]
			}
		case "cli.cli.process":
			procCall = call
			if id, ok := unparen(call.Args[0]).(*ast.Ident); ok {
				procIter = info.Uses[id]
			}
		}
		return true
	})
	if procCall == nil {
		r.Undecided("iter", fd.Pos(), "call of cli.process not found")
		return
	}
	if withIter == nil || procIter == nil {
		r.Bad("same-variable", procCall.Pos(), "gojq.WithInputIter and cli.process are not both given a plain iterator variable: `input`/`inputs` and the main loop must draw from one shared iterator (each value exactly once, in stream order); a second iterator over the same arguments re-reads the files")
		return
	}
	r.Check(withIter == procIter, "same-variable", procCall.Pos(), "the iterator given to WithInputIter and the one process consumes are the same variable: %v", withIter == procIter)
	// assignments to that variable after its definition: only `iter = newNullInputIter()` under opts.InputNull
	walkStack(fd.Body, func(n ast.Node, stack []ast.Node) bool {
		as, ok := n.(*ast.AssignStmt)
		if !ok || as.Tok != token.ASSIGN {
			return true
		}
		for i, l := range as.Lhs {
			id, ok := l.(*ast.Ident)
			if !ok || info.Uses[id] != withIter {
				continue
			}
			okc := false
			if i < len(as.Rhs) {
				if call, ok := unparen(as.Rhs[i]).(*ast.CallExpr); ok && calleeName(info, call) == "cli.newNullInputIter" {
					for j := len(stack) - 1; j >= 0; j-- {
						if ifs, ok := stack[j].(*ast.IfStmt); ok {
							if s, ok := unparen(ifs.Cond).(*ast.SelectorExpr); ok && s.Sel.Name == "InputNull" {
								okc = true
							}
						}
					}
				}
			}
			r.Check(okc, "reassign", as.Pos(), "the shared iterator variable is reassigned only to newNullInputIter() under opts.InputNull: %s", c.Src(as))
		}
		return true
	})
}

func ruleC16Sticky(c *Ctx, r *Rep) {
	info := c.Cli.TypesInfo
	// implementations: named types of package cli with methods Next, Close, Name
	var impls []string
	for _, name := range c.Cli.Types.Scope().Names() {
		tn, ok := c.Cli.Types.Scope().Lookup(name).(*types.TypeName)
		if !ok {
			continue
		}
		ms := types.NewMethodSet(types.NewPointer(tn.Type()))
		if ms.Lookup(c.Cli.Types, "Next") != nil && ms.Lookup(c.Cli.Types, "Close") != nil && ms.Lookup(c.Cli.Types, "Name") != nil {
			if _, isStruct := tn.Type().Underlying().(*types.Struct); isStruct {
				impls = append(impls, name)
			}
		}
	}
	sort.Strings(impls)
	if len(impls) < 8 {
		r.Undecided("impls", token.NoPos, "expected 8 inputIter implementations, found %v", impls)
		return
	}
	for _, t := range impls {
		fd := c.Decl(c.Cli, t+".Next")
		if fd == nil || len(fd.Body.List) == 0 {
			r.Undecided(t+".Next", token.NoPos, "not found")
			continue
		}
		isErrField := func(e ast.Expr) bool {
			sel, ok := unparen(e).(*ast.SelectorExpr)
			return ok && sel.Sel.Name == "err" && isNamed(info.TypeOf(sel.X), pathCli, t)
		}
		// 1. sticky test first
		sticky := false
		if ifs, ok := fd.Body.List[0].(*ast.IfStmt); ok {
			if be, ok := unparen(ifs.Cond).(*ast.BinaryExpr); ok && be.Op == token.NEQ && isErrField(be.X) && isNilIdent(be.Y) && len(ifs.Body.List) == 1 {
				if rs, ok := ifs.Body.List[0].(*ast.ReturnStmt); ok && len(rs.Results) == 2 {
					if tv, ok := info.Types[rs.Results[1]]; ok && tv.Value != nil && tv.Value.String() == "false" {
						sticky = true
					}
				}
			}
		}
		r.Check(sticky, t+".Next:sticky", fd.Pos(), "%s.Next begins with `if i.err != nil { return nil, false }`: %v", t, sticky)
		// 2. every other `return _, false` and every `return <error>, true` is preceded (on its path, same or enclosing statement lists) by an assignment to i.err
		walkStack(fd.Body, func(n ast.Node, stack []ast.Node) bool {
			if _, ok := n.(*ast.FuncLit); ok {
				return false
			}
			rs, ok := n.(*ast.ReturnStmt)
			if !ok || len(rs.Results) != 2 {
				return true
			}
			if len(stack) >= 2 && stack[len(stack)-2] == ast.Node(fd.Body.List[0]) {
				return true // the sticky test itself
			}
			kind := ""
			if tv, ok := info.Types[rs.Results[1]]; ok && tv.Value != nil && tv.Value.String() == "false" {
				kind = "end"
			} else if isErrField(rs.Results[0]) {
				kind = "error(stored)"
			} else if t0 := info.TypeOf(rs.Results[0]); t0 != nil && !isEmptyIface(t0) && types.Implements(t0, types.Universe.Lookup("error").Type().Underlying().(*types.Interface)) {
				kind = "error"
			}
			if kind == "" || kind == "error(stored)" {
				if kind != "" {
					r.OK(t+".Next:"+kind, rs.Pos(), "returns the stored error")
				}
				return true
			}
			// look for `i.err = …` / `i.err, ok = …` earlier in any enclosing statement list, or in an enclosing if-init
			stored := false
			for i := len(stack) - 1; i >= 0 && !stored; i-- {
				var list []ast.Stmt
				switch x := stack[i].(type) {
				case *ast.BlockStmt:
					list = x.List
				case *ast.CaseClause:
					list = x.Body
				case *ast.IfStmt:
					if x.Init != nil {
						list = []ast.Stmt{x.Init}
					}
				}
				for _, s := range list {
					if s.Pos() >= rs.Pos() {
						break
					}
					if as, ok := s.(*ast.AssignStmt); ok {
						for _, l := range as.Lhs {
							if isErrField(l) {
								stored = true
							}
						}
					}
				}
			}
			if !stored && kind == "error" && t == "filesInputIter" {
				r.OK(t+".Next:open-error", rs.Pos(), "reviewed exception: an os.Open error is reported and later files are still read, by design")
				return true
			}
			r.Check(stored, t+".Next:"+kind, rs.Pos(), "%s.Next returns %s at %s after storing i.err: %v (otherwise the iterator is not sticky: values, one error, end)", t, kind, c.Pos(rs.Pos()), stored)
			return true
		})
		// 3. Close makes the iterator terminal
		cl := c.Decl(c.Cli, t+".Close")
		if cl == nil {
			r.Undecided(t+".Close", token.NoPos, "not found")
			continue
		}
		sets := false
		ast.Inspect(cl.Body, func(n ast.Node) bool {
			if as, ok := n.(*ast.AssignStmt); ok {
				for _, l := range as.Lhs {
					if isErrField(l) {
						sets = true
					}
				}
			}
			return true
		})
		r.Check(sets, t+".Close", cl.Pos(), "%s.Close stores a non-nil err (terminal): %v", t, sets)
	}
}

func ruleC17Window(c *Ctx, r *Rep) {
	info := c.Cli.TypesInfo
	// the tee sink: a bytes.Buffer passed as second argument of io.TeeReader, stored in a struct field
	var sinkField string
	for _, fd := range c.Decls(c.Cli) {
		ast.Inspect(fd.Body, func(n ast.Node) bool {
			call, ok := n.(*ast.CallExpr)
			if !ok || calleeName(info, call) != "io.TeeReader" || len(call.Args) != 2 {
				return true
			}
			// find the composite literal in the same function that stores &buf into a field
			var bufObj types.Object
			if u, ok := unparen(call.Args[1]).(*ast.UnaryExpr); ok && u.Op == token.AND {
				if id, ok := u.X.(*ast.Ident); ok {
					bufObj = info.Uses[id]
				}
			}
			ast.Inspect(fd.Body, func(m ast.Node) bool {
				cl, ok := m.(*ast.CompositeLit)
				if !ok {
					return true
				}
				st, ok := info.TypeOf(cl).Underlying().(*types.Struct)
				if !ok {
					return true
				}
				for i, e := range cl.Elts {
					name := ""
					val := e
					if kv, ok := e.(*ast.KeyValueExpr); ok {
						name = kv.Key.(*ast.Ident).Name
						val = kv.Value
					} else if i < st.NumFields() {
						name = st.Field(i).Name()
					}
					if u, ok := unparen(val).(*ast.UnaryExpr); ok && u.Op == token.AND {
						if id, ok := u.X.(*ast.Ident); ok && bufObj != nil && info.Uses[id] == bufObj {
							sinkField = name
						}
					}
				}
				return true
			})
			return true
		})
	}
	if sinkField == "" {
		r.Undecided("tee-sink", token.NoPos, "no io.TeeReader whose sink buffer is stored in a struct field found in package cli")
		return
	}
	// every discarding call on a value that aliases <x>.<sinkField>
	n := 0
	for _, fd := range c.Decls(c.Cli) {
		// local aliases: `buf := i.ir.buf` (also in if-init)
		alias := map[types.Object]bool{}
		ast.Inspect(fd.Body, func(m ast.Node) bool {
			if as, ok := m.(*ast.AssignStmt); ok && len(as.Lhs) == len(as.Rhs) {
				for i, rhs := range as.Rhs {
					if sel, ok := unparen(rhs).(*ast.SelectorExpr); ok && sel.Sel.Name == sinkField && isNamed(info.TypeOf(sel.X), pathCli, "inputReader") {
						if id, ok := as.Lhs[i].(*ast.Ident); ok {
							alias[info.ObjectOf(id)] = true
						}
					}
				}
			}
			return true
		})
		isSink := func(e ast.Expr) bool {
			switch x := unparen(e).(type) {
			case *ast.Ident:
				return alias[info.ObjectOf(x)]
			case *ast.SelectorExpr:
				return x.Sel.Name == sinkField && isNamed(info.TypeOf(x.X), pathCli, "inputReader")
			}
			return false
		}
		walkStack(fd.Body, func(m ast.Node, stack []ast.Node) bool {
			call, ok := m.(*ast.CallExpr)
			if !ok {
				return true
			}
			sel, ok := call.Fun.(*ast.SelectorExpr)
			if !ok || !isSink(sel.X) {
				return true
			}
			switch sel.Sel.Name {
			case "Reset", "Truncate", "Next", "Read", "ReadByte", "ReadBytes", "ReadString", "ReadRune", "WriteTo":
			default:
				return true
			}
			n++
			key := declKey(fd) + ":" + sel.Sel.Name
			// accepted: an argument data-dependent on <decoder>.InputOffset()
			dep := false
			usesOffset := func(e ast.Node) bool {
				return mentions(e, func(x ast.Expr) bool {
					cc, ok := x.(*ast.CallExpr)
					return ok && strings.HasSuffix(calleeName(info, cc), "json.Decoder.InputOffset")
				})
			}
			for _, a := range call.Args {
				if usesOffset(a) {
					dep = true
				}
				// one level of local definition: n := … InputOffset() …
				ast.Inspect(a, func(k ast.Node) bool {
					if id, ok := k.(*ast.Ident); ok {
						o := info.Uses[id]
						ast.Inspect(fd.Body, func(d ast.Node) bool {
							if as, ok := d.(*ast.AssignStmt); ok {
								for i, l := range as.Lhs {
									if lid, ok := l.(*ast.Ident); ok && info.ObjectOf(lid) == o && o != nil && i < len(as.Rhs) && usesOffset(as.Rhs[i]) {
										dep = true
									}
								}
							}
							return true
						})
					}
					return true
				})
			}
			// accepted: the count is a local that starts at a constant, only grows inside a loop whose condition holds a
			// running position below the position the YAML decoder reported for the node it has just decoded (X.Index
			// with X a Node of the YAML dependency), and is otherwise only decremented
			for _, a := range call.Args {
				id, ok := unparen(a).(*ast.Ident)
				if !ok {
					continue
				}
				o := info.Uses[id]
				if o == nil {
					continue
				}
				bounded, other := false, false
				walkStack(fd.Body, func(d ast.Node, st []ast.Node) bool {
					writes := false
					switch x := d.(type) {
					case *ast.AssignStmt:
						for i, l := range x.Lhs {
							if lid, ok := l.(*ast.Ident); ok && info.ObjectOf(lid) == o {
								if x.Tok == token.DEFINE && i < len(x.Rhs) {
									if _, isConst := constInt(info, x.Rhs[i]); isConst {
										continue
									}
								}
								if x.Tok == token.SUB_ASSIGN {
									continue
								}
								writes = true
							}
						}
					case *ast.IncDecStmt:
						if lid, ok := x.X.(*ast.Ident); ok && info.ObjectOf(lid) == o && x.Tok == token.INC {
							writes = true
						}
					}
					if !writes {
						return true
					}
					inLoop := false
					for i := len(st) - 1; i >= 0; i-- {
						fs, ok := st[i].(*ast.ForStmt)
						if !ok || fs.Cond == nil {
							continue
						}
						if mentions(fs.Cond, func(e ast.Expr) bool {
							se, ok := e.(*ast.SelectorExpr)
							if !ok || se.Sel.Name != "Index" {
								return false
							}
							nt, ok := info.TypeOf(se.X).(*types.Named)
							return ok && nt.Obj().Name() == "Node" && isYAMLPkg(nt.Obj().Pkg())
						}) {
							inLoop = true
						}
					}
					if inLoop {
						bounded = true
					} else {
						other = true
					}
					return true
				})
				if bounded && !other {
					dep = true
				}
			}
			// accepted: control-dependent on the decoder having reported EOF
			eof := false
			for i := len(stack) - 1; i >= 0; i-- {
				if ifs, ok := stack[i].(*ast.IfStmt); ok && mentions(ifs.Cond, func(x ast.Expr) bool {
					s, ok := x.(*ast.SelectorExpr)
					return ok && s.Sel.Name == "EOF"
				}) {
					eof = true
				}
			}
			if dep || eof {
				r.OK(key, call.Pos(), "%s on the tee capture buffer is bounded by a position the decoder reported — json.Decoder.InputOffset, or the Index of the YAML node just decoded — (%v) or happens after EOF (%v)", sel.Sel.Name, dep, eof)
			} else {
				r.Bad(key, call.Pos(), "%s() on the tee capture buffer of a non-seekable input while decoding continues: the json.Decoder reads ahead, so the buffer also holds bytes it has not scanned yet; dropping them makes a later error position point outside the window (18 KB document then `{\"a\": 1,\\n \"b\": }` on a pipe: empty excerpt, misplaced caret; the same bytes from a file are reported correctly)", sel.Sel.Name)
			}
			return true
		})
	}
	if n == 0 {
		r.Undecided("discards", token.NoPos, "no discarding call on the tee capture buffer found (field %s)", sinkField)
	}
}

func ruleGenIndexCmp(c *Ctx, r *Rep) {
	n := 0
	for _, p := range []*packages.Package{c.Gojq, c.Cli} {
		info := p.TypesInfo
		for _, fd := range c.Decls(p) {
			if c.PhysFile(fd.Pos()) == "parser.go" {
				continue
			}
			ast.Inspect(fd.Body, func(m ast.Node) bool {
				be, ok := m.(*ast.BinaryExpr)
				if !ok {
					return true
				}
				isIndexCall := func(e ast.Expr) (string, bool) {
					call, ok := unparen(e).(*ast.CallExpr)
					if !ok {
						return "", false
					}
					name := calleeName(info, call)
					if (strings.HasPrefix(name, "strings.") || strings.HasPrefix(name, "bytes.") || strings.HasPrefix(name, "slices.")) &&
						(strings.Contains(name, ".Index") || strings.Contains(name, ".LastIndex")) {
						return name, true
					}
					return "", false
				}
				name, okL := isIndexCall(be.X)
				cst, okR := constInt(info, be.Y)
				op := be.Op
				if !okL {
					// constant on the left: 0 < Index(...)
					if name2, ok2 := isIndexCall(be.Y); ok2 {
						if v, ok3 := constInt(info, be.X); ok3 {
							name, okL, cst, okR = name2, true, v, true
							switch be.Op {
							case token.LSS:
								op = token.GTR
							case token.GEQ:
								op = token.LEQ
							case token.GTR:
								op = token.LSS
							case token.LEQ:
								op = token.GEQ
							}
						}
					}
				}
				if !okL || !okR {
					return true
				}
				n++
				bad := cst == 0 && (op == token.GTR || op == token.LEQ)
				r.Check(!bad, declKey(fd)+":"+name, be.Pos(), "%s compared as `%s`: %s", name, c.Src(be), map[bool]string{true: "a match at index 0 is treated as no match", false: "index 0 is handled"}[bad])
				return true
			})
		}
	}
	if n == 0 {
		r.Undecided("census", token.NoPos, "no comparison of an Index* result with a constant found")
	}
}

func init() {
	reg(&Rule{ID: "R-C16-bufalias", Props: []string{"C16"}, Floor: 1,
		Doc: "input readers use only copying read APIs: no bufio ReadSlice/ReadLine/Peek or Scanner.Bytes result (which aliases the reader's buffer and is overwritten by the next read) is retained",
		Run: ruleC16BufAlias})
	reg(&Rule{ID: "R-C17-eoftoken", Props: []string{"C17", "C09"}, Floor: 2,
		Doc: "every end-of-input exit of (*lexer).Lex clears l.token first, so ParseError.Token/Offset of an unexpected-EOF error point at the end of the source",
		Run: ruleC17EOFToken})
}

func ruleC16BufAlias(c *Ctx, r *Rep) {
	n := 0
	for _, p := range []*packages.Package{c.Cli, c.Gojq} {
		info := p.TypesInfo
		for _, fd := range c.Decls(p) {
			if c.PhysFile(fd.Pos()) == "parser.go" {
				continue
			}
			ast.Inspect(fd.Body, func(m ast.Node) bool {
				call, ok := m.(*ast.CallExpr)
				if !ok {
					return true
				}
				nm := calleeName(info, call)
				if !strings.HasPrefix(nm, "bufio.") {
					return true
				}
				n++
				switch nm {
				case "bufio.Reader.ReadSlice", "bufio.Reader.ReadLine", "bufio.Reader.Peek", "bufio.Scanner.Bytes":
					// the aliasing result may be used until the next call on the same reader; a use after that is the hazard
					var resObj, recvObj types.Object
					if sel, ok := call.Fun.(*ast.SelectorExpr); ok {
						recvObj = rootObjOf(info, sel.X)
					}
					ast.Inspect(fd.Body, func(q ast.Node) bool {
						if as, ok := q.(*ast.AssignStmt); ok && len(as.Rhs) == 1 && unparen(as.Rhs[0]) == ast.Expr(call) {
							if id, ok := as.Lhs[0].(*ast.Ident); ok {
								resObj = info.ObjectOf(id)
							}
						}
						return true
					})
					var nextRead token.Pos
					ast.Inspect(fd.Body, func(q ast.Node) bool {
						if c2, ok := q.(*ast.CallExpr); ok && c2.Pos() > call.End() && !nextRead.IsValid() {
							if sel, ok := c2.Fun.(*ast.SelectorExpr); ok && recvObj != nil && rootObjOf(info, sel.X) == recvObj {
								nextRead = c2.Pos()
							}
						}
						return true
					})
					usedAfter := false
					if resObj != nil && nextRead.IsValid() {
						ast.Inspect(fd.Body, func(q ast.Node) bool {
							if id, ok := q.(*ast.Ident); ok && info.Uses[id] == resObj && id.Pos() > nextRead {
								usedAfter = true
							}
							return true
						})
					}
					if resObj != nil && !usedAfter {
						r.OK(p.Name+"."+declKey(fd)+":"+nm, call.Pos(), "%s result is not used after the next read on the same reader", nm)
						return true
					}
					r.Bad(p.Name+"."+declKey(fd)+":"+nm, call.Pos(), "%s in %s.%s returns a slice of the reader's internal buffer; it is overwritten by the next read (a long -R line assembled from such a slice and a later fill has its beginning replaced by later input)", nm, p.Name, declKey(fd))
				default:
					r.OK(p.Name+"."+declKey(fd)+":"+nm, call.Pos(), "%s copies", nm)
				}
				return true
			})
		}
	}
	if n == 0 {
		r.Undecided("census", token.NoPos, "no bufio use found in cli/gojq")
	}
}

func ruleC17EOFToken(c *Ctx, r *Rep) {
	info := c.Gojq.TypesInfo
	fd := c.Decl(c.Gojq, "lexer.Lex")
	if fd == nil {
		r.Undecided("lexer.Lex", token.NoPos, "not found")
		return
	}
	n := 0
	ast.Inspect(fd.Body, func(m ast.Node) bool {
		rs, ok := m.(*ast.ReturnStmt)
		if !ok || len(rs.Results) != 1 {
			return true
		}
		id, ok := unparen(rs.Results[0]).(*ast.Ident)
		if !ok || id.Name != "eof" {
			return true
		}
		if _, isConst := info.Uses[id].(*types.Const); !isConst {
			return true
		}
		n++
		list, idx := stmtListOf(fd.Body, rs)
		cleared := false
		if idx > 0 {
			if as, ok := list[idx-1].(*ast.AssignStmt); ok && len(as.Lhs) == 1 && len(as.Rhs) == 1 {
				if sel, ok := as.Lhs[0].(*ast.SelectorExpr); ok && sel.Sel.Name == "token" && isNamed(info.TypeOf(sel.X), pathGojq, "lexer") {
					if s, ok := constString(info, as.Rhs[0]); ok && s == "" {
						cleared = true
					}
				}
			}
		}
		r.Check(cleared, "Lex:return eof", rs.Pos(), "this end-of-input exit of Lex clears l.token immediately before returning eof: %v (its siblings do; a stale token makes the unexpected-EOF error name, and the caret point at, an unrelated earlier token)", cleared)
		return true
	})
	if n < 2 {
		r.Undecided("Lex", fd.Pos(), "expected at least two `return eof` exits in Lex, found %d", n)
	}
}

func rootObjOf(info *types.Info, e ast.Expr) types.Object {
	for {
		switch x := unparen(e).(type) {
		case *ast.Ident:
			return info.ObjectOf(x)
		case *ast.SelectorExpr:
			// i.r → the field object distinguishes readers held in different fields
			if o := info.ObjectOf(x.Sel); o != nil {
				return o
			}
			e = x.X
		default:
			return nil
		}
	}
}
