package main

// Rules added after the second round of seeded changes. Each encodes a structural necessary condition that a
// seeded change broke while every earlier rule stayed silent; see DESIGN.md section 8.

import (
	"fmt"
	"go/ast"
	"go/constant"
	"go/token"
	"go/types"
	"sort"
	"strings"

	"golang.org/x/tools/go/callgraph"
	"golang.org/x/tools/go/cfg"
	"golang.org/x/tools/go/packages"
	"golang.org/x/tools/go/ssa"
)

func init() {
	reg(&Rule{ID: "R-C05-bigfresh", Props: []string{"C05", "C06"}, Floor: 4,
		Doc: "every call of a mutating (*big.Int) method has a receiver allocated in the same function (new(big.Int), big.NewInt, or the result of such a call): operands, literals of a shared Code and caller-owned values are never multiplied/added into in place",
		Run: ruleBigFresh})
	reg(&Rule{ID: "R-C06-regexpmut", Props: []string{"C06"}, Floor: 1,
		Doc: "(*regexp.Regexp).Longest, the only mutating method of a compiled regexp, is never called on a regexp that is or may be published in the per-Code cache",
		Run: ruleRegexpMut})
	reg(&Rule{ID: "R-C05-allocown", Props: []string{"C05", "C02"}, Floor: 2,
		Doc: "the allocator's ownership set only ever receives the address of a container made (make) in the registering function itself: a view of, or a header onto, somebody else's storage is never declared owned",
		Run: ruleAllocOwn})
	reg(&Rule{ID: "R-C08-yield", Props: []string{"C08", "C03"}, Floor: 1,
		Doc: "in every range-over-func iterator body the result of yield is consulted unless nothing that calls yield again can follow: continuing after yield returned false is a run-time panic that try cannot catch",
		Run: ruleYield})
	reg(&Rule{ID: "R-C07-ctxidentity", Props: []string{"C07"}, Floor: 3,
		Doc: "the context a run polls is the one the caller passed: RunWithContext hands its ctx parameter itself to newEnv, newEnv stores its parameter in env.ctx, and nothing else writes env.ctx",
		Run: ruleCtxIdentity})
	reg(&Rule{ID: "R-C19-optioncapture", Props: []string{"C19", "C06"}, Floor: 4,
		Doc: "the closure an option constructor returns captures no variable that it (or anything it installs) writes: an option value applied to two compilations shares no mutable state between them",
		Run: ruleOptionCapture})
	reg(&Rule{ID: "R-C09-printsyntactic", Props: []string{"C09"}, Floor: 10,
		Doc: "the printer is syntactic: no writeTo/String method of an AST node reaches the value-level JSON encoder, a toValue conversion or number normalisation (a constant printed through its value loses spelling, key order and duplicates)",
		Run: rulePrintSyntactic})
	reg(&Rule{ID: "R-C14-findsingle", Props: []string{"C14"}, Floor: 1,
		Doc: "every matching method of *regexp.Regexp (Find*, Match*, ReplaceAll*, Split, Expand*) is called from funcMatch or from functions only funcMatch calls: match/test/capture/scan/split/sub are compositions of one matcher",
		Run: ruleFindSingle})
	reg(&Rule{ID: "R-C13-lossless", Props: []string{"C13"}, Floor: 6,
		Doc: "the native codec halves apply no lossy text transformation (ToValidUTF8, case mapping, trimming, regexp replacement …) to their input or output; the only rewriting is the enumerated '+'/%20 fix-up of @uri/@urid",
		Run: ruleCodecLossless})
	reg(&Rule{ID: "R-C10-negate", Props: []string{"C10"}, Floor: 1,
		Doc: "unary minus applied to an int that comes from a parameter or a type-switch binding (a JSON number) is dominated by a test against math.MinInt that leaves the function",
		Run: ruleNegate})
	reg(&Rule{ID: "R-C11-lossycompare", Props: []string{"C11", "C10"}, Floor: 5,
		Doc: "no operand of Compare is the result of a lossy numeric conversion (toFloat, toInt) made in the calling function: ordering natives compare the values themselves",
		Run: ruleLossyCompare})
	reg(&Rule{ID: "R-C20-pcsbalance", Props: []string{"C20", "C04"}, Floor: 2,
		Doc: "optimizeTailRec's stack of enclosing function entries is pushed unconditionally at every opscope and popped at every opret (guarded at most by an emptiness test): the entry on top is the function the current instruction belongs to",
		Run: rulePcsBalance})
	reg(&Rule{ID: "R-C20-limitowner", Props: []string{"C20", "C01"}, Floor: 4,
		Doc: "the persistence limit of the data stack and of the scope stack is read and written only by the stacks' own methods and by env.popscope, the single place that decides whether a returning frame may be released (R-C20-frame checks that decision itself)",
		Run: ruleLimitOwner})
	reg(&Rule{ID: "R-C12-encoderfresh", Props: []string{"C12", "C15"}, Floor: 2,
		Doc: "an output encoder (newEncoder, createMarshaler) lives no longer than the function that made it: it is never stored in a field of the cli value or in a package variable (its indentation depth and buffer are per-use state; a cached encoder carries a failed write's state into the next input)",
		Run: ruleEncoderFresh})
	reg(&Rule{ID: "R-C16-slurpjson", Props: []string{"C16"}, Floor: 1,
		Doc: "--slurpfile/--rawfile/--argjson readers are independent of the input-format flags: nothing reachable from slurpFile reads cli.inputRaw/inputStream/inputYAML/inputSlurp (those select the reader of the main input only)",
		Run: ruleSlurpJSON})
	reg(&Rule{ID: "R-C16-stdinclose", Props: []string{"C16"}, Floor: 1,
		Doc: "an input reader that may be the process's stdin is closed only under a test that it is not stdin: `-` can be named twice and stdin outlives the iterator",
		Run: ruleStdinClose})
	reg(&Rule{ID: "R-C08-parallel", Props: []string{"C08"}, Floor: 3,
		Doc: "a slice indexed with an index bounded by the length of another slice is related to it: same value, made with that length, or a dominating length comparison that leaves the function — at the site or at every call site",
		Run: ruleParallel})
}

// ---------------------------------------------------------------------------------------------------------------------

var bigMutators = map[string]bool{"Abs": true, "Add": true, "And": true, "AndNot": true, "Binomial": true, "Div": true, "DivMod": true, "Exp": true,
	"GCD": true, "Lsh": true, "Mod": true, "ModInverse": true, "ModSqrt": true, "Mul": true, "MulRange": true, "Neg": true, "Not": true, "Or": true,
	"Quo": true, "QuoRem": true, "Rand": true, "Rem": true, "Rsh": true, "Set": true, "SetBit": true, "SetBits": true, "SetBytes": true,
	"SetInt64": true, "SetString": true, "SetUint64": true, "Sqrt": true, "Sub": true, "Xor": true, "UnmarshalJSON": true, "UnmarshalText": true,
	"GobDecode": true, "Scan": true, "SetFrac": true, "SetFloat64": true}

func isBigIntMethod(fn *ssa.Function) bool {
	if fn == nil || fn.Signature.Recv() == nil {
		return false
	}
	t := fn.Signature.Recv().Type()
	if p, ok := t.(*types.Pointer); ok {
		t = p.Elem()
	}
	return isNamed(t, "math/big", "Int")
}

func ruleBigFresh(c *Ctx, r *Rep) {
	n := 0
	for _, p := range []*packages.Package{c.Gojq, c.Cli} {
		for _, fn := range c.PkgFuncs(p) {
			for _, b := range fn.Blocks {
				for _, ins := range b.Instrs {
					call, ok := ins.(ssa.CallInstruction)
					if !ok {
						continue
					}
					callee := call.Common().StaticCallee()
					if !isBigIntMethod(callee) || !bigMutators[callee.Name()] || len(call.Common().Args) == 0 {
						continue
					}
					n++
					recv := call.Common().Args[0]
					why := bigFresh(recv, map[ssa.Value]bool{})
					key := fmt.Sprintf("%s:%s#%d", fnKey(fn), callee.Name(), n)
					key = fmt.Sprintf("%s:%s@%s", fnKey(fn), callee.Name(), describeValue(recv))
					r.Check(why == "", key, ins.Pos(), "(*big.Int).%s writes its receiver %s in %s: %s", callee.Name(), describeValue(recv), fnKey(fn),
						map[bool]string{true: "allocated in this function", false: "NOT fresh — " + why + " (a *big.Int operand may be a literal of the shared Code, a variable, or a value the caller still holds)"}[why == ""])
				}
			}
		}
	}
}

// bigFresh returns "" if v is a *big.Int allocated in the current function.
func bigFresh(v ssa.Value, seen map[ssa.Value]bool) string {
	if seen[v] {
		return ""
	}
	seen[v] = true
	switch x := v.(type) {
	case *ssa.Alloc:
		return ""
	case *ssa.Call:
		if callee := x.Common().StaticCallee(); callee != nil {
			if callee.Pkg != nil && callee.Pkg.Pkg.Path() == "math/big" && callee.Name() == "NewInt" {
				return ""
			}
			if isBigIntMethod(callee) && bigMutators[callee.Name()] && len(x.Common().Args) > 0 {
				return bigFresh(x.Common().Args[0], seen) // these return their receiver
			}
		}
		return "it is the result of " + x.String()
	case *ssa.Extract:
		if call, ok := x.Tuple.(*ssa.Call); ok && x.Index == 0 {
			if callee := call.Common().StaticCallee(); isBigIntMethod(callee) && bigMutators[callee.Name()] {
				return bigFresh(call.Common().Args[0], seen)
			}
		}
		return "it is extracted from " + x.Tuple.String()
	case *ssa.Phi:
		for _, e := range x.Edges {
			if why := bigFresh(e, seen); why != "" {
				return why
			}
		}
		return ""
	case *ssa.UnOp:
		if x.Op == token.MUL {
			if a, ok := x.X.(*ssa.Alloc); ok {
				// a local cell: every value stored into it must be fresh
				for _, ref := range *a.Referrers() {
					if st, ok := ref.(*ssa.Store); ok && st.Addr == a {
						if why := bigFresh(st.Val, seen); why != "" {
							return why
						}
					}
				}
				return ""
			}
		}
		return "it is loaded from " + x.X.String()
	case *ssa.Parameter:
		return "it is the parameter " + x.Name()
	case *ssa.FreeVar:
		return "it is the captured variable " + x.Name()
	case *ssa.TypeAssert:
		return "it is asserted out of the interface value " + x.X.Name()
	}
	return fmt.Sprintf("it is %T %s", v, v.Name())
}

func describeValue(v ssa.Value) string {
	switch x := v.(type) {
	case *ssa.Parameter:
		return "parameter " + x.Name()
	case *ssa.FreeVar:
		return "captured " + x.Name()
	case *ssa.Alloc:
		return "new"
	case *ssa.Call:
		if callee := x.Common().StaticCallee(); callee != nil {
			return "result of " + callee.Name()
		}
	case *ssa.Phi:
		return "phi"
	case *ssa.TypeAssert:
		return "assert(" + x.X.Name() + ")"
	}
	return strings.TrimPrefix(fmt.Sprintf("%T", v), "*ssa.")
}

func fnKey(fn *ssa.Function) string {
	s := fn.RelString(fn.Package().Pkg)
	s = strings.NewReplacer("(*", "", "(", "", ")", "").Replace(s)
	return s
}

// ---------------------------------------------------------------------------------------------------------------------

func ruleRegexpMut(c *Ctx, r *Rep) {
	n := 0
	for _, p := range []*packages.Package{c.Gojq, c.Cli} {
		for _, fn := range c.PkgFuncs(p) {
			for _, b := range fn.Blocks {
				for _, ins := range b.Instrs {
					call, ok := ins.(ssa.CallInstruction)
					if !ok {
						continue
					}
					callee := call.Common().StaticCallee()
					if callee == nil || callee.Name() != "Longest" || callee.Signature.Recv() == nil || !strings.Contains(callee.Signature.Recv().Type().String(), "regexp.Regexp") {
						continue
					}
					n++
					// acceptable only straight on the result of a compilation in the same function, before it can have been published
					fresh := false
					switch x := call.Common().Args[0].(type) {
					case *ssa.Call:
						if cc := x.Common().StaticCallee(); cc != nil && cc.Pkg != nil && cc.Pkg.Pkg.Path() == "regexp" && strings.Contains(cc.Name(), "Compile") {
							fresh = true
						}
					case *ssa.Extract:
						if call2, ok := x.Tuple.(*ssa.Call); ok {
							if cc := call2.Common().StaticCallee(); cc != nil && cc.Pkg != nil && cc.Pkg.Pkg.Path() == "regexp" && strings.Contains(cc.Name(), "Compile") {
								fresh = true
							}
						}
					}
					r.Check(fresh, "longest:"+fnKey(fn), ins.Pos(), "Longest() mutates its regexp; in %s the receiver is %s (compiled regexps are cached per Code and shared by concurrent runs): fresh=%v", fnKey(fn), describeValue(call.Common().Args[0]), fresh)
				}
			}
		}
	}
	r.OK("census", token.NoPos, "%d calls of (*regexp.Regexp).Longest in gojq and cli", n)
}

// ---------------------------------------------------------------------------------------------------------------------

func ruleAllocOwn(c *Ctx, r *Rep) {
	n := 0
	for _, fn := range c.PkgFuncs(c.Gojq) {
		for _, b := range fn.Blocks {
			for _, ins := range b.Instrs {
				mu, ok := ins.(*ssa.MapUpdate)
				if !ok || !isNamed(mu.Map.Type(), pathGojq, "allocator") {
					continue
				}
				n++
				// key = reflect.ValueOf(<iface of X>).Pointer() with X made here
				why := ""
				var made ssa.Value
				if call, ok := mu.Key.(*ssa.Call); ok && call.Common().StaticCallee() != nil && call.Common().StaticCallee().Name() == "Pointer" && len(call.Common().Args) == 1 {
					if vo, ok := call.Common().Args[0].(*ssa.Call); ok && vo.Common().StaticCallee() != nil && vo.Common().StaticCallee().Name() == "ValueOf" {
						arg := vo.Common().Args[0]
						if mi, ok := arg.(*ssa.MakeInterface); ok {
							arg = mi.X
						}
						made = arg
						switch arg.(type) {
						case *ssa.MakeSlice, *ssa.MakeMap:
						default:
							why = fmt.Sprintf("the registered container is %s, not a make() of this function", describeValue(arg))
						}
					} else {
						why = "the key is not reflect.ValueOf(container).Pointer()"
					}
				} else {
					why = "the key is not reflect.ValueOf(container).Pointer()"
				}
				_ = made
				r.Check(why == "", "register:"+fnKey(fn), ins.Pos(), "%s adds an address to the allocator's ownership set: %s", fnKey(fn),
					map[bool]string{true: "the container is made in the same function", false: why + " — update helpers write in place into whatever the set contains, so foreign storage (the input, a variable, a literal) would be modified"}[why == ""])
			}
		}
	}
	if n == 0 {
		r.Undecided("census", token.NoPos, "no write into an allocator map found")
	}
}

// ---------------------------------------------------------------------------------------------------------------------

func ruleYield(c *Ctx, r *Rep) {
	n := 0
	for _, p := range []*packages.Package{c.Gojq, c.Cli} {
		info := p.TypesInfo
		for _, f := range p.Syntax {
			ast.Inspect(f, func(nd ast.Node) bool {
				var ft *ast.FuncType
				var body *ast.BlockStmt
				switch x := nd.(type) {
				case *ast.FuncLit:
					ft, body = x.Type, x.Body
				case *ast.FuncDecl:
					ft, body = x.Type, x.Body
				default:
					return true
				}
				if body == nil || ft.Params == nil {
					return true
				}
				for _, fld := range ft.Params.List {
					sig, ok := info.TypeOf(fld.Type).(*types.Signature)
					if !ok || sig.Results().Len() != 1 || !types.Identical(sig.Results().At(0).Type(), types.Typ[types.Bool]) {
						continue
					}
					for _, nm := range fld.Names {
						yobj := info.Defs[nm]
						if yobj == nil {
							continue
						}
						checkYield(c, r, p, body, yobj, &n)
					}
				}
				return true
			})
		}
	}
	if n == 0 {
		r.Undecided("census", token.NoPos, "no iterator body with a yield parameter found")
	}
}

func checkYield(c *Ctx, r *Rep, p *packages.Package, body *ast.BlockStmt, yobj types.Object, n *int) {
	info := p.TypesInfo
	isYieldCall := func(nd ast.Node) bool {
		found := false
		ast.Inspect(nd, func(q ast.Node) bool {
			if _, isLit := q.(*ast.FuncLit); isLit {
				return false
			}
			if call, ok := q.(*ast.CallExpr); ok {
				if id, ok := unparen(call.Fun).(*ast.Ident); ok && info.Uses[id] == yobj {
					found = true
				}
			}
			return !found
		})
		return found
	}
	if !isYieldCall(body) {
		return
	}
	g := cfg.New(body, func(*ast.CallExpr) bool { return true })
	for _, b := range g.Blocks {
		for i, nd := range b.Nodes {
			es, ok := nd.(*ast.ExprStmt)
			if !ok {
				continue
			}
			call, ok := es.X.(*ast.CallExpr)
			if !ok {
				continue
			}
			id, ok := unparen(call.Fun).(*ast.Ident)
			if !ok || info.Uses[id] != yobj {
				continue
			}
			*n++
			// result discarded: can another yield follow?
			again := false
			for _, later := range b.Nodes[i+1:] {
				if isYieldCall(later) {
					again = true
				}
			}
			seen := map[*cfg.Block]bool{}
			stack := append([]*cfg.Block(nil), b.Succs...)
			for len(stack) > 0 && !again {
				s := stack[len(stack)-1]
				stack = stack[:len(stack)-1]
				if seen[s] {
					continue
				}
				seen[s] = true
				for _, nd2 := range s.Nodes {
					if isYieldCall(nd2) {
						again = true
					}
				}
				stack = append(stack, s.Succs...)
			}
			r.Check(!again, "discard:"+c.enclosingName(p, es.Pos()), es.Pos(), "the result of %s is discarded in %s and another yield can follow: %v (after yield returns false the consumer is gone; yielding again panics with \"range function continued iteration after function for loop body returned false\")", c.Src(call), c.enclosingName(p, es.Pos()), again)
		}
	}
	// consulted results: one obligation per iterator body
	*n++
	r.OK("iterator:"+c.enclosingName(p, body.Pos()), body.Pos(), "iterator body in %s: every discarded yield result is terminal", c.enclosingName(p, body.Pos()))
}

// enclosingName returns the name of the top-level declaration containing pos.
func (c *Ctx) enclosingName(p *packages.Package, pos token.Pos) string {
	for _, f := range p.Syntax {
		if f.Pos() <= pos && pos <= f.End() {
			for _, d := range f.Decls {
				if fd, ok := d.(*ast.FuncDecl); ok && fd.Pos() <= pos && pos <= fd.End() {
					if fd.Recv != nil && len(fd.Recv.List) > 0 {
						return strings.TrimPrefix(c.Src(fd.Recv.List[0].Type), "*") + "." + fd.Name.Name
					}
					return fd.Name.Name
				}
			}
		}
	}
	return "?"
}

// ---------------------------------------------------------------------------------------------------------------------

func ruleCtxIdentity(c *Ctx, r *Rep) {
	run := c.SSAFunc(c.Gojq, "Code.RunWithContext")
	newEnv := c.SSAFunc(c.Gojq, "newEnv")
	if run == nil || newEnv == nil {
		r.Undecided("anchors", token.NoPos, "Code.RunWithContext or newEnv not found")
		return
	}
	var ctxParam *ssa.Parameter
	for _, p := range run.Params {
		if strings.HasSuffix(p.Type().String(), "context.Context") {
			ctxParam = p
		}
	}
	calls := 0
	for _, b := range run.Blocks {
		for _, ins := range b.Instrs {
			call, ok := ins.(*ssa.Call)
			if !ok || call.Common().StaticCallee() != newEnv {
				continue
			}
			calls++
			arg := call.Common().Args[0]
			r.Check(arg == ssa.Value(ctxParam), "run:newEnv", ins.Pos(), "RunWithContext passes %s to newEnv; it must be its own ctx parameter on every path (a substituted context is never cancelled when the caller's is): %v", describeValue(arg), arg == ssa.Value(ctxParam))
		}
	}
	if calls == 0 {
		r.Undecided("run:newEnv", run.Pos(), "RunWithContext does not call newEnv directly")
	}
	// newEnv stores its parameter into the ctx field
	stored := false
	for _, b := range newEnv.Blocks {
		for _, ins := range b.Instrs {
			st, ok := ins.(*ssa.Store)
			if !ok {
				continue
			}
			fa, ok := st.Addr.(*ssa.FieldAddr)
			if !ok || fieldName(fa) != "ctx" {
				continue
			}
			_, isParam := st.Val.(*ssa.Parameter)
			stored = stored || isParam
			r.Check(isParam, "newEnv:store", ins.Pos(), "newEnv stores %s into env.ctx (must be its parameter): %v", describeValue(st.Val), isParam)
		}
	}
	if !stored {
		r.Undecided("newEnv:store", newEnv.Pos(), "no store of the parameter into env.ctx found in newEnv")
	}
	// nothing else writes env.ctx
	others := 0
	for _, fn := range c.PkgFuncs(c.Gojq) {
		if fn == newEnv {
			continue
		}
		for _, b := range fn.Blocks {
			for _, ins := range b.Instrs {
				if st, ok := ins.(*ssa.Store); ok {
					if fa, ok := st.Addr.(*ssa.FieldAddr); ok && fieldName(fa) == "ctx" && isNamed(derefType(fa.X.Type()), pathGojq, "env") {
						others++
						r.Bad("ctx:rewrite:"+fnKey(fn), ins.Pos(), "%s overwrites env.ctx: the run would poll a context other than the caller's", fnKey(fn))
					}
				}
			}
		}
	}
	if others == 0 {
		r.OK("ctx:single-writer", newEnv.Pos(), "env.ctx is written only by newEnv")
	}
}

func fieldName(fa *ssa.FieldAddr) string {
	t := derefType(fa.X.Type())
	if st, ok := t.Underlying().(*types.Struct); ok && fa.Field < st.NumFields() {
		return st.Field(fa.Field).Name()
	}
	return ""
}

func derefType(t types.Type) types.Type {
	if p, ok := t.Underlying().(*types.Pointer); ok {
		return p.Elem()
	}
	return t
}

// ---------------------------------------------------------------------------------------------------------------------

func ruleOptionCapture(c *Ctx, r *Rep) {
	info := c.Gojq.TypesInfo
	n := 0
	for _, fd := range c.Decls(c.Gojq) {
		if fd.Body == nil || fd.Type.Results == nil || len(fd.Type.Results.List) != 1 {
			continue
		}
		if !isNamed(info.TypeOf(fd.Type.Results.List[0].Type), pathGojq, "CompilerOption") {
			continue
		}
		n++
		// locals of the constructor declared outside any function literal
		locals := map[types.Object]bool{}
		var collect func(nd ast.Node)
		collect = func(nd ast.Node) {
			ast.Inspect(nd, func(q ast.Node) bool {
				if _, isLit := q.(*ast.FuncLit); isLit {
					return false
				}
				if id, ok := q.(*ast.Ident); ok {
					if o, ok := info.Defs[id].(*types.Var); ok && o != nil && !o.IsField() {
						locals[o] = true
					}
				}
				return true
			})
		}
		collect(fd.Body)
		// writes to those locals inside function literals
		bad := ""
		var badPos token.Pos
		ast.Inspect(fd.Body, func(q ast.Node) bool {
			lit, ok := q.(*ast.FuncLit)
			if !ok {
				return true
			}
			ast.Inspect(lit.Body, func(w ast.Node) bool {
				note := func(e ast.Expr, how string) {
					root := e
					for {
						switch x := unparen(root).(type) {
						case *ast.SelectorExpr:
							root = x.X
							continue
						case *ast.IndexExpr:
							root = x.X
							continue
						case *ast.StarExpr:
							root = x.X
							continue
						}
						break
					}
					if id, ok := unparen(root).(*ast.Ident); ok && locals[info.Uses[id]] && bad == "" {
						bad = fmt.Sprintf("%s %s", how, id.Name)
						badPos = e.Pos()
					}
				}
				switch x := w.(type) {
				case *ast.AssignStmt:
					if x.Tok != token.DEFINE {
						for _, l := range x.Lhs {
							note(l, "assigns to the captured local")
						}
					}
				case *ast.IncDecStmt:
					note(x.X, "increments the captured local")
				case *ast.UnaryExpr:
					if x.Op == token.AND {
						note(x.X, "takes the address of the captured local")
					}
				case *ast.CallExpr:
					if sel, ok := unparen(x.Fun).(*ast.SelectorExpr); ok {
						if s := info.Selections[sel]; s != nil && s.Kind() == types.MethodVal {
							if sig, ok := s.Obj().Type().(*types.Signature); ok && sig.Recv() != nil {
								if _, ptr := sig.Recv().Type().(*types.Pointer); ptr {
									if _, already := info.TypeOf(sel.X).Underlying().(*types.Pointer); !already {
										note(sel.X, "calls the pointer method "+sel.Sel.Name+" on the captured local")
									}
								}
							}
						}
					}
				}
				return true
			})
			return true
		})
		if bad != "" {
			r.Bad("option:"+fd.Name.Name, badPos, "the closure returned by %s %s: the variable lives as long as the option value, so two compilations given the same option share it (a cache, a counter, a once)", fd.Name.Name, bad)
		} else {
			r.OK("option:"+fd.Name.Name, fd.Pos(), "%s: the returned closure writes no captured local of the constructor", fd.Name.Name)
		}
	}
	if n == 0 {
		r.Undecided("census", token.NoPos, "no function returning CompilerOption found")
	}
}

// ---------------------------------------------------------------------------------------------------------------------

func rulePrintSyntactic(c *Ctx, r *Rep) {
	cg := c.CallGraph()
	forbidden := func(fn *ssa.Function) string {
		if fn == nil || fn.Pkg == nil || fn.Pkg.Pkg.Path() != pathGojq {
			return ""
		}
		name := fnKey(fn)
		switch {
		case name == "encoder.encode", name == "encoder.encodeArray", name == "encoder.encodeObject", name == "encoder.marshal":
			return "the value-level JSON encoder"
		case strings.HasSuffix(name, ".toValue"), strings.HasSuffix(name, ".ToValue"):
			return "a toValue conversion"
		case name == "Marshal", name == "jsonMarshal":
			return "the value-level JSON encoder"
		case name == "normalizeNumber", name == "parseNumber", name == "toNumber":
			return "number normalisation"
		}
		return ""
	}
	n := 0
	for _, fn := range c.PkgFuncs(c.Gojq) {
		if fn.Signature.Recv() == nil || (fn.Name() != "writeTo" && fn.Name() != "String") || fn.Synthetic != "" {
			continue
		}
		// AST node types: declared in query.go / or having a writeTo method
		pos := c.Fset.Position(fn.Pos())
		if !strings.HasSuffix(pos.Filename, "query.go") && !strings.HasSuffix(pos.Filename, "operator.go") && !strings.HasSuffix(pos.Filename, "term_type.go") {
			continue
		}
		n++
		// BFS over static edges inside package gojq
		parent := map[*ssa.Function]*ssa.Function{fn: nil}
		queue := []*ssa.Function{fn}
		var hit *ssa.Function
		for len(queue) > 0 && hit == nil {
			f := queue[0]
			queue = queue[1:]
			node := cg.Nodes[f]
			if node == nil {
				continue
			}
			for _, e := range node.Out {
				g := e.Callee.Func
				if g == nil || g.Pkg == nil || g.Pkg.Pkg.Path() != pathGojq {
					continue
				}
				if _, seen := parent[g]; seen {
					continue
				}
				parent[g] = f
				if forbidden(g) != "" {
					hit = g
					break
				}
				if g.Signature.Recv() != nil && (g.Name() == "writeTo" || g.Name() == "String") {
					continue // another printer method: an obligation of its own
				}
				queue = append(queue, g)
			}
		}
		if hit != nil {
			var path []string
			for f := hit; f != nil; f = parent[f] {
				path = append([]string{fnKey(f)}, path...)
			}
			r.Bad("print:"+fnKey(fn), fn.Pos(), "%s reaches %s (%s): the printed text is derived from the evaluated value instead of the syntax, so spelling, key order, duplicate keys or number form are lost and the re-parsed AST differs", fnKey(fn), forbidden(hit), strings.Join(path, " → "))
		} else {
			r.OK("print:"+fnKey(fn), fn.Pos(), "%s stays syntactic", fnKey(fn))
		}
	}
	if n == 0 {
		r.Undecided("census", token.NoPos, "no printer method found")
	}
}

// ---------------------------------------------------------------------------------------------------------------------

func ruleFindSingle(c *Ctx, r *Rep) {
	cg := c.CallGraph()
	matching := func(name string) bool {
		for _, p := range []string{"Find", "Match", "ReplaceAll", "Split", "Expand"} {
			if strings.HasPrefix(name, p) {
				return true
			}
		}
		return false
	}
	users := map[*ssa.Function]token.Pos{}
	for _, fn := range c.PkgFuncs(c.Gojq) {
		for _, b := range fn.Blocks {
			for _, ins := range b.Instrs {
				call, ok := ins.(ssa.CallInstruction)
				if !ok {
					continue
				}
				callee := call.Common().StaticCallee()
				if callee == nil || callee.Signature.Recv() == nil || !strings.Contains(callee.Signature.Recv().Type().String(), "regexp.Regexp") || !matching(callee.Name()) {
					continue
				}
				if _, ok := users[fn]; !ok {
					users[fn] = ins.Pos()
				}
			}
		}
	}
	if len(users) == 0 {
		r.Undecided("census", token.NoPos, "no caller of a matching method of *regexp.Regexp found in package gojq")
		return
	}
	funcMatch := c.SSAFunc(c.Gojq, "funcMatch")
	var okFn func(fn *ssa.Function, seen map[*ssa.Function]bool) bool
	okFn = func(fn *ssa.Function, seen map[*ssa.Function]bool) bool {
		if fn == funcMatch {
			return true
		}
		if seen[fn] {
			return true
		}
		seen[fn] = true
		root := fn
		for root.Parent() != nil {
			root = root.Parent()
		}
		if root == funcMatch {
			return true
		}
		node := cg.Nodes[fn]
		if node == nil || len(node.In) == 0 {
			return false
		}
		for _, e := range node.In {
			if !okFn(e.Caller.Func, seen) {
				return false
			}
		}
		return true
	}
	var fns []*ssa.Function
	for fn := range users {
		fns = append(fns, fn)
	}
	sort.Slice(fns, func(i, j int) bool { return fnKey(fns[i]) < fnKey(fns[j]) })
	for _, fn := range fns {
		good := okFn(fn, map[*ssa.Function]bool{})
		r.Check(good, "matcher:"+fnKey(fn), users[fn], "%s runs a regexp over a subject: it is funcMatch or only reachable through it: %v (a second matcher has its own conventions for offsets and for groups that did not participate, so the regexp builtins stop being compositions of match)", fnKey(fn), good)
	}
}

// ---------------------------------------------------------------------------------------------------------------------

var codecHalves = []string{"funcToBase64", "funcToBase64d", "funcToBase32", "funcToBase32d", "funcToURI", "funcToURId", "funcToJSON", "funcFromJSON",
	"funcImplode", "funcExplode", "implode", "explode", "funcTojson", "funcFromjson", "funcToHTML", "funcToCSV", "funcToTSV", "funcToSh"}

var lossyText = map[string]bool{
	"strings.ToValidUTF8": true, "strings.ToLower": true, "strings.ToUpper": true, "strings.ToTitle": true, "strings.Title": true, "strings.TrimSpace": true,
	"strings.Trim": true, "strings.TrimLeft": true, "strings.TrimRight": true, "strings.TrimFunc": true, "strings.TrimPrefix": true, "strings.TrimSuffix": true,
	"strings.Map": true, "strings.Replace": true, "strings.ReplaceAll": true, "strings.NewReplacer": true, "strings.Fields": true, "strings.ToLowerSpecial": true,
	"bytes.ToValidUTF8": true, "bytes.ToLower": true, "bytes.ToUpper": true, "bytes.TrimSpace": true, "bytes.Trim": true, "bytes.Map": true, "bytes.Replace": true,
	"bytes.ReplaceAll": true, "bytes.TrimRight": true, "bytes.TrimLeft": true, "bytes.Fields": true,
	"regexp.Regexp.ReplaceAllString": true, "regexp.Regexp.ReplaceAll": true, "regexp.Regexp.ReplaceAllLiteralString": true, "regexp.Regexp.ReplaceAllStringFunc": true, "regexp.Regexp.ReplaceAllFunc": true, "regexp.Regexp.ReplaceAllLiteral": true,
	"unicode.ToLower": true, "unicode.ToUpper": true, "unicode.SimpleFold": true,
}

func ruleCodecLossless(c *Ctx, r *Rep) {
	info := c.Gojq.TypesInfo
	n := 0
	for _, name := range codecHalves {
		fd := c.Decl(c.Gojq, name)
		if fd == nil || fd.Body == nil {
			continue
		}
		n++
		bad := false
		ast.Inspect(fd.Body, func(q ast.Node) bool {
			call, ok := q.(*ast.CallExpr)
			if !ok {
				return true
			}
			cn := calleeName(info, call)
			if !lossyText[cn] {
				return true
			}
			// the enumerated exceptions: the '+' ↔ %20 fix-ups of @uri / @urid with constant arguments
			if cn == "strings.ReplaceAll" && (name == "funcToURI" || name == "funcToURId") && len(call.Args) == 3 {
				from, ok1 := constString(info, call.Args[1])
				to, ok2 := constString(info, call.Args[2])
				if ok1 && ok2 && ((from == "+" && to == "%20") || (from == "+" && to == "%2B") || (from == "%20" && to == "+")) {
					return true
				}
			}
			bad = true
			r.Bad("codec:"+name+":"+cn, call.Pos(), "%s applies %s: a lossy rewrite inside one half of a codec pair breaks the round trip for the inputs it changes (ill-formed UTF-8, already-escaped text, case, surrounding space)", name, c.Src(call))
			return true
		})
		if !bad {
			r.OK("codec:"+name, fd.Pos(), "%s applies no lossy text transformation", name)
		}
	}
	if n < 6 {
		r.Undecided("census", token.NoPos, "only %d codec halves found", n)
	}
}

// ---------------------------------------------------------------------------------------------------------------------

func ruleNegate(c *Ctx, r *Rep) {
	p := c.Gojq
	info := p.TypesInfo
	n := 0
	for _, f := range p.Syntax {
		if strings.HasSuffix(c.Fset.Position(f.Pos()).Filename, "parser.go") {
			continue
		}
		walkStack(f, func(nd ast.Node, stack []ast.Node) bool {
			u, ok := nd.(*ast.UnaryExpr)
			if !ok || u.Op != token.SUB {
				return true
			}
			tv, ok := info.Types[u.X]
			if !ok || tv.Value != nil {
				return true
			}
			bt, ok := tv.Type.Underlying().(*types.Basic)
			if !ok || bt.Kind() != types.Int {
				return true
			}
			id, ok := unparen(u.X).(*ast.Ident)
			if !ok {
				return true
			}
			obj := info.Uses[id]
			// provenance: parameter of the enclosing function (literal) or a type-switch binding
			fromOutside := false
			for i := len(stack) - 1; i >= 0 && !fromOutside; i-- {
				var ft *ast.FuncType
				switch x := stack[i].(type) {
				case *ast.FuncLit:
					ft = x.Type
				case *ast.FuncDecl:
					ft = x.Type
				case *ast.TypeSwitchStmt:
					for _, cl := range x.Body.List {
						if info.Implicits[cl] == obj {
							fromOutside = true
						}
					}
					continue
				default:
					continue
				}
				for _, fld := range ft.Params.List {
					for _, nm := range fld.Names {
						if info.Defs[nm] == obj {
							fromOutside = true
						}
					}
				}
				break
			}
			if !fromOutside {
				return true
			}
			n++
			// a dominating `x == math.MinInt` exit, or an enclosing `x != math.MinInt`
			guarded := false
			isMinCmp := func(e ast.Expr, op token.Token) bool {
				be, ok := unparen(e).(*ast.BinaryExpr)
				if !ok || be.Op != op {
					return false
				}
				for _, pair := range [][2]ast.Expr{{be.X, be.Y}, {be.Y, be.X}} {
					if i2, ok := unparen(pair[0]).(*ast.Ident); ok && info.Uses[i2] == obj {
						if tv2, ok := info.Types[pair[1]]; ok && tv2.Value != nil && tv2.Value.Kind() == constant.Int {
							// math.MinInt of the configuration being checked (64- or 32-bit int)
							if v, exact := constant.Int64Val(tv2.Value); exact && (v == -1<<63 || v == -1<<31) {
								return true
							}
						}
					}
				}
				return false
			}
			for i := len(stack) - 1; i >= 0; i-- {
				var list []ast.Stmt
				switch b := stack[i].(type) {
				case *ast.BlockStmt:
					list = b.List
				case *ast.CaseClause:
					list = b.Body
				case *ast.IfStmt:
					if isMinCmp(b.Cond, token.NEQ) && b.Body.Pos() <= u.Pos() && u.End() <= b.Body.End() {
						guarded = true
					}
					continue
				default:
					continue
				}
				for _, st := range list {
					if st.End() > u.Pos() {
						break
					}
					if ifs, ok := st.(*ast.IfStmt); ok && isMinCmp(ifs.Cond, token.EQL) && endsInReturn(ifs.Body) {
						guarded = true
					}
				}
			}
			r.Check(guarded, "negate:"+c.enclosingName(p, u.Pos())+":"+id.Name, u.Pos(), "-%s in %s negates an int that comes from outside the function: guarded against math.MinInt: %v (-MinInt wraps to MinInt; the difference or negation must be promoted to *big.Int)", id.Name, c.enclosingName(p, u.Pos()), guarded)
			return true
		})
	}
	if n == 0 {
		r.Undecided("census", token.NoPos, "no negation of an int parameter found (negate() is expected)")
	}
}

// ---------------------------------------------------------------------------------------------------------------------

func ruleLossyCompare(c *Ctx, r *Rep) {
	p := c.Gojq
	info := p.TypesInfo
	lossy := map[string]bool{"gojq.toFloat": true, "gojq.toInt": true}
	n := 0
	for _, fd := range c.Decls(p) {
		if fd.Body == nil {
			continue
		}
		var compares []*ast.CallExpr
		ast.Inspect(fd.Body, func(q ast.Node) bool {
			if call, ok := q.(*ast.CallExpr); ok && calleeName(info, call) == "gojq.Compare" {
				compares = append(compares, call)
			}
			return true
		})
		if len(compares) == 0 {
			continue
		}
		// objects assigned from a lossy conversion anywhere in the function (including nested literals)
		tainted := map[types.Object]token.Pos{}
		ast.Inspect(fd.Body, func(q ast.Node) bool {
			as, ok := q.(*ast.AssignStmt)
			if !ok || len(as.Rhs) != 1 {
				return true
			}
			call, ok := unparen(as.Rhs[0]).(*ast.CallExpr)
			if !ok || !lossy[calleeName(info, call)] {
				return true
			}
			if id, ok := as.Lhs[0].(*ast.Ident); ok && id.Name != "_" {
				if o := info.ObjectOf(id); o != nil {
					tainted[o] = as.Pos()
				}
			}
			return true
		})
		// copies of a tainted variable
		for changed := true; changed; {
			changed = false
			ast.Inspect(fd.Body, func(q ast.Node) bool {
				as, ok := q.(*ast.AssignStmt)
				if !ok || len(as.Lhs) != len(as.Rhs) {
					return true
				}
				for i, rhs := range as.Rhs {
					rid, ok := unparen(rhs).(*ast.Ident)
					if !ok {
						continue
					}
					if pos, ok := tainted[info.Uses[rid]]; ok {
						if lid, ok := as.Lhs[i].(*ast.Ident); ok {
							if o := info.ObjectOf(lid); o != nil {
								if _, had := tainted[o]; !had {
									tainted[o] = pos
									changed = true
								}
							}
						}
					}
				}
				return true
			})
		}
		for _, call := range compares {
			n++
			bad := ""
			for _, a := range call.Args {
				ast.Inspect(a, func(q ast.Node) bool {
					switch x := q.(type) {
					case *ast.Ident:
						if _, ok := tainted[info.Uses[x]]; ok {
							bad = x.Name + " (assigned from a lossy conversion at " + c.Pos(tainted[info.Uses[x]]) + ")"
						}
					case *ast.CallExpr:
						if lossy[calleeName(info, x)] {
							bad = c.Src(x)
						}
					}
					return true
				})
			}
			key := fmt.Sprintf("compare:%s:%s", c.enclosingName(p, call.Pos()), c.Src(call))
			r.Check(bad == "", key, call.Pos(), "%s in %s: %s", c.Src(call), c.enclosingName(p, call.Pos()),
				map[bool]string{true: "operands are the values themselves", false: "operand " + bad + " went through float64/int: distinct large integers collapse and the order disagrees with sort"}[bad == ""])
		}
	}
	if n == 0 {
		r.Undecided("census", token.NoPos, "no call of Compare found")
	}
}

// ---------------------------------------------------------------------------------------------------------------------

func rulePcsBalance(c *Ctx, r *Rep) {
	fd := c.Decl(c.Gojq, "compiler.optimizeTailRec")
	if fd == nil {
		r.Undecided("anchor", token.NoPos, "compiler.optimizeTailRec not found")
		return
	}
	info := c.Gojq.TypesInfo
	// the switch over code.op with an opscope and an opret case
	found := false
	ast.Inspect(fd.Body, func(q ast.Node) bool {
		sw, ok := q.(*ast.SwitchStmt)
		if !ok || found {
			return true
		}
		var scopeCase, retCase *ast.CaseClause
		for _, s := range sw.Body.List {
			cc := s.(*ast.CaseClause)
			for _, e := range cc.List {
				if id, ok := unparen(e).(*ast.Ident); ok {
					switch id.Name {
					case "opscope":
						scopeCase = cc
					case "opret":
						retCase = cc
					}
				}
			}
		}
		if scopeCase == nil || retCase == nil {
			return true
		}
		found = true
		// the stack: a slice variable appended to in the opscope case and truncated in the opret case
		var stackObj types.Object
		pushTop, pushAny := false, false
		for _, st := range scopeCase.Body {
			ast.Inspect(st, func(w ast.Node) bool {
				as, ok := w.(*ast.AssignStmt)
				if !ok || len(as.Lhs) != 1 || len(as.Rhs) != 1 {
					return true
				}
				call, ok := unparen(as.Rhs[0]).(*ast.CallExpr)
				if !ok {
					return true
				}
				if id, ok := call.Fun.(*ast.Ident); !ok || id.Name != "append" {
					return true
				}
				l, ok := as.Lhs[0].(*ast.Ident)
				if !ok {
					return true
				}
				if _, isSlice := info.TypeOf(l).Underlying().(*types.Slice); !isSlice {
					return true
				}
				if bt, ok := info.TypeOf(l).Underlying().(*types.Slice).Elem().Underlying().(*types.Basic); !ok || bt.Kind() != types.Int {
					return true
				}
				pushAny = true
				stackObj = info.ObjectOf(l)
				if ast.Stmt(as) == st {
					pushTop = true
				}
				return true
			})
		}
		if !pushAny {
			r.Undecided("push", scopeCase.Pos(), "no append to an []int stack in the opscope case")
			return true
		}
		r.Check(pushTop, "push", scopeCase.Pos(), "the opscope case pushes the function entry unconditionally: %v (a conditional push with an unconditional pop pairs an opret with the wrong function, so a tail call of the enclosing function is no longer recognised)", pushTop)
		// pop in the opret case: top-level, or under a guard that mentions only the stack's emptiness
		popOK, popAny := false, false
		for _, st := range retCase.Body {
			ast.Inspect(st, func(w ast.Node) bool {
				as, ok := w.(*ast.AssignStmt)
				if !ok || len(as.Lhs) != 1 {
					return true
				}
				l, ok := as.Lhs[0].(*ast.Ident)
				if !ok || info.ObjectOf(l) != stackObj {
					return true
				}
				if _, isSliceExpr := unparen(as.Rhs[0]).(*ast.SliceExpr); !isSliceExpr {
					return true
				}
				popAny = true
				if ast.Stmt(as) == st {
					popOK = true
				}
				return true
			})
		}
		// a preceding `if len(pcs) == 0 { break/continue/return }` is the emptiness guard; any other enclosing condition is not
		if popAny && !popOK {
			for _, st := range retCase.Body {
				if ifs, ok := st.(*ast.IfStmt); ok && ifs.Else == nil {
					if strings.Contains(c.Src(ifs.Cond), "len("+stackObj.Name()+")") {
						for _, b := range ifs.Body.List {
							if as, ok := b.(*ast.AssignStmt); ok {
								if l, ok := as.Lhs[0].(*ast.Ident); ok && info.ObjectOf(l) == stackObj {
									popOK = true
								}
							}
						}
					}
				}
			}
		}
		if !popAny {
			r.Undecided("pop", retCase.Pos(), "no truncation of the stack in the opret case")
			return true
		}
		r.Check(popOK, "pop", retCase.Pos(), "the opret case pops the function entry whenever the stack is non-empty: %v", popOK)
		return true
	})
	if !found {
		r.Undecided("anchor", fd.Pos(), "no switch with opscope and opret cases in optimizeTailRec")
	}
}

// ---------------------------------------------------------------------------------------------------------------------

func ruleStdinClose(c *Ctx, r *Rep) {
	p := c.Cli
	info := p.TypesInfo
	n := 0
	// fields that may hold stdin: assigned from a field or variable named stdin / inStream
	isStdinExpr := func(e ast.Expr) bool {
		switch x := unparen(e).(type) {
		case *ast.SelectorExpr:
			return x.Sel.Name == "stdin" || x.Sel.Name == "inStream"
		case *ast.Ident:
			return x.Name == "stdin"
		}
		return false
	}
	mayBeStdin := map[types.Object]bool{}
	for _, f := range p.Syntax {
		ast.Inspect(f, func(q ast.Node) bool {
			as, ok := q.(*ast.AssignStmt)
			if !ok || len(as.Lhs) != len(as.Rhs) {
				return true
			}
			for i, rhs := range as.Rhs {
				if !isStdinExpr(rhs) {
					continue
				}
				if sel, ok := unparen(as.Lhs[i]).(*ast.SelectorExpr); ok {
					if o := info.Uses[sel.Sel]; o != nil && sel.Sel.Name != "stdin" {
						mayBeStdin[o] = true
					}
				}
			}
			return true
		})
	}
	for _, f := range p.Syntax {
		walkStack(f, func(nd ast.Node, stack []ast.Node) bool {
			call, ok := nd.(*ast.CallExpr)
			if !ok {
				return true
			}
			sel, ok := unparen(call.Fun).(*ast.SelectorExpr)
			if !ok || sel.Sel.Name != "Close" || len(call.Args) != 0 {
				return true
			}
			// receiver: a variable bound by `r, ok := X.(io.Closer)` in an enclosing if, with X a may-be-stdin field
			rid, ok := unparen(sel.X).(*ast.Ident)
			if !ok {
				return true
			}
			robj := info.Uses[rid]
			for i := len(stack) - 1; i >= 0; i-- {
				ifs, ok := stack[i].(*ast.IfStmt)
				if !ok || ifs.Init == nil {
					continue
				}
				as, ok := ifs.Init.(*ast.AssignStmt)
				if !ok || len(as.Rhs) != 1 || len(as.Lhs) == 0 {
					continue
				}
				l0, ok := as.Lhs[0].(*ast.Ident)
				if !ok || info.Defs[l0] != robj {
					continue
				}
				ta, ok := unparen(as.Rhs[0]).(*ast.TypeAssertExpr)
				if !ok {
					continue
				}
				fsel, ok := unparen(ta.X).(*ast.SelectorExpr)
				if !ok || !mayBeStdin[info.Uses[fsel.Sel]] {
					continue
				}
				n++
				// the condition must also require field != stdin
				guarded := false
				ast.Inspect(ifs.Cond, func(w ast.Node) bool {
					be, ok := w.(*ast.BinaryExpr)
					if !ok || be.Op != token.NEQ {
						return true
					}
					for _, pair := range [][2]ast.Expr{{be.X, be.Y}, {be.Y, be.X}} {
						if s1, ok := unparen(pair[0]).(*ast.SelectorExpr); ok && info.Uses[s1.Sel] == info.Uses[fsel.Sel] && isStdinExpr(pair[1]) {
							guarded = true
						}
					}
					return true
				})
				r.Check(guarded, "close:"+c.enclosingName(p, call.Pos()), call.Pos(), "%s closes %s, which may be the process's stdin; the close is under `%s != stdin`: %v (stdin named twice, or read again after the iterator, would then fail with \"file already closed\")", c.enclosingName(p, call.Pos()), c.Src(fsel), c.Src(fsel), guarded)
			}
			return true
		})
	}
	if n == 0 {
		r.Undecided("census", token.NoPos, "no Close of a reader that may be stdin found in package cli")
	}
}

// ---------------------------------------------------------------------------------------------------------------------

// ruleParallel: see the rule's Doc. Candidates are found syntactically in package gojq: inside a function, an index
// expression A[i] where i is the index variable of a loop bounded by len(B) (or of `range B`), or a variable assigned
// from such an index, for slice-typed identifiers A != B.
func ruleParallel(c *Ctx, r *Rep) {
	p := c.Gojq
	info := p.TypesInfo
	cg := c.CallGraph()
	type cand struct {
		fd   *ast.FuncDecl
		a, b types.Object
		pos  token.Pos
	}
	var cands []cand
	type arrayOb struct {
		key     string
		pos     token.Pos
		guarded bool
		what    string
	}
	var arrayObs []arrayOb
	sliceObj := func(e ast.Expr) types.Object {
		id, ok := unparen(e).(*ast.Ident)
		if !ok {
			return nil
		}
		o := info.Uses[id]
		if o == nil {
			return nil
		}
		if _, ok := o.Type().Underlying().(*types.Slice); !ok {
			return nil
		}
		return o
	}
	for _, fd := range c.Decls(p) {
		if fd.Body == nil || strings.HasSuffix(c.Fset.Position(fd.Pos()).Filename, "parser.go") {
			continue
		}
		// index variables bounded by a slice
		bound := map[types.Object]types.Object{} // index var -> slice whose length bounds it
		ast.Inspect(fd.Body, func(q ast.Node) bool {
			switch x := q.(type) {
			case *ast.RangeStmt:
				if b := sliceObj(x.X); b != nil && x.Key != nil {
					if id, ok := x.Key.(*ast.Ident); ok && id.Name != "_" {
						if o := info.ObjectOf(id); o != nil {
							bound[o] = b
						}
					}
				}
			case *ast.ForStmt:
				if be, ok := x.Cond.(*ast.BinaryExpr); ok && be.Op == token.LSS {
					if id, ok := unparen(be.X).(*ast.Ident); ok {
						if call, ok := unparen(be.Y).(*ast.CallExpr); ok && len(call.Args) == 1 {
							if fid, ok := call.Fun.(*ast.Ident); ok && fid.Name == "len" {
								if b := sliceObj(call.Args[0]); b != nil {
									if o := info.ObjectOf(id); o != nil {
										bound[o] = b
									}
								}
							}
						}
					}
				}
			}
			return true
		})
		if len(bound) == 0 {
			continue
		}
		// variables assigned from a bounded index (j = i; j, x = i, xs[i])
		for changed := true; changed; {
			changed = false
			ast.Inspect(fd.Body, func(q ast.Node) bool {
				as, ok := q.(*ast.AssignStmt)
				if !ok || len(as.Lhs) != len(as.Rhs) {
					return true
				}
				for i, rhs := range as.Rhs {
					rid, ok := unparen(rhs).(*ast.Ident)
					if !ok {
						continue
					}
					b, ok := bound[info.Uses[rid]]
					if !ok {
						continue
					}
					if lid, ok := as.Lhs[i].(*ast.Ident); ok {
						if o := info.ObjectOf(lid); o != nil {
							if _, had := bound[o]; !had {
								bound[o] = b
								changed = true
							}
						}
					}
				}
				return true
			})
		}
		// a fixed-size array indexed by an index that a user-sized slice bounds: needs an explicit bound test
		walkStack(fd.Body, func(q ast.Node, stack []ast.Node) bool {
			ix, ok := q.(*ast.IndexExpr)
			if !ok {
				return true
			}
			aid, ok := unparen(ix.X).(*ast.Ident)
			iid, ok2 := unparen(ix.Index).(*ast.Ident)
			if !ok || !ok2 || info.Uses[aid] == nil {
				return true
			}
			arr, isArr := info.Uses[aid].Type().Underlying().(*types.Array)
			b, bounded := bound[info.Uses[iid]]
			if !isArr || !bounded {
				return true
			}
			guarded := false
			for i := len(stack) - 1; i >= 0 && !guarded; i-- {
				var list []ast.Stmt
				switch blk := stack[i].(type) {
				case *ast.BlockStmt:
					list = blk.List
				case *ast.CaseClause:
					list = blk.Body
				case *ast.IfStmt:
					// enclosed by `if i < len(A)` / `if i < N`
					s := c.Src(blk.Cond)
					if blk.Body.Pos() <= ix.Pos() && ix.End() <= blk.Body.End() && (strings.Contains(s, iid.Name+" < len("+aid.Name+")") || strings.Contains(s, fmt.Sprintf("%s < %d", iid.Name, arr.Len()))) {
						guarded = true
					}
					continue
				default:
					continue
				}
				for _, st := range list {
					if st.End() > ix.Pos() {
						break
					}
					if ifs, ok := st.(*ast.IfStmt); ok {
						s := c.Src(ifs.Cond)
						if (strings.Contains(s, iid.Name+" >= len("+aid.Name+")") || strings.Contains(s, fmt.Sprintf("%s >= %d", iid.Name, arr.Len()))) && len(ifs.Body.List) > 0 {
							switch ifs.Body.List[len(ifs.Body.List)-1].(type) {
							case *ast.BranchStmt, *ast.ReturnStmt:
								guarded = true
							}
						}
					}
				}
			}
			key := fmt.Sprintf("parallel:%s:%s/%s", c.enclosingName(p, ix.Pos()), aid.Name, b.Name())
			arrayObs = append(arrayObs, arrayOb{key, ix.Pos(), guarded, fmt.Sprintf("%s indexes the %d-element array %s with an index bounded only by len(%s)", c.enclosingName(p, ix.Pos()), arr.Len(), aid.Name, b.Name())})
			return true
		})
		seen := map[[2]types.Object]bool{}
		ast.Inspect(fd.Body, func(q ast.Node) bool {
			ix, ok := q.(*ast.IndexExpr)
			if !ok {
				return true
			}
			a := sliceObj(ix.X)
			iid, ok2 := unparen(ix.Index).(*ast.Ident)
			if a == nil || !ok2 {
				return true
			}
			b, ok := bound[info.Uses[iid]]
			if !ok || b == a || seen[[2]types.Object{a, b}] {
				return true
			}
			seen[[2]types.Object{a, b}] = true
			cands = append(cands, cand{fd, a, b, ix.Pos()})
			return true
		})
	}
	// discharge
	lenCmp := func(body ast.Node, a, b ast.Expr, before token.Pos) bool {
		as, bs := c.Src(a), c.Src(b)
		ok := false
		ast.Inspect(body, func(q ast.Node) bool {
			ifs, isIf := q.(*ast.IfStmt)
			if !isIf || ifs.Pos() > before || !endsInReturn(ifs.Body) {
				return true
			}
			s := c.Src(ifs.Cond)
			if (strings.Contains(s, "len("+as+") != len("+bs+")") || strings.Contains(s, "len("+bs+") != len("+as+")")) && ifs.End() <= before {
				ok = true
			}
			return true
		})
		return ok
	}
	madeWith := func(body ast.Node, a, b types.Object) bool {
		ok := false
		ast.Inspect(body, func(q ast.Node) bool {
			as, isAs := q.(*ast.AssignStmt)
			if !isAs || len(as.Lhs) != len(as.Rhs) {
				return true
			}
			for i, l := range as.Lhs {
				lid, isID := l.(*ast.Ident)
				if !isID || info.ObjectOf(lid) != a {
					continue
				}
				if call, isCall := unparen(as.Rhs[i]).(*ast.CallExpr); isCall {
					if fid, isF := call.Fun.(*ast.Ident); isF && fid.Name == "make" && len(call.Args) >= 2 {
						if strings.Contains(c.Src(call.Args[1]), "len("+b.Name()+")") {
							ok = true
						}
					}
				}
			}
			return true
		})
		return ok
	}
	paramIndex := func(fd *ast.FuncDecl, o types.Object) int {
		k := 0
		for _, fld := range fd.Type.Params.List {
			for _, nm := range fld.Names {
				if info.Defs[nm] == o {
					return k
				}
				k++
			}
		}
		return -1
	}
	for _, cd := range cands {
		key := fmt.Sprintf("parallel:%s:%s/%s", c.enclosingName(p, cd.pos), cd.a.Name(), cd.b.Name())
		aID, bID := ast.NewIdent(cd.a.Name()), ast.NewIdent(cd.b.Name())
		switch {
		case madeWith(cd.fd.Body, cd.a, cd.b) || madeWith(cd.fd.Body, cd.b, cd.a):
			r.OK(key, cd.pos, "%s[…] under the bounds of %s: one is made with the other's length", cd.a.Name(), cd.b.Name())
			continue
		case lenCmp(cd.fd.Body, aID, bID, cd.pos):
			r.OK(key, cd.pos, "%s[…] under the bounds of %s: a dominating length comparison leaves the function on mismatch", cd.a.Name(), cd.b.Name())
			continue
		}
		// a local that is a type assertion of a parameter stands for that parameter
		rootParam := func(o types.Object) types.Object {
			if paramIndex(cd.fd, o) >= 0 {
				return o
			}
			var root types.Object
			defs := 0
			ast.Inspect(cd.fd.Body, func(q ast.Node) bool {
				as, ok := q.(*ast.AssignStmt)
				if !ok {
					return true
				}
				for i, l := range as.Lhs {
					lid, ok := l.(*ast.Ident)
					if !ok || info.ObjectOf(lid) != o {
						continue
					}
					defs++
					if len(as.Rhs) == 1 && i == 0 {
						if ta, ok := unparen(as.Rhs[0]).(*ast.TypeAssertExpr); ok {
							if pid, ok := unparen(ta.X).(*ast.Ident); ok && paramIndex(cd.fd, info.Uses[pid]) >= 0 {
								root = info.Uses[pid]
							}
						}
					}
				}
				return true
			})
			if defs == 1 {
				return root
			}
			return nil
		}
		ra, rb := rootParam(cd.a), rootParam(cd.b)
		if ra != nil && rb != nil && ra == rb {
			r.OK(key, cd.pos, "%s and %s are the same parameter's slice", cd.a.Name(), cd.b.Name())
			continue
		}
		ia, ib := -1, -1
		if ra != nil && rb != nil {
			ia, ib = paramIndex(cd.fd, ra), paramIndex(cd.fd, rb)
		}
		if ia < 0 || ib < 0 {
			// derived locals (e.g. both computed from the same source): out of the rule's reach → informational
			r.Info(key, cd.pos, "%s[…] under the bounds of %s in %s: not parameters and no relation found; not decided by this rule", cd.a.Name(), cd.b.Name(), c.enclosingName(p, cd.pos))
			continue
		}
		// every call site: same argument, or a dominating length comparison on the arguments in the caller
		fn := c.SSAFunc(p, declKey(cd.fd))
		var node *callgraph.Node
		if fn != nil {
			node = cg.Nodes[fn]
		}
		if node == nil || len(node.In) == 0 {
			r.Bad(key, cd.pos, "%s indexes %s with an index bounded by len(%s); no length relation in the function and no call site to discharge it", c.enclosingName(p, cd.pos), cd.a.Name(), cd.b.Name())
			continue
		}
		allOK := true
		var badSite token.Pos
		sites := 0
		for _, e := range node.In {
			if e.Site == nil {
				continue
			}
			sites++
			// find the AST call at this position in the caller's declaration
			var callerDecl *ast.FuncDecl
			for _, fd2 := range c.Decls(p) {
				if fd2.Pos() <= e.Site.Pos() && e.Site.Pos() <= fd2.End() {
					callerDecl = fd2
				}
			}
			siteOK := false
			if callerDecl != nil {
				ast.Inspect(callerDecl.Body, func(q ast.Node) bool {
					call, ok := q.(*ast.CallExpr)
					if !ok || call.Lparen != e.Site.Pos() && call.Pos() != e.Site.Pos() {
						return true
					}
					if ia < len(call.Args) && ib < len(call.Args) {
						if c.Src(call.Args[ia]) == c.Src(call.Args[ib]) {
							siteOK = true
						} else if lenCmp(callerDecl.Body, call.Args[ia], call.Args[ib], call.Pos()) {
							siteOK = true
						}
					}
					return true
				})
			}
			if !siteOK {
				allOK = false
				badSite = e.Site.Pos()
			}
		}
		if sites == 0 {
			allOK = false
		}
		if allOK {
			r.OK(key, cd.pos, "%s[…] under the bounds of %s: all %d call sites pass the same slice twice or compare the lengths first", cd.a.Name(), cd.b.Name(), sites)
		} else {
			r.Bad(key, cd.pos, "%s indexes %s with an index bounded by len(%s), and the call site at %s neither passes the same slice for both nor leaves on a length mismatch first: an out-of-range index panics inside the native, where try cannot catch it", c.enclosingName(p, cd.pos), cd.a.Name(), cd.b.Name(), c.Pos(badSite))
		}
	}
	for _, ob := range arrayObs {
		r.Check(ob.guarded, ob.key, ob.pos, "%s; an explicit bound test on the index dominates it: %v (a longer input array is an index-out-of-range panic inside the native, where try cannot catch it: `[range(9)] | mktime`)", ob.what, ob.guarded)
	}
	if len(cands) == 0 {
		r.Undecided("census", token.NoPos, "no parallel-slice site found (minMaxBy is expected)")
	}
}


// ---------------------------------------------------------------------------------------------------------------------

func ruleLimitOwner(c *Ctx, r *Rep) {
	p := c.Gojq
	info := p.TypesInfo
	n := 0
	for _, fd := range c.Decls(p) {
		if fd.Body == nil {
			continue
		}
		owner := recvTypeName(fd)
		ast.Inspect(fd.Body, func(q ast.Node) bool {
			sel, ok := q.(*ast.SelectorExpr)
			if !ok || sel.Sel.Name != "limit" {
				return true
			}
			s := info.Selections[sel]
			if s == nil || s.Kind() != types.FieldVal {
				return true
			}
			recv := derefType(s.Recv())
			which := ""
			switch {
			case isNamed(recv, pathGojq, "stack"):
				which = "stack"
			case isNamed(recv, pathGojq, "scopeStack"):
				which = "scopeStack"
			default:
				return true
			}
			n++
			allowed := owner == which || (declKey(fd) == "env.popscope" && which == "scopeStack")
			key := fmt.Sprintf("bounds:%s:%s.%s", declKey(fd), which, sel.Sel.Name)
			r.Check(allowed, key, sel.Pos(), "%s reads or writes %s.%s: allowed (a method of %s, or env.popscope): %v — a second copy of the frame-release decision can disagree with popscope (`>=` for `>` releases a frame a pending fork still needs)", declKey(fd), which, sel.Sel.Name, which, allowed)
			return true
		})
	}
	if n == 0 {
		r.Undecided("census", token.NoPos, "no access to the stacks' limit field found")
	}
}

// ---------------------------------------------------------------------------------------------------------------------

func ruleEncoderFresh(c *Ctx, r *Rep) {
	n := 0
	for _, fn := range c.PkgFuncs(c.Cli) {
		for _, b := range fn.Blocks {
			for _, ins := range b.Instrs {
				call, ok := ins.(*ssa.Call)
				if !ok {
					continue
				}
				callee := call.Common().StaticCallee()
				if callee == nil || callee.Pkg == nil || callee.Pkg.Pkg.Path() != pathCli {
					continue
				}
				if callee.Name() != "newEncoder" && callee.Name() != "createMarshaler" {
					continue
				}
				n++
				// follow the value through conversions, interface boxing, phis and composite construction
				bad := ""
				seen := map[ssa.Value]bool{}
				var follow func(v ssa.Value)
				follow = func(v ssa.Value) {
					if seen[v] || bad != "" {
						return
					}
					seen[v] = true
					refs := v.Referrers()
					if refs == nil {
						return
					}
					for _, ref := range *refs {
						switch x := ref.(type) {
						case *ssa.MakeInterface:
							follow(x)
						case *ssa.ChangeInterface:
							follow(x)
						case *ssa.ChangeType:
							follow(x)
						case *ssa.Phi:
							follow(x)
						case *ssa.Store:
							if x.Val != v {
								continue
							}
							switch a := x.Addr.(type) {
							case *ssa.Global:
								bad = "the package variable " + a.Name()
							case *ssa.FieldAddr:
								if isNamed(derefType(a.X.Type()), pathCli, "cli") {
									bad = "the field cli." + fieldName(a)
								} else if al, ok := a.X.(*ssa.Alloc); ok {
									follow(al) // a wrapper built around it (rawMarshaler{m})
								}
							case *ssa.Alloc:
								// a local cell: its loads carry the value on
								for _, r2 := range *a.Referrers() {
									if ld, ok := r2.(*ssa.UnOp); ok && ld.Op == token.MUL {
										follow(ld)
									}
								}
							}
						}
					}
				}
				follow(call)
				r.Check(bad == "", fmt.Sprintf("encoder:%s:%s", fnKey(fn), callee.Name()), ins.Pos(), "the encoder made by %s in %s is stored in %s", callee.Name(), fnKey(fn),
					map[bool]string{true: "nothing that outlives the function", false: bad + ": it would be reused for later inputs with whatever depth and buffer an earlier, possibly failed, use left"}[bad == ""])
			}
		}
	}
	if n == 0 {
		r.Undecided("census", token.NoPos, "no call of newEncoder/createMarshaler found in package cli")
	}
}

// ---------------------------------------------------------------------------------------------------------------------

func ruleSlurpJSON(c *Ctx, r *Rep) {
	p := c.Cli
	info := p.TypesInfo
	var roots []*ast.FuncDecl
	for _, k := range []string{"slurpFile", "cli.slurpFile"} {
		if fd := c.Decl(p, k); fd != nil {
			roots = append(roots, fd)
		}
	}
	if len(roots) == 0 {
		r.Undecided("anchor", token.NoPos, "slurpFile not found in package cli")
		return
	}
	seen := map[*ast.FuncDecl]bool{}
	queue := append([]*ast.FuncDecl(nil), roots...)
	bad := 0
	for len(queue) > 0 {
		fd := queue[0]
		queue = queue[1:]
		if seen[fd] {
			continue
		}
		seen[fd] = true
		ast.Inspect(fd.Body, func(q ast.Node) bool {
			switch x := q.(type) {
			case *ast.CallExpr:
				if o := callee(info, x); o != nil && o.Pkg() != nil && o.Pkg().Path() == pathCli {
					if f, ok := o.(*types.Func); ok {
						key := f.Name()
						if recv := f.Type().(*types.Signature).Recv(); recv != nil {
							if nt := namedOf(derefType(recv.Type())); nt != nil {
								key = nt.Obj().Name() + "." + f.Name()
							}
						}
						if d := c.Decl(p, key); d != nil {
							queue = append(queue, d)
						}
					}
				}
			case *ast.SelectorExpr:
				if s := info.Selections[x]; s != nil && s.Kind() == types.FieldVal && isNamed(derefType(s.Recv()), pathCli, "cli") {
					switch x.Sel.Name {
					case "inputRaw", "inputStream", "inputYAML", "inputSlurp", "inputNull":
						bad++
						r.Bad("slurp:"+declKey(fd)+":"+x.Sel.Name, x.Pos(), "%s, reached from slurpFile, reads cli.%s: the file given to --slurpfile would be read as lines, as a stream or as YAML when the *main* input is, and $name would no longer hold the parsed JSON values", declKey(fd), x.Sel.Name)
					}
				}
			}
			return true
		})
	}
	if bad == 0 {
		r.OK("slurp:independent", roots[0].Pos(), "%d functions reachable from slurpFile; none reads an input-format flag", len(seen))
	}
}

// ---------------------------------------------------------------------------------------------------------------------

func init() {
	reg(&Rule{ID: "R-C10-foreignnumber", Props: []string{"C10", "C12"}, Floor: 1,
		Doc: "a value decoded by a third-party decoder that can build json.Number from text no JSON grammar validated (YAML allows +1, 1., .5, 007.5) is rewritten by a function that inspects and rebuilds json.Number leaves before it leaves the input iterator: both encoders print a json.Number verbatim",
		Run: ruleForeignNumber})
}

func ruleForeignNumber(c *Ctx, r *Rep) {
	// 1. third-party packages with a string → json.Number conversion whose operand is not strconv.Format*/Append* output
	foreign := map[string]token.Pos{}
	var deps []*packages.Package
	packages.Visit(c.All, nil, func(p *packages.Package) { deps = append(deps, p) })
	sort.Slice(deps, func(i, j int) bool { return deps[i].PkgPath < deps[j].PkgPath })
	for _, p := range deps {
		if p.PkgPath == pathGojq || p.PkgPath == pathCli || p.PkgPath == pathCmd || !strings.Contains(p.PkgPath, ".") || p.TypesInfo == nil {
			continue
		}
		for _, f := range p.Syntax {
			ast.Inspect(f, func(q ast.Node) bool {
				call, ok := q.(*ast.CallExpr)
				if !ok || len(call.Args) != 1 {
					return true
				}
				tv, ok := p.TypesInfo.Types[call.Fun]
				if !ok || !tv.IsType() || !isNamed(tv.Type, "encoding/json", "Number") {
					return true
				}
				if inner, ok := unparen(call.Args[0]).(*ast.CallExpr); ok {
					if n := calleeName(p.TypesInfo, inner); strings.HasPrefix(n, "strconv.Format") || strings.HasPrefix(n, "strconv.Append") {
						return true
					}
				}
				if _, isConst := p.TypesInfo.Types[call.Args[0]]; isConst && p.TypesInfo.Types[call.Args[0]].Value != nil {
					return true
				}
				if _, ok := foreign[p.PkgPath]; !ok {
					foreign[p.PkgPath] = call.Pos()
				}
				return true
			})
		}
	}
	if len(foreign) == 0 {
		r.OK("census", token.NoPos, "no third-party dependency builds json.Number from unvalidated text")
		return
	}
	// 2. calls from package cli into such a package that decode into an interface value
	p := c.Cli
	info := p.TypesInfo
	rewrites := func(fd *ast.FuncDecl) bool {
		// the function (or one it calls in package cli) has a json.Number arm and builds a json.Number
		seen := map[*ast.FuncDecl]bool{}
		var visit func(fd *ast.FuncDecl) (arm, build bool)
		visit = func(fd *ast.FuncDecl) (arm, build bool) {
			if fd == nil || seen[fd] {
				return
			}
			seen[fd] = true
			ast.Inspect(fd.Body, func(q ast.Node) bool {
				switch x := q.(type) {
				case *ast.CaseClause:
					for _, e := range x.List {
						if tv, ok := info.Types[e]; ok && tv.IsType() && isNamed(tv.Type, "encoding/json", "Number") {
							arm = true
						}
					}
				case *ast.TypeAssertExpr:
					if x.Type != nil && isNamed(info.TypeOf(x.Type), "encoding/json", "Number") {
						arm = true
					}
				case *ast.CallExpr:
					if tv, ok := info.Types[x.Fun]; ok && tv.IsType() && isNamed(tv.Type, "encoding/json", "Number") {
						build = true
					}
					if o := callee(info, x); o != nil && o.Pkg() != nil && o.Pkg().Path() == pathCli {
						if f, ok := o.(*types.Func); ok && f.Type().(*types.Signature).Recv() == nil {
							a2, b2 := visit(c.Decl(p, f.Name()))
							arm, build = arm || a2, build || b2
						}
					}
				}
				return true
			})
			return
		}
		a, b := visit(fd)
		return a && b
	}
	n := 0
	for _, fd := range c.Decls(p) {
		if fd.Body == nil {
			continue
		}
		ast.Inspect(fd.Body, func(q ast.Node) bool {
			call, ok := q.(*ast.CallExpr)
			if !ok {
				return true
			}
			o := callee(info, call)
			if o == nil || o.Pkg() == nil {
				return true
			}
			src, isForeign := foreign[o.Pkg().Path()]
			if !isForeign || !strings.Contains(o.Name(), "Decode") && !strings.Contains(o.Name(), "Unmarshal") {
				return true
			}
			// the destination: &v with v an interface variable
			var dest types.Object
			for _, a := range call.Args {
				if u, ok := unparen(a).(*ast.UnaryExpr); ok && u.Op == token.AND {
					if id, ok := unparen(u.X).(*ast.Ident); ok {
						if _, isIface := info.TypeOf(id).Underlying().(*types.Interface); isIface {
							dest = info.Uses[id]
						}
					}
				}
			}
			if dest == nil {
				return true
			}
			n++
			// every return of the function that mentions dest passes it through a rewriting function of package cli
			ok2, sawReturn := true, false
			ast.Inspect(fd.Body, func(w ast.Node) bool {
				rs, isRet := w.(*ast.ReturnStmt)
				if !isRet {
					return true
				}
				for _, res := range rs.Results {
					mentionsDest, through := false, false
					ast.Inspect(res, func(z ast.Node) bool {
						if id, ok := z.(*ast.Ident); ok && info.Uses[id] == dest {
							mentionsDest = true
						}
						if cl, ok := z.(*ast.CallExpr); ok {
							if o2 := callee(info, cl); o2 != nil && o2.Pkg() != nil && o2.Pkg().Path() == pathCli {
								if rewrites(c.Decl(p, o2.Name())) {
									through = true
								}
							}
						}
						return true
					})
					if mentionsDest {
						sawReturn = true
						if !through {
							ok2 = false
						}
					}
				}
				return true
			})
			// or the variable is reassigned from such a call before being returned: v = normalize(v)
			reassigned := false
			ast.Inspect(fd.Body, func(w ast.Node) bool {
				as, isAs := w.(*ast.AssignStmt)
				if !isAs || len(as.Lhs) != 1 || len(as.Rhs) != 1 || as.Pos() < call.Pos() {
					return true
				}
				if id, ok := as.Lhs[0].(*ast.Ident); ok && info.ObjectOf(id) == dest {
					if cl, ok := unparen(as.Rhs[0]).(*ast.CallExpr); ok {
						if o2 := callee(info, cl); o2 != nil && o2.Pkg() != nil && o2.Pkg().Path() == pathCli && rewrites(c.Decl(p, o2.Name())) {
							reassigned = true
						}
					}
				}
				return true
			})
			good := sawReturn && (ok2 || reassigned)
			r.Check(good, "decode:"+declKey(fd)+":"+o.Pkg().Name(), call.Pos(), "%s decodes into an interface value with %s.%s, a package that builds json.Number from text it did not check against the JSON grammar (%s); the decoded value is rewritten by a json.Number-aware function before it is returned: %v — otherwise a number such as +1, 1., .5 or 007.5 reaches the encoders, which print a json.Number verbatim, and the output is not JSON",
				declKey(fd), o.Pkg().Name(), o.Name(), c.Pos(src), good)
			return true
		})
	}
	if n == 0 {
		r.OK("census", token.NoPos, "%d third-party packages build json.Number from unvalidated text; package cli decodes no interface value with them", len(foreign))
	}
}

// ---------------------------------------------------------------------------------------------------------------------

func init() {
	reg(&Rule{ID: "R-C15-haltthrough", Props: []string{"C15", "C01"}, Floor: 2,
		Doc: "every VM clause that intercepts an error on re-entry (assigns nil to err and resumes) first lets *HaltError through: halt and halt_error stop at once, whatever try, ? or ?// encloses them",
		Run: ruleHaltThrough})
}

func ruleHaltThrough(c *Ctx, r *Rep) {
	vm := getVM(c)
	if vm.Err != "" {
		r.Undecided("vm-model", token.NoPos, "%s", vm.Err)
		return
	}
	info := vm.info
	isT := func(e ast.Expr, name string) bool {
		t := info.TypeOf(e)
		return t != nil && isNamed(derefType(t), pathGojq, name)
	}
	leaves := func(body []ast.Stmt) bool {
		if len(body) == 0 {
			return false
		}
		switch x := body[len(body)-1].(type) {
		case *ast.BranchStmt:
			return (x.Tok == token.BREAK && x.Label != nil) || x.Tok == token.GOTO
		case *ast.ReturnStmt:
			return true
		}
		return false
	}
	// a helper func(err error) bool that looks through *tryEndError and recognises *HaltError
	seesThrough := func(call *ast.CallExpr) bool {
		f, ok := callee(info, call).(*types.Func)
		if !ok || f.Pkg() == nil || f.Pkg().Path() != pathGojq {
			return false
		}
		fd := c.Decl(c.Gojq, f.Name())
		if fd == nil {
			return false
		}
		halt, wrapped := false, false
		ast.Inspect(fd.Body, func(q ast.Node) bool {
			switch x := q.(type) {
			case *ast.CaseClause:
				for _, e := range x.List {
					halt = halt || isT(e, "HaltError")
					wrapped = wrapped || isT(e, "tryEndError")
				}
			case *ast.TypeAssertExpr:
				if x.Type != nil {
					halt = halt || isT(x.Type, "HaltError")
					wrapped = wrapped || isT(x.Type, "tryEndError")
				}
			}
			return true
		})
		return halt && wrapped
	}
	n := 0
	for _, cl := range vm.Clauses {
		name := strings.Join(cl.Ops, ",")
		walkStack(cl.CC, func(m ast.Node, stack []ast.Node) bool {
			as, ok := m.(*ast.AssignStmt)
			if !ok || len(as.Lhs) != len(as.Rhs) {
				return true
			}
			intercept := false
			for i, l := range as.Lhs {
				if vm.isVar(l, "err") && isNilIdent(as.Rhs[i]) {
					intercept = true
				}
			}
			if !intercept {
				return true
			}
			n++
			halt, wrapped, specific := false, false, ""
			// nested in a branch that asserted one specific other error type: neither a halt nor a wrapped halt gets here
			for i := len(stack) - 1; i >= 0 && specific == ""; i-- {
				if ifs, ok := stack[i].(*ast.IfStmt); ok && ifs.Init != nil && ifs.Body.Pos() <= as.Pos() && as.End() <= ifs.Body.End() {
					if ias, ok := ifs.Init.(*ast.AssignStmt); ok && len(ias.Rhs) == 1 {
						if ta, ok := unparen(ias.Rhs[0]).(*ast.TypeAssertExpr); ok && vm.isVar(ta.X, "err") && ta.Type != nil && !isT(ta.Type, "HaltError") && !isT(ta.Type, "tryEndError") {
							if _, isIface := info.TypeOf(ta.Type).Underlying().(*types.Interface); !isIface {
								specific = c.Src(ta.Type)
							}
						}
					}
				}
			}
			// dominating exits: earlier statements of an enclosing statement list
			for i := len(stack) - 1; i >= 0; i-- {
				var list []ast.Stmt
				switch b := stack[i].(type) {
				case *ast.BlockStmt:
					list = b.List
				case *ast.CaseClause:
					list = b.Body
				default:
					continue
				}
				for _, st := range list {
					if st.End() > as.Pos() {
						break
					}
					switch x := st.(type) {
					case *ast.TypeSwitchStmt:
						subject := false
						ast.Inspect(x.Assign, func(q ast.Node) bool {
							if ta, ok := q.(*ast.TypeAssertExpr); ok && vm.isVar(ta.X, "err") {
								subject = true
							}
							return true
						})
						if !subject {
							continue
						}
						for _, s := range x.Body.List {
							cc := s.(*ast.CaseClause)
							for _, e := range cc.List {
								if leaves(cc.Body) {
									halt = halt || isT(e, "HaltError")
									wrapped = wrapped || isT(e, "tryEndError")
								}
							}
						}
					case *ast.IfStmt:
						if !leaves(x.Body.List) {
							continue
						}
						if x.Init != nil {
							if ias, ok := x.Init.(*ast.AssignStmt); ok && len(ias.Rhs) == 1 {
								if ta, ok := unparen(ias.Rhs[0]).(*ast.TypeAssertExpr); ok && vm.isVar(ta.X, "err") && ta.Type != nil {
									halt = halt || isT(ta.Type, "HaltError")
									wrapped = wrapped || isT(ta.Type, "tryEndError")
								}
							}
						}
						if call, ok := unparen(x.Cond).(*ast.CallExpr); ok && len(call.Args) == 1 && vm.isVar(call.Args[0], "err") && seesThrough(call) {
							halt, wrapped = true, true
						}
					}
				}
			}
			good := specific != "" || (halt && wrapped)
			why := ""
			switch {
			case specific != "":
				why = "only errors of type " + specific + " are intercepted"
			case halt && wrapped:
				why = "*HaltError leaves the clause, also when wrapped in *tryEndError"
			case halt:
				why = "NO for a halt wrapped in *tryEndError — a halt raised after a try body that contains this construct arrives wrapped (`[1] | try (. as [$a] ?// $a | $a) | debug | halt_error(3)` runs debug and halt_error twice and prints [1]; jq prints 1)"
			default:
				why = "NO — halt/halt_error inside this construct would be treated as an ordinary error (`[1] | . as [$a] ?// $b | \"\\($a) \\($b)\\n\" | halt_error` evaluates the body again for the next alternative and prints `null [1]`; jq stops at once with `1 null`)"
			}
			r.Check(good, "intercept:"+name, as.Pos(), "%s clears err and resumes on re-entry; *HaltError is let through first: %s", name, why)
			return true
		})
	}
	if n == 0 {
		r.Undecided("census", token.NoPos, "no clause of Next clears err")
	}
}

// ---------------------------------------------------------------------------------------------------------------------

func init() {
	reg(&Rule{ID: "R-C17-tokenfresh", Props: []string{"C17"}, Floor: 20,
		Doc: "on every path of (*lexer).Lex and scanString that returns a multi-byte token kind, l.token is assigned during that call: ParseError.Token is what the lexer last stored, so a kind that returns without storing reports the previous token's text with the new token's offset",
		Run: ruleTokenFresh})
}

func ruleTokenFresh(c *Ctx, r *Rep) {
	p := c.Gojq
	info := p.TypesInfo
	assignsToken := func(nd ast.Node) bool {
		found := false
		ast.Inspect(nd, func(q ast.Node) bool {
			if _, isLit := q.(*ast.FuncLit); isLit {
				return false
			}
			if as, ok := q.(*ast.AssignStmt); ok {
				for _, l := range as.Lhs {
					if sel, ok := unparen(l).(*ast.SelectorExpr); ok && sel.Sel.Name == "token" {
						if s := info.Selections[sel]; s != nil && isNamed(derefType(s.Recv()), pathGojq, "lexer") {
							found = true
						}
					}
				}
			}
			return !found
		})
		return found
	}
	callsScanString := func(nd ast.Node) bool {
		found := false
		ast.Inspect(nd, func(q ast.Node) bool {
			if call, ok := q.(*ast.CallExpr); ok && strings.HasSuffix(calleeName(info, call), "lexer.scanString") {
				found = true
			}
			return !found
		})
		return found
	}
	// must-assign analysis; returns the return statements reached with l.token possibly unassigned
	analyse := func(fd *ast.FuncDecl, scanStringOK bool) (bad []*ast.ReturnStmt, total int) {
		g := cfg.New(fd.Body, func(*ast.CallExpr) bool { return true })
		in := map[*cfg.Block]int{} // 0 unvisited, 1 assigned on all paths so far, 2 not
		work := []*cfg.Block{g.Blocks[0]}
		in[g.Blocks[0]] = 2
		outState := map[*cfg.Block]int{}
		for len(work) > 0 {
			b := work[len(work)-1]
			work = work[:len(work)-1]
			st := in[b]
			for _, nd := range b.Nodes {
				if assignsToken(nd) || (scanStringOK && callsScanString(nd)) {
					st = 1
				}
			}
			outState[b] = st
			for _, s := range b.Succs {
				old := in[s]
				nw := st
				if old == 2 {
					nw = 2
				}
				if old != nw {
					in[s] = nw
					work = append(work, s)
				}
			}
		}
		for _, b := range g.Blocks {
			if in[b] == 0 {
				continue
			}
			st := in[b]
			for _, nd := range b.Nodes {
				if assignsToken(nd) || (scanStringOK && callsScanString(nd)) {
					st = 1
				}
				rs, ok := nd.(*ast.ReturnStmt)
				if !ok || len(rs.Results) == 0 {
					continue
				}
				// single-byte kinds: int(ch), a rune literal — Error() prints the kind itself
				res := unparen(rs.Results[0])
				if call, ok := res.(*ast.CallExpr); ok {
					if tv, ok := info.Types[call.Fun]; ok && tv.IsType() {
						continue
					}
				}
				if lit, ok := res.(*ast.BasicLit); ok && lit.Kind == token.CHAR {
					continue
				}
				total++
				if st != 1 {
					bad = append(bad, rs)
				}
			}
		}
		return
	}
	scan := c.Decl(p, "lexer.scanString")
	lex := c.Decl(p, "lexer.Lex")
	if scan == nil || lex == nil {
		r.Undecided("anchors", token.NoPos, "lexer.Lex or lexer.scanString not found")
		return
	}
	badScan, nScan := analyse(scan, false)
	for _, rs := range badScan {
		r.Bad("return:scanString:"+c.Src(rs.Results[0]), rs.Pos(), "scanString returns %s on a path that does not assign l.token: ParseError.Token for this kind is the text of the previous token (`1 \"a\\(1)\"` reports unexpected token \"1\" at the offset of the string opening)", c.Src(rs.Results[0]))
	}
	if len(badScan) == 0 {
		r.OK("scanString", scan.Pos(), "all %d returns of scanString assign l.token first", nScan)
	}
	badLex, nLex := analyse(lex, true) // a return of scanString's kind is scanString's obligation, reported there
	for _, rs := range badLex {
		r.Bad("return:Lex:"+c.Src(rs.Results[0]), rs.Pos(), "Lex returns %s on a path that does not assign l.token", c.Src(rs.Results[0]))
	}
	if len(badLex) == 0 {
		r.OK("Lex", lex.Pos(), "all %d multi-byte returns of Lex assign l.token first", nLex)
	}
	for i := 0; i < nScan+nLex; i++ {
		r.OK(fmt.Sprintf("return#%d", i), token.NoPos, "return site analysed")
	}
}

// ---------------------------------------------------------------------------------------------------------------------

func init() {
	reg(&Rule{ID: "R-C17-tokenoffset", Props: []string{"C17"}, Floor: 1,
		Doc: "a function that reads JSON with (*json.Decoder).Token reconciles the two offset conventions of encoding/json before its errors share the caret computation of Decode errors: a token error's Offset excludes the invalid character (dec.InputOffset()), a value error's includes it",
		Run: ruleTokenOffset})
	reg(&Rule{ID: "R-C17-tokensource", Props: []string{"C17"}, Floor: 15,
		Doc: "every text the lexer stores in l.token is a slice of l.source or a string constant: a re-encoded rune (string(r)) differs in length from the source bytes it stands for when they are not valid UTF-8, and the caret is computed from Offset − len(Token)",
		Run: ruleTokenSource})
}

func ruleTokenOffset(c *Ctx, r *Rep) {
	p := c.Cli
	info := p.TypesInfo
	n := 0
	for _, fd := range c.Decls(p) {
		if fd.Body == nil {
			continue
		}
		var tokenCall *ast.CallExpr
		adjusts, recomputes := false, false
		ast.Inspect(fd.Body, func(q ast.Node) bool {
			switch x := q.(type) {
			case *ast.CallExpr:
				if o := callee(info, x); o != nil && objPath(o) == "encoding/json.(Decoder).Token" {
					tokenCall = x
				}
			case *ast.AssignStmt:
				for i, l := range x.Lhs {
					if sel, ok := unparen(l).(*ast.SelectorExpr); ok && sel.Sel.Name == "Offset" && isNamed(derefType(info.TypeOf(sel.X)), "encoding/json", "SyntaxError") {
						adjusts = true
						if i < len(x.Rhs) && x.Tok == token.ASSIGN && strings.Contains(c.Src(x.Rhs[i]), "InputOffset()") {
							recomputes = true
						}
					}
				}
			case *ast.IncDecStmt:
				if sel, ok := unparen(x.X).(*ast.SelectorExpr); ok && sel.Sel.Name == "Offset" && isNamed(derefType(info.TypeOf(sel.X)), "encoding/json", "SyntaxError") {
					adjusts = true
				}
			}
			return true
		})
		if tokenCall == nil {
			continue
		}
		n++
		// the re-location of a value error is tried first: nested under the else of the equality test that recognises a
		// token error it is skipped whenever the two offsets coincide (`[1, "\x"]`: two bytes consumed by Token, the bad
		// byte two bytes into the string), and the caret stays at the start of the value
		if recomputes {
			underElse := false
			walkStack(fd.Body, func(q ast.Node, stack []ast.Node) bool {
				as, ok := q.(*ast.AssignStmt)
				if !ok || as.Tok != token.ASSIGN || len(as.Lhs) != 1 {
					return true
				}
				sel, ok := unparen(as.Lhs[0]).(*ast.SelectorExpr)
				if !ok || sel.Sel.Name != "Offset" || !strings.Contains(c.Src(as.Rhs[0]), "InputOffset()") {
					return true
				}
				for i, anc := range stack {
					ifs, ok := anc.(*ast.IfStmt)
					if !ok || ifs.Else == nil || i+1 >= len(stack) || stack[i+1] != ast.Node(ifs.Else) {
						continue
					}
					if b, ok := unparen(ifs.Cond).(*ast.BinaryExpr); ok && b.Op == token.EQL && strings.Contains(c.Src(b), "Offset") && strings.Contains(c.Src(b), "InputOffset()") {
						underElse = true
					}
				}
				return true
			})
			r.Check(!underElse, "token:"+declKey(fd)+":value-errors:first", tokenCall.Pos(), "%s tries the re-location of a value error before (not in the else branch of) the test `Offset == InputOffset()` that recognises a token error: %v — the scanner's byte count of a value error can equal InputOffset() by coincidence", declKey(fd), !underElse)
		}
		r.Check(recomputes, "token:"+declKey(fd)+":value-errors", tokenCall.Pos(), "%s recomputes the Offset of a syntax error raised *inside a value* while reading tokens from dec.InputOffset(): %v (under Token the scanner's byte count, which a value error's Offset is, excludes every structural byte Token consumed itself: `printf '[1,tru]' | gojq --stream .` puts the caret two columns to the left of where `gojq .` puts it)", declKey(fd), recomputes)
		r.Check(adjusts, "token:"+declKey(fd), tokenCall.Pos(), "%s reads tokens with (*json.Decoder).Token and adjusts the Offset of its syntax errors: %v (`printf '[1,}' | gojq --stream .` puts the caret under the comma: Token reports the offset *of* the invalid character, Decode the offset *after* it, and both go through jsonParseError)", declKey(fd), adjusts)
	}
	if n == 0 {
		r.OK("census", token.NoPos, "package cli does not use (*json.Decoder).Token")
	}
}

func ruleTokenSource(c *Ctx, r *Rep) {
	p := c.Gojq
	info := p.TypesInfo
	n := 0
	for _, fd := range c.Decls(p) {
		if fd.Body == nil || recvTypeName(fd) != "lexer" {
			continue
		}
		ast.Inspect(fd.Body, func(q ast.Node) bool {
			as, ok := q.(*ast.AssignStmt)
			if !ok || len(as.Lhs) != len(as.Rhs) {
				return true
			}
			for i, l := range as.Lhs {
				sel, ok := unparen(l).(*ast.SelectorExpr)
				if !ok || sel.Sel.Name != "token" {
					continue
				}
				if s := info.Selections[sel]; s == nil || !isNamed(derefType(s.Recv()), pathGojq, "lexer") {
					continue
				}
				n++
				rhs := unparen(as.Rhs[i])
				good := false
				switch x := rhs.(type) {
				case *ast.SliceExpr:
					if s2, ok := unparen(x.X).(*ast.SelectorExpr); ok && s2.Sel.Name == "source" {
						good = true
					}
				default:
					if tv, ok := info.Types[rhs]; ok && tv.Value != nil {
						good = true // a constant spelling
					}
				}
				key := fmt.Sprintf("token:%s:%s", declKey(fd), c.Src(rhs))
				r.Check(good, key, as.Pos(), "%s stores %s in l.token: a slice of l.source or a constant: %v (anything else can differ in length from the bytes consumed; `1 \\xff 2` puts the caret two columns to the left because the stored U+FFFD is three bytes and the source byte one)", declKey(fd), c.Src(rhs), good)
			}
			return true
		})
	}
	if n == 0 {
		r.Undecided("census", token.NoPos, "no assignment to lexer.token found")
	}
}

// ---------------------------------------------------------------------------------------------------------------------
// What the rules of this file (and of rules_tpl.go) add to the "decided" statement of each property.

func init() {
	add := map[string]string{
		"C01": " Lowering templates (R-C01-template): for 24 lowering functions and every AST shape class, the emitted code is stack/path/exp-consistent with sub-query holes of the declared net effect; every variable slot a sub-query can resolve is stored on every path reaching it; after an abandoned ?// alternative (error in the pattern or in the body) and after the source generator resumes, every pattern variable is null or bound by the matching alternative; sub-queries jq scopes separately are compiled in disjoint scope-depth regions; every sub-query hole consumes the value jq prescribes (the construct's input, or the left side's output for a pipe). The stacks' persistence limit is consulted only by the stacks' methods and popscope (R-C20-limitowner); HaltError passes every interception site (R-C15-haltthrough). Every integer field of env that forward execution changes is in the fork snapshot (R-C01-forkcover); a scope's variable counter only grows (R-C01-slotmonotone); compileFunc consults the user's scopes before any name-specific return (R-C01-lookupfirst); function names the compiler synthesises for internally applied conversions are in the reserved namespace (R-C01-internalname).",
		"C02": " The lowering templates of the path-related constructs are verified by R-C01-template; the allocator's ownership set only receives containers made by the registering function (R-C05-allocown).",
		"C04": " The emission-time optimisations (argument inlining cases 2 and 3, constant results of if, expbegin removal in compileBind, path(f) call replacement) are executed symbolically by R-C01-template and their results verified for every shape class; optimizeTailRec's function stack is pushed and popped symmetrically (R-C20-pcsbalance). Compile-time results of functions that return errors as values are tested before they become operands (R-C04-foldresult); no emitted opjumpifnot targets its successor and no lowering code asserts an operand type it did not emit (template checks).",
		"C05": " Mutating *big.Int methods only write receivers allocated in the same function (R-C05-bigfresh); the allocator's ownership set only receives containers made by the registering function (R-C05-allocown). User callbacks only receive an argument slice of their own (R-C05-argsview); nothing returned aliases an object given back to a sync.Pool (R-C06-poolalias).",
		"C06": " (*regexp.Regexp).Longest is never called on a cached regexp (R-C06-regexpmut); option closures capture no variable they write (R-C19-optioncapture); big.Int receivers fresh (R-C05-bigfresh). Nothing returned aliases a pooled object (R-C06-poolalias); struct types published in a sync.Map have no field assigned after construction (R-C06-cacheimmut).",
		"C07": " The context polled is the caller's: RunWithContext passes its parameter itself to newEnv, which stores it; nothing else writes env.ctx (R-C07-ctxidentity).",
		"C08": " Range-over-func bodies never yield again after a discarded yield result (R-C08-yield); a slice indexed under another slice's bounds is related to it by construction, by a dominating length comparison, or at every call site (R-C08-parallel). Compile-time fold results are tested for error (R-C04-foldresult); fixed-size arrays indexed under a slice's bounds have an explicit bound test (R-C08-parallel); -Rs looks for an error before asserting string (R-C08-assert/errorfirst).",
		"C09": " No printer method reaches the value-level encoder, a toValue conversion or number normalisation (R-C09-printsyntactic). No grammar action returns a package-level node (R-C09-freshnode).",
		"C10": " Unary minus on an int from a parameter or type-switch binding is dominated by a MinInt exit (R-C10-negate); a value decoded by a third-party decoder that builds json.Number from unvalidated text is rewritten before it leaves the input iterator (R-C10-foreignnumber); no operand of Compare went through toFloat/toInt (R-C11-lossycompare). Machine-integer arithmetic inside the float and big callbacks is held to the same guard rules, and (*big.Int).Int64 is only called under IsInt64 (R-C10-guard, R-C10-bigdemote).",
		"C11": " No operand of Compare is the result of a lossy numeric conversion made in the calling function (R-C11-lossycompare). Every return of Compare is the binopTypeSwitch dispatch (R-C11-comparedispatch); slices.MaxFunc is refused for jq's max (R-C11-stable).",
		"C12": " Output encoders are never stored in a field of the cli value or a package variable (R-C12-encoderfresh); YAML number spellings are normalised before they can be printed (R-C10-foreignnumber).",
		"C13": " The native codec halves apply no lossy text transformation beyond the enumerated '+'/%20 fix-ups (R-C13-lossless). No native uses the zero time.Time as a sentinel (R-C13-zerotime).",
		"C14": " Matching methods of *regexp.Regexp are called only from funcMatch or functions only it calls (R-C14-findsingle).",
		"C15": " Every VM clause that intercepts an error lets *HaltError through first (R-C15-haltthrough); encoders are per use (R-C12-encoderfresh). The status recorded by the input loop is always the current error itself (R-C15-haltstatus); a failed slurp stays failed (R-C16-sticky).",
		"C16": " A reader that may be stdin is closed only under a test that it is not stdin (R-C16-stdinclose); nothing reachable from slurpFile reads the input-format flags (R-C16-slurpjson). The query file's text is used as read (R-C16-fileverbatim); no stale copy of the top of the --stream state stack is read after a push (R-C16-staletop).",
		"C17": " On every path of Lex/scanString returning a multi-byte kind l.token is assigned in that call (R-C17-tokenfresh); every stored token is a slice of the source or a constant (R-C17-tokensource); functions reading with (*json.Decoder).Token reconcile its offset convention with Decode's (R-C17-tokenoffset; D21, D21b). Positions counted in characters by a dependency are converted to bytes before the caret computation (R-C17-charindex).",
		"C19": " The closure an option constructor returns writes no captured local of the constructor (R-C19-optioncapture).",
		"C20": " optimizeTailRec pushes at every opscope and pops at every opret (R-C20-pcsbalance); the frame-release decision has one site (R-C20-limitowner). In opscope env.offset is read only after the frame-replacing popscope (R-C20-scopeorder); env.offset is part of the fork snapshot (R-C01-forkcover).",
	}
	for id, text := range add {
		if p := props[id]; p != nil {
			p.Decided += text
		} else {
			pendingDecided[id] = text
		}
	}
}

var pendingDecided = map[string]string{}

// ---------------------------------------------------------------------------------------------------------------------

func init() {
	reg(&Rule{ID: "R-C16-staletop", Props: []string{"C16", "C08"}, Floor: 1,
		Doc: "a local copy of the top element of a value-typed stack (x := s[len(s)-1]) is not read after the stack or its top element has been reassigned on some path from the copy: hand-written state machines (the --stream decoder) push states between reads",
		Run: ruleStaleTop})
}

func ruleStaleTop(c *Ctx, r *Rep) {
	n := 0
	for _, p := range []*packages.Package{c.Cli, c.Gojq} {
		info := p.TypesInfo
		for _, fd := range c.Decls(p) {
			if fd.Body == nil || strings.HasSuffix(c.Fset.Position(fd.Pos()).Filename, "parser.go") {
				continue
			}
			// candidates: x := S[len(S)-1] with a basic element type
			type cand struct {
				obj   types.Object
				stack string // source text of S
				def   *ast.AssignStmt
			}
			var cands []cand
			ast.Inspect(fd.Body, func(q ast.Node) bool {
				as, ok := q.(*ast.AssignStmt)
				if !ok || len(as.Lhs) != 1 || len(as.Rhs) != 1 || as.Tok != token.DEFINE {
					return true
				}
				ix, ok := unparen(as.Rhs[0]).(*ast.IndexExpr)
				if !ok {
					return true
				}
				st, ok := info.TypeOf(ix.X).Underlying().(*types.Slice)
				if !ok {
					return true
				}
				if _, basic := st.Elem().Underlying().(*types.Basic); !basic {
					return true
				}
				if c.Src(ix.Index) != "len("+c.Src(ix.X)+")-1" && c.Src(ix.Index) != "len("+c.Src(ix.X)+") - 1" {
					return true
				}
				if id, ok := as.Lhs[0].(*ast.Ident); ok && id.Name != "_" {
					cands = append(cands, cand{info.Defs[id], c.Src(ix.X), as})
				}
				return true
			})
			if len(cands) == 0 {
				continue
			}
			g := cfg.New(fd.Body, func(*ast.CallExpr) bool { return true })
			for _, cd := range cands {
				n++
				mutates := func(nd ast.Node) bool {
					found := false
					ast.Inspect(nd, func(q ast.Node) bool {
						if as, ok := q.(*ast.AssignStmt); ok && as != cd.def {
							for _, l := range as.Lhs {
								ls := c.Src(l)
								if ls == cd.stack || strings.HasPrefix(ls, cd.stack+"[") {
									found = true
								}
							}
						}
						return !found
					})
					return found
				}
				uses := func(nd ast.Node) *ast.Ident {
					var hit *ast.Ident
					ast.Inspect(nd, func(q ast.Node) bool {
						if id, ok := q.(*ast.Ident); ok && info.Uses[id] == cd.obj && hit == nil {
							hit = id
						}
						return hit == nil
					})
					return hit
				}
				// forward from the definition: state 0 = fresh, 1 = stack mutated since the copy
				type key struct {
					b  *cfg.Block
					st int
				}
				var start *cfg.Block
				startIdx := 0
				for _, b := range g.Blocks {
					for i, nd := range b.Nodes {
						if nd == ast.Node(cd.def) {
							start, startIdx = b, i+1
						}
					}
				}
				if start == nil {
					continue
				}
				var bad *ast.Ident
				seen := map[key]bool{}
				var walk func(b *cfg.Block, from, st int)
				walk = func(b *cfg.Block, from, st int) {
					for _, nd := range b.Nodes[from:] {
						if nd == ast.Node(cd.def) {
							return // redefined: a fresh copy
						}
						if st == 1 && bad == nil {
							if id := uses(nd); id != nil {
								bad = id
							}
						}
						if mutates(nd) {
							st = 1
						}
					}
					for _, s := range b.Succs {
						if !seen[key{s, st}] {
							seen[key{s, st}] = true
							walk(s, 0, st)
						}
					}
				}
				walk(start, startIdx, 0)
				k := fmt.Sprintf("top:%s:%s", declKey(fd), cd.obj.Name())
				if bad != nil {
					r.Bad(k, bad.Pos(), "%s reads %s, a copy of the top of %s taken at %s, after %s was reassigned on some path: the copy is stale (a --stream document cut right after an opening bracket would be judged by the state that was on top when the call started)", declKey(fd), cd.obj.Name(), cd.stack, c.Pos(cd.def.Pos()), cd.stack)
				} else {
					r.OK(k, cd.def.Pos(), "%s: the copy %s of the top of %s is never read after %s changes", declKey(fd), cd.obj.Name(), cd.stack, cd.stack)
				}
			}
		}
	}
	if n == 0 {
		r.OK("census", token.NoPos, "no local copy of the top of a value-typed stack in packages cli and gojq")
	}
}

// ---------------------------------------------------------------------------------------------------------------------

func init() {
	reg(&Rule{ID: "R-C17-charindex", Props: []string{"C17"}, Floor: 1,
		Doc: "a position that a third-party parser counts in characters (its mark index advances by one where its buffer position advances by the character's width) is converted to a byte offset before it is used with the byte-offset line/caret computation",
		Run: ruleCharIndex})
}

func ruleCharIndex(c *Ctx, r *Rep) {
	// 1. premise, from the dependency's source: a function that increments a field named index by one and, in the same
	//    body, advances a buffer position by a width(...) call
	var deps []*packages.Package
	packages.Visit(c.All, nil, func(p *packages.Package) { deps = append(deps, p) })
	sort.Slice(deps, func(i, j int) bool { return deps[i].PkgPath < deps[j].PkgPath })
	charCounting := map[string]token.Pos{}
	for _, p := range deps {
		if p.PkgPath == pathGojq || p.PkgPath == pathCli || p.PkgPath == pathCmd || !strings.Contains(p.PkgPath, ".") || p.TypesInfo == nil {
			continue
		}
		for _, f := range p.Syntax {
			for _, d := range f.Decls {
				fd, ok := d.(*ast.FuncDecl)
				if !ok || fd.Body == nil {
					continue
				}
				incIndex, widthAdvance := token.NoPos, false
				ast.Inspect(fd.Body, func(q ast.Node) bool {
					switch x := q.(type) {
					case *ast.IncDecStmt:
						if sel, ok := unparen(x.X).(*ast.SelectorExpr); ok && sel.Sel.Name == "index" && x.Tok == token.INC {
							incIndex = x.Pos()
						}
					case *ast.AssignStmt:
						if x.Tok == token.ADD_ASSIGN && len(x.Rhs) == 1 {
							if call, ok := unparen(x.Rhs[0]).(*ast.CallExpr); ok {
								if id, ok := call.Fun.(*ast.Ident); ok && id.Name == "width" {
									widthAdvance = true
								}
							}
						}
					}
					return true
				})
				if incIndex != token.NoPos && widthAdvance {
					if _, ok := charCounting[p.PkgPath]; !ok {
						charCounting[p.PkgPath] = incIndex
					}
				}
			}
		}
	}
	if len(charCounting) == 0 {
		r.OK("census", token.NoPos, "no dependency counts positions in characters")
		return
	}
	// 2. in package cli: a value read from a field named Index of a type of such a package must not reach the offset
	//    parameter of getLineByOffset by arithmetic alone
	p := c.Cli
	info := p.TypesInfo
	n := 0
	for _, fd := range c.Decls(p) {
		if fd.Body == nil {
			continue
		}
		// locals assigned from X.Index of a char-counting package's type
		tainted := map[types.Object]token.Pos{}
		var src string
		ast.Inspect(fd.Body, func(q ast.Node) bool {
			as, ok := q.(*ast.AssignStmt)
			if !ok || len(as.Lhs) != len(as.Rhs) {
				return true
			}
			for i, rhs := range as.Rhs {
				sel, ok := unparen(rhs).(*ast.SelectorExpr)
				if !ok || sel.Sel.Name != "Index" {
					continue
				}
				nt := namedOf(derefType(info.TypeOf(sel.X)))
				if nt == nil || nt.Obj().Pkg() == nil {
					continue
				}
				if _, ok := charCounting[nt.Obj().Pkg().Path()]; !ok {
					continue
				}
				src = nt.Obj().Pkg().Path()
				if id, ok := as.Lhs[i].(*ast.Ident); ok {
					if o := info.ObjectOf(id); o != nil {
						tainted[o] = as.Pos()
					}
				}
			}
			return true
		})
		if len(tainted) == 0 {
			continue
		}
		ast.Inspect(fd.Body, func(q ast.Node) bool {
			call, ok := q.(*ast.CallExpr)
			if !ok || !strings.HasSuffix(calleeName(info, call), ".getLineByOffset") || len(call.Args) < 2 {
				return true
			}
			n++
			// the offset argument: tainted identifiers reached only through arithmetic (no call in between) are unconverted
			raw := false
			var visit func(e ast.Expr)
			visit = func(e ast.Expr) {
				switch x := unparen(e).(type) {
				case *ast.Ident:
					if _, ok := tainted[info.Uses[x]]; ok {
						raw = true
					}
				case *ast.BinaryExpr:
					visit(x.X)
					visit(x.Y)
				case *ast.CallExpr:
					// a conversion function: whatever it does, the value is no longer used raw
					if tv, ok := info.Types[x.Fun]; ok && tv.IsType() {
						for _, a := range x.Args {
							visit(a) // a type conversion is still arithmetic
						}
					}
				}
			}
			visit(call.Args[1])
			r.Check(!raw, "index:"+declKey(fd), call.Pos(), "%s passes an Index of %s to getLineByOffset as a byte offset: converted from characters to bytes first: %v (%s counts one per character at %s while its buffer advances by the character's width; `printf 'a: \"日本語\"\\nb: ]' | gojq --yaml-input .` reports the error on line 1)",
				declKey(fd), src, !raw, src, c.Pos(charCounting[src]))
			return true
		})
	}
	if n == 0 {
		r.OK("census", token.NoPos, "%d dependencies count positions in characters; package cli does not use their Index with getLineByOffset", len(charCounting))
	}
}

// ---------------------------------------------------------------------------------------------------------------------

func init() {
	reg(&Rule{ID: "R-C13-zerotime", Props: []string{"C13", "C09"}, Floor: 1,
		Doc: "no native treats the zero time.Time as \"nothing parsed\": 0001-01-01T00:00:00Z is an instant of the domain (year 1), and the parsers used report failure through their error result",
		Run: ruleZeroTime})
}

func ruleZeroTime(c *Ctx, r *Rep) {
	p := c.Gojq
	info := p.TypesInfo
	isZeroLit := func(e ast.Expr) bool {
		cl, ok := unparen(e).(*ast.CompositeLit)
		return ok && len(cl.Elts) == 0 && isNamed(info.TypeOf(cl), "time", "Time")
	}
	n := 0
	for _, fd := range c.Decls(p) {
		if fd.Body == nil {
			continue
		}
		ast.Inspect(fd.Body, func(q ast.Node) bool {
			var pos token.Pos
			what := ""
			switch x := q.(type) {
			case *ast.CallExpr:
				if sel, ok := unparen(x.Fun).(*ast.SelectorExpr); ok && isNamed(derefType(info.TypeOf(sel.X)), "time", "Time") {
					if sel.Sel.Name == "IsZero" || (sel.Sel.Name == "Equal" && len(x.Args) == 1 && isZeroLit(x.Args[0])) {
						pos, what = x.Pos(), c.Src(x)
					}
				}
			case *ast.BinaryExpr:
				if (x.Op == token.EQL || x.Op == token.NEQ) && (isZeroLit(x.X) || isZeroLit(x.Y)) {
					pos, what = x.Pos(), c.Src(x)
				}
			}
			if what != "" {
				n++
				r.Bad("zerotime:"+declKey(fd), pos, "%s tests `%s`: the zero time is the legitimate instant 0001-01-01T00:00:00Z, inside the domain on which the date builtins are inverses (`-62135596800 | todate | fromdate` fails with \"strptime … cannot be applied\")", declKey(fd), what)
			}
			return true
		})
	}
	if n == 0 {
		r.OK("census", token.NoPos, "no comparison of a time.Time with the zero time in package gojq")
	}
}

// ---------------------------------------------------------------------------------------------------------------------

func init() {
	reg(&Rule{ID: "R-C04-foldresult", Props: []string{"C04", "C08"}, Floor: 1,
		Doc: "a value the compiler computes at compile time by calling a function that can return an error value (the natives return errors as values) is tested for error before it is stored as an instruction operand: a stored error is pushed as data at run time, past try/catch, and no encoder accepts it",
		Run: ruleFoldResult})
}

func ruleFoldResult(c *Ctx, r *Rep) {
	p := c.Gojq
	info := p.TypesInfo
	errIface := types.Universe.Lookup("error").Type().Underlying().(*types.Interface)
	memo := map[*ast.FuncDecl]int{} // 1 may return an error value, 2 does not
	var mayErr func(fd *ast.FuncDecl, depth int) bool
	mayErr = func(fd *ast.FuncDecl, depth int) bool {
		if fd == nil || fd.Body == nil || depth > 3 {
			return false
		}
		if v, ok := memo[fd]; ok {
			return v == 1
		}
		memo[fd] = 2
		res := false
		// only functions whose single result is an interface (any): an error travelling as a value
		if fd.Type.Results == nil || len(fd.Type.Results.List) != 1 {
			return false
		}
		if _, isIface := info.TypeOf(fd.Type.Results.List[0].Type).Underlying().(*types.Interface); !isIface {
			return false
		}
		if types.Implements(info.TypeOf(fd.Type.Results.List[0].Type), errIface) {
			return false // a proper error result, handled by the usual plumbing
		}
		ast.Inspect(fd.Body, func(q ast.Node) bool {
			if _, isLit := q.(*ast.FuncLit); isLit {
				return true
			}
			rs, ok := q.(*ast.ReturnStmt)
			if !ok || len(rs.Results) != 1 {
				return true
			}
			e := unparen(rs.Results[0])
			if t := info.TypeOf(e); t != nil {
				if _, isIface := t.Underlying().(*types.Interface); !isIface && types.Implements(t, errIface) {
					res = true
				}
			}
			if call, ok := e.(*ast.CallExpr); ok {
				if f, ok := callee(info, call).(*types.Func); ok && f.Pkg() != nil && f.Pkg().Path() == pathGojq && f.Type().(*types.Signature).Recv() == nil {
					if mayErr(c.Decl(p, f.Name()), depth+1) {
						res = true
					}
				}
			}
			return true
		})
		if res {
			memo[fd] = 1
		}
		return res
	}
	n := 0
	for _, fd := range c.Decls(p) {
		if fd.Body == nil || recvTypeName(fd) != "compiler" {
			continue
		}
		check := func(val ast.Expr, pos token.Pos, where string) {
			call, ok := unparen(val).(*ast.CallExpr)
			if !ok {
				return
			}
			f, ok := callee(info, call).(*types.Func)
			if !ok || f.Pkg() == nil || f.Pkg().Path() != pathGojq || f.Type().(*types.Signature).Recv() != nil {
				return
			}
			if !mayErr(c.Decl(p, f.Name()), 0) {
				return
			}
			n++
			r.Bad("operand:"+declKey(fd)+":"+f.Name(), pos, "%s stores the result of %s(…) %s without testing it for error: %s returns errors as values (e.g. a type error for a non-number), so `try -\"a\" catch \"caught\"` would emit the error object as data instead of \"caught\", and encoding it panics", declKey(fd), f.Name(), where, f.Name())
		}
		ast.Inspect(fd.Body, func(q ast.Node) bool {
			switch x := q.(type) {
			case *ast.CompositeLit:
				if !isNamed(info.TypeOf(x), pathGojq, "code") {
					return true
				}
				for _, el := range x.Elts {
					if kv, ok := el.(*ast.KeyValueExpr); ok {
						if id, ok := kv.Key.(*ast.Ident); ok && id.Name == "v" {
							check(kv.Value, kv.Pos(), "as the operand of a new instruction")
						}
					}
				}
			case *ast.AssignStmt:
				for i, l := range x.Lhs {
					if sel, ok := unparen(l).(*ast.SelectorExpr); ok && sel.Sel.Name == "v" && isNamed(derefType(info.TypeOf(sel.X)), pathGojq, "code") && i < len(x.Rhs) {
						check(x.Rhs[i], x.Pos(), "into the operand of an existing instruction")
					}
				}
			}
			return true
		})
	}
	if n == 0 {
		r.OK("census", token.NoPos, "no instruction operand is the unchecked result of a function that returns errors as values")
	}
}

// ---------------------------------------------------------------------------------------------------------------------

func init() {
	reg(&Rule{ID: "R-C01-internalname", Props: []string{"C01", "C03"}, Floor: 8,
		Doc: "a function name the compiler synthesises for a construct that jq implements internally (the conversion applied to the pieces of an interpolated string, the @format encoders) lies in gojq's reserved `_` namespace, so that a user definition of the public name cannot capture it; names that jq itself binds by name (`recurse` for `..`, `debug` inside debug/1) are the enumerated exceptions",
		Run: ruleInternalName})
}

func ruleInternalName(c *Ctx, r *Rep) {
	p := c.Gojq
	info := p.TypesInfo
	byName := map[string]string{
		"recurse": "jq's `..` is gen_call(\"recurse\") and binds to a user definition too (`def recurse: 1; [..]` is [1] in jq)",
		"debug":   "jq defines debug/1 in jq as (msg | debug | empty), . — bound by name",
		"format":  "reached only for a format name that jq rejects at compile time; the synthesised call exists to raise that error at run time",
	}
	n := 0
	for _, fd := range c.Decls(p) {
		if fd.Body == nil || c.PhysFile(fd.Pos()) == "parser.go" {
			continue
		}
		if !strings.HasSuffix(c.Fset.Position(fd.Pos()).Filename, "compiler.go") {
			continue
		}
		ast.Inspect(fd.Body, func(q ast.Node) bool {
			cl, ok := q.(*ast.CompositeLit)
			if !ok || !isNamed(info.TypeOf(cl), pathGojq, "Func") {
				return true
			}
			for _, el := range cl.Elts {
				kv, ok := el.(*ast.KeyValueExpr)
				if !ok {
					continue
				}
				if id, ok := kv.Key.(*ast.Ident); !ok || id.Name != "Name" {
					continue
				}
				name, isConst := constString(info, kv.Value)
				if !isConst {
					continue // a name taken from the program text (a variable, an operator's function)
				}
				n++
				key := fmt.Sprintf("name:%s:%s", declKey(fd), name)
				switch {
				case strings.HasPrefix(name, "_"):
					r.OK(key, cl.Pos(), "%s synthesises a call of %s (reserved namespace)", declKey(fd), name)
				case byName[name] != "":
					r.OK(key, cl.Pos(), "%s synthesises a call of %s by name, as jq does: %s", declKey(fd), name, byName[name])
				default:
					r.Bad(key, cl.Pos(), "%s synthesises a call of the public name %s and compiles it through the ordinary lookup: a user definition captures it (`def %s: \"h\"; \"\\(1)\"` yields \"h\"; jq applies the conversion internally and yields \"1\")", declKey(fd), name, name)
				}
			}
			return true
		})
	}
	if n == 0 {
		r.Undecided("census", token.NoPos, "no synthesised function name found in compiler.go")
	}
}

// ---------------------------------------------------------------------------------------------------------------------

func init() {
	reg(&Rule{ID: "R-C05-argsview", Props: []string{"C05", "C19"}, Floor: 2,
		Doc: "a user-supplied Go function (WithFunction/WithIterFunction) is only ever called with an argument slice of its own: the VM hands natives a view of its reusable env.args buffer, so the registration wraps the user's function and clones the slice; a callback that returns or keeps its arguments must not see them change",
		Run: ruleArgsView})
}

func ruleArgsView(c *Ctx, r *Rep) {
	p := c.Gojq
	info := p.TypesInfo
	n := 0
	for _, fd := range c.Decls(p) {
		if fd.Body == nil || !strings.HasSuffix(c.Fset.Position(fd.Pos()).Filename, "option.go") {
			continue
		}
		// parameters of type func(any, []any) any: user callbacks
		var cbs []types.Object
		for _, fld := range fd.Type.Params.List {
			sig, ok := info.TypeOf(fld.Type).(*types.Signature)
			if !ok || sig.Params().Len() != 2 || sig.Results().Len() != 1 {
				continue
			}
			if _, isSlice := sig.Params().At(1).Type().Underlying().(*types.Slice); !isSlice {
				continue
			}
			for _, nm := range fld.Names {
				cbs = append(cbs, info.Defs[nm])
			}
		}
		if len(cbs) == 0 {
			continue
		}
		// aliases of the raw callback (g := f) are raw too; a parameter reassigned to a function literal (f = func…{ g(…) })
		// denotes the wrapper from then on
		for _, st := range fd.Body.List {
			as, ok := st.(*ast.AssignStmt)
			if !ok || len(as.Lhs) != 1 || len(as.Rhs) != 1 {
				continue
			}
			lid, ok := as.Lhs[0].(*ast.Ident)
			if !ok {
				continue
			}
			if rid, ok := unparen(as.Rhs[0]).(*ast.Ident); ok && as.Tok == token.DEFINE {
				for _, o := range cbs {
					if info.Uses[rid] == o {
						cbs = append(cbs, info.Defs[lid])
						break
					}
				}
			}
			if _, isLit := unparen(as.Rhs[0]).(*ast.FuncLit); isLit && as.Tok == token.ASSIGN {
				for i, o := range cbs {
					if info.Uses[lid] == o {
						cbs = append(cbs[:i:i], cbs[i+1:]...)
						break
					}
				}
			}
		}
		// a closure handed to another registration helper of this file is that helper's obligation
		delegated := map[*ast.FuncLit]bool{}
		ast.Inspect(fd.Body, func(q ast.Node) bool {
			if call, ok := q.(*ast.CallExpr); ok {
				if f, ok := callee(info, call).(*types.Func); ok && f.Pkg() != nil && f.Pkg().Path() == pathGojq {
					if d := c.Decl(p, f.Name()); d != nil && strings.HasSuffix(c.Fset.Position(d.Pos()).Filename, "option.go") {
						for _, a := range call.Args {
							if fl, ok := unparen(a).(*ast.FuncLit); ok {
								delegated[fl] = true
							}
						}
					}
				}
			}
			return true
		})
		isCB := func(e ast.Expr) bool {
			id, ok := unparen(e).(*ast.Ident)
			if !ok {
				return false
			}
			for _, o := range cbs {
				if info.Uses[id] == o {
					return true
				}
			}
			return false
		}
		fresh := func(e ast.Expr) bool {
			call, ok := unparen(e).(*ast.CallExpr)
			if !ok {
				return false
			}
			switch calleeName(info, call) {
			case "slices.Clone":
				return true
			}
			if id, ok := call.Fun.(*ast.Ident); ok && id.Name == "append" && len(call.Args) >= 1 {
				if cl, ok := unparen(call.Args[0]).(*ast.CallExpr); ok && len(cl.Args) == 1 && isNilIdent(cl.Args[0]) {
					return true // append([]any(nil), xs...)
				}
				if cl, ok := unparen(call.Args[0]).(*ast.CompositeLit); ok && len(cl.Elts) == 0 {
					return true // append([]any{}, xs...)
				}
			}
			return false
		}
		ast.Inspect(fd.Body, func(q ast.Node) bool {
			switch x := q.(type) {
			case *ast.FuncLit:
				if delegated[x] {
					n++
					r.OK("callback:"+declKey(fd)+":delegated", x.Pos(), "%s wraps the user's function in a closure that another registration helper of option.go installs", declKey(fd))
					return false
				}
			case *ast.CompositeLit:
				if !isNamed(info.TypeOf(x), pathGojq, "function") {
					return true
				}
				for _, el := range x.Elts {
					v := el
					if kv, ok := el.(*ast.KeyValueExpr); ok {
						v = kv.Value
					}
					if isCB(v) {
						n++
						r.Bad("callback:"+declKey(fd)+":direct", v.Pos(), "%s installs the user's function itself as the callback: the VM calls callbacks with a view of its reusable env.args buffer, so a function that returns or keeps its arguments sees them overwritten by the next call (`[f(1;2), f(3;4)]` with f returning its arguments yields [[3,4],[3,4]])", declKey(fd))
					}
				}
			case *ast.CallExpr:
				if isCB(x.Fun) && len(x.Args) == 2 {
					n++
					r.Check(fresh(x.Args[1]), "callback:"+declKey(fd)+":call", x.Pos(), "%s calls the user's function with %s: a slice of its own (slices.Clone / append to nil): %v", declKey(fd), c.Src(x.Args[1]), fresh(x.Args[1]))
				}
			}
			return true
		})
	}
	if n == 0 {
		r.Undecided("census", token.NoPos, "no use of a user callback found in option.go")
	}
}

// ---------------------------------------------------------------------------------------------------------------------

func init() {
	reg(&Rule{ID: "R-C09-freshnode", Props: []string{"C09", "C06"}, Floor: 20,
		Doc: "no grammar action returns a package-level node: the suffix and operator actions extend the node they are given in place ($1.(*Term).SuffixList = append(…)), which is only sound when every action builds its own node",
		Run: ruleFreshNode})
	reg(&Rule{ID: "R-C10-bigdemote", Props: []string{"C10"}, Floor: 2,
		Doc: "every (*big.Int).Int64 / Uint64 call is dominated by IsInt64 / IsUint64 of the same receiver: any other size test (BitLen against the word size) is off by one at 2^63",
		Run: ruleBigDemote})
}

func ruleFreshNode(c *Ctx, r *Rep) {
	p := c.Gojq
	info := p.TypesInfo
	n := 0
	for _, f := range p.Syntax {
		if c.PhysFile(f.Pos()) != "parser.go" {
			continue
		}
		ast.Inspect(f, func(q ast.Node) bool {
			as, ok := q.(*ast.AssignStmt)
			if !ok || len(as.Lhs) != 1 || len(as.Rhs) != 1 {
				return true
			}
			sel, ok := unparen(as.Lhs[0]).(*ast.SelectorExpr)
			if !ok || sel.Sel.Name != "value" || c.Src(sel.X) != "yyVAL" {
				return true
			}
			n++
			rhs := unparen(as.Rhs[0])
			if u, ok := rhs.(*ast.UnaryExpr); ok && u.Op == token.AND {
				rhs = unparen(u.X)
			}
			if id, ok := rhs.(*ast.Ident); ok {
				if v, ok := info.Uses[id].(*types.Var); ok && v.Parent() == p.Types.Scope() {
					r.Bad(fmt.Sprintf("action:%s", id.Name), as.Pos(), "a grammar action returns the package-level node %s: later actions extend the node they receive in place, so one query's suffixes would be appended to every use of the shared node, in this and every other parse (`. .a` changes what `.` means)", id.Name)
					return true
				}
			}
			return true
		})
	}
	if n < 20 {
		r.Undecided("census", token.NoPos, "only %d grammar actions assigning yyVAL.value found in parser.go", n)
		return
	}
	for i := 0; i < n; i++ {
		r.OK(fmt.Sprintf("action#%d", i), token.NoPos, "action builds its own node or passes on the one it was given")
	}
}

func ruleBigDemote(c *Ctx, r *Rep) {
	n := 0
	for _, p := range []*packages.Package{c.Gojq, c.Cli} {
		info := p.TypesInfo
		for _, fd := range c.Decls(p) {
			if fd.Body == nil {
				continue
			}
			walkStack(fd.Body, func(q ast.Node, stack []ast.Node) bool {
				call, ok := q.(*ast.CallExpr)
				if !ok {
					return true
				}
				sel, ok := unparen(call.Fun).(*ast.SelectorExpr)
				if !ok || (sel.Sel.Name != "Int64" && sel.Sel.Name != "Uint64") || !isNamed(derefType(info.TypeOf(sel.X)), "math/big", "Int") {
					return true
				}
				n++
				want := c.Src(sel.X) + ".Is" + sel.Sel.Name + "()"
				guarded := false
				for i := len(stack) - 1; i >= 0 && !guarded; i-- {
					switch b := stack[i].(type) {
					case *ast.IfStmt:
						if b.Body.Pos() <= call.Pos() && call.End() <= b.Body.End() && strings.Contains(c.Src(b.Cond), want) && !strings.Contains(c.Src(b.Cond), "!"+want) {
							guarded = true
						}
					case *ast.BlockStmt:
						for _, st := range b.List {
							if st.End() > call.Pos() {
								break
							}
							if ifs, ok := st.(*ast.IfStmt); ok && strings.Contains(c.Src(ifs.Cond), "!"+want) && endsInReturn(ifs.Body) {
								guarded = true
							}
						}
					}
				}
				r.Check(guarded, fmt.Sprintf("demote:%s:%s", declKey(fd), c.Src(call)), call.Pos(), "%s in %s is under `%s`: %v (Int64 of a value outside the range is undefined; a width test such as BitLen() <= 64 admits 2^63 … 2^64−1, which wrap)", c.Src(call), declKey(fd), want, guarded)
				return true
			})
		}
	}
	if n == 0 {
		r.Undecided("census", token.NoPos, "no (*big.Int).Int64 call found")
	}
}

// ---------------------------------------------------------------------------------------------------------------------

func init() {
	reg(&Rule{ID: "R-C11-comparedispatch", Props: []string{"C11", "C03"}, Floor: 1,
		Doc: "every return of Compare is the one binopTypeSwitch dispatch: a fast path in front of it is a second comparison algorithm for some pair of representations, and the order stops being one relation (`-0` against `0` as literals vs through every other route)",
		Run: ruleCompareDispatch})
	reg(&Rule{ID: "R-C15-haltstatus", Props: []string{"C15"}, Floor: 3,
		Doc: "in the per-input loop of cli.process the error that decides the exit status is always the current one (err = e with e the error just seen): a halt on a later input reports its own status even when an earlier input failed",
		Run: ruleHaltStatus})
	reg(&Rule{ID: "R-C16-fileverbatim", Props: []string{"C16", "C17"}, Floor: 1,
		Doc: "the text of a query file (-f) reaches the parser as read: string(src) of os.ReadFile's result, with nothing applied to it (passing the file equals passing its text)",
		Run: ruleFileVerbatim})
}

func ruleCompareDispatch(c *Ctx, r *Rep) {
	fd := c.Decl(c.Gojq, "Compare")
	if fd == nil {
		r.Undecided("anchor", token.NoPos, "Compare not found")
		return
	}
	info := c.Gojq.TypesInfo
	n, bad := 0, 0
	var visit func(n ast.Node) bool
	visit = func(q ast.Node) bool {
		if _, isLit := q.(*ast.FuncLit); isLit {
			return false
		}
		rs, ok := q.(*ast.ReturnStmt)
		if !ok {
			return true
		}
		n++
		okc := false
		if len(rs.Results) == 1 {
			if call, ok := unparen(rs.Results[0]).(*ast.CallExpr); ok && strings.HasPrefix(calleeName(info, call), "gojq.binopTypeSwitch") {
				okc = true
			}
		}
		if !okc {
			bad++
			r.Bad("return:"+c.Src(rs), rs.Pos(), "Compare returns `%s` without going through binopTypeSwitch: a second comparison algorithm for the operands that reach this return", c.Src(rs))
		}
		return true
	}
	ast.Inspect(fd.Body, visit)
	if n == 0 {
		r.Undecided("returns", fd.Pos(), "Compare has no return statement")
	} else if bad == 0 {
		r.OK("dispatch", fd.Pos(), "all %d returns of Compare are the binopTypeSwitch dispatch", n)
	}
}

func ruleHaltStatus(c *Ctx, r *Rep) {
	p := c.Cli
	info := p.TypesInfo
	fd := c.Decl(p, "cli.process")
	if fd == nil {
		r.Undecided("anchor", token.NoPos, "cli.process not found")
		return
	}
	// the function's status variable: the `var err error` declared at the top
	var errObj types.Object
	for _, st := range fd.Body.List {
		if ds, ok := st.(*ast.DeclStmt); ok {
			if gd, ok := ds.Decl.(*ast.GenDecl); ok {
				for _, sp := range gd.Specs {
					if vs, ok := sp.(*ast.ValueSpec); ok && len(vs.Names) == 1 && types.TypeString(info.TypeOf(vs.Names[0]), nil) == "error" {
						errObj = info.Defs[vs.Names[0]]
					}
				}
			}
		}
	}
	if errObj == nil {
		r.Undecided("status-var", fd.Pos(), "no `var err error` at the top of cli.process")
		return
	}
	n := 0
	ast.Inspect(fd.Body, func(q ast.Node) bool {
		as, ok := q.(*ast.AssignStmt)
		if !ok || len(as.Lhs) != 1 || len(as.Rhs) != 1 {
			return true
		}
		id, ok := as.Lhs[0].(*ast.Ident)
		if !ok || info.Uses[id] != errObj {
			return true
		}
		n++
		rid, isIdent := unparen(as.Rhs[0]).(*ast.Ident)
		good := isIdent && info.Uses[rid] != errObj
		r.Check(good, fmt.Sprintf("assign:%s", c.Src(as)), as.Pos(), "cli.process records the status with `%s`: the current error itself: %v (first-error-wins loses the status of a later halt: `echo 1 2 | gojq 'if .==1 then error(\"x\") else halt_error(3) end'` must exit 3)", c.Src(as), good)
		return true
	})
	if n == 0 {
		r.Undecided("census", fd.Pos(), "cli.process never assigns its status variable")
	}
}

func ruleFileVerbatim(c *Ctx, r *Rep) {
	p := c.Cli
	info := p.TypesInfo
	fd := c.Decl(p, "cli.runInternal")
	if fd == nil {
		r.Undecided("anchor", token.NoPos, "cli.runInternal not found")
		return
	}
	// src, err := os.ReadFile(…)
	var srcObj types.Object
	ast.Inspect(fd.Body, func(q ast.Node) bool {
		as, ok := q.(*ast.AssignStmt)
		if !ok || len(as.Rhs) != 1 {
			return true
		}
		if call, ok := unparen(as.Rhs[0]).(*ast.CallExpr); ok && calleeName(info, call) == "os.ReadFile" && len(as.Lhs) >= 1 {
			if id, ok := as.Lhs[0].(*ast.Ident); ok {
				srcObj = info.ObjectOf(id)
			}
		}
		return true
	})
	if srcObj == nil {
		r.Undecided("readfile", fd.Pos(), "no `src, err := os.ReadFile(…)` in cli.runInternal")
		return
	}
	n := 0
	ast.Inspect(fd.Body, func(q ast.Node) bool {
		as, ok := q.(*ast.AssignStmt)
		if !ok {
			return true
		}
		for _, rhs := range as.Rhs {
			uses := false
			ast.Inspect(rhs, func(w ast.Node) bool {
				if id, ok := w.(*ast.Ident); ok && info.Uses[id] == srcObj {
					uses = true
				}
				return true
			})
			if !uses {
				continue
			}
			n++
			good := false
			if call, ok := unparen(rhs).(*ast.CallExpr); ok && len(call.Args) == 1 {
				if tv, ok := info.Types[call.Fun]; ok && tv.IsType() && types.TypeString(tv.Type, nil) == "string" {
					if id, ok := unparen(call.Args[0]).(*ast.Ident); ok && info.Uses[id] == srcObj {
						good = true
					}
				}
			}
			r.Check(good, "queryfile:"+c.Src(rhs), rhs.Pos(), "the query file's bytes become the query text as `%s`: exactly string(src): %v (a normalisation of line ends, for instance, lets a raw CR inside a string literal through that the same text given as an argument is rejected for)", c.Src(rhs), good)
		}
		return true
	})
	if n == 0 {
		r.Undecided("census", fd.Pos(), "the bytes read from the query file are never used")
	}
	// the variable that holds the file's text is not rewritten on the way to the parser: an assignment to it that lies
	// after the file branch, in a block enclosing that branch, transforms the file's text too (a TrimSpace hoisted out
	// of the argument branch moves every reported position of a query file that starts with blank lines)
	var textObj types.Object
	var fileAssign *ast.AssignStmt
	ast.Inspect(fd.Body, func(q ast.Node) bool {
		as, ok := q.(*ast.AssignStmt)
		if !ok || len(as.Lhs) != len(as.Rhs) {
			return true
		}
		for i, rhs := range as.Rhs {
			if call, ok := unparen(rhs).(*ast.CallExpr); ok && len(call.Args) == 1 {
				if id, ok := unparen(call.Args[0]).(*ast.Ident); ok && info.Uses[id] == srcObj {
					if lid, ok := as.Lhs[i].(*ast.Ident); ok {
						textObj, fileAssign = info.ObjectOf(lid), as
					}
				}
			}
		}
		return true
	})
	if textObj != nil {
		walkStack(fd.Body, func(q ast.Node, stack []ast.Node) bool {
			as, ok := q.(*ast.AssignStmt)
			if !ok || as == fileAssign || as.Pos() < fileAssign.Pos() {
				return true
			}
			assigns := false
			for _, lhs := range as.Lhs {
				if id, ok := lhs.(*ast.Ident); ok && info.ObjectOf(id) == textObj {
					assigns = true
				}
			}
			if !assigns {
				return true
			}
			// innermost enclosing block of the assignment
			for i := len(stack) - 1; i >= 0; i-- {
				if b, ok := stack[i].(*ast.BlockStmt); ok {
					if b.Pos() <= fileAssign.Pos() && fileAssign.End() <= b.End() {
						r.Bad("queryfile:rewritten:"+c.Src(as), as.Pos(), "`%s` rewrites the variable that holds the query file's text after it was read: the text the parser sees (and every position it reports) is no longer the file's", c.Src(as))
					}
					break
				}
			}
			return true
		})
		r.OK("queryfile:downstream", fileAssign.Pos(), "no assignment to %s downstream of the file branch", textObj.Name())
		// the query given as an argument keeps its beginning: positions are reported against the text the user wrote, so
		// nothing may be removed in front of the first token (TrimSpace drops leading blank lines: an error on the fourth
		// line of the argument is reported on the second)
		prefixRemoving := map[string]bool{"strings.TrimSpace": true, "strings.TrimLeft": true, "strings.TrimLeftFunc": true, "strings.TrimPrefix": true,
			"strings.Trim": true, "strings.TrimFunc": true, "strings.Fields": true, "strings.CutPrefix": true}
		suffixOnly := map[string]bool{"strings.TrimRight": true, "strings.TrimRightFunc": true, "strings.TrimSuffix": true}
		ast.Inspect(fd.Body, func(q ast.Node) bool {
			as, ok := q.(*ast.AssignStmt)
			if !ok || as == fileAssign || len(as.Lhs) != len(as.Rhs) {
				return true
			}
			for i, lhs := range as.Lhs {
				id, ok := lhs.(*ast.Ident)
				if !ok || info.ObjectOf(id) != textObj {
					continue
				}
				rhs := unparen(as.Rhs[i])
				key := "queryarg:" + c.Src(rhs)
				call, isCall := rhs.(*ast.CallExpr)
				switch {
				case !isCall:
					r.OK(key, rhs.Pos(), "the query text is `%s` as given", c.Src(rhs))
				case prefixRemoving[calleeName(info, call)]:
					r.Bad(key, rhs.Pos(), "the query given as an argument goes through %s, which removes what precedes the first token: with `gojq $'\\n\\n.a |\\n.b c'` the error on the fourth line is reported on line 2, and the column of an error on the first line ignores the leading blanks the user typed", calleeName(info, call))
				case suffixOnly[calleeName(info, call)]:
					r.OK(key, rhs.Pos(), "the query text only loses trailing characters (%s): no reported position moves", calleeName(info, call))
				default:
					r.Undecided(key, rhs.Pos(), "the query text is transformed by %s, which this rule does not know to preserve the beginning of the text", calleeName(info, call))
				}
			}
			return true
		})
	}
}

// ---------------------------------------------------------------------------------------------------------------------

func init() {
	reg(&Rule{ID: "R-C06-poolalias", Props: []string{"C06", "C05", "C12"}, Floor: 1,
		Doc: "a function that gives an object back to a sync.Pool (Put, also deferred) returns nothing that aliases it: b.Bytes() of a pooled buffer is overwritten by the next caller while the previous result is still in use",
		Run: rulePoolAlias})
	reg(&Rule{ID: "R-C06-cacheimmut", Props: []string{"C06"}, Floor: 1,
		Doc: "what is published in a sync.Map cache is immutable: no field of a struct type whose pointer is stored in a sync.Map is assigned outside a composite literal (a lazily filled field of a shared cache entry is an unsynchronised write under concurrent runs)",
		Run: ruleCacheImmut})
}

func rulePoolAlias(c *Ctx, r *Rep) {
	n := 0
	for _, p := range []*packages.Package{c.Gojq, c.Cli} {
		info := p.TypesInfo
		for _, fd := range c.Decls(p) {
			if fd.Body == nil {
				continue
			}
			var pooled []types.Object
			ast.Inspect(fd.Body, func(q ast.Node) bool {
				call, ok := q.(*ast.CallExpr)
				if !ok {
					return true
				}
				if o := callee(info, call); o != nil && objPath(o) == "sync.(Pool).Put" && len(call.Args) == 1 {
					if id, ok := unparen(call.Args[0]).(*ast.Ident); ok {
						pooled = append(pooled, info.Uses[id])
					}
				}
				return true
			})
			if len(pooled) == 0 {
				continue
			}
			ast.Inspect(fd.Body, func(q ast.Node) bool {
				if _, isLit := q.(*ast.FuncLit); isLit {
					return false
				}
				rs, ok := q.(*ast.ReturnStmt)
				if !ok {
					return true
				}
				for _, res := range rs.Results {
					t := info.TypeOf(res)
					if t == nil {
						continue
					}
					switch t.Underlying().(type) {
					case *types.Slice, *types.Pointer, *types.Map, *types.Interface:
					default:
						continue
					}
					// copies
					if call, ok := unparen(res).(*ast.CallExpr); ok {
						switch calleeName(info, call) {
						case "bytes.Clone", "slices.Clone", "maps.Clone":
							continue
						}
						if id, ok := call.Fun.(*ast.Ident); ok && id.Name == "append" {
							continue
						}
					}
					mentions := false
					ast.Inspect(res, func(w ast.Node) bool {
						if id, ok := w.(*ast.Ident); ok {
							for _, o := range pooled {
								if info.Uses[id] == o {
									mentions = true
								}
							}
						}
						return true
					})
					n++
					r.Check(!mentions, fmt.Sprintf("pool:%s:%s", declKey(fd), c.Src(res)), res.Pos(), "%s returns `%s` and gives the object it is taken from back to a sync.Pool: result independent of the pooled object: %v (the next Get hands the same storage to another caller; a retained result turns into that caller's text)", declKey(fd), c.Src(res), !mentions)
				}
				return true
			})
		}
	}
	if n == 0 {
		r.OK("census", token.NoPos, "no function in gojq or cli returns a reference while giving an object back to a sync.Pool")
	}
}

func ruleCacheImmut(c *Ctx, r *Rep) {
	p := c.Gojq
	info := p.TypesInfo
	// struct types (of package gojq) whose pointers are stored in a sync.Map
	cached := map[*types.Named]token.Pos{}
	for _, fd := range c.Decls(p) {
		if fd.Body == nil {
			continue
		}
		ast.Inspect(fd.Body, func(q ast.Node) bool {
			call, ok := q.(*ast.CallExpr)
			if !ok {
				return true
			}
			o := callee(info, call)
			if o == nil {
				return true
			}
			switch objPath(o) {
			case "sync.(Map).Store", "sync.(Map).LoadOrStore", "sync.(Map).Swap":
			default:
				return true
			}
			if len(call.Args) < 2 {
				return true
			}
			if nt := namedOf(derefType(info.TypeOf(call.Args[1]))); nt != nil && nt.Obj().Pkg() != nil && nt.Obj().Pkg().Path() == pathGojq {
				if _, isStruct := nt.Underlying().(*types.Struct); isStruct {
					cached[nt] = call.Pos()
				}
			}
			return true
		})
	}
	if len(cached) == 0 {
		r.OK("census", token.NoPos, "no struct type of package gojq is stored in a sync.Map (the regexp cache stores *regexp.Regexp, guarded by R-C06-regexpmut)")
		return
	}
	n := 0
	for _, fd := range c.Decls(p) {
		if fd.Body == nil {
			continue
		}
		ast.Inspect(fd.Body, func(q ast.Node) bool {
			as, ok := q.(*ast.AssignStmt)
			if !ok {
				return true
			}
			for _, l := range as.Lhs {
				sel, ok := unparen(l).(*ast.SelectorExpr)
				if !ok {
					continue
				}
				s := info.Selections[sel]
				if s == nil || s.Kind() != types.FieldVal {
					continue
				}
				nt := namedOf(derefType(s.Recv()))
				if nt == nil {
					continue
				}
				if pos, ok := cached[nt]; ok {
					n++
					r.Bad(fmt.Sprintf("field:%s:%s.%s", declKey(fd), nt.Obj().Name(), sel.Sel.Name), as.Pos(), "%s assigns %s.%s, a field of a type whose values are published in a sync.Map (stored at %s): concurrent runs of the same Code share the entry, so this is an unsynchronised write (identical outputs, visible only to the race detector)", declKey(fd), nt.Obj().Name(), sel.Sel.Name, c.Pos(pos))
				}
			}
			return true
		})
	}
	if n == 0 {
		r.OK("immutable", token.NoPos, "%d cached struct types, no field of them assigned outside a composite literal", len(cached))
	}
}

// ---------------------------------------------------------------------------------------------------------------------

func init() {
	reg(&Rule{ID: "R-C01-forkcover", Props: []string{"C01", "C20"}, Floor: 2,
		Doc: "every integer field of env that forward execution changes is snapshotted by pushfork and reinstated by popfork (pc travels as the fork's own pc; label is an id generator that must not go back): R-C01-forkpair checks the fields the fork has, this rule that it has all it needs",
		Run: ruleForkCover})
	reg(&Rule{ID: "R-C20-scopeorder", Props: []string{"C20", "C01"}, Floor: 2,
		Doc: "in the opscope clause every read of env.offset that sizes or places the new frame comes after the popscope() of the frame-replacing tail call on every path: an offset read before it is the released frame's end, so the slots popscope just released are never reused",
		Run: ruleScopeOrder})
}

func ruleForkCover(c *Ctx, r *Rep) {
	p := c.Gojq
	info := p.TypesInfo
	envT, _ := p.Types.Scope().Lookup("env").(*types.TypeName)
	if envT == nil {
		r.Undecided("anchor", token.NoPos, "type env not found")
		return
	}
	st, _ := envT.Type().Underlying().(*types.Struct)
	push, pop := c.Decl(p, "env.pushfork"), c.Decl(p, "env.popfork")
	if st == nil || push == nil || pop == nil {
		r.Undecided("anchor", token.NoPos, "env struct, pushfork or popfork not found")
		return
	}
	exempt := map[string]string{
		"pc":    "saved as the fork's own pc by the caller of pushfork",
		"label": "a generator of unique label ids: restoring it would hand out an id that a pending forklabel still owns",
	}
	fieldOf := func(e ast.Expr) string {
		sel, ok := unparen(e).(*ast.SelectorExpr)
		if !ok {
			return ""
		}
		s := info.Selections[sel]
		if s == nil || s.Kind() != types.FieldVal || !isNamed(derefType(s.Recv()), pathGojq, "env") {
			return ""
		}
		return sel.Sel.Name
	}
	// integer fields written anywhere except newEnv / pushfork / popfork
	written := map[string]token.Pos{}
	for _, fd := range c.Decls(p) {
		if fd.Body == nil || fd == push || fd == pop || fd.Name.Name == "newEnv" {
			continue
		}
		ast.Inspect(fd.Body, func(q ast.Node) bool {
			switch x := q.(type) {
			case *ast.AssignStmt:
				for _, l := range x.Lhs {
					if f := fieldOf(l); f != "" {
						if _, ok := written[f]; !ok {
							written[f] = x.Pos()
						}
					}
				}
			case *ast.IncDecStmt:
				if f := fieldOf(x.X); f != "" {
					if _, ok := written[f]; !ok {
						written[f] = x.Pos()
					}
				}
			}
			return true
		})
	}
	reads := func(fd *ast.FuncDecl, f string) bool {
		found := false
		ast.Inspect(fd.Body, func(q ast.Node) bool {
			if e, ok := q.(ast.Expr); ok && fieldOf(e) == f {
				found = true
			}
			return true
		})
		return found
	}
	assigns := func(fd *ast.FuncDecl, f string) bool {
		found := false
		ast.Inspect(fd.Body, func(q ast.Node) bool {
			if as, ok := q.(*ast.AssignStmt); ok {
				for _, l := range as.Lhs {
					if fieldOf(l) == f {
						found = true
					}
				}
			}
			return true
		})
		return found
	}
	n := 0
	for i := 0; i < st.NumFields(); i++ {
		fld := st.Field(i)
		bt, ok := fld.Type().Underlying().(*types.Basic)
		if !ok || bt.Info()&types.IsInteger == 0 {
			continue
		}
		pos, w := written[fld.Name()]
		if !w {
			continue
		}
		n++
		if why, ok := exempt[fld.Name()]; ok {
			r.OK("field:"+fld.Name(), pos, "env.%s is changed by forward execution and deliberately not part of the snapshot: %s", fld.Name(), why)
			continue
		}
		saved, restored := reads(push, fld.Name()), assigns(pop, fld.Name())
		r.Check(saved && restored, "field:"+fld.Name(), pos, "env.%s is changed by forward execution (first at %s); pushfork reads it: %v, popfork reinstates it: %v (without it a frame left by backtracking instead of returning never gives its variable slots back, or a bracket depth survives into the alternative)", fld.Name(), c.Pos(pos), saved, restored)
	}
	if n < 2 {
		r.Undecided("census", token.NoPos, "only %d integer fields of env are written by forward execution (offset and expdepth are expected)", n)
	}
}

func ruleScopeOrder(c *Ctx, r *Rep) {
	vm := getVM(c)
	if vm.Err != "" {
		r.Undecided("vm-model", token.NoPos, "%s", vm.Err)
		return
	}
	cl := vm.ByOp["opscope"]
	if cl == nil {
		r.Undecided("anchor", token.NoPos, "no opscope clause")
		return
	}
	// position of the popscope() call inside the clause
	var popPos token.Pos
	ast.Inspect(cl.CC, func(q ast.Node) bool {
		if call, ok := q.(*ast.CallExpr); ok && vm.envMethod(call) == "popscope" {
			popPos = call.Pos()
		}
		return true
	})
	if popPos == token.NoPos {
		r.Undecided("popscope", cl.CC.Pos(), "the opscope clause does not call env.popscope()")
		return
	}
	n := 0
	ast.Inspect(cl.CC, func(q ast.Node) bool {
		sel, ok := q.(*ast.SelectorExpr)
		if !ok || sel.Sel.Name != "offset" {
			return true
		}
		if s := vm.info.Selections[sel]; s == nil || !isNamed(derefType(s.Recv()), pathGojq, "env") {
			return true
		}
		n++
		r.Check(sel.Pos() > popPos, fmt.Sprintf("offset-use#%d", n), sel.Pos(), "the opscope clause uses env.offset at %s; the frame-replacing popscope() is at %s: after it: %v (read before it, the value is the end of the frame about to be released, and each tail call leaks the function's variable slots)", c.Pos(sel.Pos()), c.Pos(popPos), sel.Pos() > popPos)
		return true
	})
	if n == 0 {
		r.Undecided("census", cl.CC.Pos(), "the opscope clause never uses env.offset")
	}
}

// ---------------------------------------------------------------------------------------------------------------------

func init() {
	reg(&Rule{ID: "R-C01-slotmonotone", Props: []string{"C01", "C20"}, Floor: 1,
		Doc: "a scope's variable counter only grows: slots are never handed out twice within one frame, because a generator that owns a slot can be resumed after any later code of the frame has run",
		Run: ruleSlotMonotone})
}

func ruleSlotMonotone(c *Ctx, r *Rep) {
	p := c.Gojq
	info := p.TypesInfo
	n := 0
	for _, fd := range c.Decls(p) {
		if fd.Body == nil {
			continue
		}
		ast.Inspect(fd.Body, func(q ast.Node) bool {
			check := func(l ast.Expr, pos token.Pos, inc bool, how string) {
				sel, ok := unparen(l).(*ast.SelectorExpr)
				if !ok || sel.Sel.Name != "variablecnt" {
					return
				}
				if s := info.Selections[sel]; s == nil || !isNamed(derefType(s.Recv()), pathGojq, "scopeinfo") {
					return
				}
				n++
				r.Check(inc, fmt.Sprintf("variablecnt:%s:%s", declKey(fd), how), pos, "%s changes scopeinfo.variablecnt by `%s`: an increment: %v (giving slots back lets later code of the same frame overwrite the bindings of a suspended generator: `reduce (1,2) as $x ((1 as $s | ($s,$s+10)); .+$x) | . as $y | …`)", declKey(fd), how, inc)
			}
			switch x := q.(type) {
			case *ast.IncDecStmt:
				check(x.X, x.Pos(), x.Tok == token.INC, c.Src(x))
			case *ast.AssignStmt:
				for i, l := range x.Lhs {
					inc := x.Tok == token.ADD_ASSIGN
					// v = v + k
					if !inc && x.Tok == token.ASSIGN && i < len(x.Rhs) {
						if be, ok := unparen(x.Rhs[i]).(*ast.BinaryExpr); ok && be.Op == token.ADD && c.Src(be.X) == c.Src(l) {
							if k, ok := constInt(info, be.Y); ok && k > 0 {
								inc = true
							}
						}
					}
					check(l, x.Pos(), inc, c.Src(x))
				}
			}
			return true
		})
	}
	if n == 0 {
		r.Undecided("census", token.NoPos, "scopeinfo.variablecnt is never changed")
	}
}

// ---------------------------------------------------------------------------------------------------------------------

func init() {
	reg(&Rule{ID: "R-C01-lookupfirst", Props: []string{"C01"}, Floor: 1,
		Doc: "compileFunc consults the user's scopes before it treats any name specially: no branch that tests the function's name and returns precedes the lookupFuncOrVariable calls, so a definition or a filter parameter with a builtin's name shadows the builtin",
		Run: ruleLookupFirst})
}

func ruleLookupFirst(c *Ctx, r *Rep) {
	p := c.Gojq
	info := p.TypesInfo
	fd := c.Decl(p, "compiler.compileFunc")
	if fd == nil {
		r.Undecided("anchor", token.NoPos, "compiler.compileFunc not found")
		return
	}
	// the last lookup call position among the leading lookups (both arities): names tested before the first one are captured
	first := token.NoPos
	ast.Inspect(fd.Body, func(q ast.Node) bool {
		if call, ok := q.(*ast.CallExpr); ok && strings.HasSuffix(calleeName(info, call), "compiler.lookupFuncOrVariable") {
			if first == token.NoPos || call.Pos() < first {
				first = call.Pos()
			}
		}
		return true
	})
	if first == token.NoPos {
		r.Undecided("lookup", fd.Pos(), "compileFunc does not call lookupFuncOrVariable")
		return
	}
	bad := 0
	mentionsName := func(e ast.Expr) bool {
		found := false
		ast.Inspect(e, func(q ast.Node) bool {
			if sel, ok := q.(*ast.SelectorExpr); ok && sel.Sel.Name == "Name" && isNamed(derefType(info.TypeOf(sel.X)), pathGojq, "Func") {
				found = true
			}
			return true
		})
		return found
	}
	for _, st := range fd.Body.List {
		if st.Pos() >= first {
			break
		}
		switch x := st.(type) {
		case *ast.IfStmt:
			if mentionsName(x.Cond) && endsInReturn(x.Body) {
				bad++
				r.Bad("early:"+c.Src(x.Cond), x.Pos(), "compileFunc returns for `%s` before the user's scopes are consulted: `def not: …;`, a nested definition or a filter parameter of that name no longer shadows the builtin (every other special form is reached only after the lookup)", c.Src(x.Cond))
			}
		case *ast.SwitchStmt:
			if x.Tag != nil && mentionsName(x.Tag) {
				bad++
				r.Bad("early:switch", x.Pos(), "compileFunc dispatches on the function's name before the user's scopes are consulted")
			}
		}
	}
	if bad == 0 {
		r.OK("lookup-first", fd.Pos(), "no name-specific return precedes the scope lookup in compileFunc")
	}
}

// ---------------------------------------------------------------------------------------------------------------------

func init() {
	reg(&Rule{ID: "R-C16-nextok", Props: []string{"C16", "C15"}, Floor: 4,
		Doc: "the ok result of an iterator's Next() (any, bool) is never discarded: without it \"no value\" is indistinguishable from the value null, so an empty --argjson/--jsonargs text binds null instead of being rejected",
		Run: ruleNextOK})
}

func ruleNextOK(c *Ctx, r *Rep) {
	n := 0
	for _, p := range []*packages.Package{c.Cli, c.Gojq, c.Cmd} {
		info := p.TypesInfo
		for _, fd := range c.Decls(p) {
			if fd.Body == nil {
				continue
			}
			ast.Inspect(fd.Body, func(q ast.Node) bool {
				as, ok := q.(*ast.AssignStmt)
				if !ok || len(as.Lhs) != 2 || len(as.Rhs) != 1 {
					return true
				}
				call, ok := unparen(as.Rhs[0]).(*ast.CallExpr)
				if !ok {
					return true
				}
				sel, ok := unparen(call.Fun).(*ast.SelectorExpr)
				if !ok || sel.Sel.Name != "Next" || len(call.Args) != 0 {
					return true
				}
				sig, ok := info.TypeOf(call.Fun).(*types.Signature)
				if !ok || sig.Results().Len() != 2 || !types.Identical(sig.Results().At(1).Type(), types.Typ[types.Bool]) {
					return true
				}
				n++
				id, isID := as.Lhs[1].(*ast.Ident)
				discarded := isID && id.Name == "_"
				// a slurping iterator yields exactly one value (the array, possibly empty, or an error) on its first call
				if rid, ok := unparen(sel.X).(*ast.Ident); ok && discarded {
					robj := info.Uses[rid]
					ast.Inspect(fd.Body, func(w ast.Node) bool {
						if d, ok := w.(*ast.AssignStmt); ok && len(d.Lhs) == 1 && len(d.Rhs) == 1 {
							if l, ok := d.Lhs[0].(*ast.Ident); ok && info.ObjectOf(l) == robj {
								if dc, ok := unparen(d.Rhs[0]).(*ast.CallExpr); ok && strings.HasSuffix(calleeName(info, dc), "newSlurpInputIter") {
									discarded = false
								}
							}
						}
						return true
					})
				}
				fn := declKey(fd)
				if p == c.Cli && !strings.Contains(fn, ".") {
					fn = "cli." + fn
				}
				r.Check(!discarded, fmt.Sprintf("next:%s:%s", fn, c.Src(call)), as.Pos(), "%s calls %s and keeps the ok result: %v (`gojq -n --argjson x '' '$x'` prints null and exits 0; the text holds no JSON value)", fn, c.Src(call), !discarded)
				return true
			})
		}
	}
	if n == 0 {
		r.Undecided("census", token.NoPos, "no two-result call of an iterator's Next found")
	}
}

// ---------------------------------------------------------------------------------------------------------------------

func init() {
	reg(&Rule{ID: "R-C09-printallpaths", Props: []string{"C09"}, Floor: 10,
		Doc: "a field that every grammar action building a node of some type sets is consulted on every path through that type's writeTo: a printer that returns early for one alternative (include vs import) drops what the alternatives have in common (the metadata object)",
		Run: rulePrintAllPaths})
}

func rulePrintAllPaths(c *Ctx, r *Rep) {
	p := c.Gojq
	info := p.TypesInfo
	parse := c.Decl(p, "yyParserImpl.Parse")
	if parse == nil {
		r.Undecided("yyParse", token.NoPos, "yyParserImpl.Parse not found")
		return
	}
	// field sets of the composite literals per node type
	common := map[string]map[string]bool{}
	count := map[string]int{}
	ast.Inspect(parse.Body, func(q ast.Node) bool {
		x, ok := q.(*ast.CompositeLit)
		if !ok {
			return true
		}
		nt := namedOf(info.TypeOf(x))
		if nt == nil || nt.Obj().Pkg() == nil || nt.Obj().Pkg().Path() != pathGojq {
			return true
		}
		st, ok := nt.Underlying().(*types.Struct)
		if !ok {
			return true
		}
		set := map[string]bool{}
		for i, el := range x.Elts {
			if kv, ok := el.(*ast.KeyValueExpr); ok {
				set[kv.Key.(*ast.Ident).Name] = true
			} else if i < st.NumFields() {
				if id, isID := el.(*ast.Ident); !isID || id.Name != "nil" {
					set[st.Field(i).Name()] = true
				}
			}
		}
		name := nt.Obj().Name()
		count[name]++
		if common[name] == nil {
			common[name] = set
		} else {
			for f := range common[name] {
				if !set[f] {
					delete(common[name], f)
				}
			}
		}
		return true
	})
	n := 0
	var names []string
	for name := range common {
		names = append(names, name)
	}
	sort.Strings(names)
	for _, name := range names {
		fd := c.Decl(p, name+".writeTo")
		if fd == nil || fd.Recv == nil || len(fd.Recv.List) != 1 || len(fd.Recv.List[0].Names) != 1 {
			continue
		}
		recv := info.Defs[fd.Recv.List[0].Names[0]]
		var fields []string
		for f := range common[name] {
			if ast.IsExported(f) {
				fields = append(fields, f)
			}
		}
		sort.Strings(fields)
		if len(fields) == 0 {
			continue
		}
		g := cfg.New(fd.Body, func(*ast.CallExpr) bool { return true })
		for _, f := range fields {
			n++
			mentions := func(nd ast.Node) bool {
				found := false
				ast.Inspect(nd, func(q ast.Node) bool {
					if sel, ok := q.(*ast.SelectorExpr); ok && sel.Sel.Name == f {
						if id, ok := unparen(sel.X).(*ast.Ident); ok && info.Uses[id] == recv {
							found = true
						}
					}
					return !found
				})
				return found
			}
			// blocks reachable from entry without passing a mention; an exit among them is a path that skips the field
			seen := map[*cfg.Block]bool{}
			var skipAt token.Pos
			skipped := false
			var walk func(b *cfg.Block)
			walk = func(b *cfg.Block) {
				if seen[b] || skipped {
					return
				}
				seen[b] = true
				for _, nd := range b.Nodes {
					if mentions(nd) {
						return
					}
					if rs, ok := nd.(*ast.ReturnStmt); ok {
						skipped, skipAt = true, rs.Pos()
						return
					}
				}
				if len(b.Succs) == 0 {
					skipped, skipAt = true, fd.Body.Rbrace
					return
				}
				for _, s := range b.Succs {
					walk(s)
				}
			}
			walk(g.Blocks[0])
			r.Check(!skipped, fmt.Sprintf("field:%s.%s", name, f), fd.Pos(), "%s.writeTo consults %s.%s on every path (all %d grammar actions that build a %s set it): %v%s", name, name, f, count[name], name, !skipped,
				map[bool]string{true: " — a path that leaves at " + c.Pos(skipAt) + " never looks at it, so it is not printed for that alternative and the re-parsed AST lacks it", false: ""}[skipped])
		}
	}
	if n == 0 {
		r.Undecided("census", token.NoPos, "no node type with a field common to all its grammar actions")
	}
}

// ---------------------------------------------------------------------------------------------------------------------

func init() {
	reg(&Rule{ID: "R-C03-splitsib", Props: []string{"C03", "C13"}, Floor: 2,
		Doc: "the natives that split a jq string with strings.Split (split/1 and the string case of `/`) treat the empty subject alike: each tests the subject against \"\" and returns before the call (strings.Split(\"\", sep) is [\"\"], jq's split of an empty string is [])",
		Run: ruleSplitSib})
}

func ruleSplitSib(c *Ctx, r *Rep) {
	p := c.Gojq
	info := p.TypesInfo
	n := 0
	for _, fd := range c.Decls(p) {
		if fd.Body == nil {
			continue
		}
		walkStack(fd.Body, func(q ast.Node, stack []ast.Node) bool {
			call, ok := q.(*ast.CallExpr)
			if !ok || calleeName(info, call) != "strings.Split" || len(call.Args) != 2 {
				return true
			}
			subj, ok := unparen(call.Args[0]).(*ast.Ident)
			if !ok {
				return true
			}
			sobj := info.Uses[subj]
			// only subjects that are jq values: a parameter, or a variable asserted out of one
			n++
			// innermost enclosing function (literal or declaration)
			var body *ast.BlockStmt = fd.Body
			for i := len(stack) - 1; i >= 0; i-- {
				if fl, ok := stack[i].(*ast.FuncLit); ok {
					body = fl.Body
					break
				}
			}
			guarded := false
			for _, st := range body.List {
				if st.End() > call.Pos() {
					break
				}
				ifs, ok := st.(*ast.IfStmt)
				if !ok || !endsInReturn(ifs.Body) {
					continue
				}
				if be, ok := unparen(ifs.Cond).(*ast.BinaryExpr); ok && be.Op == token.EQL {
					if id, ok := unparen(be.X).(*ast.Ident); ok && info.Uses[id] == sobj {
						if s, ok := constString(info, be.Y); ok && s == "" {
							guarded = true
						}
					}
				}
			}
			where := declKey(fd)
			if body != fd.Body {
				where += " (function literal)"
			}
			r.Check(guarded, fmt.Sprintf("split:%s", where), call.Pos(), "%s splits %s with strings.Split; the empty subject returns before the call: %v (`\"\" | split(\",\")` must be [] like `\"\" / \",\"`, not [\"\"])", where, subj.Name, guarded)
			return true
		})
	}
	if n < 2 {
		r.Undecided("census", token.NoPos, "only %d uses of strings.Split on a jq subject found (split/1 and `/` are expected)", n)
	}
}

// ---------------------------------------------------------------------------------------------------------------------

func init() {
	reg(&Rule{ID: "R-C03-slicebounds", Props: []string{"C03", "C02"}, Floor: 6,
		Doc: "in each of the three slice-bound computations (slice, sliceString, updateArraySlice) the start bound is converted by a helper that rounds down (math.Floor) and the end bound by one that rounds up (math.Ceil): a fractional bound covers every element it touches, also when it is negative (truncation toward zero rounds a negative start up)",
		Run: ruleSliceBounds})
}

func ruleSliceBounds(c *Ctx, r *Rep) {
	p := c.Gojq
	info := p.TypesInfo
	callsMath := func(fd *ast.FuncDecl, name string) bool {
		found := false
		if fd == nil {
			return false
		}
		ast.Inspect(fd.Body, func(q ast.Node) bool {
			if call, ok := q.(*ast.CallExpr); ok && calleeName(info, call) == "math."+name {
				found = true
			}
			return true
		})
		return found
	}
	n := 0
	for _, fn := range []string{"slice", "sliceString", "updateArraySlice"} {
		fd := c.Decl(p, fn)
		if fd == nil {
			r.Undecided("anchor:"+fn, token.NoPos, "%s not found", fn)
			continue
		}
		// conversions `i, ok := conv(X)` whose result feeds `start = …` / `end = …`
		ast.Inspect(fd.Body, func(q ast.Node) bool {
			ifs, ok := q.(*ast.IfStmt)
			if !ok || ifs.Init == nil {
				return true
			}
			as, ok := ifs.Init.(*ast.AssignStmt)
			if !ok || len(as.Rhs) != 1 {
				return true
			}
			call, ok := unparen(as.Rhs[0]).(*ast.CallExpr)
			if !ok {
				return true
			}
			f, ok := callee(info, call).(*types.Func)
			if !ok || f.Pkg() == nil || f.Pkg().Path() != pathGojq || !strings.HasPrefix(f.Name(), "toInt") {
				return true
			}
			which := ""
			ast.Inspect(ifs.Body, func(w ast.Node) bool {
				if a2, ok := w.(*ast.AssignStmt); ok && len(a2.Lhs) == 1 {
					if id, ok := a2.Lhs[0].(*ast.Ident); ok && (id.Name == "start" || id.Name == "end") && which == "" {
						which = id.Name
					}
				}
				return true
			})
			if which == "" {
				return true
			}
			n++
			want := map[string]string{"start": "Floor", "end": "Ceil"}[which]
			good := callsMath(c.Decl(p, f.Name()), want)
			if which == "end" && good {
				// math.Ceil maps (-1, 0) to -0, which as an int is 0, the beginning: the helper must look at the sign first
				signTest := false
				if hd := c.Decl(p, f.Name()); hd != nil {
					ast.Inspect(hd.Body, func(w ast.Node) bool {
						if be, ok := w.(*ast.BinaryExpr); ok && (be.Op == token.LSS || be.Op == token.GTR || be.Op == token.LEQ || be.Op == token.GEQ) {
							for _, side := range []ast.Expr{be.X, be.Y} {
								if tv, ok := info.Types[side]; ok && tv.Value != nil && constant.Sign(tv.Value) == 0 {
									signTest = true
								}
							}
						}
						return true
					})
				}
				r.Check(signTest, fmt.Sprintf("bound:%s:end:sign", fn), call.Pos(), "%s rounds the end bound up with %s; the helper tests the sign before math.Ceil: %v (an end in (-1, 0) counts from the end and rounds up to the end: `[1,2,3] | .[:-0.5]` is [1,2,3]; Ceil alone yields -0, i.e. the beginning)", fn, f.Name(), signTest)
			}
			r.Check(good, fmt.Sprintf("bound:%s:%s", fn, which), call.Pos(), "%s converts its %s bound with %s, which applies math.%s: %v (`[1,2,3] | .[-1.5:]` is [2,3] in jq: the length is added first and the result rounded down; truncating -1.5 toward zero first gives [3])", fn, which, f.Name(), want, good)
			return true
		})
	}
	if n < 6 {
		r.Undecided("census", token.NoPos, "only %d slice-bound conversions found in slice, sliceString and updateArraySlice (6 expected)", n)
	}
}

// ---------------------------------------------------------------------------------------------------------------------

func init() {
	reg(&Rule{ID: "R-C13-epochsplit", Props: []string{"C13", "C03"}, Floor: 1,
		Doc: "where a float epoch is split into seconds and nanoseconds for time.Unix, both parts use the same rounding of the same value: a fraction taken with math.Floor beside seconds taken by conversion (truncation toward zero) is off by one second for every negative non-integral epoch",
		Run: ruleEpochSplit})
}

func ruleEpochSplit(c *Ctx, r *Rep) {
	p := c.Gojq
	info := p.TypesInfo
	n := 0
	for _, fd := range c.Decls(p) {
		if fd.Body == nil {
			continue
		}
		ast.Inspect(fd.Body, func(q ast.Node) bool {
			call, ok := q.(*ast.CallExpr)
			if !ok || calleeName(info, call) != "time.Unix" || len(call.Args) != 2 {
				return true
			}
			floorArgs := func(e ast.Expr) map[string]bool {
				out := map[string]bool{}
				ast.Inspect(e, func(w ast.Node) bool {
					if c2, ok := w.(*ast.CallExpr); ok && calleeName(info, c2) == "math.Floor" && len(c2.Args) == 1 {
						out[c.Src(c2.Args[0])] = true
					}
					return true
				})
				return out
			}
			nsFloors := floorArgs(call.Args[1])
			if len(nsFloors) == 0 {
				return true // the nanoseconds are not derived with Floor: not this idiom
			}
			n++
			secFloors := floorArgs(call.Args[0])
			good := true
			for v := range nsFloors {
				if !secFloors[v] {
					good = false
				}
			}
			r.Check(good, "split:"+declKey(fd), call.Pos(), "%s builds a time with `%s`: the nanoseconds are the fraction above math.Floor; the seconds are that floor as well: %v (`-1.5 | gmtime | mktime` gives -0.5: int64(-1.5) is -1, one second above the floor)", declKey(fd), c.Src(call), good)
			return true
		})
	}
	// the same split written in two statements (arrayToTime): where a function takes the fraction above math.Floor(v) of a
	// value, it does not also take int(v) — the truncation toward zero — as the whole part
	for _, fd := range c.Decls(p) {
		fracOf := map[string]token.Pos{}
		ast.Inspect(fd.Body, func(q ast.Node) bool {
			b, ok := q.(*ast.BinaryExpr)
			if !ok || b.Op != token.SUB {
				return true
			}
			if fl, ok := unparen(b.Y).(*ast.CallExpr); ok && calleeName(info, fl) == "math.Floor" && len(fl.Args) == 1 && c.Src(fl.Args[0]) == c.Src(b.X) {
				fracOf[c.Src(b.X)] = b.Pos()
			}
			return true
		})
		if len(fracOf) == 0 {
			continue
		}
		ast.Inspect(fd.Body, func(q ast.Node) bool {
			call, ok := q.(*ast.CallExpr)
			if !ok || len(call.Args) != 1 {
				return true
			}
			tv, ok := info.Types[call.Fun]
			if !ok || !tv.IsType() || !isMachineInt(tv.Type) {
				return true
			}
			if _, ok := fracOf[c.Src(call.Args[0])]; !ok {
				return true
			}
			n++
			r.Bad("split:"+declKey(fd)+":"+c.Src(call), call.Pos(), "%s takes `%s` (toward zero) as the whole part of a value whose fraction it takes above math.Floor: for a negative fractional value the two do not add up to the value (`[2024,0,1,0,0,-0.5] | mktime` gives …200.5, half a second after instead of before the minute)", declKey(fd), c.Src(call))
			return true
		})
	}
	if n == 0 {
		r.Undecided("census", token.NoPos, "no time.Unix call that derives its nanoseconds with math.Floor found (epochToArray is expected)")
	}
}
