package main

import (
	"fmt"
	"go/ast"
	"go/token"
	"go/types"
	"strings"

	"golang.org/x/tools/go/packages"
)

func ruleC05AppendFresh(c *Ctx, r *Rep) {
	info := c.Gojq.TypesInfo
	emits := getEmits(c)
	for _, e := range emits {
		if e.Op != "opappend" {
			continue
		}
		key := "opappend@" + e.FnKey
		if e.V == nil {
			r.Bad(key, e.Lit.Pos(), "opappend without a variable operand")
			continue
		}
		// all opstore emissions of the same variable in the same function
		var stores []*Emit
		var fnEmits []*Emit
		for _, f := range emits {
			if f.Fn == e.Fn {
				fnEmits = append(fnEmits, f)
				if f.Op == "opstore" && f.V != nil && sameObj(info, f.V, e.V) {
					stores = append(stores, f)
				}
			}
		}
		if len(stores) != 1 {
			r.Bad(key, e.Lit.Pos(), "the accumulator %s of opappend is stored by %d opstore emissions in %s (expected exactly one: its initialisation)", c.Src(e.V), len(stores), e.FnKey)
			continue
		}
		st := stores[0]
		var prev *Emit
		for i, f := range fnEmits {
			if f == st && i > 0 {
				prev = fnEmits[i-1]
			}
		}
		ok := false
		why := "no emission precedes the initialising opstore"
		if prev != nil {
			why = "the emission before the initialising opstore is " + prev.Op + " " + func() string {
				if prev.V != nil {
					return c.Src(prev.V)
				}
				return ""
			}()
			if prev.Op == "oppush" && prev.V != nil {
				if cl, ok2 := unparen(prev.V).(*ast.CompositeLit); ok2 && len(cl.Elts) == 0 && isJSONContainer(info.TypeOf(cl)) {
					if _, isSlice := info.TypeOf(cl).Underlying().(*types.Slice); isSlice {
						ok = true
					}
				}
			}
		}
		if st.Lit.Pos() > e.Lit.Pos() {
			ok = false
			why = "the initialising opstore is emitted after the opappend"
		}
		r.Check(ok, key, e.Lit.Pos(), "accumulator %s of opappend in %s: %s", c.Src(e.V), e.FnKey, why)
	}
}

type mapRange struct {
	pkg *packages.Package
	fd  *ast.FuncDecl
	rs  *ast.RangeStmt
}

func mapRanges(c *Ctx, p *packages.Package, fileFilter func(string) bool) []mapRange {
	var out []mapRange
	for _, fd := range c.Decls(p) {
		if fileFilter != nil && !fileFilter(c.File(fd.Pos())) {
			continue
		}
		ast.Inspect(fd.Body, func(n ast.Node) bool {
			if rs, ok := n.(*ast.RangeStmt); ok {
				if t := p.TypesInfo.TypeOf(rs.X); t != nil {
					if _, ok := t.Underlying().(*types.Map); ok {
						out = append(out, mapRange{p, fd, rs})
					}
				}
			}
			return true
		})
	}
	return out
}

func ruleC05MapOrder(c *Ctx, r *Rep) {
	var sites []mapRange
	sites = append(sites, mapRanges(c, c.Gojq, nil)...)
	sites = append(sites, mapRanges(c, c.Cli, func(f string) bool { return f == "encoder.go" })...)
	for _, s := range sites {
		shape, why := classifyMapRange(c, s)
		key := declKey(s.fd) + ":range " + c.Src(s.rs.X)
		if shape != "" {
			r.OK(key, s.rs.Pos(), "order-insensitive shape %s: %s", shape, why)
		} else {
			r.Bad(key, s.rs.Pos(), "range over a map whose body depends on Go's map iteration order: %s", why)
		}
	}
	// the iterator constructors of package maps are ranges over a map in disguise: accepted only as the direct argument
	// of a sorting collector (slices.Sorted, slices.SortedFunc, slices.SortedStableFunc)
	for _, p := range []*packages.Package{c.Gojq, c.Cli} {
		if p == nil {
			continue
		}
		info := p.TypesInfo
		for _, fd := range c.Decls(p) {
			if c.PhysFile(fd.Pos()) == "parser.go" {
				continue
			}
			k := 0
			walkStack(fd.Body, func(m ast.Node, stack []ast.Node) bool {
				call, ok := m.(*ast.CallExpr)
				if !ok {
					return true
				}
				nm := calleeName(info, call)
				if nm != "maps.Values" && nm != "maps.Keys" && nm != "maps.All" {
					return true
				}
				k++
				sorted := false
				if len(stack) > 0 {
					if outer, ok := stack[len(stack)-1].(*ast.CallExpr); ok {
						if on := calleeName(info, outer); strings.HasPrefix(on, "slices.Sorted") {
							sorted = true
						}
					}
				}
				r.Check(sorted, fmt.Sprintf("%s:%s#%d", declKey(fd), nm, k), call.Pos(), "%s in %s yields the map's entries in Go's map iteration order; it is the direct argument of a sorting collector: %v — summing the values of an object in that order makes `{\"a\":0.1,\"b\":0.2,\"c\":0.3} | add` vary between runs (float addition is not associative)", nm, declKey(fd), sorted)
				return true
			})
		}
	}
}

func isSortCall(info *types.Info, call *ast.CallExpr) bool {
	n := calleeName(info, call)
	return strings.HasPrefix(n, "sort.") && n != "sort.Search" && !strings.HasPrefix(n, "sort.Search") ||
		strings.HasPrefix(n, "slices.Sort")
}

func classifyMapRange(c *Ctx, s mapRange) (string, string) {
	info := s.pkg.TypesInfo
	rs := s.rs
	outer := func(o types.Object) bool {
		return o != nil && (o.Pos() < rs.Pos() || o.Pos() >= rs.End())
	}
	var keyObj types.Object
	if id, ok := rs.Key.(*ast.Ident); ok && id.Name != "_" {
		keyObj = info.ObjectOf(id)
	}
	collectors := map[types.Object]bool{}
	counters := map[types.Object]bool{}
	keyed := map[types.Object]bool{}
	var otherEffects []string
	var returns []string
	rootObj := func(e ast.Expr) types.Object {
		for {
			switch x := unparen(e).(type) {
			case *ast.Ident:
				return info.ObjectOf(x)
			case *ast.SelectorExpr:
				// field of a variable: treat the whole selector's base object as the target
				e = x.X
			case *ast.IndexExpr:
				e = x.X
			case *ast.StarExpr:
				e = x.X
			default:
				return nil
			}
		}
	}
	isKey := func(e ast.Expr) bool {
		id, ok := unparen(e).(*ast.Ident)
		return ok && keyObj != nil && info.ObjectOf(id) == keyObj
	}
	ast.Inspect(rs.Body, func(n ast.Node) bool {
		switch x := n.(type) {
		case *ast.FuncLit:
			return false
		case *ast.AssignStmt:
			for i, l := range x.Lhs {
				if id, ok := unparen(l).(*ast.Ident); ok && (id.Name == "_" || !outer(info.ObjectOf(id))) {
					continue
				}
				o := rootObj(l)
				if o == nil {
					otherEffects = append(otherEffects, c.Src(l)+" =")
					continue
				}
				if !outer(o) {
					continue
				}
				switch lx := unparen(l).(type) {
				case *ast.IndexExpr:
					if _, isMap := info.TypeOf(lx.X).Underlying().(*types.Map); isMap {
						if isKey(lx.Index) {
							keyed[o] = true
						} else {
							otherEffects = append(otherEffects, "map write not keyed by the loop key: "+c.Src(l))
						}
					} else {
						collectors[o] = true
					}
				case *ast.Ident:
					// S = append(S, …) or counter arithmetic
					if i < len(x.Rhs) || len(x.Rhs) == 1 {
						rhs := x.Rhs[min(i, len(x.Rhs)-1)]
						if call, ok := unparen(rhs).(*ast.CallExpr); ok {
							if f, ok := call.Fun.(*ast.Ident); ok && f.Name == "append" && len(call.Args) > 0 && rootObj(call.Args[0]) == o {
								collectors[o] = true
								continue
							}
						}
					}
					if b, ok := info.TypeOf(l).Underlying().(*types.Basic); ok && b.Info()&types.IsInteger != 0 && x.Tok != token.ASSIGN {
						counters[o] = true
						continue
					}
					otherEffects = append(otherEffects, "assignment to outer variable "+c.Src(l))
				default:
					otherEffects = append(otherEffects, "write to "+c.Src(l))
				}
			}
		case *ast.IncDecStmt:
			if o := rootObj(x.X); outer(o) {
				if _, ok := unparen(x.X).(*ast.Ident); ok {
					counters[o] = true
				} else {
					otherEffects = append(otherEffects, "inc/dec of "+c.Src(x.X))
				}
			}
		case *ast.CallExpr:
			if f, ok := x.Fun.(*ast.Ident); ok && f.Name == "delete" && len(x.Args) == 2 && info.Uses[f] == types.Universe.Lookup("delete") {
				if o := rootObj(x.Args[0]); outer(o) {
					if isKey(x.Args[1]) {
						keyed[o] = true
					} else {
						otherEffects = append(otherEffects, "delete not keyed by the loop key")
					}
				}
			}
			if sel, ok := x.Fun.(*ast.SelectorExpr); ok {
				// writes to an outer writer inside the loop (emission in iteration order)
				n := calleeName(info, x)
				if strings.Contains(n, "Write") || strings.HasPrefix(n, "fmt.Fprint") || strings.HasPrefix(n, "fmt.Print") {
					otherEffects = append(otherEffects, "output call "+c.Src(sel)+" inside the loop")
				}
			}
		case *ast.ReturnStmt:
			var parts []string
			for _, res := range x.Results {
				if tv, ok := info.Types[res]; ok && (tv.Value != nil || tv.IsNil()) {
					parts = append(parts, c.Src(res))
				} else {
					parts = append(parts, "<non-constant "+c.Src(res)+">")
				}
			}
			returns = append(returns, strings.Join(parts, ","))
		case *ast.BranchStmt:
			if x.Tok == token.BREAK || x.Tok == token.GOTO {
				// break out of the map loop itself (not of an inner loop/switch)
				inner := false
				walkStack(rs.Body, func(m ast.Node, st []ast.Node) bool {
					if m == n {
						for _, a := range st {
							switch a.(type) {
							case *ast.ForStmt, *ast.RangeStmt, *ast.SwitchStmt, *ast.TypeSwitchStmt, *ast.SelectStmt:
								inner = true
							}
						}
					}
					return true
				})
				if !inner || x.Label != nil {
					otherEffects = append(otherEffects, "break/goto out of the map loop (first-match semantics)")
				}
			}
		case *ast.SendStmt:
			otherEffects = append(otherEffects, "channel send")
		}
		return true
	})
	if len(otherEffects) > 0 {
		return "", strings.Join(otherEffects, "; ")
	}
	if len(returns) > 0 {
		for _, rt := range returns {
			if rt != returns[0] || strings.Contains(rt, "<non-constant") {
				return "", "early returns with differing or non-constant results: " + strings.Join(returns, " / ")
			}
		}
		if len(collectors) == 0 && len(keyed) == 0 && len(counters) == 0 {
			return "S3", "predicate whose every early exit returns " + returns[0]
		}
		return "", "mixes early return with outer effects"
	}
	if len(collectors) > 0 {
		if len(keyed) > 0 {
			return "", "mixes collecting and keyed map writes"
		}
		// every collector must be sorted after the loop, in the same function
		for o := range collectors {
			sorted := false
			ast.Inspect(s.fd.Body, func(n ast.Node) bool {
				if call, ok := n.(*ast.CallExpr); ok && call.Pos() > rs.End() && isSortCall(info, call) && len(call.Args) > 0 {
					if id, ok := unparen(call.Args[0]).(*ast.Ident); ok && info.ObjectOf(id) == o {
						sorted = true
					}
				}
				return true
			})
			if !sorted {
				return "", "collects into " + o.Name() + " which is not sorted afterwards in " + declKey(s.fd)
			}
			if why := sortIsTotal(c, s, o, keyObj); why != "" {
				return "", "collects into " + o.Name() + " but the sort that follows is not a total order on the collected elements, so ties keep map-iteration order: " + why
			}
		}
		var names []string
		for o := range collectors {
			names = append(names, o.Name())
		}
		return "S1", "collects into " + strings.Join(names, ",") + " which is sorted after the loop"
	}
	if len(counters) > 0 {
		return "", "counter updated without a collector"
	}
	if len(keyed) > 0 {
		return "S2", "only writes/deletes entries keyed by the loop key"
	}
	return "S0", "no effect outside the loop body"
}

func typeMentions(t types.Type, names map[string]bool, seen map[types.Type]bool) string {
	if seen[t] {
		return ""
	}
	seen[t] = true
	switch u := t.(type) {
	case *types.Named:
		if u.Obj().Pkg() != nil && u.Obj().Pkg().Path() == pathGojq && names[u.Obj().Name()] {
			return u.Obj().Name()
		}
		if u.Obj().Pkg() != nil && u.Obj().Pkg().Path() == pathGojq {
			return typeMentions(u.Underlying(), names, seen)
		}
	case *types.Pointer:
		return typeMentions(u.Elem(), names, seen)
	case *types.Slice:
		return typeMentions(u.Elem(), names, seen)
	case *types.Array:
		return typeMentions(u.Elem(), names, seen)
	case *types.Map:
		if s := typeMentions(u.Key(), names, seen); s != "" {
			return s
		}
		return typeMentions(u.Elem(), names, seen)
	case *types.Struct:
		for i := 0; i < u.NumFields(); i++ {
			if s := typeMentions(u.Field(i).Type(), names, seen); s != "" {
				return s
			}
		}
	}
	return ""
}

func ruleC05EnvFresh(c *Ctx, r *Rep) {
	info := c.Gojq.TypesInfo
	runState := map[string]bool{"env": true, "stack": true, "scopeStack": true, "fork": true, "scope": true, "block": true, "scopeBlock": true}
	// 1. RunWithContext: every return is NewIter(...) or newEnv(ctx).execute(...)
	fd := c.Decl(c.Gojq, "Code.RunWithContext")
	if fd == nil {
		r.Undecided("Code.RunWithContext", token.NoPos, "not found")
		return
	}
	ast.Inspect(fd.Body, func(n ast.Node) bool {
		ret, ok := n.(*ast.ReturnStmt)
		if !ok || len(ret.Results) != 1 {
			return true
		}
		call, _ := unparen(ret.Results[0]).(*ast.CallExpr)
		ok2 := false
		desc := c.Src(ret.Results[0])
		if call != nil {
			switch calleeName(info, call) {
			case "gojq.NewIter":
				ok2 = true
			case "gojq.env.execute":
				if sel, ok := call.Fun.(*ast.SelectorExpr); ok {
					if inner, ok := unparen(sel.X).(*ast.CallExpr); ok && calleeName(info, inner) == "gojq.newEnv" {
						ok2 = true
					}
				}
			}
		}
		r.Check(ok2, "Code.RunWithContext:return", ret.Pos(), "returns %s (must be a one-shot error iterator or newEnv(ctx).execute(…) on a fresh env)", desc)
		return true
	})
	// 2. newEnv returns a fresh composite literal not mentioning package-level variables
	ne := c.Decl(c.Gojq, "newEnv")
	if ne == nil {
		r.Undecided("newEnv", token.NoPos, "not found")
	} else {
		fresh := false
		global := ""
		ast.Inspect(ne.Body, func(n ast.Node) bool {
			if ret, ok := n.(*ast.ReturnStmt); ok && len(ret.Results) == 1 {
				if u, ok := unparen(ret.Results[0]).(*ast.UnaryExpr); ok && u.Op == token.AND {
					if cl, ok := u.X.(*ast.CompositeLit); ok && isNamed(info.TypeOf(cl), pathGojq, "env") {
						fresh = true
					}
				}
			}
			if id, ok := n.(*ast.Ident); ok {
				if v, ok := info.Uses[id].(*types.Var); ok && v.Parent() == c.Gojq.Types.Scope() {
					global = v.Name()
				}
			}
			return true
		})
		r.Check(fresh && global == "", "newEnv", ne.Pos(), "newEnv returns a fresh &env{…} literal (fresh=%v, package-level variable used=%q)", fresh, global)
	}
	// 3. Code has no field of run-state type
	if tn, ok := c.Gojq.Types.Scope().Lookup("Code").(*types.TypeName); ok {
		st := tn.Type().Underlying().(*types.Struct)
		for i := 0; i < st.NumFields(); i++ {
			f := st.Field(i)
			m := typeMentions(f.Type(), runState, map[types.Type]bool{})
			r.Check(m == "", "Code."+f.Name(), f.Pos(), "field Code.%s of type %s %s", f.Name(), f.Type(), map[bool]string{true: "holds no run state", false: "mentions run-state type " + m}[m == ""])
		}
	} else {
		r.Undecided("Code", token.NoPos, "type Code not found")
	}
	// 4. no package-level variable of run-state type
	n := 0
	for _, name := range c.Gojq.Types.Scope().Names() {
		if v, ok := c.Gojq.Types.Scope().Lookup(name).(*types.Var); ok {
			n++
			if m := typeMentions(v.Type(), runState, map[types.Type]bool{}); m != "" {
				r.Bad("global:"+name, v.Pos(), "package-level variable %s holds run-state type %s", name, m)
			}
		}
	}
	r.OK("globals", token.NoPos, "%d package-level variables of package gojq, none of run-state type", n)
}

// sortIsTotal checks that the sort applied to collector o after the map loop orders the collected elements totally:
// either the element is (or has a field initialised from) the unique map key, collected once per iteration, and the
// comparator uses it; or the comparator mentions every field of the element struct. Returns "" if total.
func sortIsTotal(c *Ctx, s mapRange, o types.Object, keyObj types.Object) string {
	info := s.pkg.TypesInfo
	var sortCall *ast.CallExpr
	ast.Inspect(s.fd.Body, func(n ast.Node) bool {
		if call, ok := n.(*ast.CallExpr); ok && call.Pos() > s.rs.End() && isSortCall(info, call) && len(call.Args) > 0 && sortCall == nil {
			if id, ok := unparen(call.Args[0]).(*ast.Ident); ok && info.ObjectOf(id) == o {
				sortCall = call
			}
		}
		return true
	})
	if sortCall == nil {
		return "no sort call"
	}
	elem := o.Type()
	if sl, ok := elem.Underlying().(*types.Slice); ok {
		elem = sl.Elem()
	}
	if p, ok := elem.Underlying().(*types.Pointer); ok {
		elem = p.Elem()
	}
	st, isStruct := elem.Underlying().(*types.Struct)
	if !isStruct {
		// []string / []int: the natural order is total; elements come from distinct keys or are compared whole
		if len(sortCall.Args) == 1 {
			return ""
		}
	}
	var cmp *ast.FuncLit
	if len(sortCall.Args) >= 2 {
		cmp, _ = unparen(sortCall.Args[1]).(*ast.FuncLit)
	}
	if cmp == nil {
		if !isStruct {
			return ""
		}
		return "comparator is not a function literal"
	}
	mentioned := map[string]bool{}
	ast.Inspect(cmp.Body, func(n ast.Node) bool {
		if sel, ok := n.(*ast.SelectorExpr); ok {
			mentioned[sel.Sel.Name] = true
		}
		return true
	})
	if !isStruct {
		return ""
	}
	all := true
	var missing []string
	for i := 0; i < st.NumFields(); i++ {
		if !mentioned[st.Field(i).Name()] {
			all = false
			missing = append(missing, st.Field(i).Name())
		}
	}
	if all {
		return ""
	}
	// keyed: exactly one element per iteration (not inside an inner loop) with a mentioned field initialised from the loop key
	keyedField := ""
	inInner := false
	walkStack(s.rs.Body, func(n ast.Node, stack []ast.Node) bool {
		cl, ok := n.(*ast.CompositeLit)
		if !ok {
			return true
		}
		t := info.TypeOf(cl)
		if t == nil {
			return true
		}
		if p, ok := t.Underlying().(*types.Pointer); ok {
			t = p.Elem()
		}
		if !types.Identical(t, elem) {
			return true
		}
		for _, a := range stack {
			switch a.(type) {
			case *ast.ForStmt, *ast.RangeStmt:
				inInner = true
			}
		}
		for i, el := range cl.Elts {
			name := ""
			var val ast.Expr
			if kv, ok := el.(*ast.KeyValueExpr); ok {
				name = kv.Key.(*ast.Ident).Name
				val = kv.Value
			} else if i < st.NumFields() {
				name = st.Field(i).Name()
				val = el
			}
			if id, ok := unparen(val).(*ast.Ident); ok && keyObj != nil && info.ObjectOf(id) == keyObj {
				keyedField = name
			}
		}
		return true
	})
	if keyedField != "" && !inInner && mentioned[keyedField] {
		return ""
	}
	return "comparator ignores field(s) " + strings.Join(missing, ",") + " and the elements are not one-per-unique-map-key"
}
