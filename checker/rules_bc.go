package main

import (
	"fmt"
	"go/token"
	"strings"
)

func init() {
	reg(&Rule{ID: "R-C01-bc", Props: []string{"C01", "C20"}, Floor: 15,
		Doc: "the hand-assembled bytecode of _last (compileLast) verifies: targets, one stack depth per instruction on all paths, variable indices, depth 1 at opret",
		Run: func(c *Ctx, r *Rep) { ruleBCLists(c, r, "compiler.compileLast") }})
	reg(&Rule{ID: "R-C02-bc", Props: []string{"C02", "C20"}, Floor: 60,
		Doc: "the hand-assembled bytecode of _assign and _modify (compileAssign, compileModify) verifies: targets, stack depth, variable indices, path/exp balance",
		Run: func(c *Ctx, r *Rep) { ruleBCLists(c, r, "compiler.compileAssign", "compiler.compileModify") }})
}

func ruleBCLists(c *Ctx, r *Rep, fns ...string) {
	vm := getVM(c)
	if vm.Err != "" {
		r.Undecided("vm-model", token.NoPos, "%s", vm.Err)
		return
	}
	if dis := bcCrossCheck(vm); len(dis) > 0 {
		r.Undecided("effects-table", token.NoPos, "the verifier's per-opcode stack effects disagree with the VM clauses: %s", strings.Join(dis, "; "))
		return
	}
	for _, fn := range fns {
		fd := c.Decl(c.Gojq, fn)
		if fd == nil {
			r.Undecided(fn, token.NoPos, "not found")
			continue
		}
		seq, err := bcListOf(c, fd)
		if err != nil {
			r.Undecided(fn+":extract", fd.Pos(), "%v", err)
			continue
		}
		if len(seq) == 0 || seq[0].Op != "opscope" {
			r.Bad(fn+":entry", fd.Pos(), "the list does not start with opscope")
			continue
		}
		// declared arity of the builtin (appendBuiltin(name, n)) must equal the opscope arity
		probs, reached, depths := bcVerify(seq, 1+seq[0].Scope[1], true)
		byPC := map[int][]string{}
		for _, p := range probs {
			byPC[p.PC] = append(byPC[p.PC], p.Msg)
		}
		short := strings.TrimPrefix(fn, "compiler.")
		for i, in := range seq {
			key := fmt.Sprintf("%s[%d]:%s", short, i, in.Op)
			switch {
			case len(byPC[i]) > 0:
				r.Bad(key, in.Pos, "instruction %d of %s: %s", i, short, strings.Join(byPC[i], "; "))
			case !reached[i]:
				r.Bad(key, in.Pos, "instruction %d of %s (%s) is unreachable: a jump or fork target is off by one", i, short, in.Op)
			default:
				detail := fmt.Sprintf("depth %d", depths[i])
				if in.Target >= 0 {
					detail += fmt.Sprintf(", target [%d] %s", in.Target, seq[in.Target].Op)
				}
				if in.Var >= 0 {
					detail += fmt.Sprintf(", var %s=#%d", in.VarName, in.Var)
				}
				r.OK(key, in.Pos, "%s", detail)
			}
		}
		for _, p := range probs {
			if p.PC < 0 || p.PC >= len(seq) {
				r.Bad(short+":flow", fd.Pos(), "%s", p.Msg)
			}
		}
		// every variable of the scope is stored before it is loaded on the straight-line prefix: covered by depth checks only;
		// variable count: highest index + 1 must equal the declared count (no dead or missing register)
		maxVar := -1
		for _, in := range seq {
			if in.Var > maxVar {
				maxVar = in.Var
			}
		}
		r.Check(maxVar+1 == seq[0].Scope[0], short+":varcount", seq[0].Pos, "%s declares %d variables in its opscope and uses indices 0..%d", short, seq[0].Scope[0], maxVar)
	}
}
