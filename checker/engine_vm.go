package main

import (
	"fmt"
	"go/ast"
	"go/token"
	"go/types"
	"sort"
	"strings"
)

// VM is a structural model of (*env).Next extracted from the current source.
type VM struct {
	c       *Ctx
	info    *types.Info
	Next    *ast.FuncDecl
	Sw      *ast.SwitchStmt
	Loop    *ast.ForStmt
	Label   string
	Clauses []*VMClause
	ByOp    map[string]*VMClause
	Default *ast.CaseClause
	AllOps  []*types.Const
	Vars    map[string]types.Object // err, pc, backtrack, callpc, index, code
	Err     string                  // non-empty: model could not be built
}

// VMClause is one case clause of the dispatch switch.
type VMClause struct {
	Ops     []string
	CC      *ast.CaseClause
	Guarded bool          // first statement is `if backtrack {…}` whose every path leaves the clause
	Guard   *ast.IfStmt   // that statement
	Paths   []vmExit      // all exits of the clause body (forward and re-entry)
	Fall    []vmState     // states falling out of the clause end
	Operand []string      // Go types asserted on code.v inside the clause
}

type vmState struct {
	net, minNet     int
	errSet          bool // a non-nil value was assigned to err on this path
	errNil          bool // err = nil assigned last
	forked          bool // pushfork called
	pcSet           bool
	btSet           bool
	readsBT         bool // the path read `backtrack` (in a condition) before forking
	readsBTBeforeFk bool
	pushedPath      bool
	trace           []string
}

type vmExit struct {
	kind string // "break loop", "goto loop", "continue", "return", "panic", "break"
	st   vmState
	pos  token.Pos
}

func (s vmState) clone() vmState {
	s.trace = append([]string(nil), s.trace...)
	return s
}

var vmCache = map[*Ctx]*VM{}

func getVM(c *Ctx) *VM {
	if v, ok := vmCache[c]; ok {
		return v
	}
	v := buildVM(c)
	vmCache[c] = v
	return v
}

func buildVM(c *Ctx) *VM {
	vm := &VM{c: c, info: c.Gojq.TypesInfo, ByOp: map[string]*VMClause{}, Vars: map[string]types.Object{}}
	vm.Next = c.Decl(c.Gojq, "env.Next")
	if vm.Next == nil {
		vm.Err = "(*env).Next not found"
		return vm
	}
	vm.AllOps = namedConsts(c.Gojq.Types, "opcode")
	if len(vm.AllOps) == 0 {
		vm.Err = "type opcode has no constants"
		return vm
	}
	// the dispatch switch: tag is field `op` of a *code, type opcode
	walkStack(vm.Next.Body, func(n ast.Node, stack []ast.Node) bool {
		if _, ok := n.(*ast.FuncLit); ok {
			return false
		}
		if s, ok := n.(*ast.SwitchStmt); ok && vm.Sw == nil && s.Tag != nil {
			if tv, ok := vm.info.Types[s.Tag]; ok && isNamed(tv.Type, pathGojq, "opcode") {
				if sel, ok := unparen(s.Tag).(*ast.SelectorExpr); ok && isNamed(vm.info.TypeOf(sel.X), pathGojq, "code") {
					vm.Sw = s
					for i := len(stack) - 1; i >= 0; i-- {
						if f, ok := stack[i].(*ast.ForStmt); ok {
							vm.Loop = f
							if i > 0 {
								if l, ok := stack[i-1].(*ast.LabeledStmt); ok {
									vm.Label = l.Label.Name
								}
							}
							break
						}
					}
					if id, ok := unparen(sel.X).(*ast.Ident); ok {
						vm.Vars["code"] = vm.info.Uses[id]
					}
				}
			}
		}
		return true
	})
	if vm.Sw == nil || vm.Loop == nil || vm.Label == "" {
		vm.Err = "dispatch switch over (*code).op inside a labelled for loop not found in (*env).Next"
		return vm
	}
	// state variables, by declaration in Next before the loop
	for _, name := range []string{"err", "pc", "backtrack", "callpc", "index", "hasCtx"} {
		ast.Inspect(vm.Next.Body, func(n ast.Node) bool {
			if id, ok := n.(*ast.Ident); ok && id.Name == name && id.Pos() < vm.Loop.Pos() {
				if o := vm.info.Defs[id]; o != nil && vm.Vars[name] == nil {
					vm.Vars[name] = o
				}
			}
			return true
		})
	}
	for _, name := range []string{"err", "pc", "backtrack"} {
		if vm.Vars[name] == nil {
			vm.Err = "state variable " + name + " not declared in (*env).Next before the loop"
			return vm
		}
	}
	for _, s := range vm.Sw.Body.List {
		cc := s.(*ast.CaseClause)
		if cc.List == nil {
			vm.Default = cc
			continue
		}
		cl := &VMClause{CC: cc}
		for _, e := range cc.List {
			if id, ok := unparen(e).(*ast.Ident); ok {
				if k, ok := vm.info.Uses[id].(*types.Const); ok {
					cl.Ops = append(cl.Ops, k.Name())
					vm.ByOp[k.Name()] = cl
					continue
				}
			}
			vm.Err = "non-constant case expression in dispatch switch at " + c.Pos(e.Pos())
			return vm
		}
		vm.analyseClause(cl)
		vm.Clauses = append(vm.Clauses, cl)
	}
	return vm
}

func (vm *VM) isVar(e ast.Expr, name string) bool {
	id, ok := unparen(e).(*ast.Ident)
	return ok && vm.Vars[name] != nil && vm.info.Uses[id] == vm.Vars[name]
}

func (vm *VM) readsVar(n ast.Node, name string) bool {
	found := false
	ast.Inspect(n, func(m ast.Node) bool {
		if id, ok := m.(*ast.Ident); ok && vm.Vars[name] != nil && vm.info.Uses[id] == vm.Vars[name] {
			found = true
		}
		return !found
	})
	return found
}

// isCodeV reports whether e is `code.v` for a *code value.
func (vm *VM) isCodeV(e ast.Expr) bool {
	sel, ok := unparen(e).(*ast.SelectorExpr)
	if !ok || sel.Sel.Name != "v" {
		return false
	}
	return isNamed(vm.info.TypeOf(sel.X), pathGojq, "code")
}

func (vm *VM) envMethod(call *ast.CallExpr) string {
	o := callee(vm.info, call)
	if o == nil {
		return ""
	}
	n := objName(o)
	if strings.HasPrefix(n, "gojq.env.") {
		return strings.TrimPrefix(n, "gojq.env.")
	}
	// env.paths.push → "paths.push", env.stack.top …
	if sel, ok := call.Fun.(*ast.SelectorExpr); ok {
		if in, ok := unparen(sel.X).(*ast.SelectorExpr); ok && isNamed(vm.info.TypeOf(in.X), pathGojq, "env") {
			return in.Sel.Name + "." + sel.Sel.Name
		}
	}
	return ""
}

func (vm *VM) analyseClause(cl *VMClause) {
	cc := cl.CC
	// operand types
	seen := map[string]bool{}
	ast.Inspect(cc, func(n ast.Node) bool {
		switch x := n.(type) {
		case *ast.TypeAssertExpr:
			if vm.isCodeV(x.X) && x.Type != nil {
				t := types.TypeString(vm.info.TypeOf(x.Type), func(*types.Package) string { return "" })
				if !seen[t] {
					seen[t] = true
					cl.Operand = append(cl.Operand, t)
				}
			}
		case *ast.TypeSwitchStmt:
			var ta *ast.TypeAssertExpr
			switch a := x.Assign.(type) {
			case *ast.AssignStmt:
				ta, _ = a.Rhs[0].(*ast.TypeAssertExpr)
			case *ast.ExprStmt:
				ta, _ = a.X.(*ast.TypeAssertExpr)
			}
			if ta != nil && vm.isCodeV(ta.X) {
				for _, s := range x.Body.List {
					for _, te := range s.(*ast.CaseClause).List {
						t := types.TypeString(vm.info.TypeOf(te), func(*types.Package) string { return "" })
						if !seen[t] {
							seen[t] = true
							cl.Operand = append(cl.Operand, t)
						}
					}
				}
			}
		}
		return true
	})
	sort.Strings(cl.Operand)
	// backtrack guard
	if len(cc.Body) > 0 {
		if ifs, ok := cc.Body[0].(*ast.IfStmt); ok && ifs.Init == nil && ifs.Else == nil && vm.isVar(ifs.Cond, "backtrack") {
			var ex []vmExit
			fall := vm.walk(ifs.Body.List, vmState{}, &ex)
			leaves := len(fall) == 0
			for _, e := range ex {
				if e.kind != "break "+vm.Label && e.kind != "goto "+vm.Label {
					leaves = false
				}
			}
			if leaves {
				cl.Guarded = true
				cl.Guard = ifs
			}
		}
	}
	var exits []vmExit
	cl.Fall = vm.walk(cc.Body, vmState{}, &exits)
	cl.Paths = exits
}

func (vm *VM) count(n ast.Node, st *vmState) {
	if n == nil {
		return
	}
	ast.Inspect(n, func(m ast.Node) bool {
		if _, ok := m.(*ast.FuncLit); ok {
			return false
		}
		if id, ok := m.(*ast.Ident); ok && vm.info.Uses[id] == vm.Vars["backtrack"] {
			st.readsBT = true
			if !st.forked {
				st.readsBTBeforeFk = true
			}
			if len(st.trace) == 0 || st.trace[len(st.trace)-1] != "readbt" {
				st.trace = append(st.trace, "readbt")
			}
		}
		if call, ok := m.(*ast.CallExpr); ok {
			switch vm.envMethod(call) {
			case "pop":
				st.net--
				if st.net < st.minNet {
					st.minNet = st.net
				}
				st.trace = append(st.trace, "pop")
			case "push":
				for _, a := range call.Args {
					vm.count(a, st)
				}
				st.net++
				st.trace = append(st.trace, "push")
				return false
			case "pushfork":
				st.forked = true
				st.trace = append(st.trace, "pushfork")
			case "paths.push":
				st.pushedPath = true
			}
		}
		return true
	})
}

func isNilIdent(e ast.Expr) bool {
	id, ok := unparen(e).(*ast.Ident)
	return ok && id.Name == "nil"
}

func (vm *VM) walk(stmts []ast.Stmt, st vmState, exits *[]vmExit) (fall []vmState) {
	cur := []vmState{st}
	for _, s := range stmts {
		var next []vmState
		for _, c := range cur {
			next = append(next, vm.step(s, c, exits)...)
		}
		cur = next
		if len(cur) == 0 {
			return nil
		}
		if len(cur) > 4096 {
			panic("path explosion in VM clause")
		}
	}
	return cur
}

func (vm *VM) step(s ast.Stmt, st vmState, exits *[]vmExit) []vmState {
	st = st.clone()
	switch s := s.(type) {
	case nil:
		return []vmState{st}
	case *ast.BranchStmt:
		k := s.Tok.String()
		if s.Label != nil {
			k += " " + s.Label.Name
		}
		*exits = append(*exits, vmExit{k, st, s.Pos()})
		return nil
	case *ast.ReturnStmt:
		for _, r := range s.Results {
			vm.count(r, &st)
		}
		*exits = append(*exits, vmExit{"return", st, s.Pos()})
		return nil
	case *ast.AssignStmt:
		for _, r := range s.Rhs {
			vm.count(r, &st)
		}
		for i, l := range s.Lhs {
			if _, plain := unparen(l).(*ast.Ident); !plain {
				vm.count(l, &st)
			}
			switch {
			case vm.isVar(l, "err"):
				if len(s.Rhs) == len(s.Lhs) {
					st.errSet = !isNilIdent(s.Rhs[i])
					st.errNil = isNilIdent(s.Rhs[i])
				} else {
					st.errSet = true
				}
				if st.errSet {
					st.trace = append(st.trace, "seterr")
				} else {
					st.trace = append(st.trace, "clrerr")
				}
			case vm.isVar(l, "pc"):
				st.pcSet = true
			case vm.isVar(l, "backtrack"):
				st.btSet = true
				st.trace = append(st.trace, "setbt")
			}
		}
		return []vmState{st}
	case *ast.ExprStmt:
		vm.count(s.X, &st)
		if c, ok := s.X.(*ast.CallExpr); ok {
			if id, ok := c.Fun.(*ast.Ident); ok && id.Name == "panic" && vm.info.Uses[id] == types.Universe.Lookup("panic") {
				*exits = append(*exits, vmExit{"panic", st, s.Pos()})
				return nil
			}
		}
		return []vmState{st}
	case *ast.IncDecStmt:
		vm.count(s.X, &st)
		return []vmState{st}
	case *ast.DeclStmt, *ast.EmptyStmt:
		return []vmState{st}
	case *ast.BlockStmt:
		return vm.walk(s.List, st, exits)
	case *ast.IfStmt:
		if s.Init != nil {
			sts := vm.step(s.Init, st, exits)
			if len(sts) == 0 {
				return nil
			}
			st = sts[0]
		}
		vm.count(s.Cond, &st)
		var out []vmState
		out = append(out, vm.walk(s.Body.List, st.clone(), exits)...)
		if s.Else != nil {
			out = append(out, vm.step(s.Else, st.clone(), exits)...)
		} else {
			out = append(out, st)
		}
		return out
	case *ast.SwitchStmt, *ast.TypeSwitchStmt:
		var body *ast.BlockStmt
		hasDefault := false
		switch s := s.(type) {
		case *ast.SwitchStmt:
			if s.Init != nil {
				if sts := vm.step(s.Init, st, exits); len(sts) > 0 {
					st = sts[0]
				}
			}
			if s.Tag != nil {
				vm.count(s.Tag, &st)
			}
			body = s.Body
		case *ast.TypeSwitchStmt:
			if s.Init != nil {
				if sts := vm.step(s.Init, st, exits); len(sts) > 0 {
					st = sts[0]
				}
			}
			vm.count(s.Assign, &st)
			body = s.Body
		}
		var out []vmState
		for _, c := range body.List {
			cc := c.(*ast.CaseClause)
			if cc.List == nil {
				hasDefault = true
			}
			sub := st.clone()
			label := "default"
			if len(cc.List) > 0 {
				label = vm.c.Src(cc.List[0])
			}
			sub.trace = append(sub.trace, "case "+label)
			var inner []vmExit
			res := vm.walk(cc.Body, sub, &inner)
			for _, e := range inner {
				if e.kind == "break" {
					res = append(res, e.st)
				} else {
					*exits = append(*exits, e)
				}
			}
			out = append(out, res...)
		}
		if !hasDefault {
			out = append(out, st)
		}
		return out
	case *ast.ForStmt, *ast.RangeStmt:
		var body *ast.BlockStmt
		switch s := s.(type) {
		case *ast.ForStmt:
			if s.Init != nil {
				if sts := vm.step(s.Init, st, exits); len(sts) > 0 {
					st = sts[0]
				}
			}
			if s.Cond != nil {
				vm.count(s.Cond, &st)
			}
			body = s.Body
		case *ast.RangeStmt:
			vm.count(s.X, &st)
			body = s.Body
		}
		// zero or one iteration (data-bounded inner loops; push/pop inside a loop is flagged by the trace)
		var inner []vmExit
		sub := st.clone()
		sub.trace = append(sub.trace, "loop{")
		res := vm.walk(body.List, sub, &inner)
		out := []vmState{st}
		for _, r := range res {
			r.trace = append(r.trace, "}")
			out = append(out, r)
		}
		for _, e := range inner {
			if e.kind == "break" || e.kind == "continue" {
				e.st.trace = append(e.st.trace, "}")
				out = append(out, e.st)
			} else {
				*exits = append(*exits, e)
			}
		}
		return out
	case *ast.LabeledStmt:
		return vm.step(s.Stmt, st, exits)
	case *ast.SelectStmt:
		var out []vmState
		for _, c := range s.Body.List {
			cc := c.(*ast.CommClause)
			out = append(out, vm.walk(cc.Body, st.clone(), exits)...)
		}
		return out
	case *ast.DeferStmt, *ast.GoStmt:
		return []vmState{st}
	}
	panic(fmt.Sprintf("unhandled statement %T at %s", s, vm.c.Pos(s.Pos())))
}

// opSet helpers

func (vm *VM) clausesCalling(method string) []*VMClause {
	var out []*VMClause
	for _, cl := range vm.Clauses {
		found := false
		ast.Inspect(cl.CC, func(n ast.Node) bool {
			if call, ok := n.(*ast.CallExpr); ok && vm.envMethod(call) == method {
				found = true
			}
			return !found
		})
		if found {
			out = append(out, cl)
		}
	}
	return out
}

func opsOf(cls []*VMClause) []string {
	var out []string
	for _, cl := range cls {
		out = append(out, cl.Ops...)
	}
	sort.Strings(out)
	return out
}

// BranchOps: clauses that assign pc from code.v.(int) (directly or via a type-switch binding of code.v).
func (vm *VM) BranchOps() map[string]bool {
	out := map[string]bool{}
	for _, cl := range vm.Clauses {
		hasInt := false
		for _, t := range cl.Operand {
			if t == "int" {
				hasInt = true
			}
		}
		if !hasInt {
			continue
		}
		assignsPC := false
		ast.Inspect(cl.CC, func(n ast.Node) bool {
			if as, ok := n.(*ast.AssignStmt); ok {
				for _, l := range as.Lhs {
					if vm.isVar(l, "pc") {
						assignsPC = true
					}
				}
			}
			return true
		})
		if assignsPC {
			for _, op := range cl.Ops {
				out[op] = true
			}
		}
	}
	return out
}

// VarOps: clauses evaluating env.index(code.v.([2]int)).
func (vm *VM) VarOps() map[string]bool {
	out := map[string]bool{}
	for _, cl := range vm.clausesCalling("index") {
		for _, op := range cl.Ops {
			out[op] = true
		}
	}
	return out
}
