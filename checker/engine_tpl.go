package main

import (
	"fmt"
	"go/ast"
	"go/token"
	"go/types"
	"sort"
	"strings"
)

// Engine TPL: symbolic execution of the compile* functions of compiler.go into *emission templates*.
//
// A template is the instruction sequence one call of a lowering function appends, for one choice of the shape of its
// AST argument (number of patterns, presence of else/catch/extract, number of arguments, …) and of the size class of
// each sub-compilation ("hole": empty, exactly one unknown instruction, or many). The executor understands the small
// Go subset the compiler is written in: c.append / c.lazy placeholders and their closers, defer (LIFO, including
// deferred function literals), `len(c.codes)` arithmetic, local int/bool variables captured by reference, the slice
// surgery the optimisations perform on c.codes (truncate, replace, move, rewrite op), loops over AST slices (unrolled
// for each shape), and calls to other compile* functions (inlined for the functions whose output the caller inspects,
// holes otherwise). Conditions that only depend on the AST are free choices, memoised per run so that one run is
// consistent; conditions on the emission state are evaluated. Every template is then verified by Engine BC.
//
// Anything outside the subset makes the *variant* unsupported (reported as such, never as a violation).

type tplItem struct {
	ins     bcIns
	isHole  bool
	nilSlot bool // lazy placeholder not yet filled
	holePop, holePush int
	single  bool // hole of exactly one unknown instruction
	tag     string
	visible []tplVis // hole: the named variables a sub-compilation can resolve at this point
	regions []int    // hole: ids of the scope-depth regions open when the sub-compilation runs (innermost last)
	arg     string   // hole: source text of the AST argument being compiled (e.g. e.Cond)
	loop    string   // loop iteration vector of the lowering function at emission time
	fn      string   // hole: the lowering function (frame) that ran the sub-compilation
	argDesc string   // hole: what is compiled, resolved through parameters (e#0.Cond, <query:key>, …)
	chain   string   // hole: the lowering functions on the executor's call stack, outermost first
	paired  bool     // the remaining slot of a long hole taken for a two-instruction fragment: holePop/holePush are exact
	origin  string   // the AST argument whose sub-compilation this slot came from (both slots of a long hole; kept when an op is pinned)
}

// tplHoleRec logs one sub-compilation in program order (kept even when the hole is chosen empty).
type tplHoleRec struct {
	name, arg, fn string
	regions       []int
	frame         int
}

// tplVis is one entry of the modelled scope.variables list.
type tplVis struct {
	name  string
	id    string
	depth int
}

type tvKind int

const (
	tvUnknown tvKind = iota
	tvInt
	tvBool
	tvCloser
	tvFuncLit
	tvAST  // an AST value (possibly a literal built by the compiler with known absent fields)
	tvVar  // a bytecode variable operand
	tvList // a Go slice with known length (symbolic elements)
	tvNil
	tvStr
	tvRec // a concrete AST record given as input (fields known; absent fields are zero values)
	tvItem // an instruction taken out of c.codes (a copy of the template item)
)

type tVal struct {
	k      tvKind
	i      int
	b      bool
	s      string
	slot   int           // closer: placeholder index
	lit    *ast.FuncLit  // closer body / function literal
	env    *tplEnv       // defining environment of a literal
	astLit *ast.CompositeLit
	desc   string
	elems  []tVal
	fields map[string]tVal
	item   *tplItem
}

// zeroOf is the zero value of a static type in the executor's value domain.
func zeroOf(t types.Type) tVal {
	switch {
	case t == nil:
		return tVal{k: tvNil}
	case t.String() == "string":
		return tVal{k: tvStr, s: ""}
	case t.String() == "bool":
		return tVal{k: tvBool, b: false}
	case isIntType(t):
		return tVal{k: tvInt, i: 0}
	}
	if _, isSlice := t.Underlying().(*types.Slice); isSlice {
		return tVal{k: tvList, i: 0}
	}
	if bt, ok := t.Underlying().(*types.Basic); ok && bt.Info()&types.IsInteger != 0 {
		return tVal{k: tvInt, i: 0}
	}
	return tVal{k: tvNil}
}

// deepCopy copies a record tree so that one run's field assignments do not leak into the next run.
func deepCopy(v tVal) tVal {
	switch v.k {
	case tvRec:
		nv := v
		nv.fields = map[string]tVal{}
		for k, f := range v.fields {
			nv.fields[k] = deepCopy(f)
		}
		return nv
	case tvList:
		nv := v
		if v.elems != nil {
			nv.elems = make([]tVal, len(v.elems))
			for i, e := range v.elems {
				nv.elems[i] = deepCopy(e)
			}
		}
		return nv
	}
	return v
}

func rec(typ string, kv ...any) tVal {
	v := tVal{k: tvRec, desc: typ, fields: map[string]tVal{}}
	for i := 0; i+1 < len(kv); i += 2 {
		v.fields[kv[i].(string)] = kv[i+1].(tVal)
	}
	return v
}
func tstr(s string) tVal { return tVal{k: tvStr, s: s} }
func tbool(b bool) tVal  { return tVal{k: tvBool, b: b} }
func tlist(es ...tVal) tVal {
	return tVal{k: tvList, i: len(es), elems: es}
}
func topaque(desc string) tVal { return tVal{k: tvAST, desc: desc} } // a non-nil AST node whose content is irrelevant (a hole will stand for it)

type tplCell struct{ v tVal }

type tplEnv struct {
	vars   map[types.Object]*tplCell
	parent *tplEnv
}

func (e *tplEnv) lookup(o types.Object) *tplCell {
	for x := e; x != nil; x = x.parent {
		if c, ok := x.vars[o]; ok {
			return c
		}
	}
	return nil
}

func (e *tplEnv) define(o types.Object, v tVal) {
	if o == nil {
		return
	}
	e.vars[o] = &tplCell{v}
}

func newTplEnv(parent *tplEnv) *tplEnv { return &tplEnv{vars: map[types.Object]*tplCell{}, parent: parent} }

type tplUnsupported struct{ msg string }

type tplReturn struct{ vals []tVal }

type tplBreak struct{ label string }
type tplContinue struct{}
type tplFallthrough struct{}

type tplFrame struct {
	fn     *ast.FuncDecl
	defers []func()
	scopeSaved bool
	visLen, sdepth int
}

type tplRun struct {
	c      *Ctx
	info   *types.Info
	items  []tplItem
	choice []int // decision vector being replayed
	pos    int   // next decision index
	nopts  []int // options count per decision taken in this run
	memo   map[string]int
	keys   []string
	frames []*tplFrame
	loopIx []int
	depth  int
	varSeq int
	steps  int
	holeNets map[string]int
	inline map[string]bool
	trace  []string
	strFacts map[string]string
	vis    []tplVis        // model of scope.variables of the innermost scope
	sdepth int             // model of scope.depth
	owned  map[string]bool // variables created by this run (newVariable/pushVariable/createVariable)
	lastRet []tVal
	regions []int // open scope-depth regions (ids), innermost last
	regionSeq int
	curArg  string
	curArgDesc string
	assertProblem string // first unchecked operand assertion that does not match the emitted operand's type
	inlinePred func(short string, arg tVal) bool // root-specific: run this sub-compilation instead of leaving a hole
	holeLog []tplHoleRec
}

func (r *tplRun) shapeOptions(key string) int {
	if strings.Contains(key, "Imports") || strings.Contains(key, "scopes") || strings.Contains(key, "funcs") || strings.Contains(key, "environLoader") || strings.Contains(key, "fds") {
		return 2
	}
	return 3
}

// lenOfParam evaluates len(<parameter named name of the current function>).
func (r *tplRun) lenOfParam(name string, env *tplEnv) (int, bool) {
	fd := r.frame().fn
	for _, f := range fd.Type.Params.List {
		for _, nm := range f.Names {
			if nm.Name == name {
				c := env.lookup(r.info.Defs[nm])
				if c != nil && c.v.k == tvList {
					return c.v.i, true
				}
				desc := fmt.Sprintf("%s#%d", name, r.depth)
				if c != nil && c.v.desc != "" {
					desc = c.v.desc
				}
				key := "len(" + desc + ")"
				return r.decideShape(key, r.shapeOptions(key)), true
			}
		}
	}
	return 0, false
}

func (r *tplRun) unsupported(format string, a ...any) {
	panic(tplUnsupported{fmt.Sprintf(format, a...)})
}

// decide returns a value in [0,n) for the free choice `key`, consistent within the run.
func (r *tplRun) decide(key string, n int) int {
	if len(r.loopIx) > 0 {
		key = fmt.Sprintf("%s@%v", key, r.loopIx)
	}
	if v, ok := r.memo[key]; ok {
		return v
	}
	v := 0
	if r.pos < len(r.choice) {
		v = r.choice[r.pos]
	}
	if v >= n {
		v = n - 1
	}
	r.pos++
	r.nopts = append(r.nopts, n)
	r.keys = append(r.keys, key)
	r.memo[key] = v
	return v
}

// shared (loop independent) decision
func (r *tplRun) decideShape(key string, n int) int {
	save := r.loopIx
	r.loopIx = nil
	v := r.decide(key, n)
	r.loopIx = save
	return v
}

func (r *tplRun) src(n ast.Node) string { return r.c.Src(n) }

func isCodesExpr(r *tplRun, e ast.Expr) bool {
	f, ok := selectorOn(r.info, e, "compiler")
	return ok && f == "codes"
}

// ---- expression evaluation ----

func (r *tplRun) evalInt(e ast.Expr, env *tplEnv) (int, bool) {
	v := r.eval(e, env)
	if v.k == tvInt {
		return v.i, true
	}
	return 0, false
}

func (r *tplRun) eval(e ast.Expr, env *tplEnv) tVal {
	e = unparen(e)
	if tv, ok := r.info.Types[e]; ok && tv.Value != nil {
		if v, ok := constInt(r.info, e); ok {
			return tVal{k: tvInt, i: int(v)}
		}
		if s, ok := constString(r.info, e); ok {
			return tVal{k: tvStr, s: s}
		}
		if tv.Value.String() == "true" || tv.Value.String() == "false" {
			return tVal{k: tvBool, b: tv.Value.String() == "true"}
		}
	}
	switch x := e.(type) {
	case *ast.Ident:
		if x.Name == "nil" {
			return tVal{k: tvNil}
		}
		if c := env.lookup(r.info.ObjectOf(x)); c != nil {
			if c.v.k == tvUnknown {
				if s, ok := r.strFacts[r.describe(x, env)]; ok {
					return tVal{k: tvStr, s: s}
				}
			}
			return c.v
		}
		if s, ok := r.strFacts[r.describe(x, env)]; ok {
			return tVal{k: tvStr, s: s}
		}
		return tVal{k: tvUnknown, desc: x.Name}
	case *ast.CallExpr:
		if id, ok := x.Fun.(*ast.Ident); ok && id.Name == "len" && len(x.Args) == 1 {
			if isCodesExpr(r, x.Args[0]) {
				return tVal{k: tvInt, i: len(r.items)}
			}
			a := r.eval(x.Args[0], env)
			switch a.k {
			case tvList:
				return tVal{k: tvInt, i: a.i}
			case tvNil:
				return tVal{k: tvInt, i: 0}
			case tvAST:
				if a.i >= 0 && a.desc == "len-known" {
					return tVal{k: tvInt, i: a.i}
				}
			}
			// length of an AST slice: a shape parameter, keyed by the resolved description of the slice
			key := "len(" + r.describe(x.Args[0], env) + ")"
			return tVal{k: tvInt, i: r.decideShape(key, r.shapeOptions(key))}
		}
		if id, ok := x.Fun.(*ast.Ident); ok && id.Name == "append" && len(x.Args) >= 1 && !x.Ellipsis.IsValid() && r.info.Uses[id] == types.Universe.Lookup("append") {
			base := r.eval(x.Args[0], env)
			if base.k == tvNil {
				base = tVal{k: tvList, elems: []tVal{}}
			}
			if base.k == tvList {
				nv := tVal{k: tvList, i: base.i + len(x.Args) - 1}
				if base.elems != nil || base.i == 0 {
					nv.elems = append([]tVal{}, base.elems...)
					for _, a := range x.Args[1:] {
						nv.elems = append(nv.elems, r.eval(a, env))
					}
				}
				return nv
			}
		}
		if id, ok := x.Fun.(*ast.Ident); ok && id.Name == "make" && len(x.Args) >= 2 {
			if _, isSlice := r.info.TypeOf(x.Args[0]).Underlying().(*types.Slice); isSlice {
				if n, ok := r.evalInt(x.Args[1], env); ok {
					return tVal{k: tvList, i: n}
				}
			}
		}
		if v, ok := r.astHelper(x, env); ok {
			return v
		}
		switch calleeName(r.info, x) {
		case "gojq.compiler.newVariable", "gojq.compiler.pushVariable", "gojq.compiler.createVariable":
			name, known := "", true
			if len(x.Args) == 1 {
				if nv := r.eval(x.Args[0], env); nv.k == tvStr {
					name = nv.s
				} else {
					known = false
					name = "?" + r.src(x.Args[0])
				}
			}
			if strings.HasSuffix(calleeName(r.info, x), "pushVariable") && known {
				for _, w := range r.vis {
					if w.name == name && w.depth == r.sdepth {
						return tVal{k: tvVar, s: w.id}
					}
				}
			}
			r.varSeq++
			id := fmt.Sprintf("v%d", r.varSeq)
			if name != "" {
				id += "(" + name + ")"
			}
			if r.owned == nil {
				r.owned = map[string]bool{}
			}
			r.owned[id] = true
			r.vis = append(r.vis, tplVis{name, id, r.sdepth})
			return tVal{k: tvVar, s: id}
		case "gojq.compiler.lookupVariable":
			r.varSeq++
			return tVal{k: tvVar, s: fmt.Sprintf("v%d", r.varSeq)}
		case "gojq.compiler.lazy":
			return r.doLazy(x, env)
		case "gojq.compiler.newScope":
			// a function scope: the variables created from here on belong to it and go out of reach when the calling
			// lowering function returns (its deferred restore of c.scopes)
			if fr := r.frame(); !fr.scopeSaved {
				fr.scopeSaved, fr.visLen, fr.sdepth = true, len(r.vis), r.sdepth
				r.sdepth += 1000
			}
			return tVal{k: tvUnknown, desc: "scope"}
		case "gojq.compiler.newScopeDepth":
			r.sdepth++
			r.regionSeq++
			r.regions = append(r.regions, r.regionSeq)
			return tVal{k: tvCloser, slot: -1, i: len(r.vis), desc: "scopedepth", s: fmt.Sprint(r.regionSeq)}
		}
		return tVal{k: tvUnknown, desc: r.describeCond(x, env)}
	case *ast.BinaryExpr:
		switch x.Op {
		case token.ADD, token.SUB, token.MUL, token.QUO, token.REM:
			a, ok1 := r.evalInt(x.X, env)
			b, ok2 := r.evalInt(x.Y, env)
			if ok1 && ok2 {
				switch x.Op {
				case token.ADD:
					return tVal{k: tvInt, i: a + b}
				case token.SUB:
					return tVal{k: tvInt, i: a - b}
				case token.MUL:
					return tVal{k: tvInt, i: a * b}
				case token.QUO:
					if b != 0 {
						return tVal{k: tvInt, i: a / b}
					}
				case token.REM:
					if b != 0 {
						return tVal{k: tvInt, i: a % b}
					}
				}
			}
			return tVal{k: tvUnknown, desc: r.src(x)}
		default:
			if b, ok := r.evalCond(x, env); ok {
				return tVal{k: tvBool, b: b}
			}
		}
	case *ast.UnaryExpr:
		if x.Op == token.AND {
			if cl, ok := x.X.(*ast.CompositeLit); ok {
				return tVal{k: tvAST, astLit: cl, env: env, desc: r.src(cl.Type)}
			}
			return r.eval(x.X, env)
		}
		if x.Op == token.NOT {
			if b, ok := r.evalCond(x, env); ok {
				return tVal{k: tvBool, b: b}
			}
		}
		if x.Op == token.SUB {
			if a, ok := r.evalInt(x.X, env); ok {
				return tVal{k: tvInt, i: -a}
			}
		}
	case *ast.CompositeLit:
		if t := r.info.TypeOf(x); t != nil {
			if _, isSlice := t.Underlying().(*types.Slice); isSlice {
				nv := tVal{k: tvList, i: len(x.Elts)}
				for _, el := range x.Elts {
					if cl, ok := el.(*ast.CompositeLit); ok && cl.Type == nil {
						nv.elems = append(nv.elems, tVal{k: tvAST, astLit: cl, env: env, desc: "elem"})
					} else {
						nv.elems = append(nv.elems, r.eval(el, env))
					}
				}
				return nv
			}
		}
		return tVal{k: tvAST, astLit: x, env: env, desc: r.src(x.Type)}
	case *ast.FuncLit:
		return tVal{k: tvFuncLit, lit: x, env: env}
	case *ast.SelectorExpr:
		// field of an AST literal built by the compiler: known when present, absent ⇒ zero value
		base := r.eval(x.X, env)
		if base.k == tvRec {
			if fv, ok := base.fields[x.Sel.Name]; ok {
				return fv
			}
			// zero value by the static type of the field
			t := r.info.TypeOf(x)
			switch {
			case t == nil:
				return tVal{k: tvNil}
			case t.String() == "string":
				return tVal{k: tvStr, s: ""}
			case t.String() == "bool":
				return tVal{k: tvBool, b: false}
			case isIntType(t):
				return tVal{k: tvInt, i: 0}
			}
			if _, isSlice := t.Underlying().(*types.Slice); isSlice {
				return tVal{k: tvList, i: 0}
			}
			return tVal{k: tvNil}
		}
		if base.k == tvAST && base.astLit != nil {
			for _, el := range base.astLit.Elts {
				if kv, ok := el.(*ast.KeyValueExpr); ok {
					if id, ok := kv.Key.(*ast.Ident); ok && id.Name == x.Sel.Name {
						return r.eval(kv.Value, base.env)
					}
				}
			}
			keyed := len(base.astLit.Elts) == 0
			for _, el := range base.astLit.Elts {
				if _, ok := el.(*ast.KeyValueExpr); ok {
					keyed = true
				}
			}
			if keyed {
				return zeroOf(r.info.TypeOf(x)) // absent field of a keyed literal: zero value
			}
		}
		if s, ok := r.strFacts[r.describe(x, env)]; ok {
			return tVal{k: tvStr, s: s}
		}
		return tVal{k: tvUnknown, desc: r.describe(x, env)}
	case *ast.IndexExpr:
		if isCodesExpr(r, x.X) {
			if i, ok := r.evalInt(x.Index, env); ok && i >= 0 && i < len(r.items) {
				it := r.items[i]
				return tVal{k: tvItem, item: &it}
			}
		}
		if a := r.eval(x.X, env); a.k == tvStr {
			if i, ok := r.evalInt(x.Index, env); ok && i >= 0 && i < len(a.s) {
				return tVal{k: tvInt, i: int(a.s[i])}
			}
		}
		if a := r.eval(x.X, env); a.k == tvList {
			if i, ok := r.evalInt(x.Index, env); ok && i >= 0 && i < len(a.elems) {
				return a.elems[i]
			}
		}
		return tVal{k: tvUnknown, desc: r.describe(x, env)}
	case *ast.SliceExpr:
		if a := r.eval(x.X, env); a.k == tvStr {
			lo, hi := 0, len(a.s)
			ok := true
			if x.Low != nil {
				lo, ok = r.evalInt(x.Low, env)
			}
			if x.High != nil && ok {
				hi, ok = r.evalInt(x.High, env)
			}
			if ok && lo >= 0 && hi >= lo && hi <= len(a.s) {
				return tVal{k: tvStr, s: a.s[lo:hi]}
			}
		}
		if a := r.eval(x.X, env); a.k == tvList {
			lo, hi := 0, a.i
			ok := true
			if x.Low != nil {
				lo, ok = r.evalInt(x.Low, env)
			}
			if x.High != nil && ok {
				hi, ok = r.evalInt(x.High, env)
			}
			if ok && lo >= 0 && hi >= lo && hi <= a.i {
				nv := tVal{k: tvList, i: hi - lo}
				if len(a.elems) == a.i {
					nv.elems = append([]tVal(nil), a.elems[lo:hi]...)
				}
				return nv
			}
		}
		return tVal{k: tvUnknown, desc: r.describe(x, env)}
	}
	if u, ok := e.(*ast.UnaryExpr); ok && u.Op == token.NOT {
		return tVal{k: tvUnknown, desc: r.describeCond(e, env)}
	}
	return tVal{k: tvUnknown, desc: r.src(e)}
}

// describe renders an expression with identifiers bound to AST values replaced by their description, so that shape
// parameters are shared between caller and inlined callee.
func (r *tplRun) describe(e ast.Expr, env *tplEnv) string {
	e = unparen(e)
	switch x := e.(type) {
	case *ast.Ident:
		if c := env.lookup(r.info.ObjectOf(x)); c != nil && c.v.k == tvUnknown && c.v.desc != "" {
			return c.v.desc
		}
		if c := env.lookup(r.info.ObjectOf(x)); c != nil && c.v.k == tvAST && c.v.astLit == nil && c.v.desc != "" {
			return c.v.desc
		}
		if c := env.lookup(r.info.ObjectOf(x)); c != nil && c.v.k == tvRec {
			return "<" + c.v.desc + ">"
		}
		return fmt.Sprintf("%s#%d", x.Name, r.depth)
	case *ast.SelectorExpr:
		return r.describe(x.X, env) + "." + x.Sel.Name
	case *ast.IndexExpr:
		if i, ok := r.evalInt(x.Index, env); ok {
			return fmt.Sprintf("%s[%d]", r.describe(x.X, env), i)
		}
		return r.describe(x.X, env) + "[" + r.src(x.Index) + "]"
	case *ast.SliceExpr:
		return r.describe(x.X, env) + "[slice]"
	}
	return r.src(e)
}

// opOfItemExpr: c.codes[IDX].op → (item index, ok)
func (r *tplRun) codesIndex(e ast.Expr, env *tplEnv) (int, bool) {
	ix, ok := unparen(e).(*ast.IndexExpr)
	if !ok || !isCodesExpr(r, ix.X) {
		return 0, false
	}
	return r.evalInt(ix.Index, env)
}

func (r *tplRun) evalCond(e ast.Expr, env *tplEnv) (bool, bool) {
	e = unparen(e)
	switch x := e.(type) {
	case *ast.Ident:
		v := r.eval(x, env)
		if v.k == tvBool {
			return v.b, true
		}
	case *ast.SelectorExpr:
		v := r.eval(x, env)
		if v.k == tvBool {
			return v.b, true
		}
	case *ast.UnaryExpr:
		if x.Op == token.NOT {
			b, ok := r.evalCond(x.X, env)
			return !b, ok
		}
	case *ast.BinaryExpr:
		switch x.Op {
		case token.LAND:
			a, okA := r.evalCondFree(x.X, env)
			if okA && !a {
				return false, true
			}
			b, okB := r.evalCondFree(x.Y, env)
			return a && b, okA && okB
		case token.LOR:
			a, okA := r.evalCondFree(x.X, env)
			if okA && a {
				return true, true
			}
			b, okB := r.evalCondFree(x.Y, env)
			return a || b, okA && okB
		case token.EQL, token.NEQ, token.LSS, token.LEQ, token.GTR, token.GEQ:
			// c.codes[i].op == K   /  c.codes[i] != nil
			if sel, ok := unparen(x.X).(*ast.SelectorExpr); ok && sel.Sel.Name == "op" {
				if idx, ok := r.codesIndex(sel.X, env); ok {
					opID, ok2 := unparen(x.Y).(*ast.Ident)
					if !ok2 || idx < 0 || idx >= len(r.items) {
						return false, false
					}
					it := &r.items[idx]
					var eq bool
					switch {
					case it.nilSlot:
						r.unsupported("op of an unfilled lazy slot read at %s", r.c.Pos(x.Pos()))
					case it.isHole && it.single && it.paired && bcEffects[opID.Name] != [2]int{it.holePop, it.holePush}:
						// the other half of a two-instruction fragment: its stack effect is known, and the op asked for has another
						eq = false
					case it.isHole && it.single:
						// an unknown single instruction: free choice, and the choice pins the op for the rest of the run
						// (a bracket-balanced one-instruction fragment cannot be a bracket, a scope delimiter or a jump)
						if (tplSingleOps[opID.Name] || it.paired && tplPairOps[opID.Name]) && r.decide(fmt.Sprintf("item%d.op==%s", idx, opID.Name), 2) == 1 {
							it.isHole = false
							it.ins = bcIns{Op: opID.Name, Target: -1, Var: -1, Pos: it.ins.Pos}
							it.tag = "single-instruction argument assumed to be " + opID.Name
							eq = true
						}
					case it.isHole:
						// a slot of a longer sub-compilation. Its boundary instructions are in general not the structural op asked
						// for — except that the fragment may consist of exactly two plain instructions, the asked one among them
						// (`$x` is oppop, opload): explored as a choice of its own, which pins this slot and turns the partner slot
						// into a single unknown instruction with the stack effect that keeps the fragment's contract
						eq = false
						second := strings.HasSuffix(it.ins.Hole, "…")
						pidx := idx + 1
						if second {
							pidx = idx - 1
						}
						eff, known := bcEffects[opID.Name]
						if known && tplPairOps[opID.Name] && pidx >= 0 && pidx < len(r.items) && r.items[pidx].isHole && !r.items[pidx].single &&
							strings.TrimSuffix(r.items[pidx].ins.Hole, "…") == strings.TrimSuffix(it.ins.Hole, "…") && strings.HasSuffix(r.items[pidx].ins.Hole, "…") != second {
							other := &r.items[pidx]
							firstIt, secondIt := it, other
							if second {
								firstIt, secondIt = other, it
							}
							P, Q := firstIt.holePop, secondIt.holePush
							var oPop, oPush int
							feasible := true
							if !second { // this slot runs first
								mid := P - eff[0] + eff[1]
								feasible = P >= eff[0] && mid >= 0
								oPop, oPush = mid, Q
							} else {
								mid := Q + eff[0] - eff[1]
								feasible = mid >= 0 && Q >= eff[1]
								oPop, oPush = P, mid
							}
							if feasible && r.decide(fmt.Sprintf("item%d.op==%s(two-instruction fragment)", idx, opID.Name), 2) == 1 {
								meta := *firstIt // the first slot carries what is known about the sub-compilation
								other.single, other.paired, other.holePop, other.holePush = true, true, oPop, oPush
								if second {
									// the remaining first half still receives the fragment's input: it keeps what is known of the
									// sub-compilation (the second half, like every `…` slot, is fed by the first)
									other.arg, other.argDesc, other.fn, other.chain, other.visible, other.regions = meta.arg, meta.argDesc, meta.fn, meta.chain, meta.visible, meta.regions
								}
								it.isHole = false
								it.ins = bcIns{Op: opID.Name, Target: -1, Var: -1, Pos: it.ins.Pos}
								it.tag = "two-instruction fragment assumed to contain " + opID.Name
								eq = true
							}
						}
					default:
						eq = it.ins.Op == opID.Name
					}
					if x.Op == token.NEQ {
						return !eq, true
					}
					return eq, true
				}
			}
			if idx, ok := r.codesIndex(x.X, env); ok && isNilIdent(x.Y) {
				if idx < 0 || idx >= len(r.items) {
					return false, false
				}
				isNil := r.items[idx].nilSlot
				if x.Op == token.NEQ {
					return !isNil, true
				}
				return isNil, true
			}
			a, b := r.eval(x.X, env), r.eval(x.Y, env)
			if a.k == tvInt && b.k == tvInt {
				switch x.Op {
				case token.EQL:
					return a.i == b.i, true
				case token.NEQ:
					return a.i != b.i, true
				case token.LSS:
					return a.i < b.i, true
				case token.LEQ:
					return a.i <= b.i, true
				case token.GTR:
					return a.i > b.i, true
				case token.GEQ:
					return a.i >= b.i, true
				}
			}
			if (a.k == tvNil || b.k == tvNil) && (x.Op == token.EQL || x.Op == token.NEQ) {
				other := a
				if a.k == tvNil {
					other = b
				}
				switch other.k {
				case tvNil:
					return x.Op == token.EQL, true
				case tvRec:
					return x.Op == token.NEQ, true
				case tvAST, tvFuncLit, tvCloser, tvVar:
					if other.astLit != nil || other.k != tvAST || other.desc != "" {
						return x.Op == token.NEQ, true
					}
				case tvList:
					// input records model an absent slice as the empty list (nil); a non-empty list is non-nil
					if other.i > 0 {
						return x.Op == token.NEQ, true
					}
					if other.elems == nil {
						return x.Op == token.EQL, true
					}
				}
			}
			if a.k == tvStr && b.k == tvStr {
				if x.Op == token.EQL {
					return a.s == b.s, true
				}
				if x.Op == token.NEQ {
					return a.s != b.s, true
				}
			}
			if a.k == tvBool && b.k == tvBool {
				if x.Op == token.EQL {
					return a.b == b.b, true
				}
				if x.Op == token.NEQ {
					return a.b != b.b, true
				}
			}
		}
	}
	return false, false
}

// evalCondFree evaluates a condition; if it is not determined by the emission state it becomes a free choice.
// internalIterTable evaluates, from the source, the iter flag of every entry of the package variable internalFuncs:
// the variable is assigned exactly once, a map literal whose values are either `{argcount, <const bool>, f}` literals or
// calls to constructors all of whose returns are `function{…}` literals with a constant iter field. nil if the variable is
// written in any other way.
func internalIterTable(c *Ctx) map[string]bool {
	if v, ok := tplFactCache[c]; ok {
		return v
	}
	p := c.Gojq
	obj := p.Types.Scope().Lookup("internalFuncs")
	litIter := func(x *ast.CompositeLit) (bool, bool) {
		var iterExpr ast.Expr
		for i, el := range x.Elts {
			if kv, isKV := el.(*ast.KeyValueExpr); isKV {
				if id, _ := kv.Key.(*ast.Ident); id != nil && id.Name == "iter" {
					iterExpr = kv.Value
				}
			} else if i == 1 {
				iterExpr = el
			}
		}
		if iterExpr == nil {
			_, keyed := firstKV(x)
			return false, keyed
		}
		tv, has := p.TypesInfo.Types[iterExpr]
		if !has || tv.Value == nil {
			return false, false
		}
		return tv.Value.String() == "true", true
	}
	var ctor func(fd *ast.FuncDecl, depth int) (bool, bool)
	ctor = func(fd *ast.FuncDecl, depth int) (val bool, ok bool) {
		if fd == nil || fd.Body == nil || depth > 4 {
			return false, false
		}
		ok = true
		seen := false
		ast.Inspect(fd.Body, func(n ast.Node) bool {
			if _, isLit := n.(*ast.FuncLit); isLit {
				return false
			}
			rs, isRet := n.(*ast.ReturnStmt)
			if !isRet {
				return true
			}
			var v, good bool
			if len(rs.Results) == 1 {
				switch x := unparen(rs.Results[0]).(type) {
				case *ast.CompositeLit:
					v, good = litIter(x)
				case *ast.CallExpr:
					v, good = ctor(calleeDecl(c, p.TypesInfo, x), depth+1)
				}
			}
			if !good || (seen && v != val) {
				ok = false
			}
			val, seen = v, true
			return false
		})
		return val, ok && seen
	}
	var table map[string]bool
	writes := 0
	bad := obj == nil
	for _, f := range p.Syntax {
		ast.Inspect(f, func(n ast.Node) bool {
			switch x := n.(type) {
			case *ast.UnaryExpr:
				if id, _ := unparen(x.X).(*ast.Ident); x.Op == token.AND && id != nil && p.TypesInfo.Uses[id] == obj {
					bad = true
				}
			case *ast.AssignStmt:
				for i, lhs := range x.Lhs {
					switch l := unparen(lhs).(type) {
					case *ast.Ident:
						if p.TypesInfo.Uses[l] != obj {
							continue
						}
						writes++
						cl, _ := unparen(x.Rhs[min(i, len(x.Rhs)-1)]).(*ast.CompositeLit)
						if cl == nil {
							bad = true
							continue
						}
						table = map[string]bool{}
						for _, el := range cl.Elts {
							kv, _ := el.(*ast.KeyValueExpr)
							if kv == nil {
								bad = true
								continue
							}
							name, okN := constString(p.TypesInfo, kv.Key)
							var v, good bool
							switch y := unparen(kv.Value).(type) {
							case *ast.CompositeLit:
								v, good = litIter(y)
							case *ast.CallExpr:
								v, good = ctor(calleeDecl(c, p.TypesInfo, y), 0)
							}
							if !okN || !good {
								bad = true
								continue
							}
							table[name] = v
						}
					case *ast.IndexExpr:
						if id, _ := unparen(l.X).(*ast.Ident); id != nil && p.TypesInfo.Uses[id] == obj {
							bad = true
						}
					}
				}
			}
			return true
		})
	}
	if bad || writes != 1 {
		table = nil
	}
	tplFactCache[c] = table
	return table
}

var tplFactCache = map[*Ctx]map[string]bool{}

func firstKV(x *ast.CompositeLit) (*ast.KeyValueExpr, bool) {
	if len(x.Elts) == 0 {
		return nil, true
	}
	kv, ok := x.Elts[0].(*ast.KeyValueExpr)
	return kv, ok
}

// calleeDecl resolves a static call to a package-level function declaration of the root package.
func calleeDecl(c *Ctx, info *types.Info, call *ast.CallExpr) *ast.FuncDecl {
	id, _ := unparen(call.Fun).(*ast.Ident)
	if id == nil {
		return nil
	}
	fn, _ := info.Uses[id].(*types.Func)
	if fn == nil {
		return nil
	}
	return c.Decl(c.Gojq, fn.Name())
}

func (r *tplRun) evalCondFree(e ast.Expr, env *tplEnv) (bool, bool) {
	if b, ok := r.evalCond(e, env); ok {
		return b, true
	}
	if sel, ok := unparen(e).(*ast.SelectorExpr); ok && sel.Sel.Name == "iter" {
		if key, ok := r.fromInternalFuncs(sel.X, env); ok {
			if tab := internalIterTable(r.c); tab != nil {
				if kv := r.eval(key, env); kv.k == tvStr {
					return tab[kv.s], true // a missing name yields the zero function: iter == false
				}
			}
		}
	}
	switch x := unparen(e).(type) {
	case *ast.BinaryExpr:
		if x.Op == token.LAND || x.Op == token.LOR {
			return r.evalCond(e, env) // recursion handled there with free atoms
		}
	}
	if be, ok := unparen(e).(*ast.BinaryExpr); ok && (be.Op == token.EQL || be.Op == token.NEQ) {
		key := "cond:" + r.describeCond(be.X, env) + " == " + r.describeCond(be.Y, env)
		eq := r.decide(key, 2) == 1
		if be.Op == token.NEQ {
			return !eq, true
		}
		return eq, true
	}
	key := "cond:" + r.describeCond(e, env)
	return r.decide(key, 2) == 1, true
}

// fromInternalFuncs: e is internalFuncs[k] or a local initialised from it (and never reassigned in the function); returns k.
func (r *tplRun) fromInternalFuncs(e ast.Expr, env *tplEnv) (ast.Expr, bool) {
	isIdx := func(x ast.Expr) ast.Expr {
		ix, _ := unparen(x).(*ast.IndexExpr)
		if ix == nil {
			return nil
		}
		id, _ := unparen(ix.X).(*ast.Ident)
		if id != nil && r.info.Uses[id] != nil && r.info.Uses[id] == r.c.Gojq.Types.Scope().Lookup("internalFuncs") {
			return ix.Index
		}
		return nil
	}
	if k := isIdx(e); k != nil {
		return k, true
	}
	id, _ := unparen(e).(*ast.Ident)
	if id == nil {
		return nil, false
	}
	obj := r.info.ObjectOf(id)
	if obj == nil {
		return nil, false
	}
	fd := r.frame().fn
	n := 0
	var key ast.Expr
	ast.Inspect(fd.Body, func(nd ast.Node) bool {
		as, _ := nd.(*ast.AssignStmt)
		if as == nil {
			return true
		}
		for i, l := range as.Lhs {
			if li, _ := l.(*ast.Ident); li != nil && r.info.ObjectOf(li) == obj {
				n++
				if len(as.Rhs) == len(as.Lhs) {
					key = isIdx(as.Rhs[i])
				}
			}
		}
		return true
	})
	// the key must not be reassigned either: it is a parameter or constant in every use on the pinned tree; a reassigned
	// key identifier would evaluate to its current value, which is still sound because eval reads the current binding
	return key, key != nil && n == 1
}

func (r *tplRun) describeCond(e ast.Expr, env *tplEnv) string {
	var sb strings.Builder
	var walk func(n ast.Expr)
	walk = func(n ast.Expr) {
		switch x := unparen(n).(type) {
		case *ast.BinaryExpr:
			walk(x.X)
			sb.WriteString(" " + x.Op.String() + " ")
			walk(x.Y)
		case *ast.UnaryExpr:
			sb.WriteString(x.Op.String())
			walk(x.X)
		case *ast.Ident, *ast.SelectorExpr, *ast.IndexExpr:
			sb.WriteString(r.describe(x.(ast.Expr), env))
		case *ast.CallExpr:
			// a predicate method without arguments: the receiver is resolved, so that the same question about two
			// different nodes is two decisions
			if sel, ok := x.Fun.(*ast.SelectorExpr); ok && len(x.Args) == 0 {
				sb.WriteString(r.describe(sel.X, env) + "." + sel.Sel.Name + "()")
			} else {
				sb.WriteString(r.src(n))
			}
		default:
			sb.WriteString(r.src(n))
		}
	}
	walk(e)
	return sb.String()
}

// ---- emission ----

func (r *tplRun) operandToIns(op string, v ast.Expr, env *tplEnv, pos token.Pos) bcIns {
	in := bcIns{Op: op, Target: -1, Var: -1, Pos: pos}
	if v == nil {
		return in
	}
	val := r.eval(v, env)
	if t := r.info.TypeOf(v); t != nil {
		in.VType = types.TypeString(t, func(*types.Package) string { return "" })
	}
	switch op {
	case "opfork", "opforktrybegin", "opforkalt", "opjump", "opjumpifnot", "oppushpc":
		if val.k != tvInt {
			r.unsupported("branch operand %s of %s is not a known position at %s", r.src(v), op, r.c.Pos(pos))
		}
		in.Target = val.i
	case "oppush":
		if id, ok := unparen(v).(*ast.Ident); ok && id.Name == "nil" && r.info.Uses[id] == types.Universe.Lookup("nil") {
			in.PushNil = true
		}
	case "opload", "opstore", "opappend", "opforklabel":
		in.Var = 0
		in.VarName = val.s
	case "opscope":
		if cl, ok := unparen(v).(*ast.CompositeLit); ok && len(cl.Elts) == 3 {
			if a, ok := r.evalInt(cl.Elts[2], env); ok {
				in.Scope = [2]int{-1, a}
			} else {
				r.unsupported("opscope arity operand %s unknown", r.src(cl.Elts[2]))
			}
		}
	case "opobject":
		if val.k != tvInt {
			r.unsupported("opobject count unknown")
		}
		in.ArgCnt = val.i
	case "opcall":
		// [3]any{f, n, name}: n; a function pc or the `fn` parameter of compileCallInternal: the number of arguments pushed
		if cl, ok := unparen(v).(*ast.CompositeLit); ok && len(cl.Elts) == 3 {
			if n, ok := r.evalInt(cl.Elts[1], env); ok {
				in.ArgCnt = n
			} else {
				r.unsupported("native argument count %s unknown", r.src(cl.Elts[1]))
			}
			in.NoReturn = nativeNeverReturns(r.c, r.info, cl.Elts[0])
			in.Native = true
			if nm := r.eval(cl.Elts[2], env); nm.k == tvStr {
				in.Name = nm.s
			}
		} else if val.k == tvAST && val.astLit != nil && len(val.astLit.Elts) == 3 {
			if n, ok := r.evalInt(val.astLit.Elts[1], val.env); ok {
				in.ArgCnt = n
			} else {
				r.unsupported("native argument count unknown")
			}
			in.Native = true
			if nm := r.eval(val.astLit.Elts[2], val.env); nm.k == tvStr {
				in.Name = nm.s
			}
		} else if n, ok := r.lenOfParam("args", env); ok {
			// `fn` of compileCallInternal: a function pc or a native triple whose count is len(args) at every call site (R-C01-calltriple)
			in.ArgCnt = n
		} else {
			in.ArgCnt = -1
		}
	}
	return in
}

func (r *tplRun) codeLit(e ast.Expr) (*ast.CompositeLit, bool) {
	u, ok := unparen(e).(*ast.UnaryExpr)
	if !ok || u.Op != token.AND {
		return nil, false
	}
	cl, ok := u.X.(*ast.CompositeLit)
	if !ok || !isNamed(r.info.TypeOf(cl), pathGojq, "code") {
		return nil, false
	}
	return cl, true
}

func (r *tplRun) insOfLit(cl *ast.CompositeLit, env *tplEnv) bcIns {
	op := ""
	var v ast.Expr
	for _, el := range cl.Elts {
		kv, ok := el.(*ast.KeyValueExpr)
		if !ok {
			r.unsupported("positional code literal")
		}
		switch kv.Key.(*ast.Ident).Name {
		case "op":
			if id, ok := unparen(kv.Value).(*ast.Ident); ok {
				op = id.Name
			}
		case "v":
			v = kv.Value
		}
	}
	if op == "" {
		r.unsupported("code literal without a constant op at %s", r.c.Pos(cl.Pos()))
	}
	return r.operandToIns(op, v, env, cl.Pos())
}

func (r *tplRun) emit(in bcIns) {
	if in.Op == "opcall" && in.ArgCnt < 0 {
		r.unsupported("opcall with unknown argument count at %s", r.c.Pos(in.Pos))
	}
	r.items = append(r.items, tplItem{ins: in, loop: fmt.Sprint(r.loopIx)})
}

func (r *tplRun) doLazy(call *ast.CallExpr, env *tplEnv) tVal {
	fl, ok := unparen(call.Args[0]).(*ast.FuncLit)
	if !ok {
		r.unsupported("lazy without a function literal")
	}
	slot := len(r.items)
	r.items = append(r.items, tplItem{nilSlot: true, loop: fmt.Sprint(r.loopIx), ins: bcIns{Op: "<lazy>", Target: -1, Var: -1, Pos: call.Pos()}})
	return tVal{k: tvCloser, slot: slot, lit: fl, env: env}
}

func (r *tplRun) runCloser(v tVal) {
	if v.slot < 0 {
		return // newScopeDepth closer: no emission
	}
	if v.slot >= len(r.items) {
		// the slot was truncated away by an optimisation: Go would write past the slice end → real panic
		r.unsupported("lazy slot %d was cut off before its closer ran", v.slot)
	}
	// body: return &code{…}
	var cl *ast.CompositeLit
	for _, s := range v.lit.Body.List {
		if rs, ok := s.(*ast.ReturnStmt); ok && len(rs.Results) == 1 {
			cl, _ = r.codeLit(rs.Results[0])
		}
	}
	if cl == nil {
		r.unsupported("lazy body is not `return &code{…}`")
	}
	r.items[v.slot] = tplItem{ins: r.insOfLit(cl, v.env), loop: r.items[v.slot].loop}
}

// hole appends a sub-compilation of unknown content.
// tplSingleOps are the opcodes a one-instruction compiled fragment (one value in, a stream of values out) can consist of.
var tplSingleOps = map[string]bool{"opconst": true, "opcall": true, "opload": true, "opindex": true, "opindexarray": true, "opiter": true,
	"opobject": true, "opcallrec": true, "oppush": true, "opnop": true}

// tplPairOps are the plain instructions a two-instruction fragment may be asked about (the peephole tests of the lowering
// functions look for them at the boundary of a sub-compilation).
var tplPairOps = map[string]bool{"oppop": true, "opload": true, "oppush": true, "opconst": true, "opdup": true, "opindex": true, "opindexarray": true,
	"opiter": true, "opnop": true, "opstore": true}

// tplHoleMin: sub-compilations that always emit at least one instruction.
var tplHoleMin = map[string]bool{"compilePattern": true}

func (r *tplRun) hole(name string, pop, push int, pos token.Pos, canBeEmpty bool) {
	n := 3
	if tplHoleMin[name] {
		canBeEmpty = false
	}
	if !canBeEmpty {
		n = 2
	}
	cls := r.decide("hole:"+name+"@"+r.c.Pos(pos), n)
	if !canBeEmpty {
		cls++
	}
	var visible []tplVis
	for _, w := range r.vis {
		if w.name != "" {
			visible = append(visible, w)
		}
	}
	regions := append([]int(nil), r.regions...)
	mk := func(single bool) tplItem {
		return tplItem{isHole: true, single: single, holePop: pop, holePush: push, visible: visible, regions: regions, arg: r.curArg, loop: fmt.Sprint(r.loopIx),
			fn: r.frame().fn.Name.Name, argDesc: r.curArgDesc, chain: r.chain(), origin: r.curArg,
			ins: bcIns{Op: "hole", Target: -1, Var: -1, Pos: pos, Hole: name}}
	}
	r.holeLog = append(r.holeLog, tplHoleRec{name: name, arg: r.curArg, regions: regions, frame: len(r.frames), fn: r.frame().fn.Name.Name})
	switch cls {
	case 0: // empty (identity)
		if pop != push {
			r.items = append(r.items, mk(true))
		}
	case 1:
		r.items = append(r.items, mk(true))
	case 2:
		// two slots so that instruction counting (len(c.codes)-pc) sees "more than one instruction"
		a := mk(false)
		b := tplItem{isHole: true, loop: fmt.Sprint(r.loopIx), holePop: push, holePush: push, origin: r.curArg, ins: bcIns{Op: "hole", Target: -1, Var: -1, Pos: pos, Hole: name + "…"}}
		r.items = append(r.items, a, b)
	}
}

// ---- statements ----

func (r *tplRun) chain() string {
	var names []string
	for _, f := range r.frames {
		names = append(names, f.fn.Name.Name)
	}
	return strings.Join(names, ">")
}

func (r *tplRun) frame() *tplFrame { return r.frames[len(r.frames)-1] }

func (r *tplRun) execBlock(list []ast.Stmt, env *tplEnv) {
	for _, s := range list {
		r.exec(s, env)
	}
}

func (r *tplRun) callValue(fn tVal) {
	switch fn.k {
	case tvCloser:
		if fn.lit == nil {
			if fn.desc == "scopedepth" {
				r.sdepth--
				if fn.i <= len(r.vis) {
					r.vis = r.vis[:fn.i]
				}
				// close the region (and any region opened inside it that was left open)
				for k := len(r.regions) - 1; k >= 0; k-- {
					if fmt.Sprint(r.regions[k]) == fn.s {
						r.regions = r.regions[:k]
						break
					}
				}
			}
			return
		}
		r.runCloser(fn)
	case tvFuncLit:
		r.execFuncLit(fn)
	default:
		// unknown function value: ignore (bookkeeping)
	}
}

func (r *tplRun) execFuncLit(fn tVal) {
	env := newTplEnv(fn.env)
	defer func() {
		if e := recover(); e != nil {
			if _, ok := e.(tplReturn); ok {
				return
			}
			panic(e)
		}
	}()
	r.execBlock(fn.lit.Body.List, env)
}

var tplHoleNet = map[string][2]int{
	"compilePattern": {1, 0}, "compileObjectKeyVal": {0, 2},
	"compileImport": {0, 0}, // function definitions behind jumps and variable stores of data imports: nothing consumed, nothing left
}

// holeFor: calls into the compiler that are modelled as holes or inlined.
func (r *tplRun) compilerCall(call *ast.CallExpr, env *tplEnv) bool {
	name := calleeName(r.info, call)
	if !strings.HasPrefix(name, "gojq.compiler.") {
		return false
	}
	short := strings.TrimPrefix(name, "gojq.compiler.")
	switch short {
	case "append":
		cl, ok := r.codeLit(call.Args[0])
		if !ok {
			// an instruction taken out of c.codes earlier and appended again
			if v := r.eval(call.Args[0], env); v.k == tvItem && v.item != nil {
				r.items = append(r.items, *v.item)
				return true
			}
			r.unsupported("c.append of a non-literal at %s", r.c.Pos(call.Pos()))
		}
		r.emit(r.insOfLit(cl, env))
		return true
	case "appends":
		for _, a := range call.Args {
			cl, ok := r.codeLit(a)
			if !ok {
				r.unsupported("c.appends of a non-literal")
			}
			r.emit(r.insOfLit(cl, env))
		}
		return true
	case "appendCodeInfo", "deleteCodeInfo", "newScope", "lookupBuiltin", "lookupFuncOrVariable":
		return true
	case "compileAssign", "compileModify", "compileLast":
		return true // emit a self-contained builtin behind a jump: verified as literal lists
	}
	if !strings.HasPrefix(short, "compile") {
		// a helper method that emits instructions is executed like the lowering function itself
		if tplEmits(r.c, short, map[string]bool{}) && r.depth < 6 {
			r.inlineCall(short, call, env)
			return true
		}
		return false
	}
	if r.inline[short] && (r.depth < 4 || (r.inlinePred != nil && r.depth < 14)) {
		r.inlineCall(short, call, env)
		return true
	}
	if r.inlinePred != nil && r.depth < 12 && len(call.Args) > 0 {
		a := call.Args[len(call.Args)-1]
		if short == "compileQuery" || short == "compileTerm" || short == "compileIndex" {
			a = call.Args[0]
		}
		if r.inlinePred(short, r.eval(a, env)) {
			r.inlineCall(short, call, env)
			return true
		}
	}
	eff, ok := tplHoleNet[short]
	if !ok {
		eff = [2]int{1, 1}
	}
	// which sub-compilations may emit nothing: a query/term may be the identity
	canBeEmpty := eff[0] == eff[1] && (short == "compileQuery" || short == "compileTerm" || short == "compile")
	r.curArg, r.curArgDesc = "", ""
	if len(call.Args) > 0 {
		a := call.Args[len(call.Args)-1]
		if short == "compileQuery" || short == "compileTerm" {
			a = call.Args[0]
		}
		r.curArg = r.src(a)
		switch v := r.eval(a, env); {
		case v.k == tvRec || (v.k == tvAST && v.astLit == nil && v.desc != ""):
			r.curArgDesc = "<" + v.desc + ">"
		case v.k == tvUnknown && v.desc != "":
			r.curArgDesc = v.desc
		default:
			r.curArgDesc = r.describe(a, env)
		}
	}
	r.hole(short, eff[0], eff[1], call.Pos(), canBeEmpty)
	return true
}

// tplASTHelpers: pure methods of AST nodes that build or select nodes; executed when the receiver is concrete.
var tplASTHelpers = map[string]bool{"Suffix.toTerm": true}

func (r *tplRun) astHelper(call *ast.CallExpr, env *tplEnv) (tVal, bool) {
	sel, ok := unparen(call.Fun).(*ast.SelectorExpr)
	if !ok {
		return tVal{}, false
	}
	name := calleeName(r.info, call)
	key := strings.TrimPrefix(name, "gojq.")
	if !tplASTHelpers[key] {
		return tVal{}, false
	}
	recv := r.eval(sel.X, env)
	if recv.k != tvRec && !(recv.k == tvAST && recv.astLit != nil) {
		return tVal{}, false
	}
	fd := r.c.Decl(r.c.Gojq, key)
	if fd == nil || fd.Recv == nil || len(fd.Recv.List) != 1 || len(fd.Recv.List[0].Names) != 1 {
		return tVal{}, false
	}
	henv := newTplEnv(nil)
	henv.define(r.info.Defs[fd.Recv.List[0].Names[0]], recv)
	k := 0
	for _, f := range fd.Type.Params.List {
		for _, nm := range f.Names {
			if k < len(call.Args) {
				henv.define(r.info.Defs[nm], r.eval(call.Args[k], env))
			}
			k++
		}
	}
	r.depth++
	vals := r.runFunc(fd, henv)
	r.depth--
	if len(vals) == 0 {
		return tVal{k: tvNil}, true
	}
	return vals[0], true
}

// tplEmits: does the compiler method `short` append instructions, directly or through other compiler methods?
func tplEmits(c *Ctx, short string, seen map[string]bool) bool {
	if seen[short] {
		return false
	}
	seen[short] = true
	fd := c.Decl(c.Gojq, "compiler."+short)
	if fd == nil || fd.Body == nil {
		return false
	}
	found := false
	ast.Inspect(fd.Body, func(n ast.Node) bool {
		call, ok := n.(*ast.CallExpr)
		if !ok || found {
			return !found
		}
		name := calleeName(c.Gojq.TypesInfo, call)
		if !strings.HasPrefix(name, "gojq.compiler.") {
			return true
		}
		switch s := strings.TrimPrefix(name, "gojq.compiler."); s {
		case "append", "appends", "lazy":
			found = true
		default:
			if tplEmits(c, s, seen) {
				found = true
			}
		}
		return true
	})
	return found
}

func (r *tplRun) inlineCall(short string, call *ast.CallExpr, env *tplEnv) []tVal {
	fd := r.c.Decl(r.c.Gojq, "compiler."+short)
	if fd == nil {
		r.unsupported("callee %s not found", short)
	}
	callee := newTplEnv(nil)
	k := 0
	for _, f := range fd.Type.Params.List {
		for _, nm := range f.Names {
			if k < len(call.Args) {
				v := r.eval(call.Args[k], env)
				if v.k == tvUnknown {
					v.desc = r.describe(call.Args[k], env)
				}
				callee.define(r.info.Defs[nm], v)
			}
			k++
		}
	}
	r.depth++
	vals := r.runFunc(fd, callee)
	r.depth--
	r.lastRet = vals
	return vals
}

func (r *tplRun) runFunc(fd *ast.FuncDecl, env *tplEnv) (vals []tVal) {
	fr := &tplFrame{fn: fd}
	r.frames = append(r.frames, fr)
	func() {
		defer func() {
			if e := recover(); e != nil {
				if ret, ok := e.(tplReturn); ok {
					vals = ret.vals
					return
				}
				panic(e)
			}
		}()
		r.execBlock(fd.Body.List, env)
	}()
	for i := len(fr.defers) - 1; i >= 0; i-- {
		fr.defers[i]()
	}
	if fr.scopeSaved {
		if fr.visLen <= len(r.vis) {
			r.vis = r.vis[:fr.visLen]
		}
		r.sdepth = fr.sdepth
	}
	r.frames = r.frames[:len(r.frames)-1]
	return vals
}

func (r *tplRun) assign(lhs ast.Expr, v tVal, env *tplEnv, define bool) {
	switch x := unparen(lhs).(type) {
	case *ast.Ident:
		if x.Name == "_" {
			return
		}
		o := r.info.ObjectOf(x)
		if define && r.info.Defs[x] != nil {
			env.define(o, v)
			return
		}
		if c := env.lookup(o); c != nil {
			c.v = v
		} else {
			env.define(o, v)
		}
	case *ast.SelectorExpr:
		// c.codes = c.codes[:K]
		if isCodesExpr(r, x) {
			r.unsupported("assignment to c.codes that is not a truncation")
		}
		// field of an input record (a pointer to an AST node): visible through every alias
		if base := r.eval(x.X, env); base.k == tvRec {
			base.fields[x.Sel.Name] = v
			return
		}
		// X.op = K on an item
		if x.Sel.Name == "op" {
			if idx, ok := r.codesIndex(x.X, env); ok {
				if idx < 0 || idx >= len(r.items) || r.items[idx].isHole || r.items[idx].nilSlot {
					r.unsupported("op rewrite on slot %d which is not a concrete instruction", idx)
				}
				r.items[idx].ins.Op = v.s
				return
			}
		}
	case *ast.IndexExpr:
		if isCodesExpr(r, x.X) {
			r.unsupported("handled by caller")
		}
	}
}

// checkOperandAsserts: an unchecked assertion c.codes[K].v.(T) executed by the lowering code must find an operand whose
// static Go type at the emission site is T (the compiler reads back what it emitted; a value of another dynamic type is a
// panic inside Compile).
func (r *tplRun) checkOperandAsserts(s ast.Stmt, env *tplEnv) {
	commaOK := map[*ast.TypeAssertExpr]bool{}
	ast.Inspect(s, func(q ast.Node) bool {
		switch x := q.(type) {
		case *ast.BlockStmt, *ast.FuncLit:
			return false // nested statements are checked when they are executed
		case *ast.AssignStmt:
			if len(x.Lhs) == 2 && len(x.Rhs) == 1 {
				if ta, ok := unparen(x.Rhs[0]).(*ast.TypeAssertExpr); ok {
					commaOK[ta] = true
				}
			}
		case *ast.TypeAssertExpr:
			if x.Type == nil || commaOK[x] {
				return true
			}
			sel, ok := unparen(x.X).(*ast.SelectorExpr)
			if !ok || sel.Sel.Name != "v" {
				return true
			}
			idx, ok := r.codesIndex(sel.X, env)
			if !ok || idx < 0 || idx >= len(r.items) {
				return true
			}
			it := r.items[idx]
			if it.isHole || it.nilSlot || it.ins.VType == "" {
				return true
			}
			want := types.TypeString(r.info.TypeOf(x.Type), func(*types.Package) string { return "" })
			if it.ins.VType != want && it.ins.VType != "untyped nil" {
				r.assertProblem = fmt.Sprintf("%s asserts c.codes[%d].v.(%s) without a check, but the %s at that position was emitted with an operand of static type %s", r.c.Pos(x.Pos()), idx, want, it.ins.Op, it.ins.VType)
			}
		}
		return true
	})
}

func (r *tplRun) exec(s ast.Stmt, env *tplEnv) {
	r.steps++
	if r.steps > 20000 {
		r.unsupported("step budget exceeded")
	}
	switch s.(type) {
	case *ast.AssignStmt, *ast.ExprStmt, *ast.IfStmt, *ast.ReturnStmt:
		r.checkOperandAsserts(s, env)
	}
	switch x := s.(type) {
	case *ast.ExprStmt:
		call, ok := x.X.(*ast.CallExpr)
		if !ok {
			return
		}
		if r.compilerCall(call, env) {
			return
		}
		// closer()()  /  name()
		if inner, ok := call.Fun.(*ast.CallExpr); ok {
			v := r.eval(inner, env)
			r.callValue(v)
			return
		}
		if id, ok := call.Fun.(*ast.Ident); ok {
			if c := env.lookup(r.info.ObjectOf(id)); c != nil {
				r.callValue(c.v)
				return
			}
			if id.Name == "panic" {
				panic(tplReturn{})
			}
		}
		if fl, ok := call.Fun.(*ast.FuncLit); ok {
			r.execFuncLit(tVal{k: tvFuncLit, lit: fl, env: env})
		}
	case *ast.DeferStmt:
		fr := r.frame()
		call := x.Call
		if inner, ok := call.Fun.(*ast.CallExpr); ok {
			// defer c.lazy(…)()  /  defer c.newScopeDepth()()  /  defer c.appendBuiltin(…)()
			v := r.eval(inner, env)
			fr.defers = append(fr.defers, func() { r.callValue(v) })
			return
		}
		if fl, ok := call.Fun.(*ast.FuncLit); ok {
			// arguments are evaluated now, the body later
			fenv := newTplEnv(env)
			k := 0
			for _, f := range fl.Type.Params.List {
				for _, nm := range f.Names {
					if k < len(call.Args) {
						fenv.define(r.info.Defs[nm], r.eval(call.Args[k], env))
					}
					k++
				}
			}
			fr.defers = append(fr.defers, func() { r.execFuncLit(tVal{k: tvFuncLit, lit: fl, env: fenv}) })
			return
		}
		if id, ok := call.Fun.(*ast.Ident); ok {
			if c := env.lookup(r.info.ObjectOf(id)); c != nil {
				v := c.v
				fr.defers = append(fr.defers, func() { r.callValue(v) })
			}
		}
	case *ast.AssignStmt:
		r.execAssign(x, env)
	case *ast.DeclStmt:
		if gd, ok := x.Decl.(*ast.GenDecl); ok && gd.Tok == token.VAR {
			for _, sp := range gd.Specs {
				vs := sp.(*ast.ValueSpec)
				for i, nm := range vs.Names {
					var v tVal
					if i < len(vs.Values) {
						v = r.eval(vs.Values[i], env)
					} else {
						t := r.info.TypeOf(nm)
						switch {
						case t != nil && isIntType(t):
							v = tVal{k: tvInt, i: 0}
						case t != nil && t.String() == "bool":
							v = tVal{k: tvBool, b: false}
						case t != nil && strings.HasPrefix(t.String(), "[]"):
							v = tVal{k: tvList, i: 0}
						case t != nil && t.String() == "string":
							v = tVal{k: tvStr, s: ""}
						case t != nil && t.String() == "error":
							v = tVal{k: tvNil}
						default:
							v = tVal{k: tvUnknown, desc: nm.Name}
						}
					}
					env.define(r.info.Defs[nm], v)
				}
			}
		}
	case *ast.IfStmt:
		ienv := newTplEnv(env)
		if x.Init != nil {
			// `if err := c.compileX(…); err != nil { return err }`  → the call, error path ignored
			if as, ok := x.Init.(*ast.AssignStmt); ok && len(as.Rhs) == 1 {
				if call, ok := as.Rhs[0].(*ast.CallExpr); ok && r.isErrPlumbing(x) && len(as.Lhs) == 1 {
					if r.compilerCall(call, ienv) {
						return
					}
				}
			}
			r.exec(x.Init, ienv)
			if r.isErrPlumbing(x) {
				return
			}
		}
		b, _ := r.evalCondFree(x.Cond, ienv)
		if b {
			r.execBlock(x.Body.List, newTplEnv(ienv))
		} else if x.Else != nil {
			switch e := x.Else.(type) {
			case *ast.BlockStmt:
				r.execBlock(e.List, newTplEnv(ienv))
			case *ast.IfStmt:
				r.exec(e, ienv)
			}
		}
	case *ast.ReturnStmt:
		if n := len(x.Results); n > 0 {
			last := unparen(x.Results[n-1])
			isCompile := false
			if call, ok := last.(*ast.CallExpr); ok && strings.HasPrefix(calleeName(r.info, call), "gojq.compiler.compile") {
				isCompile = true
			}
			if t := r.info.TypeOf(last); !isNilIdent(last) && !isCompile && t != nil {
				errT := types.Universe.Lookup("error").Type().Underlying().(*types.Interface)
				if t.String() == "error" || (!isEmptyIface(t) && types.Implements(t, errT)) {
					panic(tplUnsupported{"error-return"}) // a compile error: no template
				}
			}
		}
		// return c.compileX(…)  → the call, then return
		var vals []tVal
		for _, res := range x.Results {
			if call, ok := unparen(res).(*ast.CallExpr); ok {
				r.lastRet = nil
				if r.compilerCall(call, env) {
					if len(x.Results) == 1 && r.lastRet != nil {
						vals = r.lastRet
					} else {
						vals = append(vals, tVal{k: tvNil})
					}
					continue
				}
			}
			vals = append(vals, r.eval(res, env))
		}
		panic(tplReturn{vals})
	case *ast.BlockStmt:
		r.execBlock(x.List, newTplEnv(env))
	case *ast.ForStmt:
		r.execFor(x, env)
	case *ast.RangeStmt:
		r.execRange(x, env)
	case *ast.SwitchStmt:
		r.execSwitch(x, env)
	case *ast.IncDecStmt:
		if id, ok := x.X.(*ast.Ident); ok {
			if c := env.lookup(r.info.ObjectOf(id)); c != nil && c.v.k == tvInt {
				if x.Tok == token.INC {
					c.v.i++
				} else {
					c.v.i--
				}
			}
		}
	case *ast.BranchStmt:
		switch x.Tok {
		case token.BREAK:
			panic(tplBreak{})
		case token.CONTINUE:
			panic(tplContinue{})
		case token.FALLTHROUGH:
			panic(tplFallthrough{})
		default:
			r.unsupported("goto")
		}
	case *ast.TypeSwitchStmt:
		r.unsupported("type switch at %s", r.c.Pos(x.Pos()))
	case *ast.LabeledStmt:
		r.exec(x.Stmt, env)
	case *ast.EmptyStmt:
	default:
		r.unsupported("statement %T at %s", s, r.c.Pos(s.Pos()))
	}
}

func (r *tplRun) isErrPlumbing(x *ast.IfStmt) bool {
	be, ok := unparen(x.Cond).(*ast.BinaryExpr)
	if !ok || be.Op != token.NEQ || !isNilIdent(be.Y) {
		return false
	}
	id, ok := unparen(be.X).(*ast.Ident)
	if !ok {
		return false
	}
	t := r.info.TypeOf(id)
	if t == nil || t.String() != "error" {
		return false
	}
	return endsInReturn(x.Body)
}

func (r *tplRun) execAssign(x *ast.AssignStmt, env *tplEnv) {
	define := x.Tok == token.DEFINE
	// c.codes = c.codes[:K]
	if len(x.Lhs) == 1 && isCodesExpr(r, x.Lhs[0]) {
		se, ok := unparen(x.Rhs[0]).(*ast.SliceExpr)
		if !ok || !isCodesExpr(r, se.X) || se.Low != nil || se.High == nil {
			r.unsupported("c.codes assigned something other than c.codes[:K] at %s", r.c.Pos(x.Pos()))
		}
		k, ok := r.evalInt(se.High, env)
		if !ok || k < 0 || k > len(r.items) {
			r.unsupported("truncation bound unknown at %s", r.c.Pos(x.Pos()))
		}
		r.items = r.items[:k]
		return
	}
	// c.codes[i] = &code{…}  /  c.codes[i] = c.codes[j]
	if len(x.Lhs) == 1 {
		if idx, ok := r.codesIndex(x.Lhs[0], env); ok {
			if idx < 0 || idx >= len(r.items) {
				r.unsupported("store to c.codes[%d] outside the template", idx)
			}
			if cl, ok := r.codeLit(x.Rhs[0]); ok {
				r.items[idx] = tplItem{ins: r.insOfLit(cl, env), loop: fmt.Sprint(r.loopIx)}
				return
			}
			if j, ok := r.codesIndex(x.Rhs[0], env); ok && j >= 0 && j < len(r.items) {
				r.items[idx] = r.items[j]
				return
			}
			r.unsupported("store to c.codes[%d] of %s", idx, r.src(x.Rhs[0]))
		}
		// X.op = K
		if sel, ok := unparen(x.Lhs[0]).(*ast.SelectorExpr); ok && sel.Sel.Name == "op" {
			if idx, ok := r.codesIndex(sel.X, env); ok {
				id, ok := unparen(x.Rhs[0]).(*ast.Ident)
				if !ok || idx < 0 || idx >= len(r.items) {
					r.unsupported("op rewrite not understood at %s", r.c.Pos(x.Pos()))
				}
				it := &r.items[idx]
				if it.nilSlot || (it.isHole && !it.single) {
					r.unsupported("op rewrite on a slot that is not a concrete instruction at %s", r.c.Pos(x.Pos()))
				}
				if it.isHole {
					it.isHole = false
					it.ins = bcIns{Target: -1, Var: -1, Pos: it.ins.Pos}
				}
				it.ins.Op = id.Name
				return
			}
		}
	}
	// vs, err = c.compilePattern(vs[:0], p)  and similar two-result compiler calls
	if len(x.Rhs) == 1 {
		if call, ok := unparen(x.Rhs[0]).(*ast.CallExpr); ok {
			name := calleeName(r.info, call)
			if short := strings.TrimPrefix(name, "gojq.compiler."); strings.HasPrefix(name, "gojq.compiler.compile") && r.inline[short] && r.depth < 4 && len(x.Lhs) > 1 {
				vals := r.inlineCall(short, call, env)
				for i, l := range x.Lhs {
					v := tVal{k: tvNil}
					if i < len(vals) {
						v = vals[i]
					}
					if t := r.info.TypeOf(l); t != nil && t.String() == "error" {
						v = tVal{k: tvNil}
					}
					r.assign(l, v, env, define)
				}
				return
			}
			if strings.HasPrefix(name, "gojq.compiler.compile") {
				r.compilerCall(call, env)
				if name == "gojq.compiler.compilePattern" && len(x.Lhs) >= 1 {
					// the list of variables bound by the pattern: its length is a shape parameter (at least one)
					n := 1 + r.decide("patternvars@"+r.c.Pos(call.Pos()), 2)
					r.assign(x.Lhs[0], tVal{k: tvList, i: n}, env, define)
				}
				return
			}
		}
	}
	if len(x.Lhs) == len(x.Rhs) {
		vals := make([]tVal, len(x.Rhs))
		for i, rhs := range x.Rhs {
			vals[i] = r.eval(rhs, env)
			// append(list, x) grows a known list
			if call, ok := unparen(rhs).(*ast.CallExpr); ok {
				if id, ok := call.Fun.(*ast.Ident); ok && id.Name == "append" && len(call.Args) >= 1 {
					if a := r.eval(call.Args[0], env); a.k == tvList && !call.Ellipsis.IsValid() {
						nv := tVal{k: tvList, i: a.i + len(call.Args) - 1}
						vals[i] = nv
					}
				}
			}
		}
		for i, l := range x.Lhs {
			if x.Tok == token.ADD_ASSIGN || x.Tok == token.SUB_ASSIGN {
				if id, ok := l.(*ast.Ident); ok {
					if c := env.lookup(r.info.ObjectOf(id)); c != nil && c.v.k == tvInt && vals[i].k == tvInt {
						if x.Tok == token.ADD_ASSIGN {
							c.v.i += vals[i].i
						} else {
							c.v.i -= vals[i].i
						}
					}
				}
				continue
			}
			r.assign(l, vals[i], env, define)
		}
		return
	}
	// multi-value from one call (lookups etc.): unknown results
	for _, l := range x.Lhs {
		v := tVal{k: tvUnknown, desc: r.src(l)}
		if id, ok := l.(*ast.Ident); ok {
			if t := r.info.TypeOf(id); t != nil && t.String() == "[2]int" {
				r.varSeq++
				v = tVal{k: tvVar, s: fmt.Sprintf("v%d", r.varSeq)}
			}
		}
		r.assign(l, v, env, define)
	}
}

func (r *tplRun) loopBody(body *ast.BlockStmt, env *tplEnv) (brk bool) {
	defer func() {
		if e := recover(); e != nil {
			switch e.(type) {
			case tplBreak:
				brk = true
			case tplContinue:
			default:
				panic(e)
			}
		}
	}()
	r.execBlock(body.List, newTplEnv(env))
	return false
}

func (r *tplRun) execFor(x *ast.ForStmt, env *tplEnv) {
	lenv := newTplEnv(env)
	if x.Init != nil {
		r.exec(x.Init, lenv)
	}
	for iter := 0; ; iter++ {
		if iter > 8 {
			r.unsupported("loop does not terminate within 8 turns at %s", r.c.Pos(x.Pos()))
		}
		if x.Cond != nil {
			b, ok := r.evalCond(x.Cond, lenv)
			if !ok {
				// a walk over the AST (e.g. a comma chain): a free choice per turn, at most three turns
				if iter >= 3 {
					break
				}
				b = r.decide(fmt.Sprintf("loopcond:%s@%s#%d", r.src(x.Cond), r.c.Pos(x.Pos()), iter), 2) == 1
			}
			if !b {
				break
			}
		}
		r.loopIx = append(r.loopIx, iter)
		brk := r.loopBody(x.Body, lenv)
		r.loopIx = r.loopIx[:len(r.loopIx)-1]
		if brk {
			break
		}
		if x.Post != nil {
			r.exec(x.Post, lenv)
		}
	}
}

func (r *tplRun) execRange(x *ast.RangeStmt, env *tplEnv) {
	n := -1
	var elems []tVal
	if v := r.eval(x.X, env); v.k == tvList {
		n = v.i
		elems = v.elems
	} else if v.k == tvInt {
		n = v.i
	} else if v.k == tvNil {
		n = 0
	}
	if n < 0 {
		key := "len(" + r.describe(x.X, env) + ")"
		n = r.decideShape(key, r.shapeOptions(key))
	}
	for i := 0; i < n; i++ {
		lenv := newTplEnv(env)
		if id, ok := x.Key.(*ast.Ident); ok && x.Key != nil && id.Name != "_" {
			lenv.define(r.info.Defs[id], tVal{k: tvInt, i: i})
		}
		if x.Value != nil {
			if id, ok := x.Value.(*ast.Ident); ok && id.Name != "_" {
				v := tVal{k: tvUnknown, desc: fmt.Sprintf("%s[%d]", r.describe(x.X, env), i)}
				if i < len(elems) {
					v = elems[i]
				}
				lenv.define(r.info.Defs[id], v)
			}
		}
		r.loopIx = append(r.loopIx, i)
		brk := r.loopBody(x.Body, lenv)
		r.loopIx = r.loopIx[:len(r.loopIx)-1]
		if brk {
			break
		}
	}
}

func (r *tplRun) execSwitch(x *ast.SwitchStmt, env *tplEnv) {
	senv := newTplEnv(env)
	if x.Init != nil {
		r.exec(x.Init, senv)
	}
	clauses := x.Body.List
	pick := -1
	if x.Tag == nil {
		for i, s := range clauses {
			cc := s.(*ast.CaseClause)
			if cc.List == nil {
				continue
			}
			for _, e := range cc.List {
				if b, _ := r.evalCondFree(e, senv); b {
					pick = i
				}
			}
			if pick >= 0 {
				break
			}
		}
	} else if tv := r.eval(x.Tag, senv); tv.k == tvInt {
		for i, s := range clauses {
			for _, e := range s.(*ast.CaseClause).List {
				if v, ok := r.evalInt(e, senv); ok && v == tv.i {
					pick = i
				}
			}
		}
	} else if tv.k == tvStr {
		for i, s := range clauses {
			for _, e := range s.(*ast.CaseClause).List {
				if v := r.eval(e, senv); v.k == tvStr && v.s == tv.s {
					pick = i
				}
			}
		}
	} else {
		// a switch over an AST value: any clause (including default / none)
		pick = r.decide("switch:"+r.describe(x.Tag, senv)+"@"+r.c.Pos(x.Pos()), len(clauses)+1)
		if pick < len(clauses) {
			if cc := clauses[pick].(*ast.CaseClause); len(cc.List) > 0 {
				if sv := r.eval(cc.List[0], senv); sv.k == tvStr {
					r.strFacts[r.describe(x.Tag, senv)] = sv.s
				}
			}
		}
		if pick == len(clauses) {
			pick = -1
			hasDefault := false
			for _, s := range clauses {
				if s.(*ast.CaseClause).List == nil {
					hasDefault = true
				}
			}
			if hasDefault {
				panic(tplUnsupported{"redundant"}) // the default clause is reachable as its own pick: drop this duplicate variant
			}
			return
		}
	}
	if pick < 0 {
		for i, s := range clauses {
			if s.(*ast.CaseClause).List == nil {
				pick = i
			}
		}
	}
	if pick < 0 {
		return
	}
	for i := pick; i < len(clauses); i++ {
		ft := false
		func() {
			defer func() {
				if e := recover(); e != nil {
					switch e.(type) {
					case tplBreak:
					case tplFallthrough:
						ft = true
					default:
						panic(e)
					}
				}
			}()
			r.execBlock(clauses[i].(*ast.CaseClause).Body, newTplEnv(senv))
		}()
		if !ft {
			break
		}
	}
}

// ---- driver ----

type tplVariant struct {
	Items       []tplItem
	Choices     []string
	Unsupported string
	Owned       map[string]bool
	HoleLog     []tplHoleRec
	AssertProblem string
	Label       string // the concrete input the variant was explored for (e.g. the function name), "" for free shapes
}

// tplExplore enumerates the variants of one root function by replaying decision vectors depth-first.
var tplCurrentPred func(short string, arg tVal) bool

func tplExplore(c *Ctx, fd *ast.FuncDecl, bind func(r *tplRun, env *tplEnv), inline map[string]bool, limit int) []tplVariant {
	var out []tplVariant
	choice := []int{}
	tplLastTruncated = true
	for n := 0; n < limit; n++ {
		r := &tplRun{c: c, info: c.Gojq.TypesInfo, choice: choice, memo: map[string]int{}, inline: inline, strFacts: map[string]string{}, inlinePred: tplCurrentPred}
		env := newTplEnv(nil)
		var v tplVariant
		func() {
			defer func() {
				if e := recover(); e != nil {
					if u, ok := e.(tplUnsupported); ok {
						v.Unsupported = u.msg
						return
					}
					panic(e)
				}
			}()
			if bind != nil {
				bind(r, env)
			}
			r.runFunc(fd, env)
		}()
		v.Items = r.items
		v.Owned = r.owned
		v.HoleLog = r.holeLog
		v.AssertProblem = r.assertProblem
		for i, k := range r.keys {
			v.Choices = append(v.Choices, fmt.Sprintf("%s=%d", k, r.memoVal(i)))
		}
		if v.Unsupported != "redundant" && v.Unsupported != "error-return" {
			out = append(out, v)
		}
		// next decision vector: increment the last decision that has options left
		taken := make([]int, len(r.nopts))
		for i := range taken {
			if i < len(choice) {
				taken[i] = min(choice[i], r.nopts[i]-1)
			}
		}
		i := len(taken) - 1
		for i >= 0 && taken[i]+1 >= r.nopts[i] {
			i--
		}
		if i < 0 {
			tplLastTruncated = false
			break
		}
		choice = append(append([]int(nil), taken[:i]...), taken[i]+1)
	}
	return out
}

// tplLastTruncated: the most recent tplExplore stopped at its variant limit with decision vectors left unexplored.
var tplLastTruncated bool

func (r *tplRun) memoVal(i int) int {
	return r.memo[r.keys[i]]
}

// tplToBC converts a template to the verifier's instruction list.
func tplToBC(items []tplItem) ([]bcIns, string) {
	seq := make([]bcIns, len(items))
	for i, it := range items {
		if it.nilSlot {
			return nil, fmt.Sprintf("lazy slot %d (%s) is never filled", i, it.ins.Op)
		}
		seq[i] = it.ins
		if it.isHole {
			seq[i].Op = "hole"
			seq[i].HolePop, seq[i].HolePush = it.holePop, it.holePush
		}
	}
	return seq, ""
}

func tplRender(items []tplItem) string {
	var parts []string
	for i, it := range items {
		s := fmt.Sprintf("%d:", i)
		switch {
		case it.nilSlot:
			s += "<nil>"
		case it.isHole:
			s += "⟨" + it.ins.Hole + "⟩"
		default:
			s += strings.TrimPrefix(it.ins.Op, "op")
			if it.ins.Target >= 0 {
				s += fmt.Sprintf("→%d", it.ins.Target)
			}
			if it.ins.VarName != "" {
				s += " " + it.ins.VarName
			}
			if it.ins.PushNil {
				s += " nil"
			}
		}
		parts = append(parts, s)
	}
	return strings.Join(parts, " ")
}

func sortedKeys(m map[string]bool) []string {
	var out []string
	for k := range m {
		out = append(out, k)
	}
	sort.Strings(out)
	return out
}
