package main

import (
	"go/ast"
	"go/token"
	"go/types"
	"sort"
	"strings"
)

func init() {
	regProp(&PropInfo{
		ID:    "C01",
		Title: "Query evaluation follows jq's backtracking-generator semantics",
		Decided: "the structural obligations of the VM and compiler without which generator semantics breaks for some nesting: " +
			"every opcode has a dispatch clause and a name (R-C01-dispatch); every fork field is saved by pushfork and restored by popfork, each persistent stack's save() is paired with restore() fed by the same two fork fields (R-C01-forkpair); " +
			"every clause that pushes a fork distinguishes forward execution from re-entry (R-C01-forkreentry); stack and scopeStack, hand-copied siblings, agree (R-C01-stacksib); " +
			"the Go type of every operand the compiler emits or rewrites is one the VM clause of that opcode asserts (R-C01-operand); native call triples are well-formed and the VM's path-tracking name set equals the compiler's indexing set (R-C01-calltriple); " +
			"every scope-depth / lazy-instruction closer is invoked on all non-error paths (R-C01-closers); opscope operands that read a variable count and forward branch targets are evaluated late, inside lazy closures (R-C01-scopecount); " +
			"the hand-assembled bytecode of _last verifies (targets, stack depth, variable indices) (R-C01-bc); per-construct lowering templates are stack-consistent (R-C01-template); builtin.go equals the parse of builtin.jq (R-C03-sync).",
		NotCovered: "the emitted value sequence itself; evaluation order of nested generators; scope-chain walking at run time (env.index/outerindex); which errors try/alt/?// intercept; frame reuse; the persistent-stack index invariant (arithmetic over run-time indices).",
	})

	reg(&Rule{ID: "R-C01-dispatch", Props: []string{"C01", "C08"}, Floor: 25,
		Doc: "every opcode constant has a clause in the VM dispatch switch (default panics) and in every other panicking switch over opcode",
		Run: ruleC01Dispatch})
	reg(&Rule{ID: "R-C01-forkpair", Props: []string{"C01"}, Floor: 9,
		Doc: "every field of struct fork is written by pushfork and read by popfork; save()/restore() pairs use the same fork fields; scalar env state saved is restored",
		Run: ruleC01ForkPair})
	reg(&Rule{ID: "R-C01-forkreentry", Props: []string{"C01"}, Floor: 5,
		Doc: "every VM clause that calls pushfork reads `backtrack` before it (or resets it and discriminates on the popped value)",
		Run: ruleC01ForkReentry})
}

func ruleC01Dispatch(c *Ctx, r *Rep) {
	vm := getVM(c)
	if vm.Err != "" {
		r.Undecided("vm-model", token.NoPos, "%s", vm.Err)
		return
	}
	handled := map[string]bool{}
	for _, cl := range vm.Clauses {
		for _, op := range cl.Ops {
			handled[op] = true
		}
	}
	for _, k := range vm.AllOps {
		r.Check(handled[k.Name()], "dispatch:"+k.Name(), vm.Sw.Pos(),
			"opcode %s %s a case clause in the dispatch switch of (*env).Next", k.Name(), map[bool]string{true: "has", false: "has NO"}[handled[k.Name()]])
	}
	def := classifyDefault(vm.info, vm.Default)
	r.Check(def == "panics", "dispatch:default", vm.Sw.Pos(), "dispatch default is %q (an unknown opcode must not be skipped silently)", def)
	// every other switch over opcode
	for _, es := range enumSwitches(c, c.Gojq, "opcode") {
		if es.Sw == vm.Sw {
			continue
		}
		if es.Default == "panics" {
			miss := missingFrom(vm.AllOps, es.Cases)
			r.Check(len(miss) == 0, "switch:"+es.Fn, es.Sw.Pos(), "switch over opcode in %s with panicking default; missing constants: %v", es.Fn, miss)
		} else {
			r.Info("switch:"+es.Fn, es.Sw.Pos(), "switch over opcode in %s, default=%s, %d cases (partial by design)", es.Fn, es.Default, len(es.Cases))
		}
	}
}

// selectorOn returns the field name if e is `x.F` with x of named type tname (gojq).
func selectorOn(info *types.Info, e ast.Expr, tname string) (string, bool) {
	sel, ok := unparen(e).(*ast.SelectorExpr)
	if !ok {
		return "", false
	}
	if !isNamed(info.TypeOf(sel.X), pathGojq, tname) {
		return "", false
	}
	return sel.Sel.Name, true
}

func ruleC01ForkPair(c *Ctx, r *Rep) {
	info := c.Gojq.TypesInfo
	push, pop := c.Decl(c.Gojq, "env.pushfork"), c.Decl(c.Gojq, "env.popfork")
	tn, _ := c.Gojq.Types.Scope().Lookup("fork").(*types.TypeName)
	en, _ := c.Gojq.Types.Scope().Lookup("env").(*types.TypeName)
	if push == nil || pop == nil || tn == nil || en == nil {
		r.Undecided("anchors", token.NoPos, "pushfork/popfork/struct fork/struct env not found")
		return
	}
	st, _ := tn.Type().Underlying().(*types.Struct)
	est, _ := en.Type().Underlying().(*types.Struct)
	if st == nil || est == nil {
		r.Undecided("anchors", token.NoPos, "fork or env is not a struct")
		return
	}
	// writes in pushfork: forkField -> source expression (string)
	written := map[string]string{}
	type savePair struct{ a, b string }
	saves := map[string]savePair{} // env stack field -> fork fields receiving save()
	ast.Inspect(push.Body, func(n ast.Node) bool {
		switch x := n.(type) {
		case *ast.CompositeLit:
			if isNamed(info.TypeOf(x), pathGojq, "fork") {
				for i, el := range x.Elts {
					if kv, ok := el.(*ast.KeyValueExpr); ok {
						written[kv.Key.(*ast.Ident).Name] = c.Src(kv.Value)
					} else if i < st.NumFields() {
						written[st.Field(i).Name()] = c.Src(el)
					}
				}
			}
		case *ast.AssignStmt:
			var lf []string
			for _, l := range x.Lhs {
				if f, ok := selectorOn(info, l, "fork"); ok {
					lf = append(lf, f)
				} else {
					lf = append(lf, "")
				}
			}
			if len(x.Rhs) == 1 && len(x.Lhs) == 2 {
				if call, ok := x.Rhs[0].(*ast.CallExpr); ok {
					if sel, ok := call.Fun.(*ast.SelectorExpr); ok && sel.Sel.Name == "save" {
						if ef, ok := selectorOn(info, sel.X, "env"); ok && lf[0] != "" && lf[1] != "" {
							saves[ef] = savePair{lf[0], lf[1]}
							written[lf[0]] = "env." + ef + ".save()#0"
							written[lf[1]] = "env." + ef + ".save()#1"
						}
					}
				}
			} else if len(x.Rhs) == len(x.Lhs) {
				for i, f := range lf {
					if f != "" {
						written[f] = c.Src(x.Rhs[i])
					}
				}
			}
		}
		return true
	})
	// reads in popfork
	read := map[string]bool{}
	restores := map[string]savePair{}
	restoredScalar := map[string]string{} // env field -> fork field assigned to it
	ast.Inspect(pop.Body, func(n ast.Node) bool {
		switch x := n.(type) {
		case *ast.SelectorExpr:
			if f, ok := selectorOn(info, x, "fork"); ok {
				read[f] = true
			}
		case *ast.CallExpr:
			if sel, ok := x.Fun.(*ast.SelectorExpr); ok && sel.Sel.Name == "restore" && len(x.Args) == 2 {
				if ef, ok := selectorOn(info, sel.X, "env"); ok {
					a, _ := selectorOn(info, x.Args[0], "fork")
					b, _ := selectorOn(info, x.Args[1], "fork")
					restores[ef] = savePair{a, b}
				}
			}
		case *ast.AssignStmt:
			if len(x.Lhs) == len(x.Rhs) {
				for i, l := range x.Lhs {
					if ef, ok := selectorOn(info, l, "env"); ok {
						if ff, ok := selectorOn(info, x.Rhs[i], "fork"); ok {
							restoredScalar[ef] = ff
						}
					}
				}
			}
		}
		return true
	})
	for i := 0; i < st.NumFields(); i++ {
		f := st.Field(i).Name()
		_, w := written[f]
		r.Check(w, "fork."+f+":saved", push.Pos(), "fork field %s is %s by pushfork (%s)", f, map[bool]string{true: "initialised", false: "NOT initialised"}[w], written[f])
		r.Check(read[f], "fork."+f+":restored", pop.Pos(), "fork field %s is %s by popfork", f, map[bool]string{true: "read", false: "NOT read"}[read[f]])
	}
	// every env field whose type has save()/restore() must be saved and restored with the same fork fields
	for i := 0; i < est.NumFields(); i++ {
		ef := est.Field(i)
		ms := types.NewMethodSet(ef.Type())
		if ms.Lookup(c.Gojq.Types, "save") == nil || ms.Lookup(c.Gojq.Types, "restore") == nil {
			continue
		}
		s, okS := saves[ef.Name()]
		rs, okR := restores[ef.Name()]
		ok := okS && okR && s == rs && s.a != "" && s.b != "" && s.a != s.b
		r.Check(ok, "env."+ef.Name()+":save/restore", push.Pos(),
			"persistent stack env.%s: save()→(%s,%s) in pushfork, restore(%s,%s) in popfork (saved=%v restored=%v)", ef.Name(), s.a, s.b, rs.a, rs.b, okS, okR)
	}
	// distinct stacks must not share fork fields
	used := map[string]string{}
	for ef, s := range saves {
		for _, ff := range []string{s.a, s.b} {
			if prev, dup := used[ff]; dup && prev != ef {
				r.Bad("fork."+ff+":shared", push.Pos(), "fork field %s receives save() of both env.%s and env.%s", ff, prev, ef)
			}
			used[ff] = ef
		}
	}
	// scalars copied from env.X in pushfork must be copied back to env.X in popfork
	var ffs []string
	for ff := range written {
		ffs = append(ffs, ff)
	}
	sort.Strings(ffs)
	for _, ff := range ffs {
		src := written[ff]
		if !strings.HasPrefix(src, "env.") || strings.Contains(src, "(") {
			continue
		}
		ef := strings.TrimPrefix(src, "env.")
		got := restoredScalar[ef]
		r.Check(got == ff, "env."+ef+":scalar", pop.Pos(), "pushfork saves env.%s in fork.%s; popfork restores env.%s from fork.%s", ef, ff, ef, got)
	}
}

func ruleC01ForkReentry(c *Ctx, r *Rep) {
	vm := getVM(c)
	if vm.Err != "" {
		r.Undecided("vm-model", token.NoPos, "%s", vm.Err)
		return
	}
	for _, cl := range vm.clausesCalling("pushfork") {
		name := strings.Join(cl.Ops, ",")
		bad := ""
		check := func(st vmState) {
			if !st.forked {
				return
			}
			// events before the first pushfork
			var readbt, setbt, popped bool
			for _, ev := range st.trace {
				if ev == "pushfork" {
					break
				}
				switch ev {
				case "readbt":
					readbt = true
				case "setbt":
					setbt = true
				case "pop":
					popped = true
				}
			}
			if !(readbt || (setbt && popped)) {
				bad = strings.Join(st.trace, " ")
			}
		}
		for _, e := range cl.Paths {
			check(e.st)
		}
		for _, s := range cl.Fall {
			check(s)
		}
		r.Check(bad == "", "clause:"+name, cl.CC.Pos(),
			"clause %s pushes a fork; every forking path first tests `backtrack` (or resets it and pops the resumption value)%s", name,
			map[bool]string{true: "", false: " — path without re-entry discrimination: " + bad}[bad == ""])
	}
}
