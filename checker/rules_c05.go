package main

import (
	"go/token"
	"strings"

	"golang.org/x/tools/go/ssa"
)

func init() {
	regProp(&PropInfo{
		ID:    "C05",
		Title: "Runs are isolated: inputs and emitted values are never modified",
		Decided: "every instruction in package gojq that writes into a []any / map[string]any (element store, map update, delete, append, copy, clear, maps.Copy, sorts) has a destination that is owned by the running reduction: fresh in the function, guarded by allocator.allocated(x) on a dominating edge, a parameter whose every call site passes an owned value, an element of a fresh container holding only owned values, or VM-private storage (R-C05-own); " +
			"the accumulator of every opappend is initialised from an empty literal so append never writes in place into shared storage (R-C05-appendfresh); every range over a map in gojq and cli/encoder.go has an order-insensitive body shape (R-C05-maporder); " +
			"each run gets a fresh env and Code carries no run state (R-C05-envfresh).",
		NotCovered: "that outputs are equal across runs; read-only structure sharing (legal by design); user-supplied iterators and callbacks; GC address reuse in the uintptr-keyed allocator; aliasing that flows through bytecode rather than Go data flow (its two landing places are checked under C02: R-C02-release, R-C02-inplaceslice).",
	})
	reg(&Rule{ID: "R-C05-own", Props: []string{"C05", "C06", "C02", "C03"}, Floor: 60,
		Doc: "every write into a JSON container in package gojq targets a container owned by the running reduction",
		Run: ruleC05Own})
}

func ruleC05Own(c *Ctx, r *Rep) {
	o := getOwn(c)
	for _, s := range o.Sinks {
		pos := s.Instr.Pos()
		if pos == token.NoPos {
			if v, ok := s.Instr.(ssa.Value); ok {
				pos = v.Pos()
			}
		}
		if pos == token.NoPos {
			pos = s.Fn.Pos()
		}
		if s.Owned {
			r.OK(s.Key, pos, "%s into %s", s.Kind, s.Why)
		} else {
			r.Bad(s.Key, pos, "%s writes into a container not owned by this reduction (%s): it may be shared with the input, a literal of the compiled code, another run or another goroutine", s.Kind, s.Why)
		}
	}
	for t := range o.TrustedUsed {
		for _, ts := range ownTrustedSources {
			if strings.HasPrefix(t, ts.inFn+"→") {
				r.Info("trusted:"+t, token.NoPos, "trusted source used: %s", ts.reason)
			}
		}
	}
}

func init() {
	reg(&Rule{ID: "R-C05-appendfresh", Props: []string{"C05"}, Floor: 2,
		Doc: "the variable of every opappend is initialised, in the same emitting function, by oppush of an empty []any{} literal followed by opstore (so append reallocates and never writes into shared storage) and stored nowhere else",
		Run: ruleC05AppendFresh})
	reg(&Rule{ID: "R-C05-maporder", Props: []string{"C05", "C11"}, Floor: 7,
		Doc: "every range over a map in package gojq and cli/encoder.go has an order-insensitive body: collect-then-sort, writes keyed by the loop key, or a constant-result predicate",
		Run: ruleC05MapOrder})
	reg(&Rule{ID: "R-C05-envfresh", Props: []string{"C05", "C06"}, Floor: 4,
		Doc: "RunWithContext builds its env with newEnv on every call; newEnv returns a fresh literal; Code has no field of run-state type; no package-level variable holds run state",
		Run: ruleC05EnvFresh})
}
