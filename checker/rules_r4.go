package main

// Rules added in the fourth round (defects D31, D32 and the fourth batch of seeded changes); see DESIGN.md sections 3 and 8.

import (
	"fmt"
	"go/ast"
	"go/constant"
	"go/token"
	"go/types"
	"os"
	"regexp"
	"sort"
	"strconv"
	"strings"

	"golang.org/x/tools/go/cfg"
	"golang.org/x/tools/go/packages"
)

func init() {
	reg(&Rule{ID: "R-C08-nativearity", Props: []string{"C08", "C19"}, Floor: 3,
		Doc: "in the VM's native-call clause every fixed-position read args[K] lies under a condition that bounds the argument count above K: the clause dispatches on the callee's name, and a function registered with WithFunction may carry any name with any arity",
		Run: ruleNativeArity})
	addDecided("C08", " R-C08-nativearity: the positional reads of the native-call clause of the VM are bounded by the call's own argument count (D31).")
	addDecided("C19", " R-C08-nativearity: a host function that shares the name of a path-aware native but not its arity cannot reach that native's path bookkeeping (D31).")
}

// addDecided appends to a property's "decided" text whether or not the property is registered yet.
func addDecided(id, text string) {
	if p := props[id]; p != nil {
		p.Decided += text
	} else {
		pendingDecided[id] += text
	}
}

// ruleNativeArity: execute.go's opcall clause pops argcnt arguments into args := env.args[:argcnt] and, when a path is
// being tracked, reads args[0], args[1], args[2] depending on the *name* stored in the instruction. The name of a host
// function is chosen by the user, the arity too; a read args[K] that is not control-dependent on argcnt > K indexes
// past the slice for `path(getpath)` with a 0-ary host function named getpath — a run-time panic out of Next.
func ruleNativeArity(c *Ctx, r *Rep) {
	vm := getVM(c)
	if vm.Err != "" {
		r.Undecided("vm-model", token.NoPos, "%s", vm.Err)
		return
	}
	cl := vm.ByOp["opcall"]
	if cl == nil {
		r.Undecided("opcall", token.NoPos, "no opcall clause in the dispatch switch")
		return
	}
	info := vm.info
	// args := <x>[:argcnt]
	var argsObj, cntObj types.Object
	ast.Inspect(cl.CC, func(n ast.Node) bool {
		as, ok := n.(*ast.AssignStmt)
		if !ok || as.Tok != token.DEFINE || len(as.Lhs) != len(as.Rhs) {
			return true
		}
		for i, rhs := range as.Rhs {
			se, ok := unparen(rhs).(*ast.SliceExpr)
			if !ok || se.High == nil || se.Low != nil {
				continue
			}
			hi, ok := unparen(se.High).(*ast.Ident)
			id, ok2 := as.Lhs[i].(*ast.Ident)
			if !ok || !ok2 {
				continue
			}
			if t, ok := info.TypeOf(rhs).Underlying().(*types.Slice); !ok || !types.Identical(t.Elem(), types.NewInterfaceType(nil, nil)) {
				continue
			}
			argsObj, cntObj = info.Defs[id], info.Uses[hi]
		}
		return true
	})
	if argsObj == nil || cntObj == nil {
		r.Undecided("args", cl.CC.Pos(), "the clause no longer binds its argument slice as `args := <buffer>[:<count>]`; the rule does not know which reads are positional")
		return
	}
	isCnt := func(e ast.Expr) bool {
		e = unparen(e)
		if id, ok := e.(*ast.Ident); ok {
			return info.Uses[id] == cntObj
		}
		if call, ok := e.(*ast.CallExpr); ok && len(call.Args) == 1 {
			if f, ok := call.Fun.(*ast.Ident); ok && f.Name == "len" {
				if id, ok := unparen(call.Args[0]).(*ast.Ident); ok {
					return info.Uses[id] == argsObj
				}
			}
		}
		return false
	}
	intOf := func(e ast.Expr) (int64, bool) {
		tv, ok := info.Types[e]
		if !ok || tv.Value == nil || tv.Value.Kind() != constant.Int {
			return 0, false
		}
		return constant.Int64Val(tv.Value)
	}
	// lower bound on the count implied by a condition holding (conjunctions only); mention reports whether the count
	// is referred to at all; notRead is set when a reference to the count is in a form the rule does not evaluate
	notRead := false
	var lower func(e ast.Expr) (min int64, mention bool)
	lower = func(e ast.Expr) (int64, bool) {
		e = unparen(e)
		b, ok := e.(*ast.BinaryExpr)
		if !ok {
			return 0, mentions(e, isCnt)
		}
		if b.Op == token.LAND {
			l, lm := lower(b.X)
			rr, rm := lower(b.Y)
			return max(l, rr), lm || rm
		}
		x, y, op := b.X, b.Y, b.Op
		if !isCnt(x) && isCnt(y) {
			x, y = y, x
			switch op {
			case token.LSS:
				op = token.GTR
			case token.LEQ:
				op = token.GEQ
			case token.GTR:
				op = token.LSS
			case token.GEQ:
				op = token.LEQ
			}
		}
		if isCnt(x) {
			if k, ok := intOf(y); ok {
				switch op {
				case token.EQL, token.GEQ:
					return k, true
				case token.GTR:
					return k + 1, true
				case token.NEQ, token.LSS, token.LEQ:
					return 0, true // understood: no lower bound follows
				}
			}
			notRead = true
			return 0, true
		}
		if mentions(e, isCnt) {
			notRead = true
			return 0, true
		}
		return 0, false
	}
	n := 0
	walkStack(cl.CC, func(m ast.Node, stack []ast.Node) bool {
		ix, ok := m.(*ast.IndexExpr)
		if !ok {
			return true
		}
		id, ok := unparen(ix.X).(*ast.Ident)
		if !ok || info.Uses[id] != argsObj {
			return true
		}
		k, ok := intOf(ix.Index)
		if !ok {
			return true // args[i] under `for i := range argcnt`: bounded by construction of the loop
		}
		n++
		var bound int64
		mention := false
		notRead = false
		for i := len(stack) - 1; i >= 0; i-- {
			switch s := stack[i].(type) {
			case *ast.IfStmt:
				if ix.Pos() >= s.Body.Pos() && ix.End() <= s.Body.End() {
					b, mt := lower(s.Cond)
					bound, mention = max(bound, b), mention || mt
				}
			case *ast.CaseClause:
				if i == 0 {
					continue
				}
				sw, ok := stack[i-1].(*ast.BlockStmt)
				if !ok || i < 2 {
					continue
				}
				if ss, ok := stack[i-2].(*ast.SwitchStmt); ok && sw == ss.Body {
					if ss.Tag == nil {
						if len(s.List) == 1 {
							b, mt := lower(s.List[0])
							bound, mention = max(bound, b), mention || mt
						} else {
							// a disjunction of conditions: the weakest bound holds
							lb := int64(1 << 30)
							for _, e := range s.List {
								b, mt := lower(e)
								lb, mention = min(lb, b), mention || mt
							}
							if len(s.List) > 0 {
								bound = max(bound, lb)
							}
						}
					} else if isCnt(ss.Tag) {
						lb := int64(1 << 30)
						for _, e := range s.List {
							if v, ok := intOf(e); ok {
								lb = min(lb, v)
							} else {
								lb = 0
							}
						}
						if len(s.List) > 0 {
							bound, mention = max(bound, lb), true
						}
					} else if mentions(ss.Tag, isCnt) {
						mention, notRead = true, true
					}
				}
			}
		}
		arm := ""
		for i := len(stack) - 1; i >= 0; i-- {
			if cc, ok := stack[i].(*ast.CaseClause); ok && cc != cl.CC && len(cc.List) > 0 {
				if s := firstStringLit(cc.List[0]); s != "" {
					arm = s
					break
				}
			}
		}
		key := "args[" + strconv.Itoa(int(k)) + "]:" + arm
		switch {
		case bound > k:
			r.OK(key, ix.Pos(), "args[%d] in the %q arm is read only when the argument count is at least %d", k, arm, bound)
		case mention && !notRead:
			r.Bad(key, ix.Pos(), "args[%d] in the %q arm is read under a condition that only guarantees %d arguments: a call of that name with %d arguments indexes past the argument slice (a run-time panic out of Next)", k, arm, bound, bound)
		case mention:
			r.Undecided(key, ix.Pos(), "args[%d] in the %q arm lies under a condition on the argument count that this rule cannot evaluate to a bound above %d", k, arm, k)
		default:
			r.Bad(key, ix.Pos(), "args[%d] in the %q arm of the native-call clause is read whatever the argument count: the arm is chosen by the callee's name alone, and a WithFunction callback may bear that name with fewer than %d parameters (`path(%s)` then panics with index out of range)", k, arm, k+1, arm)
		}
		return true
	})
	if n == 0 {
		r.Info("census", cl.CC.Pos(), "no positional read of the argument slice in the native-call clause")
	}
}

// firstStringLit returns the first string constant literal inside e ("" if none).
func firstStringLit(e ast.Expr) string {
	s := ""
	ast.Inspect(e, func(n ast.Node) bool {
		if s != "" {
			return false
		}
		if bl, ok := n.(*ast.BasicLit); ok && bl.Kind == token.STRING {
			if v, err := strconv.Unquote(bl.Value); err == nil {
				s = v
			}
		}
		return true
	})
	return s
}

// ---------------------------------------------------------------------------------------------------------------------
// R-C19-argvalues: the arguments of a native call are evaluated as values.

func init() {
	reg(&Rule{ID: "R-C19-argvalues", Props: []string{"C19", "C02"}, Floor: 6,
		Doc: "in every emission template of a native call (operators, natives, WithFunction callbacks) each argument that the VM does not navigate from is evaluated inside an opexpbegin/opexpend bracket, unless the lowering code has established through its value predicate that the argument is a literal, a variable or the input itself (R-C19-valuepred checks that predicate): an argument evaluated with path tracking on leaves its navigation on the path stack, so `(.a + 0) |= 7` updates .a instead of failing and path(g(.a)) differs between a Go callback and the equivalent def",
		Run: ruleArgValues})
	addDecided("C19", " R-C19-argvalues/R-C19-valuepred: arguments of natives and host callbacks are evaluated as values (bracketed, or syntactically unable to navigate), as the arguments bound by a jq definition with $-parameters are (D32).")
	addDecided("C02", " R-C19-argvalues: navigation performed while evaluating the argument of a native never stays on the path stack, so a computed result is never mistaken for the location the argument visited (D32).")
}

// vmFirstArgTracked: the natives for which the VM navigates from args[0] (pathIntact is applied to a value read from
// args[0]); their first argument is evaluated with path tracking on by design.
func vmFirstArgTracked(vm *VM) (map[string]bool, bool) {
	out := map[string]bool{}
	cl := vm.ByOp["opcall"]
	if cl == nil {
		return nil, false
	}
	seen := false
	ast.Inspect(cl.CC, func(n ast.Node) bool {
		cc, ok := n.(*ast.CaseClause)
		if !ok || cc == cl.CC || len(cc.List) == 0 {
			return true
		}
		name := firstStringLit(cc.List[0])
		if name == "" {
			return true
		}
		fromArgs0 := map[types.Object]bool{}
		isArgs0 := func(e ast.Expr) bool {
			ix, ok := unparen(e).(*ast.IndexExpr)
			if !ok {
				return false
			}
			tv, ok := vm.info.Types[ix.Index]
			return ok && tv.Value != nil && tv.Value.String() == "0" && types.ExprString(ix.X) == "args"
		}
		for _, st := range cc.Body {
			ast.Inspect(st, func(m ast.Node) bool {
				switch x := m.(type) {
				case *ast.AssignStmt:
					for i, rhs := range x.Rhs {
						if i < len(x.Lhs) && isArgs0(rhs) {
							if id, ok := x.Lhs[i].(*ast.Ident); ok {
								fromArgs0[vm.info.ObjectOf(id)] = true
							}
						}
					}
				case *ast.CallExpr:
					if vm.envMethod(x) == "pathIntact" && len(x.Args) == 1 {
						seen = true
						a := unparen(x.Args[0])
						if isArgs0(a) {
							out[name] = true
						} else if id, ok := a.(*ast.Ident); ok && fromArgs0[vm.info.ObjectOf(id)] {
							out[name] = true
						}
					}
				}
				return true
			})
		}
		return true
	})
	return out, seen
}

// valuePredicates: the bool methods on *Query that compileCallInternal consults (the "this argument cannot navigate" test).
func valuePredicates(c *Ctx) map[string]*types.Func {
	out := map[string]*types.Func{}
	fd := c.Decl(c.Gojq, "compiler.compileCallInternal")
	if fd == nil {
		return out
	}
	info := c.Gojq.TypesInfo
	ast.Inspect(fd.Body, func(n ast.Node) bool {
		call, ok := n.(*ast.CallExpr)
		if !ok {
			return true
		}
		sel, ok := call.Fun.(*ast.SelectorExpr)
		if !ok {
			return true
		}
		fn, ok := info.Uses[sel.Sel].(*types.Func)
		if !ok {
			return true
		}
		sig := fn.Type().(*types.Signature)
		if sig.Recv() == nil || sig.Results().Len() != 1 || sig.Params().Len() != 0 {
			return true
		}
		if b, ok := sig.Results().At(0).Type().(*types.Basic); !ok || b.Kind() != types.Bool {
			return true
		}
		if n := namedOf(sig.Recv().Type()); n != nil && n.Obj().Name() == "Query" {
			out[fn.Name()] = fn
		}
		return true
	})
	return out
}

// cciInputs: compileCallInternal as called for a native (internal = true), 1..3 arguments, indexing 0 or 1.
func cciInputs() []map[string]tVal {
	var out []map[string]tVal
	for n := 1; n <= 3; n++ {
		for ix := 0; ix <= 1 && ix < n; ix++ {
			args := make([]tVal, n)
			for i := range args {
				args[i] = topaque(fmt.Sprintf("arg%d", i))
			}
			out = append(out, map[string]tVal{"args": tlist(args...), "internal": tbool(true), "indexing": {k: tvInt, i: ix},
				"name": tstr(fmt.Sprintf("%d-args/indexing-%d", n, ix))})
		}
	}
	return out
}

var cciRoot = tplRoot{fn: "compileCallInternal", entry: 1, end: 1, inputs: cciInputs, name: "compileCallInternal/native", limit: 6000}

func ruleArgValues(c *Ctx, r *Rep) {
	vm := getVM(c)
	if vm.Err != "" {
		r.Undecided("vm-model", token.NoPos, "%s", vm.Err)
		return
	}
	tracked, seen := vmFirstArgTracked(vm)
	if !seen {
		r.Undecided("vm-tracked", token.NoPos, "no pathIntact test found in the arms of the native-call clause: cannot tell which natives navigate from their first argument")
		return
	}
	preds := valuePredicates(c)
	info := c.Gojq.TypesInfo
	fd := c.Decl(c.Gojq, "compiler.compileCallInternal")
	if fd == nil {
		r.Undecided("argvalues:compileCallInternal", token.NoPos, "not found")
		return
	}
	// ---- part A: what compileCallInternal emits for indexing = k: the arguments from k on are values ----
	inert := map[string]bool{"oppush": true, "opload": true, "opconst": true}
	type agg struct {
		calls, bracketed, inert, tracked, claimed int
		bad, undec, badTpl                        string
	}
	byLabel := map[string]*agg{}
	var labels []string
	for _, v := range tplVariantsOf(c, cciRoot, fd) {
		if v.Unsupported != "" || v.AssertProblem != "" {
			continue
		}
		seq, why := tplToBC(v.Items)
		if why != "" {
			continue
		}
		probs, reached, _, _ := bcVerifyFrom(seq, 0, cciRoot.entry, false)
		if len(probs) > 0 {
			continue // R-C01-template reports inconsistent templates
		}
		expAt := append([]int(nil), bcLastExp...)
		a := byLabel[v.Label]
		if a == nil {
			a = &agg{}
			byLabel[v.Label] = a
			labels = append(labels, v.Label)
		}
		var nargs, indexing int
		fmt.Sscanf(strings.TrimPrefix(v.Label, "call:"), "%d-args/indexing-%d", &nargs, &indexing)
		// what the lowering code established about each argument through its value predicate
		claimed, denied := map[int]bool{}, map[int]bool{}
		opaque := false
		for _, ch := range v.Choices {
			if !strings.HasPrefix(ch, "cond:") {
				continue
			}
			for name := range preds {
				if !strings.Contains(ch, "."+name+"()") {
					continue
				}
				eq := strings.LastIndex(ch, "=")
				cond := strings.TrimPrefix(ch[:eq], "cond:")
				if at := strings.LastIndex(cond, "@"); at > 0 {
					cond = cond[:at]
				}
				val := ch[eq+1:] == "1"
				if strings.HasPrefix(cond, "!") {
					val = !val
					cond = cond[1:]
				}
				var ix int
				if n, err := fmt.Sscanf(cond, "arg%d."+name+"()", &ix); n != 1 || err != nil || cond != fmt.Sprintf("arg%d.%s()", ix, name) {
					opaque = true
					continue
				}
				if val {
					claimed[ix] = true
				} else {
					denied[ix] = true
				}
			}
		}
		if os.Getenv("VERIF_ARGV_DEBUG") == v.Label {
			fmt.Fprintf(os.Stderr, "%s | %s | claimed=%v denied=%v opaque=%v\n", tplRender(v.Items), strings.Join(v.Choices, " "), claimed, denied, opaque)
		}
		ci := len(seq) - 1
		if ci < 0 || seq[ci].Op != "opcall" || !reached[ci] {
			a.undec = fmt.Sprintf("the template does not end with the call [%s]", tplRender(v.Items))
			continue
		}
		a.calls++
		var order []string
		segs := map[string][]int{}
		for j := 0; j < ci; j++ {
			lp := v.Items[j].loop
			if lp == v.Items[ci].loop {
				continue // emitted outside the argument loop (store, bracket, reload of the input)
			}
			key := argLoopKey(v.Items[ci].loop, lp)
			if _, ok := segs[key]; !ok {
				order = append(order, key)
			}
			segs[key] = append(segs[key], j)
		}
		if len(order) != nargs {
			a.undec = fmt.Sprintf("%d argument segments found for a call with %d arguments [%s]", len(order), nargs, tplRender(v.Items))
			continue
		}
		for k, key := range order {
			argIx := nargs - 1 - k
			idxs := segs[key]
			isInert := true
			for _, j := range idxs {
				if v.Items[j].isHole || !inert[seq[j].Op] {
					isInert = false
				}
			}
			// the instruction that evaluates the argument on the inline flow: the last of the segment that is not the
			// closing bracket itself
			last := -1
			for _, j := range idxs {
				if seq[j].Op != "opexpend" && reached[j] {
					last = j
				}
			}
			depth := -1
			if last >= 0 && last < len(expAt) {
				depth = expAt[last]
			}
			switch {
			case argIx < indexing:
				a.tracked++
			case isInert:
				a.inert++
			case depth > 0:
				a.bracketed++
			case depth < 0:
				a.undec = fmt.Sprintf("argument %d: no instruction of its segment is on the inline flow [%s]", argIx, tplRender(v.Items))
			case claimed[argIx] && !denied[argIx] && !opaque:
				a.claimed++
			case opaque:
				a.undec = fmt.Sprintf("argument %d is evaluated outside a bracket under a condition on the value predicate this rule cannot read {%s}", argIx, strings.Join(v.Choices, ", "))
			default:
				if a.bad == "" {
					a.bad = fmt.Sprintf("argument %d of a native call with %d arguments (indexing = %d) is evaluated at exp nesting 0, with path tracking on, although the lowering code has not established that it cannot navigate", argIx, nargs, indexing)
					a.badTpl = tplRender(v.Items) + " {" + strings.Join(v.Choices, ", ") + "}"
				}
			}
		}
	}
	sort.Strings(labels)
	total := 0
	for _, lb := range labels {
		a := byLabel[lb]
		total += a.calls
		key := "argvalues:" + strings.TrimPrefix(lb, "call:")
		switch {
		case a.bad != "":
			r.Bad(key, fd.Pos(), "%s — template [%s]", a.bad, a.badTpl)
		case a.undec != "":
			r.Undecided(key, fd.Pos(), "%s", a.undec)
		case a.calls == 0:
			r.Undecided(key, fd.Pos(), "no template could be modelled")
		default:
			r.OK(key, fd.Pos(), "%d templates: %d argument evaluations bracketed, %d inert (push/load only), %d navigated from by design (below indexing), %d outside a bracket under the value predicate", a.calls, a.bracketed, a.inert, a.tracked, a.claimed)
		}
	}
	if total == 0 {
		r.Undecided("argvalues:census", token.NoPos, "no template of compileCallInternal could be modelled")
	}
	if t := tplTruncatedInputs[cciRoot.fn+"/"+cciRoot.name]; t > 0 {
		r.Info("argvalues:truncated", fd.Pos(), "the exploration of %d argument-count/indexing combinations stopped at its variant limit", t)
	}
	// ---- part B: every call site that asks for native argument evaluation passes indexing >= 0, except path(f) ----
	sites := 0
	for _, caller := range c.Decls(c.Gojq) {
		walkStack(caller.Body, func(n ast.Node, stack []ast.Node) bool {
			call, ok := n.(*ast.CallExpr)
			if !ok || len(call.Args) != 4 {
				return true
			}
			sel, ok := call.Fun.(*ast.SelectorExpr)
			if !ok || sel.Sel.Name != "compileCallInternal" {
				return true
			}
			if tv, ok := info.Types[call.Args[2]]; !ok || tv.Value == nil || tv.Value.String() != "true" {
				return true // internal = false: the arguments are closures, not evaluated here
			}
			sites++
			what := c.Src(call.Args[0])
			if cl, ok := unparen(call.Args[0]).(*ast.CompositeLit); ok && len(cl.Elts) == 3 {
				what = c.Src(cl.Elts[0])
			}
			key := fmt.Sprintf("argvalues:site:%s:%s", declKey(caller), what)
			if v, ok := constInt(info, call.Args[3]); ok {
				// a constant: fine when >= 0; with no arguments nothing is evaluated
				if v >= 0 {
					r.OK(key, call.Pos(), "compileCallInternal(…, true, %d): the arguments from %d on are evaluated as values", v, v)
				} else if isEmptyArgs(info, call.Args[1]) || tripleCountZero(info, call.Args[0]) {
					r.OK(key, call.Pos(), "compileCallInternal(…, true, %d) with no arguments", v)
				} else {
					r.Bad(key, call.Pos(), "%s asks compileCallInternal to evaluate the arguments of a native with indexing = %d: none of them is bracketed, their navigation stays on the path stack ((.a + 0) |= 7 updates .a; path(g(.a)) with a Go callback differs from the equivalent def)", declKey(caller), v)
				}
				return true
			}
			id, ok := unparen(call.Args[3]).(*ast.Ident)
			if !ok {
				r.Undecided(key, call.Pos(), "indexing argument %s is neither a constant nor a variable", c.Src(call.Args[3]))
				return true
			}
			obj := info.Uses[id]
			// every assignment of the variable: a constant in an arm of a switch over the native's name
			var bad, und []string
			nAsg := 0
			ast.Inspect(caller.Body, func(m ast.Node) bool {
				cc, ok := m.(*ast.CaseClause)
				if !ok {
					return true
				}
				for _, st := range cc.Body {
					as, ok := st.(*ast.AssignStmt)
					if !ok || len(as.Lhs) != 1 || len(as.Rhs) != 1 {
						continue
					}
					lid, ok := as.Lhs[0].(*ast.Ident)
					if !ok || info.ObjectOf(lid) != obj {
						continue
					}
					nAsg++
					v, ok := constInt(info, as.Rhs[0])
					if !ok {
						und = append(und, c.Src(as))
						continue
					}
					var names []string
					for _, e := range cc.List {
						if s, ok := constString(info, e); ok {
							names = append(names, s)
						} else {
							und = append(und, c.Src(e))
						}
					}
					switch {
					case cc.List == nil: // default arm: all other natives
						if v != 0 {
							bad = append(bad, fmt.Sprintf("default: indexing = %d (every native the VM does not navigate from must get 0)", v))
						}
					case v < 0:
						for _, nm := range names {
							if nm != "path" {
								bad = append(bad, fmt.Sprintf("%s: indexing = %d", nm, v))
							}
						}
					case v > 0:
						for _, nm := range names {
							if !tracked[nm] {
								bad = append(bad, fmt.Sprintf("%s: indexing = %d although the VM does not navigate from its first argument", nm, v))
							}
						}
						if v > 1 {
							bad = append(bad, fmt.Sprintf("indexing = %d: more than the first argument left unbracketed", v))
						}
					}
				}
				return true
			})
			// assignments outside a case clause are not understood
			total := 0
			ast.Inspect(caller.Body, func(m ast.Node) bool {
				if as, ok := m.(*ast.AssignStmt); ok {
					for _, l := range as.Lhs {
						if lid, ok := l.(*ast.Ident); ok && info.ObjectOf(lid) == obj {
							total++
						}
					}
				}
				return true
			})
			switch {
			case len(bad) > 0:
				r.Bad(key, call.Pos(), "%s chooses the number of path-tracked leading arguments per native name: %s", declKey(caller), strings.Join(bad, "; "))
			case len(und) > 0 || total != nAsg || nAsg == 0:
				r.Undecided(key, call.Pos(), "the assignments of %s in %s are not all constants in arms of a switch over the name (%v)", id.Name, declKey(caller), und)
			default:
				r.OK(key, call.Pos(), "%s: indexing is -1 only for path (whose argument is the tracked expression itself), 1 only for natives the VM navigates from through args[0] %v, 0 for every other native", declKey(caller), keysOf(tracked))
			}
			return true
		})
	}
	if sites < 3 {
		r.Undecided("argvalues:sites", token.NoPos, "only %d call sites of compileCallInternal with internal = true found", sites)
	}
}

// tripleCountZero: the native triple [3]any{callback, 0, name} (R-C01-calltriple ties the count to the arguments pushed).
func tripleCountZero(info *types.Info, e ast.Expr) bool {
	cl, ok := unparen(e).(*ast.CompositeLit)
	if !ok || len(cl.Elts) != 3 {
		return false
	}
	v, ok := constInt(info, cl.Elts[1])
	return ok && v == 0
}

func isEmptyArgs(info *types.Info, e ast.Expr) bool {
	e = unparen(e)
	if id, ok := e.(*ast.Ident); ok && id.Name == "nil" {
		return true
	}
	return false
}

// argLoopKey: the prefix of the item's loop vector that is one index longer than the call's vector ("[1 0]" under "[]" → "[1").
func argLoopKey(callLoop, itemLoop string) string {
	base := strings.Fields(strings.Trim(callLoop, "[]"))
	it := strings.Fields(strings.Trim(itemLoop, "[]"))
	if len(it) <= len(base) {
		return itemLoop
	}
	return strings.Join(it[:len(base)+1], " ")
}

// ---------------------------------------------------------------------------------------------------------------------
// R-C19-valuepred: the predicate that lets compileCallInternal leave an argument unbracketed only admits queries whose
// lowering cannot navigate.

func init() {
	reg(&Rule{ID: "R-C19-valuepred", Props: []string{"C19", "C02"}, Floor: 4,
		Doc: "the value predicate consulted by compileCallInternal (a bool method of *Query) answers true only for a term without suffixes whose compileTerm arm emits constants or nothing, or a function term it has tested to be a $-variable (for which compileFunc emits pop+load or a constant, and lookupFuncOrVariable never returns a function): everything else may navigate and must be bracketed",
		Run: ruleValuePred})
}

func ruleValuePred(c *Ctx, r *Rep) {
	preds := valuePredicates(c)
	if len(preds) == 0 {
		r.Info("valuepred:none", token.NoPos, "compileCallInternal consults no value predicate: every argument evaluated as a value must be bracketed (R-C19-argvalues)")
		return
	}
	info := c.Gojq.TypesInfo
	// compileTerm's arms by TermType constant
	ct := c.Decl(c.Gojq, "compiler.compileTerm")
	if ct == nil {
		r.Undecided("valuepred:compileTerm", token.NoPos, "compileTerm not found")
		return
	}
	arms := map[string]*ast.CaseClause{}
	ast.Inspect(ct.Body, func(n ast.Node) bool {
		sw, ok := n.(*ast.SwitchStmt)
		if !ok || sw.Tag == nil {
			return true
		}
		if nt := namedOf(info.TypeOf(sw.Tag)); nt == nil || nt.Obj().Name() != "TermType" {
			return true
		}
		for _, s := range sw.Body.List {
			cc := s.(*ast.CaseClause)
			for _, e := range cc.List {
				if id, ok := unparen(e).(*ast.Ident); ok {
					arms[id.Name] = cc
				}
			}
		}
		return false
	})
	// classification of one compileTerm arm
	classify := func(cc *ast.CaseClause) string {
		cls := "const"
		for _, st := range cc.Body {
			switch x := st.(type) {
			case *ast.ReturnStmt:
				if len(x.Results) == 1 {
					if id, ok := unparen(x.Results[0]).(*ast.Ident); ok && id.Name == "nil" {
						continue
					}
					if call, ok := unparen(x.Results[0]).(*ast.CallExpr); ok {
						if sel, ok := call.Fun.(*ast.SelectorExpr); ok && sel.Sel.Name == "compileFunc" && len(call.Args) == 1 {
							if s, ok := unparen(call.Args[0]).(*ast.SelectorExpr); ok && s.Sel.Name == "Func" {
								cls = "func"
								continue
							}
						}
					}
				}
				return "other"
			case *ast.ExprStmt:
				call, ok := x.X.(*ast.CallExpr)
				if !ok {
					return "other"
				}
				sel, ok := call.Fun.(*ast.SelectorExpr)
				if !ok || sel.Sel.Name != "append" || len(call.Args) != 1 {
					return "other"
				}
				u, ok := unparen(call.Args[0]).(*ast.UnaryExpr)
				if !ok {
					return "other"
				}
				cl, ok := u.X.(*ast.CompositeLit)
				if !ok {
					return "other"
				}
				op := ""
				for _, el := range cl.Elts {
					if kv, ok := el.(*ast.KeyValueExpr); ok {
						if k, ok := kv.Key.(*ast.Ident); ok && k.Name == "op" {
							if id, ok := kv.Value.(*ast.Ident); ok {
								op = id.Name
							}
						}
					}
				}
				if op != "opconst" && op != "oppush" {
					return "other"
				}
			default:
				return "other"
			}
		}
		return cls
	}
	isDollarTest := func(e ast.Expr) bool {
		b, ok := unparen(e).(*ast.BinaryExpr)
		if !ok || b.Op != token.EQL {
			return false
		}
		x, y := unparen(b.X), unparen(b.Y)
		if _, ok := x.(*ast.BasicLit); ok {
			x, y = y, x
		}
		tv, ok := info.Types[y]
		if !ok || tv.Value == nil || tv.Value.String() != "36" { // '$'
			return false
		}
		ix, ok := x.(*ast.IndexExpr)
		if !ok {
			return false
		}
		iv, ok := info.Types[ix.Index]
		if !ok || iv.Value == nil || iv.Value.String() != "0" {
			return false
		}
		s, ok := unparen(ix.X).(*ast.SelectorExpr)
		return ok && s.Sel.Name == "Name"
	}
	for name, fn := range preds {
		fd := c.Decl(c.Gojq, "Query."+fn.Name())
		if fd == nil || fd.Body == nil {
			r.Undecided("valuepred:"+name, token.NoPos, "declaration of %s not found", name)
			continue
		}
		// (1) a query with suffixes (or without a term) is refused before anything else
		suffixGuard := false
		for _, st := range fd.Body.List {
			ifs, ok := st.(*ast.IfStmt)
			if !ok {
				break
			}
			retFalse := false
			for _, b := range ifs.Body.List {
				if rs, ok := b.(*ast.ReturnStmt); ok && len(rs.Results) == 1 {
					if id, ok := unparen(rs.Results[0]).(*ast.Ident); ok && id.Name == "false" {
						retFalse = true
					}
				}
			}
			if !retFalse {
				continue
			}
			for _, d := range disjuncts(ifs.Cond) {
				b, ok := unparen(d).(*ast.BinaryExpr)
				if !ok {
					continue
				}
				if call, ok := unparen(b.X).(*ast.CallExpr); ok && len(call.Args) == 1 {
					if f, ok := call.Fun.(*ast.Ident); ok && f.Name == "len" {
						if s, ok := unparen(call.Args[0]).(*ast.SelectorExpr); ok && s.Sel.Name == "SuffixList" {
							if tv, ok := info.Types[b.Y]; ok && tv.Value != nil && tv.Value.String() == "0" && (b.Op == token.GTR || b.Op == token.NEQ) {
								suffixGuard = true
							}
						}
					}
				}
			}
		}
		r.Check(suffixGuard, "valuepred:"+name+":suffix", fd.Pos(), "%s refuses a term that carries suffixes before looking at its type (a suffix is an index, an iteration or an optional: navigation): %v", name, suffixGuard)
		// (2) the arms of the switch over the term type that can answer true
		var sw *ast.SwitchStmt
		ast.Inspect(fd.Body, func(n ast.Node) bool {
			if s, ok := n.(*ast.SwitchStmt); ok && s.Tag != nil && sw == nil {
				if nt := namedOf(info.TypeOf(s.Tag)); nt != nil && nt.Obj().Name() == "TermType" {
					sw = s
				}
			}
			return true
		})
		if sw == nil {
			r.Undecided("valuepred:"+name+":switch", fd.Pos(), "%s does not decide by a switch over the term type; the rule cannot enumerate what it admits", name)
			continue
		}
		// every return outside the switch must be `false`
		outsideOK := true
		ast.Inspect(fd.Body, func(n ast.Node) bool {
			if n == ast.Node(sw) {
				return false
			}
			if rs, ok := n.(*ast.ReturnStmt); ok && len(rs.Results) == 1 {
				if id, ok := unparen(rs.Results[0]).(*ast.Ident); !ok || id.Name != "false" {
					outsideOK = false
				}
			}
			return true
		})
		if !outsideOK {
			r.Undecided("valuepred:"+name+":outside", fd.Pos(), "%s can answer true outside its switch over the term type", name)
		}
		n := 0
		for _, s := range sw.Body.List {
			cc := s.(*ast.CaseClause)
			// what the arm returns
			var rets []ast.Expr
			simple := true
			for _, st := range cc.Body {
				rs, ok := st.(*ast.ReturnStmt)
				if !ok || len(rs.Results) != 1 {
					simple = false
					continue
				}
				rets = append(rets, rs.Results[0])
			}
			allFalse := simple
			for _, e := range rets {
				if id, ok := unparen(e).(*ast.Ident); !ok || id.Name != "false" {
					allFalse = false
				}
			}
			if allFalse && len(rets) > 0 {
				continue
			}
			if cc.List == nil {
				r.Bad("valuepred:"+name+":default", cc.Pos(), "%s answers something other than false for the term types it does not name: a term type whose lowering navigates (an index, a call, a sub-query) is then evaluated with path tracking on", name)
				continue
			}
			for _, e := range cc.List {
				id, ok := unparen(e).(*ast.Ident)
				if !ok {
					continue
				}
				n++
				key := "valuepred:" + name + ":" + id.Name
				arm := arms[id.Name]
				if arm == nil {
					r.Undecided(key, e.Pos(), "compileTerm has no arm for %s", id.Name)
					continue
				}
				switch classify(arm) {
				case "const":
					r.OK(key, e.Pos(), "%s admits %s, whose compileTerm arm emits only constants (or nothing)", name, id.Name)
				case "func":
					okd := simple && len(rets) == 1 && isDollarTest(rets[0])
					r.Check(okd, key, e.Pos(), "%s admits %s only when the function name starts with '$' (a variable, which compileFunc lowers to pop+load or a constant): %v — any other call may navigate (.a is not a call, but first(.a), getpath(…), recurse are)", name, id.Name, okd)
				default:
					r.Bad(key, e.Pos(), "%s admits %s, whose compileTerm arm compiles sub-queries or navigation: such an argument is evaluated with path tracking on, its navigation stays on the path stack", name, id.Name)
				}
			}
		}
		if n == 0 {
			r.Info("valuepred:"+name+":none", fd.Pos(), "%s admits no term type", name)
		}
	}
	// (3) supporting facts for the $-variable case
	if lf := c.Decl(c.Gojq, "compiler.lookupFuncOrVariable"); lf != nil {
		// every return of a non-nil function lies under a condition derived from name[0] != '$'
		derived := map[types.Object]bool{}
		isNotDollar := func(e ast.Expr) bool {
			b, ok := unparen(e).(*ast.BinaryExpr)
			if !ok || b.Op != token.NEQ {
				return false
			}
			tv, ok := info.Types[b.Y]
			return ok && tv.Value != nil && tv.Value.String() == "36"
		}
		ast.Inspect(lf.Body, func(n ast.Node) bool {
			if as, ok := n.(*ast.AssignStmt); ok && as.Tok == token.DEFINE && len(as.Lhs) == len(as.Rhs) {
				for i, rhs := range as.Rhs {
					if isNotDollar(rhs) {
						if id, ok := as.Lhs[i].(*ast.Ident); ok {
							derived[info.Defs[id]] = true
						}
					}
				}
			}
			return true
		})
		okAll, found := true, false
		walkStack(lf.Body, func(n ast.Node, stack []ast.Node) bool {
			rs, ok := n.(*ast.ReturnStmt)
			if !ok || len(rs.Results) != 2 {
				return true
			}
			if id, ok := unparen(rs.Results[0]).(*ast.Ident); ok && id.Name == "nil" {
				return true
			}
			found = true
			guarded := false
			for _, anc := range stack {
				if ifs, ok := anc.(*ast.IfStmt); ok && rs.Pos() >= ifs.Body.Pos() && rs.End() <= ifs.Body.End() {
					if isNotDollar(ifs.Cond) {
						guarded = true
					}
					if id, ok := unparen(ifs.Cond).(*ast.Ident); ok && derived[info.Uses[id]] {
						guarded = true
					}
				}
			}
			if !guarded {
				okAll = false
			}
			return true
		})
		if found {
			r.Check(okAll, "valuepred:lookup", lf.Pos(), "lookupFuncOrVariable returns a function only for names that do not start with '$' (a $-name in argument position is never a call): %v", okAll)
		}
	}
	// compileFunc's templates for a $-name: pop/load/const only, apart from the variants that assume a function was found
	for _, root := range tplRoots {
		if root.fn != "compileFunc" || root.name != "" {
			continue
		}
		fd := c.Decl(c.Gojq, "compiler.compileFunc")
		if fd == nil {
			continue
		}
		okOps := map[string]bool{"oppop": true, "opload": true, "opconst": true, "oppush": true}
		n, bad := 0, ""
		for _, v := range tplVariantsOf(c, root, fd) {
			if !strings.HasPrefix(v.Label, "Func:$") || v.Unsupported != "" {
				continue
			}
			assumedFunc := false
			for _, it := range v.Items {
				if !it.isHole && (it.ins.Op == "opcall" || it.ins.Op == "opcallrec") && !it.ins.Native {
					assumedFunc = true // lookupFuncOrVariable's function result: excluded by valuepred:lookup
				}
			}
			if assumedFunc {
				continue
			}
			n++
			for _, it := range v.Items {
				if it.isHole || !okOps[it.ins.Op] {
					if bad == "" {
						bad = tplRender(v.Items)
					}
				}
			}
		}
		if n == 0 {
			r.Undecided("valuepred:dollar-templates", fd.Pos(), "no template of compileFunc for a $-name could be modelled")
		} else {
			r.Check(bad == "", "valuepred:dollar-templates", fd.Pos(), "the %d templates of compileFunc for a $-name without arguments consist of pop, load and constants only: %v %s", n, bad == "", bad)
		}
	}
}

// disjuncts splits a || b || c.
func disjuncts(e ast.Expr) []ast.Expr {
	e = unparen(e)
	if b, ok := e.(*ast.BinaryExpr); ok && b.Op == token.LOR {
		return append(disjuncts(b.X), disjuncts(b.Y)...)
	}
	return []ast.Expr{e}
}

// ---------------------------------------------------------------------------------------------------------------------
// Rules from the fourth batch of seeded changes.

func init() {
	reg(&Rule{ID: "R-C18-metakeys", Props: []string{"C18"}, Floor: 2,
		Doc: "in the functions that build what modulemeta reports, the user's metadata object enters the result map before the computed keys (defs, deps, relpath, as, is_data) are written: a module cannot overwrite what modulemeta computes about it",
		Run: ruleMetaKeys})
	reg(&Rule{ID: "R-C14-flagforward", Props: []string{"C14"}, Floor: 8,
		Doc: "in builtin.go's shipped definitions, a definition that takes $re and $flags passes $flags (or an expression of it) in every call to which it passes $re: no step of test/capture/scan/splits/sub matches with other flags than the caller's",
		Run: ruleFlagForward})
	reg(&Rule{ID: "R-C03-clampsentinel", Props: []string{"C03", "C14", "C08"}, Floor: 3,
		Doc: "a position obtained from clampIndex with a lower bound below the valid range (the out-of-range sentinel) is compared with 0 before anything else is done with it",
		Run: ruleClampSentinel})
	reg(&Rule{ID: "R-C10-narrow", Props: []string{"C10", "C03", "C14"}, Floor: 1,
		Doc: "an integer obtained from a JSON number is converted to a narrower integer type (rune, int32, byte …) only under a two-sided range test: the conversion wraps modulo 2^32 silently",
		Run: ruleNarrow})
	reg(&Rule{ID: "R-C13-brokendown", Props: []string{"C13"}, Floor: 8,
		Doc: "every field of the broken-down time array is read off the one normalised time.Time value (a field computed from the raw epoch alone disagrees with the others for negative and fractional epochs)",
		Run: ruleBrokenDown})
	reg(&Rule{ID: "R-C14-cachekey", Props: []string{"C14", "C06"}, Floor: 1,
		Doc: "what a function stores in a sync.Map cache depends only on what its key determines: every parameter the stored value depends on is in the key as a whole, or every test of it that the value depends on is in the key",
		Run: ruleCacheKey})
	reg(&Rule{ID: "R-C17-runeboundary", Props: []string{"C17"}, Floor: 4,
		Doc: "in the excerpting of an error line every byte position a string is cut at is a length of a boundary-repaired prefix, or the cut is itself repaired (trimLastInvalidRune): a cut inside a multi-byte character shifts the caret and prints a broken character",
		Run: ruleRuneBoundary})
	reg(&Rule{ID: "R-C10-mulclamp", Props: []string{"C10", "C03", "C08"}, Floor: 1,
		Doc: "outside the arithmetic operators (R-C10-guard), a machine-integer product one factor of which is converted from a JSON number has that factor clamped to a constant no larger than MaxInt32 before the conversion: the size test it feeds wraps modulo 2^64 otherwise",
		Run: ruleMulClamp})
	addDecided("C18", " The computed keys of modulemeta are written after the user's metadata (R-C18-metakeys).")
	addDecided("C14", " Shipped regex definitions forward $flags wherever they forward $re (R-C14-flagforward); a clamped position is tested for the out-of-range sentinel first (R-C03-clampsentinel); code points from JSON numbers are range-tested before narrowing (R-C10-narrow); the regexp cache key determines the cached value (R-C14-cachekey).")
	addDecided("C03", " R-C03-clampsentinel, R-C10-narrow, R-C10-mulclamp (see C14, C10).")
	addDecided("C10", " Narrowing conversions of JSON-derived integers are range-tested (R-C10-narrow); products with a JSON-derived factor outside the operators are clamped first (R-C10-mulclamp).")
	addDecided("C13", " Every broken-down time field is read off the normalised time.Time (R-C13-brokendown).")
	addDecided("C17", " The excerpt of a long line is cut at repaired rune boundaries only (R-C17-runeboundary); the query file's text reaches the parser unmodified (R-C16-fileverbatim).")
}

// ---- R-C18-metakeys ----

func ruleMetaKeys(c *Ctx, r *Rep) {
	info := c.Gojq.TypesInfo
	isToValue := func(e ast.Expr) bool {
		call, ok := unparen(e).(*ast.CallExpr)
		return ok && strings.HasSuffix(calleeName(info, call), "ConstObject.ToValue")
	}
	n := 0
	for _, fd := range c.Decls(c.Gojq) {
		// map variables that receive user metadata, and where
		userAt := map[types.Object][]token.Pos{}
		constAt := map[types.Object][]token.Pos{}
		mapObj := func(e ast.Expr) types.Object {
			id, ok := unparen(e).(*ast.Ident)
			if !ok {
				return nil
			}
			o := info.ObjectOf(id)
			if o == nil {
				return nil
			}
			if _, ok := o.Type().Underlying().(*types.Map); !ok {
				return nil
			}
			return o
		}
		ast.Inspect(fd.Body, func(m ast.Node) bool {
			switch x := m.(type) {
			case *ast.AssignStmt:
				for i, lhs := range x.Lhs {
					if i >= len(x.Rhs) && len(x.Rhs) != 1 {
						continue
					}
					rhs := x.Rhs[min(i, len(x.Rhs)-1)]
					if o := mapObj(lhs); o != nil {
						if isToValue(rhs) {
							userAt[o] = append(userAt[o], x.Pos())
						}
						if cl, ok := unparen(rhs).(*ast.CompositeLit); ok {
							for _, el := range cl.Elts {
								if kv, ok := el.(*ast.KeyValueExpr); ok {
									if _, ok := constString(info, kv.Key); ok {
										constAt[o] = append(constAt[o], kv.Pos())
									}
								}
							}
						}
					}
					if ix, ok := unparen(lhs).(*ast.IndexExpr); ok {
						if o := mapObj(ix.X); o != nil {
							if _, ok := constString(info, ix.Index); ok {
								constAt[o] = append(constAt[o], x.Pos())
							}
						}
					}
				}
			case *ast.RangeStmt:
				if !isToValue(x.X) {
					return true
				}
				// for k, v := range X.ToValue() { m[k] = v }
				ast.Inspect(x.Body, func(q ast.Node) bool {
					as, ok := q.(*ast.AssignStmt)
					if !ok {
						return true
					}
					for _, lhs := range as.Lhs {
						if ix, ok := unparen(lhs).(*ast.IndexExpr); ok {
							if o := mapObj(ix.X); o != nil {
								userAt[o] = append(userAt[o], as.Pos())
							}
						}
					}
					return true
				})
			}
			return true
		})
		for o, us := range userAt {
			cs := constAt[o]
			if len(cs) == 0 {
				continue
			}
			n++
			lastUser, firstConst := us[0], cs[0]
			for _, p := range us {
				lastUser = max(lastUser, p)
			}
			for _, p := range cs {
				firstConst = min(firstConst, p)
			}
			r.Check(lastUser < firstConst, "metakeys:"+declKey(fd)+":"+o.Name(), o.Pos(), "%s: the user's metadata enters %s before its %d computed keys are written: %v (copied afterwards, a module whose metadata has a key \"defs\" or \"relpath\" replaces what modulemeta computes)", declKey(fd), o.Name(), len(cs), lastUser < firstConst)
		}
	}
	if n == 0 {
		r.Undecided("metakeys:census", token.NoPos, "no function combines ConstObject.ToValue() with computed keys in one map")
	}
}

// ---- R-C14-flagforward ----

func litWalk(n any, f func(*litNode)) {
	switch x := n.(type) {
	case *litNode:
		if x == nil {
			return
		}
		f(x)
		for _, v := range x.fields {
			litWalk(v, f)
		}
	case []any:
		for _, v := range x {
			litWalk(v, f)
		}
	}
}

func litMentionsFunc(n any, name string) bool {
	found := false
	litWalk(n, func(x *litNode) {
		if x.typ == "Func" && nStr(x, "Name") == name {
			found = true
		}
	})
	return found
}

func ruleFlagForward(c *Ctx, r *Rep) {
	m, err := getBuiltinLit(c)
	if err != nil {
		r.Undecided("builtin.go", token.NoPos, "%v", err)
		return
	}
	var names []string
	for k := range m.fields {
		names = append(names, k)
	}
	sort.Strings(names)
	n := 0
	for _, name := range names {
		lst, _ := m.fields[name].([]any)
		for _, d := range lst {
			fdn, ok := d.(*litNode)
			if !ok || fdn == nil {
				continue
			}
			hasRe, hasFlags := false, false
			for _, a := range nList(fdn, "Args") {
				if s, ok := a.(string); ok {
					hasRe = hasRe || s == "$re"
					hasFlags = hasFlags || s == "$flags"
				}
			}
			if !hasRe || !hasFlags {
				continue
			}
			arity := len(nList(fdn, "Args"))
			litWalk(nSub(fdn, "Body"), func(x *litNode) {
				if x.typ != "Func" {
					return
				}
				args := nList(x, "Args")
				passesRe, passesFlags := false, false
				for _, a := range args {
					passesRe = passesRe || litMentionsFunc(a, "$re")
					passesFlags = passesFlags || litMentionsFunc(a, "$flags")
				}
				if !passesRe {
					return
				}
				n++
				key := fmt.Sprintf("flagforward:%s/%d:%s/%d", name, arity, nStr(x, "Name"), len(args))
				r.Check(passesFlags, key, token.NoPos, "%s/%d passes $re to %s/%d together with $flags: %v (a step that matches with other flags than the caller's — a pre-check with test($re), say — disagrees with the matches the result is composed of: `\"ABC\" | gsub(\"b\"; \"x\"; \"i\")`)", name, arity, nStr(x, "Name"), len(args), passesFlags)
			})
		}
	}
	if n == 0 {
		r.Undecided("flagforward:census", token.NoPos, "no shipped definition takes both $re and $flags")
	}
}

// ---- R-C03-clampsentinel ----

func ruleClampSentinel(c *Ctx, r *Rep) {
	info := c.Gojq.TypesInfo
	n := 0
	for _, fd := range c.Decls(c.Gojq) {
		walkStack(fd.Body, func(m ast.Node, stack []ast.Node) bool {
			call, ok := m.(*ast.CallExpr)
			if !ok || calleeName(info, call) != "gojq.clampIndex" || len(call.Args) != 3 {
				return true
			}
			lo, ok := constInt(info, call.Args[1])
			if !ok || lo >= 0 {
				return true // the lower bound is a valid position: nothing to test
			}
			n++
			key := fmt.Sprintf("clamp:%s:%s", declKey(fd), c.Src(call.Args[2]))
			// the variable that receives the result
			var obj types.Object
			var holder ast.Stmt
			for i := len(stack) - 1; i >= 0; i-- {
				if as, ok := stack[i].(*ast.AssignStmt); ok && len(as.Lhs) == 1 && len(as.Rhs) == 1 && unparen(as.Rhs[0]) == ast.Expr(call) {
					if id, ok := as.Lhs[0].(*ast.Ident); ok {
						obj = info.ObjectOf(id)
						holder = as
					}
					break
				}
			}
			if obj == nil {
				r.Undecided(key, call.Pos(), "the result of clampIndex(…, %d, …) is not assigned to a variable", lo)
				return true
			}
			isSentinelTest := func(e ast.Expr) bool {
				found := false
				ast.Inspect(e, func(q ast.Node) bool {
					b, ok := q.(*ast.BinaryExpr)
					if !ok {
						return true
					}
					x, y := unparen(b.X), unparen(b.Y)
					isObj := func(e ast.Expr) bool { id, ok := e.(*ast.Ident); return ok && info.ObjectOf(id) == obj }
					isLow := func(e ast.Expr) bool {
						v, ok := constInt(info, e)
						return ok && (v == 0 || v == lo)
					}
					switch b.Op {
					case token.LSS, token.LEQ, token.GTR, token.GEQ, token.EQL, token.NEQ:
						if (isObj(x) && isLow(y)) || (isLow(x) && isObj(y)) {
							found = true
						}
					}
					return true
				})
				return found
			}
			mentionsObj := func(nd ast.Node) bool {
				f := false
				ast.Inspect(nd, func(q ast.Node) bool {
					if id, ok := q.(*ast.Ident); ok && info.ObjectOf(id) == obj {
						f = true
					}
					return true
				})
				return f
			}
			// (a) if r := clampIndex(…); COND
			for i := len(stack) - 1; i >= 0; i-- {
				if ifs, ok := stack[i].(*ast.IfStmt); ok && ifs.Init == holder {
					good := isSentinelTest(ifs.Cond)
					r.Check(good, key, call.Pos(), "%s: the position clamped to [%d, %s] is compared with the sentinel in the condition of the same if: %v", declKey(fd), lo, c.Src(call.Args[2]), good)
					return true
				}
			}
			// (b) r = clampIndex(…) in a statement list: the next statement that mentions r is an if whose condition tests it
			var list []ast.Stmt
			for i := len(stack) - 1; i >= 0; i-- {
				switch b := stack[i].(type) {
				case *ast.BlockStmt:
					list = b.List
				case *ast.CaseClause:
					list = b.Body
				}
				if list != nil {
					break
				}
			}
			idx := -1
			for i, st := range list {
				if st == holder {
					idx = i
				}
			}
			if idx < 0 {
				r.Undecided(key, call.Pos(), "the clamp is not a statement of a block")
				return true
			}
			for _, st := range list[idx+1:] {
				if !mentionsObj(st) {
					continue
				}
				ifs, ok := st.(*ast.IfStmt)
				good := ok && ifs.Init == nil && isSentinelTest(ifs.Cond)
				r.Check(good, key, call.Pos(), "%s: the first thing done with the position clamped to [%d, %s] is the comparison with the sentinel (%d stands for \"before the beginning\"): %v — used otherwise, `\"aé☆\" | .[-5]` yields the first character instead of null", declKey(fd), lo, c.Src(call.Args[2]), lo, good)
				return true
			}
			r.OK(key, call.Pos(), "%s: the clamped position is not used afterwards", declKey(fd))
			return true
		})
	}
	if n == 0 {
		r.Undecided("clamp:census", token.NoPos, "no clampIndex call with a sentinel lower bound found")
	}
}

// ---- R-C10-narrow ----

// jsonDerivedInts: the integer variables of a function that hold a JSON number: results of the numeric normalisers and
// bindings of type assertions / type switches on an `any`.
func jsonDerivedInts(info *types.Info, fd *ast.FuncDecl) map[types.Object]ast.Node {
	out := map[types.Object]ast.Node{}
	normalisers := map[string]bool{"gojq.toInt": true, "gojq.floatToInt": true, "gojq.toIntFloor": true, "gojq.toIntCeil": true}
	ast.Inspect(fd.Body, func(m ast.Node) bool {
		switch x := m.(type) {
		case *ast.AssignStmt:
			if len(x.Rhs) != 1 {
				return true
			}
			rhs := unparen(x.Rhs[0])
			def := func() {
				if id, ok := x.Lhs[0].(*ast.Ident); ok {
					if o := info.ObjectOf(id); o != nil && isMachineInt(o.Type()) {
						out[o] = x
					}
				}
			}
			switch y := rhs.(type) {
			case *ast.CallExpr:
				if normalisers[calleeName(info, y)] {
					def()
				}
				// int(<float64 expression>)
				if tv, ok := info.Types[y.Fun]; ok && tv.IsType() && isMachineInt(tv.Type) && len(y.Args) == 1 {
					if b, ok := info.TypeOf(y.Args[0]).Underlying().(*types.Basic); ok && b.Info()&types.IsFloat != 0 {
						def()
					}
				}
			case *ast.TypeAssertExpr:
				if y.Type != nil {
					def()
				}
			}
		case *ast.TypeSwitchStmt:
			// switch v := x.(type) { case int: … }: the implicit objects per clause
			for _, s := range x.Body.List {
				cc := s.(*ast.CaseClause)
				if o := info.Implicits[cc]; o != nil && isMachineInt(o.Type()) {
					out[o] = cc
				}
			}
		}
		return true
	})
	return out
}

func intSize(t types.Type) int64 {
	b, ok := t.Underlying().(*types.Basic)
	if !ok {
		return 0
	}
	switch b.Kind() {
	case types.Int8, types.Uint8:
		return 1
	case types.Int16, types.Uint16:
		return 2
	case types.Int32, types.Uint32:
		return 4
	case types.Int, types.Uint, types.Int64, types.Uint64, types.Uintptr:
		return 8
	}
	return 0
}

// boundedBothSides: x is compared from below and from above in the conditions that hold at nd (enclosing ifs whose body
// contains nd; conjunctions only).
func boundedBothSides(info *types.Info, obj types.Object, nd ast.Node, stack []ast.Node) bool {
	lower, upper := false, false
	isObj := func(e ast.Expr) bool { id, ok := unparen(e).(*ast.Ident); return ok && info.ObjectOf(id) == obj }
	var scan func(e ast.Expr)
	scan = func(e ast.Expr) {
		b, ok := unparen(e).(*ast.BinaryExpr)
		if !ok {
			return
		}
		if b.Op == token.LAND {
			scan(b.X)
			scan(b.Y)
			return
		}
		switch {
		case isObj(b.X) && (b.Op == token.LSS || b.Op == token.LEQ), isObj(b.Y) && (b.Op == token.GTR || b.Op == token.GEQ):
			upper = true
		case isObj(b.X) && (b.Op == token.GTR || b.Op == token.GEQ), isObj(b.Y) && (b.Op == token.LSS || b.Op == token.LEQ):
			lower = true
		}
	}
	for _, anc := range stack {
		if ifs, ok := anc.(*ast.IfStmt); ok && nd.Pos() >= ifs.Body.Pos() && nd.End() <= ifs.Body.End() {
			scan(ifs.Cond)
		}
	}
	return lower && upper
}

func ruleNarrow(c *Ctx, r *Rep) {
	n := 0
	for _, p := range []*packages.Package{c.Gojq, c.Cli} {
		if p == nil {
			continue
		}
		info := p.TypesInfo
		for _, fd := range c.Decls(p) {
			derived := jsonDerivedInts(info, fd)
			if len(derived) == 0 {
				continue
			}
			walkStack(fd.Body, func(m ast.Node, stack []ast.Node) bool {
				call, ok := m.(*ast.CallExpr)
				if !ok || len(call.Args) != 1 {
					return true
				}
				tv, ok := info.Types[call.Fun]
				if !ok || !tv.IsType() {
					return true
				}
				to := intSize(tv.Type)
				id, ok := unparen(call.Args[0]).(*ast.Ident)
				if !ok || to == 0 {
					return true
				}
				obj := info.ObjectOf(id)
				if _, ok := derived[obj]; !ok || intSize(obj.Type()) <= to {
					return true
				}
				n++
				good := boundedBothSides(info, obj, call, stack)
				r.Check(good, fmt.Sprintf("narrow:%s:%s", declKey(fd), c.Src(call)), call.Pos(), "%s narrows %s (a JSON number) with %s under a two-sided range test: %v — unguarded, 4294967361 becomes 'A' (the conversion wraps modulo 2^%d; WriteRune never sees the original value)", declKey(fd), id.Name, c.Src(call), good, to*8)
				return true
			})
		}
	}
	if n == 0 {
		r.Undecided("narrow:census", token.NoPos, "no narrowing conversion of a JSON-derived integer found (funcImplode converts code points to rune)")
	}
}

// ---- R-C13-brokendown ----

func ruleBrokenDown(c *Ctx, r *Rep) {
	info := c.Gojq.TypesInfo
	n := 0
	for _, fd := range c.Decls(c.Gojq) {
		ast.Inspect(fd.Body, func(m ast.Node) bool {
			cl, ok := m.(*ast.CompositeLit)
			if !ok || len(cl.Elts) < 6 {
				return true
			}
			if _, ok := info.TypeOf(cl).Underlying().(*types.Slice); !ok {
				return true
			}
			// the time.Time variable most elements are read off
			count := map[types.Object]int{}
			for _, el := range cl.Elts {
				seen := map[types.Object]bool{}
				ast.Inspect(el, func(q ast.Node) bool {
					if id, ok := q.(*ast.Ident); ok {
						if o := info.Uses[id]; o != nil && isNamed(o.Type(), "time", "Time") && !seen[o] {
							seen[o] = true
							count[o]++
						}
					}
					return true
				})
			}
			var tObj types.Object
			for o, k := range count {
				if k*2 > len(cl.Elts) {
					tObj = o
				}
			}
			if tObj == nil {
				return true
			}
			for i, el := range cl.Elts {
				n++
				uses := false
				ast.Inspect(el, func(q ast.Node) bool {
					if id, ok := q.(*ast.Ident); ok && info.Uses[id] == tObj {
						uses = true
					}
					return true
				})
				r.Check(uses, fmt.Sprintf("brokendown:%s:[%d]", declKey(fd), i), el.Pos(), "field %d of the broken-down time built in %s (`%s`) is read off %s, the normalised time the other fields come from: %v", i, declKey(fd), c.Src(el), tObj.Name(), uses)
			}
			return false
		})
	}
	if n == 0 {
		r.Undecided("brokendown:census", token.NoPos, "no broken-down time literal found")
	}
}

// ---- R-C14-cachekey ----

func ruleCacheKey(c *Ctx, r *Rep) {
	info := c.Gojq.TypesInfo
	n := 0
	for _, fd := range c.Decls(c.Gojq) {
		var store *ast.CallExpr
		ast.Inspect(fd.Body, func(m ast.Node) bool {
			if call, ok := m.(*ast.CallExpr); ok && calleeName(info, call) == "sync.Map.Store" && len(call.Args) == 2 {
				store = call
			}
			return true
		})
		if store == nil || fd.Type.Params == nil {
			continue
		}
		n++
		key := "cachekey:" + declKey(fd)
		params := map[types.Object]bool{}
		for _, f := range fd.Type.Params.List {
			for _, nm := range f.Names {
				if o := info.Defs[nm]; o != nil {
					if isNamed(o.Type(), "sync", "Map") {
						continue
					}
					if pt, ok := o.Type().(*types.Pointer); ok && isNamed(pt.Elem(), "sync", "Map") {
						continue
					}
					params[o] = true
				}
			}
		}
		// backward slice of an expression: parameters used as a whole, and tests of parameters it is control dependent on.
		// Assignments to the same variable accumulate (flow-insensitive within the function): sound for "depends on".
		type dep struct {
			whole map[types.Object]bool
			tests map[string]types.Object // normalised source of a call/comparison over a parameter -> parameter
		}
		assigns := map[types.Object][]*ast.AssignStmt{}
		parentIfs := map[*ast.AssignStmt][]ast.Expr{}
		walkStack(fd.Body, func(m ast.Node, stack []ast.Node) bool {
			as, ok := m.(*ast.AssignStmt)
			if !ok {
				return true
			}
			for _, lhs := range as.Lhs {
				if id, ok := lhs.(*ast.Ident); ok {
					if o := info.ObjectOf(id); o != nil {
						assigns[o] = append(assigns[o], as)
					}
				}
			}
			for _, anc := range stack {
				if ifs, ok := anc.(*ast.IfStmt); ok && as.Pos() >= ifs.Body.Pos() && as.End() <= ifs.Body.End() {
					parentIfs[as] = append(parentIfs[as], ifs.Cond)
				}
			}
			return true
		})
		var slice func(e ast.Expr, d *dep, seen map[types.Object]bool, asTest bool)
		slice = func(e ast.Expr, d *dep, seen map[types.Object]bool, asTest bool) {
			// a test over exactly one parameter (a call or comparison whose only variable is that parameter)
			if asTest {
				vars := map[types.Object]bool{}
				ast.Inspect(e, func(q ast.Node) bool {
					if id, ok := q.(*ast.Ident); ok {
						if o, ok := info.Uses[id].(*types.Var); ok && !o.IsField() {
							vars[o] = true
						}
					}
					return true
				})
				if len(vars) == 1 {
					for o := range vars {
						if params[o] && len(assigns[o]) == 0 {
							d.tests[types.ExprString(e)+"|"+c.Src(e)] = o
							return
						}
					}
				}
			}
			ast.Inspect(e, func(q ast.Node) bool {
				id, ok := q.(*ast.Ident)
				if !ok {
					return true
				}
				o, ok := info.Uses[id].(*types.Var)
				if !ok || o.IsField() {
					return true
				}
				if params[o] {
					d.whole[o] = true
				}
				if seen[o] {
					return true
				}
				seen[o] = true
				for _, as := range assigns[o] {
					for _, rhs := range as.Rhs {
						slice(rhs, d, seen, false)
					}
					for _, cond := range parentIfs[as] {
						slice(cond, d, seen, true)
					}
				}
				return true
			})
		}
		val := &dep{whole: map[types.Object]bool{}, tests: map[string]types.Object{}}
		slice(store.Args[1], val, map[types.Object]bool{}, false)
		kd := &dep{whole: map[types.Object]bool{}, tests: map[string]types.Object{}}
		// the key: every element of a composite literal is a test or a whole use
		keyExpr := unparen(store.Args[0])
		var keyParts []ast.Expr
		var collect func(e ast.Expr, seen map[types.Object]bool)
		collect = func(e ast.Expr, seen map[types.Object]bool) {
			e = unparen(e)
			switch x := e.(type) {
			case *ast.CompositeLit:
				for _, el := range x.Elts {
					if kv, ok := el.(*ast.KeyValueExpr); ok {
						collect(kv.Value, seen)
					} else {
						collect(el, seen)
					}
				}
				return
			case *ast.Ident:
				if o, ok := info.Uses[x].(*types.Var); ok && !params[o] && !seen[o] && len(assigns[o]) > 0 {
					seen[o] = true
					for _, as := range assigns[o] {
						for _, rhs := range as.Rhs {
							collect(rhs, seen)
						}
					}
					return
				}
			}
			keyParts = append(keyParts, e)
		}
		collect(keyExpr, map[types.Object]bool{})
		for _, part := range keyParts {
			if id, ok := part.(*ast.Ident); ok {
				if o, ok := info.Uses[id].(*types.Var); ok && params[o] {
					kd.whole[o] = true
					continue
				}
			}
			slice(part, kd, map[types.Object]bool{}, true)
		}
		// a parameter reassigned in the function (re = "(?i)" + re) is still "the parameter" for the key when the key was
		// built from it before: handled flow-insensitively — whole use in the key counts
		var missing []string
		for o := range val.whole {
			if kd.whole[o] {
				continue
			}
			missing = append(missing, "the whole of "+o.Name())
		}
		for t, o := range val.tests {
			if kd.whole[o] {
				continue
			}
			if _, ok := kd.tests[t]; !ok {
				missing = append(missing, "the test "+strings.SplitN(t, "|", 2)[1])
			}
		}
		sort.Strings(missing)
		r.Check(len(missing) == 0, key, store.Pos(), "%s: the cached value depends only on what the key %s determines: %v %s (otherwise the first caller decides what later callers with other arguments get: `\"a\\nb\" | [test(\"a.b\"), test(\"a.b\"; \"m\")]`)", declKey(fd), c.Src(keyExpr), len(missing) == 0, strings.Join(missing, "; "))
	}
	if n == 0 {
		r.Undecided("cachekey:census", token.NoPos, "no function stores into a sync.Map")
	}
}

// ---- R-C17-runeboundary ----

func ruleRuneBoundary(c *Ctx, r *Rep) {
	p := c.Cli
	info := p.TypesInfo
	// the boundary-repairing functions: return a slice of their string parameter and consult utf8.RuneStart / Decode*
	repair := map[string]bool{}
	for _, fd := range c.Decls(p) {
		if fd.Type.Params == nil || len(fd.Type.Params.List) != 1 || fd.Type.Results == nil || len(fd.Type.Results.List) != 1 {
			continue
		}
		usesUTF8, slicesParam := false, false
		var param types.Object
		if len(fd.Type.Params.List[0].Names) == 1 {
			param = info.Defs[fd.Type.Params.List[0].Names[0]]
		}
		if param == nil || types.TypeString(param.Type(), nil) != "string" {
			continue
		}
		ast.Inspect(fd.Body, func(m ast.Node) bool {
			switch x := m.(type) {
			case *ast.CallExpr:
				if nm := calleeName(info, x); nm == "utf8.RuneStart" || strings.HasPrefix(nm, "utf8.Decode") || nm == "utf8.ValidString" {
					usesUTF8 = true
				}
			case *ast.ReturnStmt:
				for _, res := range x.Results {
					if se, ok := unparen(res).(*ast.SliceExpr); ok {
						if id, ok := unparen(se.X).(*ast.Ident); ok && info.Uses[id] == param {
							slicesParam = true
						}
					}
				}
			}
			return true
		})
		if usesUTF8 && slicesParam {
			repair["cli."+fd.Name.Name] = true
		}
	}
	fd := c.Decl(p, "getLineByOffset")
	if fd == nil || len(repair) == 0 {
		r.Undecided("runeboundary:anchor", token.NoPos, "getLineByOffset or the boundary-repairing helper not found (%v)", keysOf(repair))
		return
	}
	g := cfg.New(fd.Body, func(*ast.CallExpr) bool { return true })
	// aligned expression: 0, len(…), or len(repair(…))
	var alignedExpr func(e ast.Expr) bool
	alignedExpr = func(e ast.Expr) bool {
		e = unparen(e)
		if v, ok := constInt(info, e); ok && v == 0 {
			return true
		}
		if call, ok := e.(*ast.CallExpr); ok && len(call.Args) == 1 {
			if f, ok := call.Fun.(*ast.Ident); ok && f.Name == "len" {
				return true
			}
		}
		return false
	}
	// definitions of obj reaching the statement that contains pos
	reaching := func(obj types.Object, pos token.Pos) ([]ast.Expr, bool) {
		type defn struct {
			rhs ast.Expr // nil: not an assignment the rule understands
		}
		defsIn := func(nd ast.Node) (*defn, bool) {
			var d *defn
			found := false
			ast.Inspect(nd, func(q ast.Node) bool {
				switch x := q.(type) {
				case *ast.AssignStmt:
					for i, lhs := range x.Lhs {
						if id, ok := lhs.(*ast.Ident); ok && info.ObjectOf(id) == obj {
							found = true
							if x.Tok == token.ASSIGN || x.Tok == token.DEFINE {
								if len(x.Rhs) == len(x.Lhs) {
									d = &defn{rhs: x.Rhs[i]}
								} else {
									d = &defn{}
								}
							} else {
								d = &defn{} // op-assignment
							}
						}
					}
				case *ast.IncDecStmt:
					if id, ok := x.X.(*ast.Ident); ok && info.ObjectOf(id) == obj {
						found = true
						d = &defn{}
					}
				}
				return true
			})
			return d, found
		}
		in := map[*cfg.Block]map[*defn]bool{}
		out := map[*cfg.Block]map[*defn]bool{}
		gen := map[*cfg.Block]*defn{}
		for _, b := range g.Blocks {
			for _, nd := range b.Nodes {
				if d, ok := defsIn(nd); ok {
					gen[b] = d
				}
			}
			in[b], out[b] = map[*defn]bool{}, map[*defn]bool{}
		}
		param := &defn{} // the value on entry (a parameter or the zero value)
		if len(g.Blocks) > 0 {
			in[g.Blocks[0]][param] = true
		}
		for changed := true; changed; {
			changed = false
			for _, b := range g.Blocks {
				o := map[*defn]bool{}
				if d := gen[b]; d != nil {
					o[d] = true
				} else {
					for d := range in[b] {
						o[d] = true
					}
				}
				if len(o) != len(out[b]) {
					changed = true
				}
				out[b] = o
				for _, s := range b.Succs {
					for d := range o {
						if !in[s][d] {
							in[s][d] = true
							changed = true
						}
					}
				}
			}
		}
		for _, b := range g.Blocks {
			for k, nd := range b.Nodes {
				if !(nd.Pos() <= pos && pos < nd.End()) {
					continue
				}
				// the last definition before node k in this block, else IN
				var last *defn
				for _, prev := range b.Nodes[:k] {
					if d, ok := defsIn(prev); ok {
						last = d
					}
				}
				var ds []*defn
				if last != nil {
					ds = []*defn{last}
				} else {
					for d := range in[b] {
						ds = append(ds, d)
					}
				}
				var rhs []ast.Expr
				for _, d := range ds {
					if d.rhs == nil {
						return nil, false
					}
					rhs = append(rhs, d.rhs)
				}
				return rhs, len(rhs) > 0
			}
		}
		return nil, false
	}
	n := 0
	walkStack(fd.Body, func(m ast.Node, stack []ast.Node) bool {
		se, ok := m.(*ast.SliceExpr)
		if !ok {
			return true
		}
		if b, ok := info.TypeOf(se.X).Underlying().(*types.Basic); !ok || b.Info()&types.IsString == 0 {
			return true
		}
		n++
		key := "runeboundary:" + c.Src(se)
		// repaired as a whole?
		if len(stack) > 0 {
			if call, ok := stack[len(stack)-1].(*ast.CallExpr); ok && repair[calleeName(info, call)] {
				r.OK(key, se.Pos(), "the cut %s is handed to %s, which moves it back to a character boundary", c.Src(se), calleeName(info, call))
				return true
			}
		}
		for _, bnd := range []ast.Expr{se.Low, se.High} {
			if bnd == nil || alignedExpr(bnd) {
				continue
			}
			id, ok := unparen(bnd).(*ast.Ident)
			if !ok {
				r.Bad(key, se.Pos(), "%s is cut at the computed byte position %s without being moved back to a character boundary: in a line of multi-byte characters the excerpt starts or ends inside a character, which prints as U+FFFD and shifts the caret", c.Src(se.X), c.Src(bnd))
				return true
			}
			defs, ok := reaching(info.ObjectOf(id), se.Pos())
			if !ok {
				r.Bad(key, se.Pos(), "%s is cut at %s, whose value at this point is not the length of a repaired prefix on every path (a parameter, an arithmetic update, or an unknown definition reaches the cut)", c.Src(se.X), id.Name)
				return true
			}
			for _, d := range defs {
				if !alignedExpr(d) {
					r.Bad(key, se.Pos(), "%s is cut at %s = %s, a byte position that need not be a character boundary", c.Src(se.X), id.Name, c.Src(d))
					return true
				}
			}
		}
		r.OK(key, se.Pos(), "every bound of %s is 0, a length, or the length of a boundary-repaired prefix on every path", c.Src(se))
		return true
	})
	if n == 0 {
		r.Undecided("runeboundary:census", fd.Pos(), "getLineByOffset cuts no string")
	}
}

// ---- R-C10-mulclamp ----

func ruleMulClamp(c *Ctx, r *Rep) {
	info := c.Gojq.TypesInfo
	guardScopes := intArithScopes(c)
	inGuardScope := func(pos token.Pos) bool {
		for _, b := range guardScopes {
			if b.Pos() <= pos && pos < b.End() {
				return true
			}
		}
		return false
	}
	n := 0
	for _, fd := range c.Decls(c.Gojq) {
		derived := jsonDerivedInts(info, fd)
		if len(derived) == 0 {
			continue
		}
		ast.Inspect(fd.Body, func(m ast.Node) bool {
			b, ok := m.(*ast.BinaryExpr)
			if !ok || b.Op != token.MUL || inGuardScope(b.Pos()) {
				return true
			}
			tx, ty := info.TypeOf(b.X), info.TypeOf(b.Y)
			if tx == nil || ty == nil || intSize(tx) == 0 || intSize(ty) == 0 {
				return true
			}
			if tv, ok := info.Types[b]; ok && tv.Value != nil {
				return true
			}
			for _, op := range []ast.Expr{b.X, b.Y} {
				// through integer conversions to the variable
				e := unparen(op)
				for {
					call, ok := e.(*ast.CallExpr)
					if !ok || len(call.Args) != 1 {
						break
					}
					if tv, ok := info.Types[call.Fun]; !ok || !tv.IsType() {
						break
					}
					e = unparen(call.Args[0])
				}
				id, ok := e.(*ast.Ident)
				if !ok {
					continue
				}
				def, ok := derived[info.ObjectOf(id)]
				if !ok {
					continue
				}
				n++
				key := fmt.Sprintf("mulclamp:%s:%s", declKey(fd), id.Name)
				// the definition must be int(min(<x>, CONST)) with CONST <= MaxInt32
				good := false
				if as, ok := def.(*ast.AssignStmt); ok && len(as.Rhs) == 1 {
					if conv, ok := unparen(as.Rhs[0]).(*ast.CallExpr); ok && len(conv.Args) == 1 {
						if mn, ok := unparen(conv.Args[0]).(*ast.CallExpr); ok {
							if f, ok := mn.Fun.(*ast.Ident); ok && f.Name == "min" {
								for _, a := range mn.Args {
									if tv, ok := info.Types[a]; ok && tv.Value != nil {
										if f, _ := constant.Float64Val(constant.ToFloat(tv.Value)); f <= 1<<31 {
											good = true
										}
									}
								}
							}
						}
					}
				}
				r.Check(good, key, b.Pos(), "%s multiplies by %s, converted from a JSON number after a clamp to a constant no larger than 2^31: %v — with a saturating conversion instead, `\"abcd\" * 4611686018427387904` makes the size test's product wrap to 0 and strings.Repeat panics", declKey(fd), id.Name, good)
			}
			return true
		})
	}
	if n == 0 {
		r.Undecided("mulclamp:census", token.NoPos, "no machine-integer product with a JSON-derived factor found outside the arithmetic operators (repeatString has one)")
	}
}

// ---------------------------------------------------------------------------------------------------------------------
// R-C17-newlinesib: every counter of discarded lines recognises the line terminators the excerpt scanner recognises.

func init() {
	reg(&Rule{ID: "R-C17-newlinesib", Props: []string{"C17"}, Floor: 3,
		Doc: "the places that add the lines of discarded input to the line counter recognise the same terminators (LF, CR, CRLF) as the scanner that numbers the lines of the retained window, and never cut between a CR and its LF: the line number of an error does not depend on how much input was discarded before it",
		Run: ruleNewlineSib})
	addDecided("C17", " The counters of discarded lines recognise the terminators the excerpt scanner recognises and do not split CRLF (R-C17-newlinesib; D33).")
}

// terminatorLits: which of '\n', '\r' a node mentions as byte/rune/string literals, following calls to functions of the
// package up to depth 2.
func terminatorLits(c *Ctx, p *packages.Package, nd ast.Node, depth int, out map[string]bool) {
	info := p.TypesInfo
	ast.Inspect(nd, func(m ast.Node) bool {
		switch x := m.(type) {
		case *ast.BasicLit:
			if x.Kind == token.CHAR || x.Kind == token.STRING {
				if s, err := strconv.Unquote(x.Value); err == nil {
					if strings.Contains(s, "\n") {
						out["LF"] = true
					}
					if strings.Contains(s, "\r") {
						out["CR"] = true
					}
				}
			}
		case *ast.CallExpr:
			if depth > 0 {
				if f, ok := callee(info, x).(*types.Func); ok && f.Pkg() == p.Types {
					key := f.Name()
					if sig := f.Type().(*types.Signature); sig.Recv() != nil {
						if n := namedOf(sig.Recv().Type()); n != nil {
							key = n.Obj().Name() + "." + f.Name()
						}
					}
					if fd := c.Decl(p, key); fd != nil {
						terminatorLits(c, p, fd.Body, depth-1, out)
					}
				}
			}
		}
		return true
	})
}

func ruleNewlineSib(c *Ctx, r *Rep) {
	p := c.Cli
	info := p.TypesInfo
	// the reference: what the scanner of the retained window recognises
	ref := map[string]bool{}
	for _, k := range []string{"stringScanner.next", "indexNewline"} {
		if fd := c.Decl(p, k); fd != nil {
			terminatorLits(c, p, fd.Body, 2, ref)
		}
	}
	if !ref["LF"] {
		r.Undecided("newline:reference", token.NoPos, "the line scanner of the excerpt (stringScanner.next / indexNewline) was not found or mentions no line feed")
		return
	}
	r.OK("newline:reference", token.NoPos, "the excerpt scanner recognises %v", keysOf(ref))
	n := 0
	for _, fd := range c.Decls(p) {
		ast.Inspect(fd.Body, func(m ast.Node) bool {
			as, ok := m.(*ast.AssignStmt)
			if !ok || as.Tok != token.ADD_ASSIGN || len(as.Lhs) != 1 || len(as.Rhs) != 1 {
				return true
			}
			if t := info.TypeOf(as.Lhs[0]); t == nil || !isMachineInt(t) {
				return true
			}
			got := map[string]bool{}
			terminatorLits(c, p, as.Rhs[0], 2, got)
			if !got["LF"] && !got["CR"] {
				return true
			}
			n++
			key := fmt.Sprintf("newline:%s:%s", declKey(fd), c.Src(as.Lhs[0]))
			var missing []string
			for t := range ref {
				if !got[t] {
					missing = append(missing, t)
				}
			}
			sort.Strings(missing)
			if len(missing) > 0 {
				r.Bad(key, as.Pos(), "%s adds `%s` to the line counter %s: it does not recognise %v, which the scanner of the retained window counts as line ends — for input whose lines end in a lone CR the reported line depends on how much was discarded before the error (20001 lines of `1\\r` then `[}`: line 4405 from a pipe, 3617 from a file, 11 when the same error is within the first 16 KiB)", declKey(fd), c.Src(as.Rhs[0]), c.Src(as.Lhs[0]), missing)
				return true
			}
			// CRLF must not be split by the cut: the function tests the byte before the cut for CR
			split := false
			ast.Inspect(fd.Body, func(q ast.Node) bool {
				b, ok := q.(*ast.BinaryExpr)
				if !ok || (b.Op != token.EQL && b.Op != token.NEQ) {
					return true
				}
				for _, e := range []ast.Expr{b.X, b.Y} {
					if bl, ok := unparen(e).(*ast.BasicLit); ok && bl.Kind == token.CHAR {
						if s, err := strconv.Unquote(bl.Value); err == nil && s == "\r" {
							split = true
						}
					}
				}
				return true
			})
			if ref["CR"] && !split {
				r.Bad(key, as.Pos(), "%s counts LF, CR and CRLF in the discarded bytes but never looks whether the cut falls between a CR and its LF: a CRLF split by the cut is counted once in the discarded part and once more in the retained window", declKey(fd))
				return true
			}
			r.OK(key, as.Pos(), "%s counts the discarded lines with the terminators of the excerpt scanner %v and tests the byte before the cut for CR", declKey(fd), keysOf(got))
			return true
		})
	}
	if n < 2 {
		r.Undecided("newline:census", token.NoPos, "%d places add a count of line terminators to a line counter (the re-read loop of getContents and the window reset of jsonInputIter.Next are two)", n)
	}
}

// ---------------------------------------------------------------------------------------------------------------------
// R-C17-seekorigin: positions in a seekable input are relative to where reading began, not to the start of the file.

func init() {
	reg(&Rule{ID: "R-C17-seekorigin", Props: []string{"C17", "C16"}, Floor: 2,
		Doc: "every absolute repositioning (Seek(x, io.SeekStart)) of the input stream uses a position obtained from Seek(0, io.SeekCurrent) — the current position, or the position recorded when reading began — never a constant, and a position obtained with io.SeekEnd is made relative to the recorded start before it is used as an input offset: standard input may be a file the caller has already read from",
		Run: ruleSeekOrigin})
	addDecided("C17", " Re-reading a seekable input starts where reading began (R-C17-seekorigin; D34).")
}

func ruleSeekOrigin(c *Ctx, r *Rep) {
	p := c.Cli
	info := p.TypesInfo
	whence := func(call *ast.CallExpr) string {
		if len(call.Args) != 2 {
			return ""
		}
		sel, ok := unparen(call.Args[1]).(*ast.SelectorExpr)
		if !ok {
			if v, ok := constInt(info, call.Args[1]); ok {
				return map[int64]string{0: "SeekStart", 1: "SeekCurrent", 2: "SeekEnd"}[v]
			}
			return ""
		}
		return sel.Sel.Name
	}
	isSeek := func(call *ast.CallExpr) bool {
		sel, ok := call.Fun.(*ast.SelectorExpr)
		if !ok || sel.Sel.Name != "Seek" || len(call.Args) != 2 {
			return false
		}
		f, ok := info.Uses[sel.Sel].(*types.Func)
		return ok && f.Type().(*types.Signature).Results().Len() == 2
	}
	// fields and variables that hold a position obtained from Seek(0, io.SeekCurrent)
	fromCurrent := map[types.Object]bool{}
	tainted := map[types.Object]bool{} // … assigned from something else somewhere
	isCurrentCall := func(e ast.Expr) bool {
		call, ok := unparen(e).(*ast.CallExpr)
		if !ok || !isSeek(call) || whence(call) != "SeekCurrent" {
			return false
		}
		v, ok := constInt(info, call.Args[0])
		return ok && v == 0
	}
	for _, fd := range c.Decls(p) {
		ast.Inspect(fd.Body, func(m ast.Node) bool {
			switch x := m.(type) {
			case *ast.AssignStmt:
				if len(x.Rhs) == 1 && isCurrentCall(x.Rhs[0]) && len(x.Lhs) == 2 {
					switch l := x.Lhs[0].(type) {
					case *ast.Ident:
						if o := info.ObjectOf(l); o != nil {
							fromCurrent[o] = true
						}
					case *ast.SelectorExpr:
						if o := info.Uses[l.Sel]; o != nil {
							fromCurrent[o] = true
						}
					}
					return true
				}
				for i, lhs := range x.Lhs {
					var o types.Object
					switch l := lhs.(type) {
					case *ast.Ident:
						o = info.ObjectOf(l)
					case *ast.SelectorExpr:
						o = info.Uses[l.Sel]
					}
					if o == nil {
						continue
					}
					// assigned from a variable that is itself from-current: propagated below; anything else taints
					if len(x.Rhs) == len(x.Lhs) {
						if id, ok := unparen(x.Rhs[i]).(*ast.Ident); ok && fromCurrent[info.ObjectOf(id)] {
							fromCurrent[o] = true
							continue
						}
					}
					tainted[o] = true
				}
			case *ast.CompositeLit:
				// inputReader{r, r, nil, start} / inputReader{start: start}
				st, ok := info.TypeOf(x).Underlying().(*types.Struct)
				if !ok {
					return true
				}
				for i, el := range x.Elts {
					var fld *types.Var
					val := el
					if kv, ok := el.(*ast.KeyValueExpr); ok {
						if id, ok := kv.Key.(*ast.Ident); ok {
							fld, _ = info.Uses[id].(*types.Var)
						}
						val = kv.Value
					} else if i < st.NumFields() {
						fld = st.Field(i)
					}
					if fld == nil || !isMachineInt(fld.Type()) {
						continue
					}
					if id, ok := unparen(val).(*ast.Ident); ok && fromCurrent[info.ObjectOf(id)] {
						fromCurrent[fld] = true
					} else if v, ok := constInt(info, val); ok && v == 0 {
						// the zero position of a stream that cannot seek: never used for seeking
					} else {
						tainted[fld] = true
					}
				}
			}
			return true
		})
	}
	posObj := func(e ast.Expr) types.Object {
		switch x := unparen(e).(type) {
		case *ast.Ident:
			return info.ObjectOf(x)
		case *ast.SelectorExpr:
			return info.Uses[x.Sel]
		}
		return nil
	}
	n := 0
	for _, fd := range c.Decls(p) {
		ast.Inspect(fd.Body, func(m ast.Node) bool {
			call, ok := m.(*ast.CallExpr)
			if !ok || !isSeek(call) {
				return true
			}
			switch whence(call) {
			case "SeekStart":
				n++
				key := fmt.Sprintf("seek:%s:%s", declKey(fd), c.Src(call))
				o := posObj(call.Args[0])
				switch {
				case o != nil && fromCurrent[o] && !tainted[o]:
					r.OK(key, call.Pos(), "%s repositions the input to %s, a position obtained from Seek(0, io.SeekCurrent)", declKey(fd), c.Src(call.Args[0]))
				case o == nil:
					r.Bad(key, call.Pos(), "%s repositions the input with `%s`: the position is not one obtained from Seek(0, io.SeekCurrent) — when standard input is a file the caller has partly read (`{ read x; gojq .; } < file`), offsets count from where gojq began, and re-reading from the absolute position %s quotes the wrong line", declKey(fd), c.Src(call), c.Src(call.Args[0]))
				default:
					r.Bad(key, call.Pos(), "%s repositions the input to %s, which is not (only) a position obtained from Seek(0, io.SeekCurrent)", declKey(fd), c.Src(call.Args[0]))
				}
			case "SeekEnd":
				n++
				key := fmt.Sprintf("seek:%s:%s", declKey(fd), c.Src(call))
				// the result must meet a recorded start in a subtraction within the function
				adjusted := false
				ast.Inspect(fd.Body, func(q ast.Node) bool {
					switch x := q.(type) {
					case *ast.BinaryExpr:
						if x.Op == token.SUB {
							if o := posObj(x.Y); o != nil && fromCurrent[o] && !tainted[o] {
								adjusted = true
							}
						}
					case *ast.AssignStmt:
						if x.Tok == token.SUB_ASSIGN && len(x.Rhs) == 1 {
							if o := posObj(x.Rhs[0]); o != nil && fromCurrent[o] && !tainted[o] {
								adjusted = true
							}
						}
					}
					return true
				})
				r.Check(adjusted, key, call.Pos(), "%s uses the end position of the input as an offset only after subtracting the position reading began at: %v", declKey(fd), adjusted)
			}
			return true
		})
	}
	if n < 2 {
		r.Undecided("seek:census", token.NoPos, "%d absolute repositionings of the input found (getContents has two, the unexpected-EOF path one)", n)
	}
}

// ---------------------------------------------------------------------------------------------------------------------
// R-C08-strslice: a string cut or indexed at a constant position is known to be long enough.

func init() {
	reg(&Rule{ID: "R-C08-strslice", Props: []string{"C08", "C18"}, Floor: 20,
		Doc: "every s[K:], s[:K], s[K:j] and s[K] on a string with a constant K >= 1 (s[0] included) is dominated by a condition that implies len(s) > K-1 or > K — strings.HasPrefix with a long enough literal, a length or emptiness test, a successful s[0] comparison — or is an enumerated site whose operand is non-empty by construction (a token of the lexer, a name the grammar produced): a search path, a flag or a metadata string is user input, and a cut beyond its end is a run-time panic",
		Run: ruleStrSlice})
	reg(&Rule{ID: "R-C17-graphemewidth", Props: []string{"C17"}, Floor: 1,
		Doc: "the caret column is a runewidth.StringWidth of the prefix (grapheme clusters counted once); runewidth.RuneWidth, whose per-code-point sum counts a ZWJ sequence or a flag several times, is not used in the command",
		Run: ruleGraphemeWidth})
	addDecided("C08", " A string cut or indexed at a constant position is long enough by a dominating condition or by an enumerated construction argument (R-C08-strslice).")
	addDecided("C17", " The caret column is measured with runewidth.StringWidth, never by summing RuneWidth (R-C17-graphemewidth).")
}

// strSliceReviewed: sites justified by how the operand is constructed, not by a local condition.
var strSliceReviewed = map[string]string{
	"compiler.compileLabel:e.Ident[1:]":     "Label.Ident is the tokVariable of `label $name`: the lexer emits variables with their leading '$'",
	"compiler.compileBreak:label[1:]":       "the operand of break is the tokVariable of `break $name`",
	"compiler.compileFormat:format[1:]":     "format is a tokFormat token, which the lexer emits with its leading '@'",
	"compiler.compileFuncDef:arg[0]":        "FuncDef.Args are tokIdent/tokVariable tokens: never empty",
	"compiler.compileFunc:e.Name[0]":        "Func.Name is a tokIdent/tokVariable/tokModuleIdent/tokModuleVariable token or a name the compiler synthesises: never empty (a hand-built AST with an empty name is not query text)",
	"compiler.lookupFuncOrVariable:name[0]": "called with Func.Name (see compileFunc) — never empty",
	"Query.isValue:e.Term.Func.Name[0]":     "Func.Name of a parsed or compiler-built term: never empty (see compileFunc)",
	"compiler.funcBuiltins:fd.Name[0]":      "names of builtinFuncDefs, a table generated from builtin.jq: definitions have names",
	"compiler.funcBuiltins:name[0]":         "keys of the internalFuncs table literal: none is empty (host-registered names are tested with strings.HasPrefix since D36)",
	"listModuleDefs:fd.Name[0]":             "FuncDefs of a parsed module: the grammar gives a definition a tokIdent name",
	"String.writeTo:es[1 : len(es)-1]":      "es is the printed form of a string term without interpolation: a JSON string literal, at least the two quotes",
	"lexer.scanString:src[1 : len(src)-1]":  "src is l.source[start:i+1] with source[start] and source[i] the quotes of the literal: at least two bytes",
	"lexer.Lex:l.token[1:]":                 "l.token was just cut from the source starting at the '.' that led here: at least one byte",
	"cli.runInternal:name[1:]":              "cli.argnames are built by the flag handlers as \"$\" + name",
	"parseFlags:arg[2:]":                    "reached with val resolved through longToValue after strings.HasPrefix(arg, \"--\"), or through a short option, for which len(arg) == 2 exactly and arg[2:] is empty",
}

type lenFact struct {
	min    int  // len(T) >= min holds
	proven bool // false: nothing known
}

func ruleStrSlice(c *Ctx, r *Rep) {
	n := 0
	for _, p := range []*packages.Package{c.Gojq, c.Cli} {
		if p == nil {
			continue
		}
		info := p.TypesInfo
		isStr := func(e ast.Expr) bool {
			t := info.TypeOf(e)
			if t == nil {
				return false
			}
			b, ok := t.Underlying().(*types.Basic)
			return ok && b.Info()&types.IsString != 0
		}
		for _, fd := range c.Decls(p) {
			file := c.PhysFile(fd.Pos())
			if file == "parser.go" || file == "builtin.go" {
				continue
			}
			// the minimum length of the string written T that a condition implies when it holds (pos) or fails (!pos)
			var implied func(cond ast.Expr, T string, pos bool) int
			implied = func(cond ast.Expr, T string, pos bool) int {
				cond = unparen(cond)
				switch x := cond.(type) {
				case *ast.UnaryExpr:
					if x.Op == token.NOT {
						return implied(x.X, T, !pos)
					}
				case *ast.BinaryExpr:
					switch x.Op {
					case token.LAND, token.LOR:
						a, b := implied(x.X, T, pos), implied(x.Y, T, pos)
						// holds: && gives both, || gives the weaker; fails: the De Morgan dual
						if (x.Op == token.LAND) == pos {
							return max(a, b)
						}
						return min(a, b)
					case token.EQL, token.NEQ:
						eq := (x.Op == token.EQL) == pos
						for _, pr := range [][2]ast.Expr{{x.X, x.Y}, {x.Y, x.X}} {
							a, b := unparen(pr[0]), unparen(pr[1])
							// T == "lit" / T != ""
							if types.ExprString(a) == T {
								if s, ok := constString(info, b); ok {
									if eq {
										return len(s)
									}
									if s == "" {
										return 1
									}
								}
							}
							// T[i] == c: the comparison was evaluated, so the index exists
							if ix, ok := a.(*ast.IndexExpr); ok && types.ExprString(ix.X) == T {
								if k, ok := constInt(info, ix.Index); ok {
									return int(k) + 1
								}
							}
							// len(T) == n
							if call, ok := a.(*ast.CallExpr); ok && len(call.Args) == 1 && types.ExprString(call.Fun) == "len" && types.ExprString(call.Args[0]) == T {
								if k, ok := constInt(info, b); ok && eq {
									return int(k)
								}
							}
						}
					case token.LSS, token.LEQ, token.GTR, token.GEQ:
						// normalise to len(T) OP k
						a, b, op := unparen(x.X), unparen(x.Y), x.Op
						if _, ok := constInt(info, a); ok {
							a, b = b, a
							op = map[token.Token]token.Token{token.LSS: token.GTR, token.LEQ: token.GEQ, token.GTR: token.LSS, token.GEQ: token.LEQ}[op]
						}
						call, ok := a.(*ast.CallExpr)
						if !ok || len(call.Args) != 1 || types.ExprString(call.Fun) != "len" || types.ExprString(call.Args[0]) != T {
							// T[i] < c etc.: evaluated index
							if ix, ok := a.(*ast.IndexExpr); ok && types.ExprString(ix.X) == T {
								if k, ok := constInt(info, ix.Index); ok {
									return int(k) + 1
								}
							}
							return 0
						}
						k64, ok := constInt(info, b)
						if !ok {
							return 0
						}
						k := int(k64)
						if !pos {
							op = map[token.Token]token.Token{token.LSS: token.GEQ, token.LEQ: token.GTR, token.GTR: token.LEQ, token.GEQ: token.LSS}[op]
						}
						switch op {
						case token.GTR:
							return k + 1
						case token.GEQ:
							return k
						}
						return 0
					}
				case *ast.CallExpr:
					// a string that contains (ends with) a constant is at least as long as the constant
					if nm := calleeName(info, x); pos && (nm == "strings.Contains" || nm == "strings.HasSuffix") && len(x.Args) == 2 {
						if types.ExprString(unparen(x.Args[0])) == T {
							if s, ok := constString(info, x.Args[1]); ok {
								return len(s)
							}
						}
					}
					if pos && calleeName(info, x) == "strings.HasPrefix" && len(x.Args) == 2 {
						a := types.ExprString(unparen(x.Args[0]))
						if a == T || a == T+".String()" || a == "string("+T+")" {
							if s, ok := constString(info, x.Args[1]); ok {
								return len(s)
							}
						}
					}
				}
				return 0
			}
			terminates := func(b *ast.BlockStmt) bool {
				if len(b.List) == 0 {
					return false
				}
				switch x := b.List[len(b.List)-1].(type) {
				case *ast.ReturnStmt, *ast.BranchStmt:
					return true
				case *ast.ExprStmt:
					if call, ok := x.X.(*ast.CallExpr); ok {
						if id, ok := call.Fun.(*ast.Ident); ok && id.Name == "panic" {
							return true
						}
					}
				}
				return false
			}
			walkStack(fd.Body, func(m ast.Node, stack []ast.Node) bool {
				var X ast.Expr
				need := 0 // len(X) >= need
				desc := ""
				switch x := m.(type) {
				case *ast.SliceExpr:
					if !isStr(x.X) {
						return true
					}
					for _, b := range []ast.Expr{x.Low, x.High} {
						if b == nil {
							continue
						}
						if k, ok := constInt(info, b); ok && int(k) > need {
							need = int(k)
						}
					}
					X, desc = x.X, c.Src(x)
				case *ast.IndexExpr:
					if !isStr(x.X) {
						return true
					}
					k, ok := constInt(info, x.Index)
					if !ok {
						return true
					}
					X, need, desc = x.X, int(k)+1, c.Src(x)
				default:
					return true
				}
				if need == 0 {
					return true
				}
				// a constant operand
				if s, ok := constString(info, X); ok && len(s) >= need {
					return true
				}
				n++
				T := types.ExprString(unparen(X))
				key := fmt.Sprintf("strslice:%s:%s", declKey(fd), desc)
				best := 0
				for i, anc := range stack {
					var child ast.Node = m
					if i+1 < len(stack) {
						child = stack[i+1]
					}
					switch a := anc.(type) {
					case *ast.IfStmt:
						if child == ast.Node(a.Body) {
							best = max(best, implied(a.Cond, T, true))
						} else if a.Else != nil && child == ast.Node(a.Else) {
							best = max(best, implied(a.Cond, T, false))
						}
						// the condition itself, right of &&: handled by BinaryExpr below
					case *ast.BinaryExpr:
						// a && <here>: a holds; a || <here>: a fails
						if child == ast.Node(a.Y) {
							if a.Op == token.LAND {
								best = max(best, implied(a.X, T, true))
							} else if a.Op == token.LOR {
								best = max(best, implied(a.X, T, false))
							}
						}
					case *ast.CaseClause:
						// tagless switch: this arm's condition holds (the earlier arms' conditions fail: not needed)
						if i >= 2 {
							if sw, ok := stack[i-2].(*ast.SwitchStmt); ok && sw.Tag == nil && len(a.List) > 0 {
								inBody := false
								for _, st := range a.Body {
									if ast.Node(st) == child {
										inBody = true
									}
								}
								if inBody {
									w := 1 << 30
									for _, e := range a.List {
										w = min(w, implied(e, T, true))
									}
									best = max(best, w)
								}
							}
						}
					}
					// earlier statements of the enclosing list that leave when a condition holds
					var list []ast.Stmt
					switch b := anc.(type) {
					case *ast.BlockStmt:
						list = b.List
					case *ast.CaseClause:
						list = b.Body
					}
					for _, st := range list {
						if ast.Node(st) == child {
							break
						}
						if ifs, ok := st.(*ast.IfStmt); ok && ifs.Else == nil && ifs.Init == nil && terminates(ifs.Body) {
							best = max(best, implied(ifs.Cond, T, false))
						}
					}
				}
				if best >= need {
					r.OK(key, m.Pos(), "%s: the conditions that hold here imply len(%s) >= %d", desc, T, best)
					return true
				}
				if why, ok := strSliceReviewed[declKey(fd)+":"+desc]; ok {
					r.OK(key, m.Pos(), "%s: enumerated — %s", desc, why)
					return true
				}
				r.Bad(key, m.Pos(), "%s in %s needs len(%s) >= %d, and the conditions that hold there imply only >= %d: for a shorter string (an exact \"~\" or \"$ORIGIN\" search path, an empty name) this is a slice-bounds panic no try can catch", desc, declKey(fd), T, need, best)
				return true
			})
		}
	}
	if n == 0 {
		r.Undecided("strslice:census", token.NoPos, "no constant cut of a string found")
	}
}

func ruleGraphemeWidth(c *Ctx, r *Rep) {
	p := c.Cli
	info := p.TypesInfo
	n := 0
	for _, fd := range c.Decls(p) {
		ast.Inspect(fd.Body, func(m ast.Node) bool {
			call, ok := m.(*ast.CallExpr)
			if !ok {
				return true
			}
			switch nm := calleeName(info, call); {
			case nm == "runewidth.RuneWidth" || strings.HasSuffix(nm, "Condition.RuneWidth"):
				n++
				r.Bad("width:"+declKey(fd)+":RuneWidth", call.Pos(), "%s measures with runewidth.RuneWidth: a sum of per-code-point widths counts every code point of a grapheme cluster (a ZWJ emoji sequence, a flag, a base letter with variation selector), so the caret lands to the right of the offending character", declKey(fd))
			case nm == "runewidth.StringWidth" || strings.HasSuffix(nm, "Condition.StringWidth"):
				n++
				r.OK("width:"+declKey(fd)+":StringWidth", call.Pos(), "%s measures the prefix with runewidth.StringWidth", declKey(fd))
			}
			return true
		})
	}
	if n == 0 {
		r.Undecided("width:census", token.NoPos, "the command no longer measures a display width with go-runewidth")
	}
}

// ---------------------------------------------------------------------------------------------------------------------
// R-C08-lexadvance: the lexer only steps over a byte it has seen.

func init() {
	reg(&Rule{ID: "R-C08-lexadvance", Props: []string{"C08", "C17", "C09"}, Floor: 30,
		Doc: "every l.offset++ of the lexer is licensed by a test that the byte at the current position exists — l.peek() (or a variable holding it, with no movement since) compared equal to a non-zero constant, accepted by a character class that rejects 0, or an explicit end-of-input test — with no other movement between the test and the step; an advance by a decoded rune's size uses the size utf8 reported for the bytes at that position: a step taken at the end of input puts the offset beyond the source, and the next token or error slices out of range",
		Run: ruleLexAdvance})
	addDecided("C08", " The lexer steps only over bytes it has tested to exist (R-C08-lexadvance).")
	addDecided("C17", " ParseError offsets cannot run beyond the source: every lexer step is licensed by a test of the byte stepped over (R-C08-lexadvance).")
}

// lexAdvanceReviewed: steps justified by index arithmetic the rule does not model.
var lexAdvanceReviewed = map[string]string{
	"lexer.scanString:l.offset += 2": "under i == l.offset+1 with i < len(l.source) (the loop bound of scanString): l.offset+2 <= len(l.source)",
}

func ruleLexAdvance(c *Ctx, r *Rep) {
	info := c.Gojq.TypesInfo
	// character classes that reject 0: func f(ch byte, …) bool whose value for ch = 0 is false whatever the other arguments
	classes := map[*types.Func]bool{}
	var rejectsZero func(fd *ast.FuncDecl, depth int) bool
	var evalZero func(e ast.Expr, ch types.Object, depth int) (val, known bool) // value of e with ch = 0; unknown operands: known=false
	evalZero = func(e ast.Expr, ch types.Object, depth int) (bool, bool) {
		e = unparen(e)
		switch x := e.(type) {
		case *ast.BinaryExpr:
			switch x.Op {
			case token.LAND:
				a, ak := evalZero(x.X, ch, depth)
				b, bk := evalZero(x.Y, ch, depth)
				if (ak && !a) || (bk && !b) {
					return false, true
				}
				return a && b, ak && bk
			case token.LOR:
				a, ak := evalZero(x.X, ch, depth)
				b, bk := evalZero(x.Y, ch, depth)
				if (ak && a) || (bk && b) {
					return true, true
				}
				return false, ak && bk
			case token.EQL, token.NEQ, token.LSS, token.LEQ, token.GTR, token.GEQ:
				get := func(e ast.Expr) (int64, bool) {
					if id, ok := unparen(e).(*ast.Ident); ok && info.ObjectOf(id) == ch {
						return 0, true
					}
					return constInt(info, e)
				}
				a, ak := get(x.X)
				b, bk := get(x.Y)
				if !ak || !bk {
					return false, false
				}
				switch x.Op {
				case token.EQL:
					return a == b, true
				case token.NEQ:
					return a != b, true
				case token.LSS:
					return a < b, true
				case token.LEQ:
					return a <= b, true
				case token.GTR:
					return a > b, true
				default:
					return a >= b, true
				}
			}
		case *ast.CallExpr:
			if f, ok := callee(info, x).(*types.Func); ok && len(x.Args) >= 1 && depth > 0 {
				if id, ok := unparen(x.Args[0]).(*ast.Ident); ok && info.ObjectOf(id) == ch {
					if d := c.Decl(c.Gojq, f.Name()); d != nil && rejectsZero(d, depth-1) {
						return false, true
					}
				}
			}
		}
		return false, false
	}
	rejectsZero = func(fd *ast.FuncDecl, depth int) bool {
		if fd.Recv != nil || fd.Type.Params == nil || len(fd.Type.Params.List) == 0 || len(fd.Type.Params.List[0].Names) == 0 {
			return false
		}
		ch := info.Defs[fd.Type.Params.List[0].Names[0]]
		if ch == nil {
			return false
		}
		if b, ok := ch.Type().Underlying().(*types.Basic); !ok || b.Info()&types.IsInteger == 0 {
			return false
		}
		if len(fd.Body.List) != 1 {
			return false
		}
		switch st := fd.Body.List[0].(type) {
		case *ast.ReturnStmt:
			if len(st.Results) != 1 {
				return false
			}
			v, known := evalZero(st.Results[0], ch, depth)
			return known && !v
		case *ast.SwitchStmt:
			// switch ch { case c…: return true; default: return false }
			id, ok := unparen(st.Tag).(*ast.Ident)
			if !ok || info.ObjectOf(id) != ch {
				return false
			}
			for _, s := range st.Body.List {
				cc := s.(*ast.CaseClause)
				retTrue := false
				for _, b := range cc.Body {
					if rs, ok := b.(*ast.ReturnStmt); ok && len(rs.Results) == 1 {
						if id, ok := unparen(rs.Results[0]).(*ast.Ident); ok && id.Name == "true" {
							retTrue = true
						} else if !ok || id.Name != "false" {
							return false
						}
					}
				}
				if retTrue {
					if cc.List == nil {
						return false
					}
					for _, e := range cc.List {
						if v, ok := constInt(info, e); !ok || v == 0 {
							return false
						}
					}
				}
			}
			return true
		}
		return false
	}
	for _, fd := range c.Decls(c.Gojq) {
		if c.PhysFile(fd.Pos()) == "lexer.go" && fd.Recv == nil && rejectsZero(fd, 2) {
			if f, ok := info.Defs[fd.Name].(*types.Func); ok {
				classes[f] = true
			}
		}
	}
	if len(classes) < 3 {
		r.Undecided("lexadvance:classes", token.NoPos, "fewer than three character classes of the lexer reject the zero byte (%d): isIdent, isNumber, isHex, isWhite were expected", len(classes))
		return
	}
	n := 0
	for _, fd := range c.Decls(c.Gojq) {
		if c.PhysFile(fd.Pos()) != "lexer.go" || fd.Recv == nil || len(fd.Recv.List) != 1 || len(fd.Recv.List[0].Names) != 1 {
			continue
		}
		recv := info.Defs[fd.Recv.List[0].Names[0]]
		if recv == nil {
			continue
		}
		if nt := namedOf(recv.Type()); nt == nil || nt.Obj().Name() != "lexer" {
			continue
		}
		isOffset := func(e ast.Expr) bool {
			sel, ok := unparen(e).(*ast.SelectorExpr)
			if !ok || sel.Sel.Name != "offset" {
				return false
			}
			id, ok := unparen(sel.X).(*ast.Ident)
			return ok && info.ObjectOf(id) == recv
		}
		isPeekCall := func(e ast.Expr) bool {
			call, ok := unparen(e).(*ast.CallExpr)
			if !ok || len(call.Args) != 0 {
				return false
			}
			sel, ok := call.Fun.(*ast.SelectorExpr)
			if !ok || sel.Sel.Name != "peek" {
				return false
			}
			id, ok := unparen(sel.X).(*ast.Ident)
			return ok && info.ObjectOf(id) == recv
		}
		// variables assigned from l.peek() somewhere, and those assignments
		peekAssign := map[types.Object][]ast.Node{}
		ast.Inspect(fd.Body, func(m ast.Node) bool {
			if as, ok := m.(*ast.AssignStmt); ok && len(as.Lhs) == len(as.Rhs) {
				for i, rhs := range as.Rhs {
					if isPeekCall(rhs) {
						if id, ok := as.Lhs[i].(*ast.Ident); ok {
							if o := info.ObjectOf(id); o != nil {
								peekAssign[o] = append(peekAssign[o], as)
							}
						}
					}
				}
			}
			return true
		})
		// statements that move the offset: writes of l.offset and calls of lexer methods other than peek
		moves := func(nd ast.Node) bool {
			found := false
			ast.Inspect(nd, func(m ast.Node) bool {
				switch x := m.(type) {
				case *ast.FuncLit:
					return false
				case *ast.IncDecStmt:
					if isOffset(x.X) {
						found = true
					}
				case *ast.AssignStmt:
					for _, l := range x.Lhs {
						if isOffset(l) {
							found = true
						}
					}
				case *ast.CallExpr:
					if sel, ok := x.Fun.(*ast.SelectorExpr); ok {
						if id, ok := unparen(sel.X).(*ast.Ident); ok && info.ObjectOf(id) == recv && sel.Sel.Name != "peek" {
							if _, ok := info.Uses[sel.Sel].(*types.Func); ok {
								found = true
							}
						}
					}
				}
				return true
			})
			return found
		}
		// licensing: the expression being true (pos) / false (!pos) implies that the byte at the current position exists;
		// returns the peek variable it relies on (nil for a direct l.peek() or a length test)
		type lic struct {
			ok bool
			v  types.Object
		}
		peekVal := func(e ast.Expr) (bool, types.Object) {
			if isPeekCall(e) {
				return true, nil
			}
			if id, ok := unparen(e).(*ast.Ident); ok {
				if o := info.ObjectOf(id); o != nil && len(peekAssign[o]) > 0 {
					return true, o
				}
			}
			return false, nil
		}
		var licensed func(e ast.Expr, pos bool) lic
		licensed = func(e ast.Expr, pos bool) lic {
			e = unparen(e)
			switch x := e.(type) {
			case *ast.UnaryExpr:
				if x.Op == token.NOT {
					return licensed(x.X, !pos)
				}
			case *ast.BinaryExpr:
				switch x.Op {
				case token.LAND, token.LOR:
					a, b := licensed(x.X, pos), licensed(x.Y, pos)
					if (x.Op == token.LAND) == pos { // both hold: either suffices
						if a.ok {
							return a
						}
						return b
					}
					// one of them holds: both must license (and rely on the same variable, or none)
					if a.ok && b.ok && (a.v == b.v || a.v == nil || b.v == nil) {
						if a.v != nil {
							return a
						}
						return b
					}
					return lic{}
				case token.EQL, token.NEQ, token.GEQ, token.GTR, token.LSS, token.LEQ:
					// len(l.source) == l.offset (false) / l.offset < len(l.source) (true)
					lenSide := func(e ast.Expr) bool {
						call, ok := unparen(e).(*ast.CallExpr)
						return ok && len(call.Args) == 1 && types.ExprString(call.Fun) == "len" && strings.HasSuffix(types.ExprString(call.Args[0]), ".source")
					}
					if (lenSide(x.X) && isOffset(x.Y)) || (lenSide(x.Y) && isOffset(x.X)) {
						offLeft := isOffset(x.X)
						switch {
						case x.Op == token.EQL && !pos, x.Op == token.NEQ && pos:
							return lic{ok: true}
						case offLeft && ((x.Op == token.LSS && pos) || (x.Op == token.GEQ && !pos)):
							return lic{ok: true}
						case !offLeft && ((x.Op == token.GTR && pos) || (x.Op == token.LEQ && !pos)):
							return lic{ok: true}
						}
						return lic{}
					}
					for _, pr := range [][2]ast.Expr{{x.X, x.Y}, {x.Y, x.X}} {
						isP, v := peekVal(pr[0])
						if !isP {
							continue
						}
						k, ok := constInt(info, pr[1])
						if !ok {
							continue
						}
						op := x.Op
						if pr[0] == x.Y { // constant on the left: mirror
							op = map[token.Token]token.Token{token.LSS: token.GTR, token.LEQ: token.GEQ, token.GTR: token.LSS, token.GEQ: token.LEQ, token.EQL: token.EQL, token.NEQ: token.NEQ}[op]
						}
						if !pos {
							op = map[token.Token]token.Token{token.LSS: token.GEQ, token.LEQ: token.GTR, token.GTR: token.LEQ, token.GEQ: token.LSS, token.EQL: token.NEQ, token.NEQ: token.EQL}[op]
						}
						switch {
						case op == token.EQL && k != 0, op == token.NEQ && k == 0, op == token.GTR && k >= 0, op == token.GEQ && k > 0:
							return lic{ok: true, v: v}
						}
					}
				}
			case *ast.CallExpr:
				if pos && len(x.Args) >= 1 {
					if f, ok := callee(info, x).(*types.Func); ok && classes[f] {
						if isP, v := peekVal(x.Args[0]); isP {
							return lic{ok: true, v: v}
						}
					}
				}
			}
			return lic{}
		}
		g := cfg.New(fd.Body, func(*ast.CallExpr) bool { return true })
		type loc struct {
			b *cfg.Block
			i int
		}
		locate := func(nd ast.Node) (loc, bool) {
			var best loc
			var bestLen token.Pos = -1
			for _, b := range g.Blocks {
				for i, x := range b.Nodes {
					if x.Pos() <= nd.Pos() && nd.End() <= x.End() {
						if l := x.End() - x.Pos(); bestLen < 0 || l < bestLen {
							best, bestLen = loc{b, i}, l
						}
					}
				}
			}
			return best, bestLen >= 0
		}
		// is there a path from `from` (exclusive) to `to` (exclusive of to itself) that crosses a node satisfying hit,
		// never crossing a node satisfying stop (checked before hit)
		pathCrossing := func(from, to loc, hit, stop func(ast.Node) bool) bool {
			needHit := hit != nil
			if hit == nil {
				hit = func(ast.Node) bool { return false }
			}
			type st struct {
				b   *cfg.Block
				i   int
				hit bool
			}
			seen := map[[3]int]bool{}
			var stack []st
			stack = append(stack, st{from.b, from.i + 1, false})
			for len(stack) > 0 {
				s := stack[len(stack)-1]
				stack = stack[:len(stack)-1]
				h := s.hit
				dead := false
				for i := s.i; i < len(s.b.Nodes); i++ {
					if s.b == to.b && i == to.i {
						if h || !needHit {
							return true
						}
						dead = true
						break
					}
					nd := s.b.Nodes[i]
					if stop(nd) {
						dead = true
						break
					}
					if hit(nd) {
						h = true
					}
				}
				if dead {
					continue
				}
				for _, nx := range s.b.Succs {
					k := [3]int{int(nx.Index), 0, 0}
					if h {
						k[1] = 1
					}
					if seen[k] {
						continue
					}
					seen[k] = true
					stack = append(stack, st{nx, 0, h})
				}
			}
			return false
		}
		terminates := func(b *ast.BlockStmt) bool {
			if len(b.List) == 0 {
				return false
			}
			switch b.List[len(b.List)-1].(type) {
			case *ast.ReturnStmt, *ast.BranchStmt:
				return true
			}
			return false
		}
		walkStack(fd.Body, func(m ast.Node, stack []ast.Node) bool {
			var stepBy ast.Expr
			switch x := m.(type) {
			case *ast.IncDecStmt:
				if !isOffset(x.X) || x.Tok != token.INC {
					return true
				}
			case *ast.AssignStmt:
				if x.Tok != token.ADD_ASSIGN || len(x.Lhs) != 1 || !isOffset(x.Lhs[0]) {
					return true
				}
				stepBy = x.Rhs[0]
			default:
				return true
			}
			n++
			key := fmt.Sprintf("lexadvance:%s:%s", declKey(fd), c.Src(m))
			if declKey(fd) == "lexer.next" {
				// next() reads l.source[l.offset] itself before stepping: the read is the test (callers check for end of input)
				r.OK(key, m.Pos(), "next reads the byte at the offset before stepping over it")
				return true
			}
			if stepBy != nil {
				if why, ok := lexAdvanceReviewed[declKey(fd)+":"+c.Src(m)]; ok {
					r.OK(key, m.Pos(), "enumerated — %s", why)
					return true
				}
				// size - 1 with size from utf8.DecodeRuneInString(l.source[l.offset-1:])
				good := false
				if b, ok := unparen(stepBy).(*ast.BinaryExpr); ok && b.Op == token.SUB {
					if k, ok := constInt(info, b.Y); ok && k == 1 {
						if id, ok := unparen(b.X).(*ast.Ident); ok {
							obj := info.ObjectOf(id)
							ast.Inspect(fd.Body, func(q ast.Node) bool {
								as, ok := q.(*ast.AssignStmt)
								if !ok || len(as.Lhs) != 2 || len(as.Rhs) != 1 {
									return true
								}
								if lid, ok := as.Lhs[1].(*ast.Ident); !ok || info.ObjectOf(lid) != obj {
									return true
								}
								call, ok := unparen(as.Rhs[0]).(*ast.CallExpr)
								if !ok || !strings.HasPrefix(calleeName(info, call), "utf8.DecodeRune") || len(call.Args) != 1 {
									return true
								}
								if se, ok := unparen(call.Args[0]).(*ast.SliceExpr); ok && se.High == nil && strings.HasSuffix(types.ExprString(se.X), ".source") {
									if lb, ok := unparen(se.Low).(*ast.BinaryExpr); ok && lb.Op == token.SUB && isOffset(lb.X) {
										if k, ok := constInt(info, lb.Y); ok && k == 1 {
											good = true
										}
									}
								}
								return true
							})
						}
					}
				}
				r.Check(good, key, m.Pos(), "%s advances by %s: the size utf8 decoded from the source at the byte next() consumed, minus that byte: %v (any other amount — the length of a re-encoded rune, say, which is 3 for an invalid byte — can pass the end of the source)", declKey(fd), c.Src(stepBy), good)
				return true
			}
			// the nearest licensing test on the way up
			var test ast.Expr
			var lv types.Object
			for i := len(stack) - 1; i >= 0 && test == nil; i-- {
				var child ast.Node = m
				if i+1 < len(stack) {
					child = stack[i+1]
				}
				switch a := stack[i].(type) {
				case *ast.IfStmt:
					if child == ast.Node(a.Body) {
						if l := licensed(a.Cond, true); l.ok {
							test, lv = a.Cond, l.v
						}
					} else if a.Else != nil && child == ast.Node(a.Else) {
						if l := licensed(a.Cond, false); l.ok {
							test, lv = a.Cond, l.v
						}
					}
				case *ast.ForStmt:
					if a.Cond != nil && child == ast.Node(a.Body) {
						if l := licensed(a.Cond, true); l.ok {
							test, lv = a.Cond, l.v
						}
					}
				case *ast.CaseClause:
					if i < 2 {
						break
					}
					sw, ok := stack[i-2].(*ast.SwitchStmt)
					if !ok || a.List == nil {
						break
					}
					inBody := false
					for _, st := range a.Body {
						if ast.Node(st) == child {
							inBody = true
						}
					}
					if !inBody {
						break
					}
					if sw.Tag == nil {
						all := true
						var v types.Object
						for _, e := range a.List {
							l := licensed(e, true)
							if !l.ok {
								all = false
							}
							v = l.v
						}
						if all {
							test, lv = a.List[0], v
						}
					} else if isP, v := peekVal(sw.Tag); isP {
						all := true
						for _, e := range a.List {
							if k, ok := constInt(info, e); !ok || k == 0 {
								all = false
							}
						}
						if all {
							test, lv = sw.Tag, v
						}
					}
				}
				// earlier statements of the same list that leave unless a licensing condition holds
				if test == nil {
					var list []ast.Stmt
					switch b := stack[i].(type) {
					case *ast.BlockStmt:
						list = b.List
					case *ast.CaseClause:
						list = b.Body
					}
					for _, st := range list {
						if ast.Node(st) == child {
							break
						}
						if ifs, ok := st.(*ast.IfStmt); ok && ifs.Else == nil && terminates(ifs.Body) {
							if l := licensed(ifs.Cond, false); l.ok {
								test, lv = ifs.Cond, l.v // the latest such statement wins
							}
						}
					}
				}
			}
			if test == nil {
				r.Bad(key, m.Pos(), "%s steps over a byte without a test that it exists: no enclosing condition compares l.peek() (or a variable holding it) with a non-zero constant, applies a character class that rejects 0, or tests for the end of the input — at the end of the source the offset leaves it, and the next slice of the source panics", declKey(fd))
				return true
			}
			tl, ok1 := locate(test)
			il, ok2 := locate(m)
			if !ok1 || !ok2 {
				r.Undecided(key, m.Pos(), "the test or the step was not found in the control-flow graph")
				return true
			}
			isThis := func(nd ast.Node) bool {
				return nd.Pos() <= m.Pos() && m.End() <= nd.End() && nd.End()-nd.Pos() == m.End()-m.Pos()
			}
			isTest := func(nd ast.Node) bool { return nd == tl.b.Nodes[tl.i] }
			// (1) nothing moves between the test and the step
			if pathCrossing(tl, il, func(nd ast.Node) bool { return !isThis(nd) && moves(nd) }, isTest) {
				r.Bad(key, m.Pos(), "%s: between the test `%s` and this step the offset may already have moved: the test no longer speaks about the byte stepped over", declKey(fd), c.Src(test))
				return true
			}
			// (2) a peek variable still holds the byte at the current position when it is tested
			if lv != nil {
				stale := false
				isAssign := func(nd ast.Node) bool {
					for _, a := range peekAssign[lv] {
						if nd.Pos() <= a.Pos() && a.End() <= nd.End() {
							return true
						}
					}
					return false
				}
				for _, b := range g.Blocks {
					for i, nd := range b.Nodes {
						if !moves(nd) || isAssign(nd) {
							continue
						}
						// a movement from which the test is reachable without re-reading the variable
						if pathCrossing(loc{b, i}, tl, nil, isAssign) {
							stale = true
						}
					}
				}
				if stale {
					r.Bad(key, m.Pos(), "%s: the test `%s` reads %s, which may hold the byte of an earlier position (the offset moved after %s was read)", declKey(fd), c.Src(test), lv.Name(), lv.Name())
					return true
				}
			}
			r.OK(key, m.Pos(), "licensed by `%s`", c.Src(test))
			return true
		})
	}
	if n == 0 {
		r.Undecided("lexadvance:census", token.NoPos, "no step of the lexer offset found")
	}
}

// ---------------------------------------------------------------------------------------------------------------------
// C18: module lookup candidates and raw search paths; C14: byte positions by scanning only.

func init() {
	reg(&Rule{ID: "R-C18-candidates", Props: []string{"C18"}, Floor: 2,
		Doc: "lookupModule tries, per search directory, Join(dir, name+ext) and then Join(dir, name, Base(name)+ext), in this order: the second candidate's file name is the base name of the module name, not the name itself (a nested name such as util/str would otherwise be looked for at util/str/util/str.jq)",
		Run: ruleCandidates})
	reg(&Rule{ID: "R-C18-rawpaths", Props: []string{"C18"}, Floor: 1,
		Doc: "the search paths given to the module loader are the strings the user (or the default list) supplied: nothing on the way from the option to NewModuleLoader normalises them lexically (filepath.Clean/Join/Abs collapse `$ORIGIN/../lib` to `lib` before resolvePath can expand `$ORIGIN/` and `~/`)",
		Run: ruleRawPaths})
	reg(&Rule{ID: "R-C14-bytepos", Props: []string{"C14"}, Floor: 0,
		Doc: "no string is cut at a position computed by multiplication: a code point position becomes a byte position only by scanning the string (an assumed fixed width per code point is wrong for every mixed string whose average width happens to be integral)",
		Run: ruleBytePos})
	addDecided("C18", " The two lookup candidates have the stated shape (R-C18-candidates); search paths reach the loader unnormalised (R-C18-rawpaths); alias prefixing is unconditional (R-C18-modscope).")
	addDecided("C14", " No string is cut at a multiplied position (R-C14-bytepos).")
}

func ruleCandidates(c *Ctx, r *Rep) {
	info := c.Gojq.TypesInfo
	fd := c.Decl(c.Gojq, "moduleLoader.lookupModule")
	if fd == nil || fd.Type.Params == nil || len(fd.Type.Params.List) == 0 {
		r.Undecided("candidates:anchor", token.NoPos, "moduleLoader.lookupModule not found")
		return
	}
	nameObj := info.Defs[fd.Type.Params.List[0].Names[0]]
	var joins []*ast.CallExpr
	ast.Inspect(fd.Body, func(m ast.Node) bool {
		if rs, ok := m.(*ast.RangeStmt); ok {
			ast.Inspect(rs.Body, func(q ast.Node) bool {
				if call, ok := q.(*ast.CallExpr); ok && calleeName(info, call) == "filepath.Join" {
					joins = append(joins, call)
				}
				return true
			})
			return false
		}
		return true
	})
	if len(joins) != 2 {
		r.Undecided("candidates:joins", fd.Pos(), "%d filepath.Join calls in the search loop of lookupModule, expected the two candidates", len(joins))
		return
	}
	isName := func(e ast.Expr) bool { id, ok := unparen(e).(*ast.Ident); return ok && info.ObjectOf(id) == nameObj }
	// a local assigned exactly once stands for its definition
	resolve := func(e ast.Expr) ast.Expr {
		id, ok := unparen(e).(*ast.Ident)
		if !ok {
			return e
		}
		obj := info.ObjectOf(id)
		var def ast.Expr
		cnt := 0
		ast.Inspect(fd.Body, func(q ast.Node) bool {
			if as, ok := q.(*ast.AssignStmt); ok && len(as.Lhs) == len(as.Rhs) {
				for i, l := range as.Lhs {
					if lid, ok := l.(*ast.Ident); ok && info.ObjectOf(lid) == obj {
						cnt++
						def = as.Rhs[i]
					}
				}
			}
			return true
		})
		if cnt == 1 {
			return def
		}
		return e
	}
	// name + ext
	nameExt := func(e ast.Expr) bool {
		b, ok := unparen(resolve(e)).(*ast.BinaryExpr)
		return ok && b.Op == token.ADD && isName(b.X)
	}
	baseExt := func(e ast.Expr) (bool, string) {
		b, ok := unparen(resolve(e)).(*ast.BinaryExpr)
		if !ok || b.Op != token.ADD {
			return false, ""
		}
		call, ok := unparen(b.X).(*ast.CallExpr)
		if !ok || len(call.Args) != 1 || !isName(call.Args[0]) {
			return false, ""
		}
		return true, calleeName(info, call)
	}
	first := len(joins[0].Args) == 2 && nameExt(joins[0].Args[1])
	r.Check(first, "candidates:first", joins[0].Pos(), "the first candidate is Join(dir, name+ext): %v", first)
	second := false
	fn := ""
	if len(joins[1].Args) == 3 && isName(joins[1].Args[1]) {
		second, fn = baseExt(joins[1].Args[2])
	}
	switch {
	case second && (fn == "filepath.Base" || fn == "path.Base"):
		r.OK("candidates:second", joins[1].Pos(), "the second candidate is Join(dir, name, %s(name)+ext)", fn)
	case second:
		r.Undecided("candidates:second", joins[1].Pos(), "the file name of the second candidate is %s(name)+ext: not a function this rule knows to return the base name", fn)
	default:
		r.Bad("candidates:second", joins[1].Pos(), "the second candidate is `%s`, not Join(dir, name, Base(name)+ext): for a module name with a slash (import \"util/str\") the directory form is looked for at the wrong place", c.Src(joins[1]))
	}
}

func ruleRawPaths(c *Ctx, r *Rep) {
	p := c.Cli
	info := p.TypesInfo
	n := 0
	for _, fd := range c.Decls(p) {
		ast.Inspect(fd.Body, func(m ast.Node) bool {
			call, ok := m.(*ast.CallExpr)
			if !ok || calleeName(info, call) != "gojq.NewModuleLoader" || len(call.Args) != 1 {
				return true
			}
			n++
			// backward slice of the argument within the function: every call it passes through
			seen := map[types.Object]bool{}
			var bad []string
			var slice func(e ast.Expr)
			slice = func(e ast.Expr) {
				ast.Inspect(e, func(q ast.Node) bool {
					switch x := q.(type) {
					case *ast.CallExpr:
						nm := calleeName(info, x)
						if strings.HasPrefix(nm, "filepath.") || strings.HasPrefix(nm, "path.") {
							bad = append(bad, nm)
						}
					case *ast.Ident:
						o, ok := info.Uses[x].(*types.Var)
						if !ok || o.IsField() || seen[o] {
							return true
						}
						seen[o] = true
						ast.Inspect(fd.Body, func(w ast.Node) bool {
							switch y := w.(type) {
							case *ast.AssignStmt:
								for i, lhs := range y.Lhs {
									id, ok := unparen(lhs).(*ast.Ident)
									if ix, isIx := unparen(lhs).(*ast.IndexExpr); isIx {
										id, ok = unparen(ix.X).(*ast.Ident)
									}
									if ok && info.ObjectOf(id) == o {
										slice(y.Rhs[min(i, len(y.Rhs)-1)])
									}
								}
							case *ast.RangeStmt:
								// for i, p := range paths { paths[i] = f(p) } is caught by the index assignment above
							}
							return true
						})
					}
					return true
				})
			}
			slice(call.Args[0])
			sort.Strings(bad)
			r.Check(len(bad) == 0, "rawpaths:"+declKey(fd), call.Pos(), "the search paths handed to NewModuleLoader in %s pass through no lexical path function on the way from the options: %v %v", declKey(fd), len(bad) == 0, bad)
			return true
		})
	}
	if n == 0 {
		r.Undecided("rawpaths:census", token.NoPos, "no call of gojq.NewModuleLoader in the command")
	}
}

func ruleBytePos(c *Ctx, r *Rep) {
	info := c.Gojq.TypesInfo
	n := 0
	for _, fd := range c.Decls(c.Gojq) {
		file := c.PhysFile(fd.Pos())
		if file == "parser.go" || file == "builtin.go" {
			continue
		}
		// variables assigned from a product
		prod := map[types.Object]bool{}
		hasMul := func(e ast.Expr) bool {
			f := false
			ast.Inspect(e, func(q ast.Node) bool {
				switch b := q.(type) {
				case *ast.IndexExpr, *ast.CallExpr:
					return false // the value of an element or of a call is not the product that selected it
				case *ast.BinaryExpr:
					if b.Op == token.MUL {
						if tv, ok := info.Types[b]; !ok || tv.Value == nil {
							f = true
						}
					}
				}
				return true
			})
			return f
		}
		ast.Inspect(fd.Body, func(m ast.Node) bool {
			if as, ok := m.(*ast.AssignStmt); ok && len(as.Lhs) == len(as.Rhs) {
				for i, rhs := range as.Rhs {
					if hasMul(rhs) || as.Tok == token.MUL_ASSIGN {
						if id, ok := as.Lhs[i].(*ast.Ident); ok {
							if o := info.ObjectOf(id); o != nil {
								prod[o] = true
							}
						}
					}
				}
			}
			return true
		})
		ast.Inspect(fd.Body, func(m ast.Node) bool {
			se, ok := m.(*ast.SliceExpr)
			if !ok {
				return true
			}
			if b, ok := info.TypeOf(se.X).Underlying().(*types.Basic); !ok || b.Info()&types.IsString == 0 {
				return true
			}
			for _, bnd := range []ast.Expr{se.Low, se.High} {
				if bnd == nil {
					continue
				}
				mul := hasMul(bnd)
				ast.Inspect(bnd, func(q ast.Node) bool {
					if id, ok := q.(*ast.Ident); ok && prod[info.ObjectOf(id)] {
						mul = true
					}
					return true
				})
				if mul {
					n++
					r.Bad("bytepos:"+declKey(fd)+":"+c.Src(se), se.Pos(), "%s cuts the string %s at `%s`, a position obtained by multiplication: an index counted in code points times an assumed width is a byte position only for strings of uniform width (\"a😀b\" has 6 bytes for 3 code points)", declKey(fd), c.Src(se.X), c.Src(bnd))
				}
			}
			return true
		})
	}
	if n == 0 {
		r.OK("bytepos:none", token.NoPos, "no string is cut at a multiplied position")
	}
}

// ---------------------------------------------------------------------------------------------------------------------
// R-C10-saturated: arithmetic on an integer that may be a saturated conversion of a JSON number.

func init() {
	reg(&Rule{ID: "R-C10-saturated", Props: []string{"C10", "C08", "C03"}, Floor: 2,
		Doc: "outside the arithmetic operators, an int obtained from a JSON number (toInt and its siblings saturate at MaxInt/MinInt) takes part in +, - or * only where the conditions that hold bound it on the side the operation can overflow: below a constant before something is added, above a constant (or zero) before something is subtracted, negative before a length is added",
		Run: ruleSaturated})
	addDecided("C10", " Arithmetic on saturating conversions of JSON numbers outside the operators is bounded on the overflowing side (R-C10-saturated).")
}

// satReviewed: sites whose bound comes from an argument the conditions do not spell out.
var satReviewed = map[string]struct {
	count int
	why   string
}{
	"clampIndex:i += maximum": {1, "under i < 0, and maximum is a length at every call site (len(vs), a rune count): a negative number plus a length cannot overflow"},
	"updateArrayIndex:i + 1":  {2, "the first under i < c with c = cap(v); the second where i is either j < len(v) (first arm) or was tested below 0x20000000 (last arm of the same chain)"},
}

func ruleSaturated(c *Ctx, r *Rep) {
	info := c.Gojq.TypesInfo
	guardScopes := intArithScopes(c)
	inGuardScope := func(pos token.Pos) bool {
		for _, b := range guardScopes {
			if b.Pos() <= pos && pos < b.End() {
				return true
			}
		}
		return false
	}
	n := 0
	reviewedSeen := map[string]int{}
	reviewedPos := map[string][]token.Pos{}
	// derived integers per function, propagated into the parameters of package functions they are passed to
	nativeFile := func(fd *ast.FuncDecl) bool {
		f := c.PhysFile(fd.Pos())
		return f == "func.go" || f == "operator.go"
	}
	all := map[*ast.FuncDecl]map[types.Object]ast.Node{}
	byObj := map[types.Object]*ast.FuncDecl{}
	for _, fd := range c.Decls(c.Gojq) {
		if !nativeFile(fd) {
			continue
		}
		all[fd] = jsonDerivedInts(info, fd)
		if o := info.Defs[fd.Name]; o != nil {
			byObj[o] = fd
		}
	}
	for changed := true; changed; {
		changed = false
		for fd, derived := range all {
			ast.Inspect(fd.Body, func(m ast.Node) bool {
				call, ok := m.(*ast.CallExpr)
				if !ok {
					return true
				}
				cal := callee(info, call)
				target := byObj[cal]
				if target == nil || target.Type.Params == nil {
					return true
				}
				var params []types.Object
				for _, f := range target.Type.Params.List {
					for _, nm := range f.Names {
						params = append(params, info.Defs[nm])
					}
				}
				for i, a := range call.Args {
					id, ok := unparen(a).(*ast.Ident)
					if !ok || i >= len(params) || params[i] == nil {
						continue
					}
					if _, ok := derived[info.ObjectOf(id)]; ok && isMachineInt(params[i].Type()) {
						if _, have := all[target][params[i]]; !have {
							all[target][params[i]] = call
							changed = true
						}
					}
				}
				return true
			})
		}
	}
	for _, fd := range c.Decls(c.Gojq) {
		derived := all[fd]
		if len(derived) == 0 {
			continue
		}
		// bounds the enclosing conditions give an object: upper (v < C / v <= C), lower (v > C / v >= C)
		bounds := func(obj types.Object, nd ast.Node, stack []ast.Node) (lower, upper bool) {
			isObj := func(e ast.Expr) bool { id, ok := unparen(e).(*ast.Ident); return ok && info.ObjectOf(id) == obj }
			var scan func(e ast.Expr, pos bool)
			scan = func(e ast.Expr, pos bool) {
				e = unparen(e)
				switch x := e.(type) {
				case *ast.UnaryExpr:
					if x.Op == token.NOT {
						scan(x.X, !pos)
					}
				case *ast.BinaryExpr:
					switch x.Op {
					case token.LAND:
						if pos {
							scan(x.X, true)
							scan(x.Y, true)
						}
					case token.LOR:
						if !pos {
							scan(x.X, false)
							scan(x.Y, false)
						}
					case token.LSS, token.LEQ, token.GTR, token.GEQ, token.EQL:
						op := x.Op
						a, b := x.X, x.Y
						if !isObj(a) && isObj(b) {
							a, b = b, a
							op = map[token.Token]token.Token{token.LSS: token.GTR, token.LEQ: token.GEQ, token.GTR: token.LSS, token.GEQ: token.LEQ, token.EQL: token.EQL}[op]
						}
						if !isObj(a) {
							return
						}
						if !pos {
							if op == token.EQL {
								return
							}
							op = map[token.Token]token.Token{token.LSS: token.GEQ, token.LEQ: token.GTR, token.GTR: token.LEQ, token.GEQ: token.LSS}[op]
						}
						// the other side must be bounded itself: a constant, a length, or a capacity
						okSide := false
						if _, ok := constInt(info, b); ok {
							okSide = true
						}
						if call, ok := unparen(b).(*ast.CallExpr); ok {
							if f, ok := call.Fun.(*ast.Ident); ok && (f.Name == "len" || f.Name == "cap") {
								okSide = true
							}
						}
						if !okSide {
							return
						}
						switch op {
						case token.LSS, token.LEQ:
							upper = true
						case token.GTR, token.GEQ:
							lower = true
						case token.EQL:
							lower, upper = true, true
						}
					}
				}
			}
			for i, anc := range stack {
				var child ast.Node = nd
				if i+1 < len(stack) {
					child = stack[i+1]
				}
				switch a := anc.(type) {
				case *ast.IfStmt:
					if child == ast.Node(a.Body) {
						scan(a.Cond, true)
					} else if a.Else != nil && child == ast.Node(a.Else) {
						scan(a.Cond, false)
					}
				case *ast.BinaryExpr:
					if child == ast.Node(a.Y) {
						if a.Op == token.LAND {
							scan(a.X, true)
						} else if a.Op == token.LOR {
							scan(a.X, false)
						}
					}
				}
				var list []ast.Stmt
				switch b := anc.(type) {
				case *ast.BlockStmt:
					list = b.List
				case *ast.CaseClause:
					list = b.Body
				}
				for _, st := range list {
					if ast.Node(st) == child {
						break
					}
					if ifs, ok := st.(*ast.IfStmt); ok && ifs.Else == nil && len(ifs.Body.List) > 0 {
						switch ifs.Body.List[len(ifs.Body.List)-1].(type) {
						case *ast.ReturnStmt, *ast.BranchStmt:
							scan(ifs.Cond, false)
						}
					}
				}
			}
			return
		}
		walkStack(fd.Body, func(m ast.Node, stack []ast.Node) bool {
			var x, y ast.Expr
			var op token.Token
			switch b := m.(type) {
			case *ast.BinaryExpr:
				if b.Op != token.ADD && b.Op != token.SUB && b.Op != token.MUL {
					return true
				}
				x, y, op = b.X, b.Y, b.Op
			case *ast.AssignStmt:
				if len(b.Lhs) != 1 || len(b.Rhs) != 1 {
					return true
				}
				switch b.Tok {
				case token.ADD_ASSIGN:
					op = token.ADD
				case token.SUB_ASSIGN:
					op = token.SUB
				case token.MUL_ASSIGN:
					op = token.MUL
				default:
					return true
				}
				x, y = b.Lhs[0], b.Rhs[0]
			case *ast.IncDecStmt:
				x = b.X
				op = token.ADD
				if b.Tok == token.DEC {
					op = token.SUB
				}
			default:
				return true
			}
			if inGuardScope(m.Pos()) {
				return true
			}
			if t := info.TypeOf(x); t == nil || !isMachineInt(t) {
				return true
			}
			for side, e := range []ast.Expr{x, y} {
				if e == nil {
					continue
				}
				id, ok := unparen(e).(*ast.Ident)
				if !ok {
					continue
				}
				obj := info.ObjectOf(id)
				if _, ok := derived[obj]; !ok {
					continue
				}
				n++
				key := fmt.Sprintf("saturated:%s:%s", declKey(fd), c.Src(m))
				lower, upper := bounds(obj, m, stack)
				other := y
				if side == 1 {
					other = x
				}
				nonNeg := func(e ast.Expr) bool { // the other operand cannot be negative
					if e == nil {
						return true // ++ / --
					}
					if k, ok := constInt(info, e); ok {
						return k >= 0
					}
					if call, ok := unparen(e).(*ast.CallExpr); ok {
						if f, ok := call.Fun.(*ast.Ident); ok && (f.Name == "len" || f.Name == "cap") {
							return true
						}
					}
					return false
				}
				good := false
				why := ""
				switch {
				case lower && upper:
					good, why = true, "bounded on both sides"
				case op == token.ADD && nonNeg(other) && upper:
					good, why = true, "bounded above before a non-negative amount is added"
				case op == token.SUB && side == 0 && nonNeg(other) && lower:
					good, why = true, "bounded below before a non-negative amount is subtracted"
				}
				if !good {
					rk := declKey(fd) + ":" + c.Src(m)
					if _, ok := satReviewed[rk]; ok {
						reviewedSeen[rk]++
						reviewedPos[rk] = append(reviewedPos[rk], m.Pos())
						return true // decided per key after the walk
					}
				}
				if good {
					r.OK(key, m.Pos(), "%s: %s is %s", c.Src(m), id.Name, why)
				} else {
					r.Bad(key, m.Pos(), "%s in %s computes with %s, which holds a JSON number converted with saturation (1e300 and 9223372036854775807 both become MaxInt): the conditions that hold here do not bound it on the side this operation overflows (lower bound: %v, upper bound: %v) — `i + 1` wraps to MinInt and slips under a size test", c.Src(m), declKey(fd), id.Name, lower, upper)
				}
			}
			return true
		})
	}
	for rk, w := range satReviewed {
		ps := reviewedPos[rk]
		if len(ps) == 0 {
			continue
		}
		var at []string
		for _, p := range ps {
			at = append(at, c.Pos(p))
		}
		if len(ps) <= w.count {
			r.OK("saturated:"+rk, ps[0], "enumerated (%d sites: %s) — %s", len(ps), strings.Join(at, ", "), w.why)
		} else {
			r.Bad("saturated:"+rk, ps[0], "%d occurrences of this computation on a saturated JSON number are not bounded by the conditions around them (%s); %d are enumerated (%s): one of them is new and unguarded — `i + 1` on MaxInt wraps to MinInt and slips under a size test", len(ps), strings.Join(at, ", "), w.count, w.why)
		}
	}
	if n == 0 {
		r.Undecided("saturated:census", token.NoPos, "no arithmetic on a JSON-derived integer found outside the operators")
	}
}

// ---------------------------------------------------------------------------------------------------------------------
// R-C08-importbound: recursion driven by module files is bounded.

func init() {
	reg(&Rule{ID: "R-C08-importbound", Props: []string{"C08", "C18"}, Floor: 1,
		Doc: "every cycle of compiler methods that loads a module through the module loader contains a depth test: a counter field incremented on the way in and compared with a constant, with an error return — a module that imports itself (or two that import each other) otherwise recurses until the Go runtime kills the process with a stack overflow no recover can catch",
		Run: ruleImportBound})
	addDecided("C08", " The recursion through module files is bounded by a depth test (R-C08-importbound; D37).")
}

func ruleImportBound(c *Ctx, r *Rep) {
	info := c.Gojq.TypesInfo
	decls := map[types.Object]*ast.FuncDecl{}
	for _, fd := range c.Decls(c.Gojq) {
		if o := info.Defs[fd.Name]; o != nil {
			decls[o] = fd
		}
	}
	edges := map[*ast.FuncDecl][]*ast.FuncDecl{}
	loads := map[*ast.FuncDecl]bool{}
	for _, fd := range decls {
		ast.Inspect(fd.Body, func(m ast.Node) bool {
			call, ok := m.(*ast.CallExpr)
			if !ok {
				return true
			}
			if sel, ok := call.Fun.(*ast.SelectorExpr); ok && strings.HasPrefix(sel.Sel.Name, "LoadModule") {
				loads[fd] = true
			}
			if o := callee(info, call); o != nil {
				if t := decls[o]; t != nil {
					edges[fd] = append(edges[fd], t)
				}
			}
			return true
		})
	}
	// functions on a cycle through a loading function
	reach := func(from *ast.FuncDecl) map[*ast.FuncDecl]bool {
		seen := map[*ast.FuncDecl]bool{}
		var st []*ast.FuncDecl
		st = append(st, edges[from]...)
		for len(st) > 0 {
			f := st[len(st)-1]
			st = st[:len(st)-1]
			if seen[f] {
				continue
			}
			seen[f] = true
			st = append(st, edges[f]...)
		}
		return seen
	}
	n := 0
	for fd := range loads {
		rs := reach(fd)
		if !rs[fd] {
			continue // loads a module but is not recursive
		}
		n++
		// the cycle: functions reachable from fd that reach fd
		var cyc []*ast.FuncDecl
		for f := range rs {
			if reach(f)[fd] {
				cyc = append(cyc, f)
			}
		}
		guarded := ""
		for _, f := range cyc {
			ast.Inspect(f.Body, func(m ast.Node) bool {
				ifs, ok := m.(*ast.IfStmt)
				if !ok {
					return true
				}
				// if x.f++; x.f > K { return err }   or   x.f++ … if x.f > K { return err }
				cmpField := ""
				ast.Inspect(ifs.Cond, func(q ast.Node) bool {
					b, ok := q.(*ast.BinaryExpr)
					if !ok || (b.Op != token.GTR && b.Op != token.GEQ) {
						return true
					}
					if _, ok := constInt(info, b.Y); !ok {
						return true
					}
					if sel, ok := unparen(b.X).(*ast.SelectorExpr); ok {
						cmpField = types.ExprString(sel)
					}
					return true
				})
				if cmpField == "" {
					return true
				}
				returnsErr := false
				for _, st := range ifs.Body.List {
					if rs, ok := st.(*ast.ReturnStmt); ok && len(rs.Results) > 0 {
						if id, ok := unparen(rs.Results[len(rs.Results)-1]).(*ast.Ident); !ok || id.Name != "nil" {
							returnsErr = true
						}
					}
				}
				incremented := false
				ast.Inspect(f.Body, func(q ast.Node) bool {
					if inc, ok := q.(*ast.IncDecStmt); ok && inc.Tok == token.INC && types.ExprString(unparen(inc.X)) == cmpField && inc.Pos() <= ifs.Cond.Pos() {
						incremented = true
					}
					return true
				})
				if returnsErr && incremented {
					// the test must lie on every cycle: without f, fd no longer reaches itself
					seen := map[*ast.FuncDecl]bool{f: true}
					st := append([]*ast.FuncDecl(nil), edges[fd]...)
					again := false
					for len(st) > 0 {
						x := st[len(st)-1]
						st = st[:len(st)-1]
						if x == fd && f != fd {
							again = true
							break
						}
						if seen[x] {
							continue
						}
						seen[x] = true
						st = append(st, edges[x]...)
					}
					if !again {
						guarded = declKey(f) + ": " + c.Src(ifs.Cond)
					}
				}
				return true
			})
		}
		var names []string
		for _, f := range cyc {
			names = append(names, declKey(f))
		}
		sort.Strings(names)
		if len(names) > 6 {
			names = append(names[:6], fmt.Sprintf("… %d more", len(names)-6))
		}
		r.Check(guarded != "", "importbound:"+declKey(fd), fd.Pos(), "the recursion %v, which loads module files, is bounded by a depth test that lies on every cycle (%s): %v — without one, `import \"a\" as a;` inside a.jq overflows the stack: a fatal error, not an error value", names, guarded, guarded != "")
	}
	if n == 0 {
		r.Undecided("importbound:census", token.NoPos, "no recursive compiler method loads modules (compileImport → compileModule → compileImport was expected)")
	}
}

// ---------------------------------------------------------------------------------------------------------------------
// R-C12-yamlbig: every number representation reaches the YAML encoder in a form it writes as a number.

func init() {
	reg(&Rule{ID: "R-C11-yamlkeys", Props: []string{"C11", "C12"}, Floor: 1,
		Doc: "objects reach the YAML encoder as mapping nodes whose keys the command has sorted byte-wise, never as Go maps, whose keys the encoder would put in its own natural (number-aware) order: object key order on YAML output agrees with keys",
		Run: ruleYAMLKeys})
	addDecided("C11", " Object keys reach the YAML encoder already in code point order (R-C11-yamlkeys; D42).")
	reg(&Rule{ID: "R-C12-yamlbig", Props: []string{"C12", "C10"}, Floor: 1,
		Doc: "the value handed to the YAML encoder contains no *big.Int unless the encoder (the dependency's source is inspected) has a case for it: the encoder writes json.Number as a plain scalar but any other encoding.TextMarshaler as a string, which it quotes when the text looks like a number — so an integer beyond int64 reads back as a string",
		Run: ruleYAMLBig})
	addDecided("C12", " *big.Int never reaches the YAML encoder, which would write it as a quoted string (R-C12-yamlbig; D38).")
}

// yamlKeyFacts: per function that calls the YAML encoder: (the value is converted by a function with a map arm, that arm
// sorts the keys byte-wise). Filled by ruleYAMLBig's walk, read by ruleYAMLKeys.
var yamlKeyFacts = map[string][2]bool{}

func ruleYAMLKeys(c *Ctx, r *Rep) {
	sub := &Rep{c: c, rule: r.rule}
	yamlKeyFacts = map[string][2]bool{}
	ruleYAMLBig(c, sub)
	if len(yamlKeyFacts) == 0 {
		r.Undecided("yamlkeys:census", token.NoPos, "no call of the YAML encoder's Encode in the command")
		return
	}
	for fn, f := range yamlKeyFacts {
		ok := f[0] && f[1]
		r.Check(ok, "yamlkeys:"+fn, token.NoPos, "%s hands the YAML encoder mapping nodes whose keys it has put in byte-wise (code point) order itself, not Go maps: %v — the encoder sorts the keys of a map in a natural, number-aware order: `{\"a10\":1,\"a2\":2,\"10\":1,\"9\":2}` is written \"9\", \"10\", a2, a10 while keys, JSON output and iteration give 10, 9, a10, a2", fn, ok)
	}
}

func ruleYAMLBig(c *Ctx, r *Rep) {
	p := c.Cli
	info := p.TypesInfo
	// premise, from the dependency: does its marshal dispatch treat *big.Int itself?
	depHandles, depSeen := false, false
	packages.Visit(c.All, nil, func(dp *packages.Package) {
		if !strings.HasSuffix(dp.PkgPath, "/go-yaml") && !strings.HasSuffix(dp.PkgPath, "/yaml") && !strings.Contains(dp.PkgPath, "yaml.v") {
			return
		}
		for _, f := range dp.Syntax {
			ast.Inspect(f, func(m ast.Node) bool {
				ts, ok := m.(*ast.TypeSwitchStmt)
				if !ok {
					return true
				}
				hasNumber, hasBig := false, false
				for _, s := range ts.Body.List {
					for _, e := range s.(*ast.CaseClause).List {
						switch types.ExprString(e) {
						case "json.Number":
							hasNumber = true
						case "*big.Int", "big.Int":
							hasBig = true
						}
					}
				}
				if hasNumber && strings.HasSuffix(c.All[0].Fset.Position(ts.Pos()).Filename, "encode.go") {
					depSeen = true
					depHandles = depHandles || hasBig
				}
				return true
			})
		}
	})
	if !depSeen {
		r.Undecided("yamlbig:dependency", token.NoPos, "the type switch of the YAML encoder that treats json.Number was not found in the dependency's encode.go")
		return
	}
	n := 0
	for _, fd := range c.Decls(p) {
		ast.Inspect(fd.Body, func(m ast.Node) bool {
			call, ok := m.(*ast.CallExpr)
			if !ok || len(call.Args) != 1 {
				return true
			}
			nm := calleeName(info, call)
			if !strings.HasSuffix(nm, "Encoder.Encode") || !strings.Contains(strings.ToLower(nm), "yaml") {
				return true
			}
			n++
			key := "yamlbig:" + declKey(fd)
			if depHandles {
				r.OK(key, call.Pos(), "the YAML encoder has a case for *big.Int itself")
				return true
			}
			// the argument is the result of a package function that turns *big.Int into json.Number
			conv := false
			arg := unparen(call.Args[0])
			if id, ok := arg.(*ast.Ident); ok { // n, err := f(v); enc.Encode(n)
				obj := info.ObjectOf(id)
				ast.Inspect(fd.Body, func(q ast.Node) bool {
					if as, ok := q.(*ast.AssignStmt); ok && len(as.Rhs) == 1 && len(as.Lhs) >= 1 {
						if lid, ok := as.Lhs[0].(*ast.Ident); ok && info.ObjectOf(lid) == obj {
							arg = unparen(as.Rhs[0])
						}
					}
					return true
				})
			}
			sortedKeys, mapSeen := false, false
			if inner, ok := arg.(*ast.CallExpr); ok {
				if f, ok := callee(info, inner).(*types.Func); ok && f.Pkg() == p.Types {
					if d := c.Decl(p, f.Name()); d != nil {
						ast.Inspect(d.Body, func(q ast.Node) bool {
							cc, ok := q.(*ast.CaseClause)
							if !ok {
								return true
							}
							isMap := false
							for _, e := range cc.List {
								if types.ExprString(e) == "map[string]any" {
									isMap = true
								}
							}
							if !isMap {
								return true
							}
							mapSeen = true
							for _, st := range cc.Body {
								ast.Inspect(st, func(w ast.Node) bool {
									if cv, ok := w.(*ast.CallExpr); ok {
										switch calleeName(info, cv) {
										case "sort.Strings", "slices.Sort", "slices.Sorted":
											sortedKeys = true
										}
									}
									return true
								})
							}
							return true
						})
					}
				}
			}
			yamlKeyFacts[declKey(fd)] = [2]bool{mapSeen, sortedKeys}
			if inner, ok := arg.(*ast.CallExpr); ok {
				if f, ok := callee(info, inner).(*types.Func); ok && f.Pkg() == p.Types {
					if d := c.Decl(p, f.Name()); d != nil {
						ast.Inspect(d.Body, func(q ast.Node) bool {
							cc, ok := q.(*ast.CaseClause)
							if !ok {
								return true
							}
							isBig := false
							for _, e := range cc.List {
								if types.ExprString(e) == "*big.Int" {
									isBig = true
								}
							}
							if !isBig {
								return true
							}
							for _, st := range cc.Body {
								ast.Inspect(st, func(w ast.Node) bool {
									if cv, ok := w.(*ast.CallExpr); ok && types.ExprString(cv.Fun) == "json.Number" {
										conv = true
									}
									return true
								})
							}
							return true
						})
					}
				}
			}
			r.Check(conv, key, call.Pos(), "%s hands the YAML encoder a value in which *big.Int has been replaced by json.Number: %v — the encoder writes every other TextMarshaler as a string, quoted when it looks like a number: `gojq -n --yaml-output '100000000000000000000'` prints \"100000000000000000000\", which --yaml-input reads back as a string", declKey(fd), conv)
			return true
		})
	}
	if n == 0 {
		r.Undecided("yamlbig:census", token.NoPos, "no call of the YAML encoder's Encode in the command")
	}
}

// ---------------------------------------------------------------------------------------------------------------------
// R-C02-getpathkinds: getpath follows every step that navigation can take.

func init() {
	reg(&Rule{ID: "R-C02-getpathkinds", Props: []string{"C02", "C03"}, Floor: 1,
		Doc: "the kinds of value funcGetpath lets funcIndex2 navigate include every kind for which funcIndex2 (and the slice it delegates to) yields a value: a path that path(f) emits after navigating a string (`\"abc\" | path(.[1:])`) must be one getpath can follow",
		Run: ruleGetpathKinds})
	addDecided("C02", " getpath admits every kind of value that navigation admits (R-C02-getpathkinds; D41).")
}

func ruleGetpathKinds(c *Ctx, r *Rep) {
	info := c.Gojq.TypesInfo
	caseKinds := func(fd *ast.FuncDecl, param int, onlyValueArms bool) (map[string]bool, bool) {
		out := map[string]bool{}
		if fd == nil || fd.Type.Params == nil {
			return nil, false
		}
		var params []types.Object
		for _, f := range fd.Type.Params.List {
			for _, nm := range f.Names {
				params = append(params, info.Defs[nm])
			}
		}
		if param >= len(params) {
			return nil, false
		}
		found := false
		ast.Inspect(fd.Body, func(m ast.Node) bool {
			ts, ok := m.(*ast.TypeSwitchStmt)
			if !ok {
				return true
			}
			var x ast.Expr
			switch a := ts.Assign.(type) {
			case *ast.AssignStmt:
				x = a.Rhs[0].(*ast.TypeAssertExpr).X
			case *ast.ExprStmt:
				x = a.X.(*ast.TypeAssertExpr).X
			}
			id, ok := unparen(x).(*ast.Ident)
			if !ok || info.ObjectOf(id) != params[param] {
				return true
			}
			found = true
			for _, s := range ts.Body.List {
				cc := s.(*ast.CaseClause)
				if cc.List == nil {
					continue
				}
				if onlyValueArms {
					// an arm whose only statement returns an error literal yields no value
					if len(cc.Body) == 1 {
						if rs, ok := cc.Body[0].(*ast.ReturnStmt); ok && len(rs.Results) == 1 {
							if u, ok := unparen(rs.Results[0]).(*ast.UnaryExpr); ok && u.Op == token.AND {
								if cl, ok := u.X.(*ast.CompositeLit); ok && strings.HasSuffix(types.ExprString(cl.Type), "Error") {
									continue
								}
							}
						}
					}
				}
				for _, e := range cc.List {
					out[types.ExprString(e)] = true
				}
			}
			return true
		})
		return out, found
	}
	nav, ok1 := caseKinds(c.Decl(c.Gojq, "funcIndex2"), 1, true)
	sl, ok2 := caseKinds(c.Decl(c.Gojq, "funcSlice"), 1, true)
	get, ok3 := caseKinds(c.Decl(c.Gojq, "funcGetpath"), 0, false)
	if !ok1 || !ok3 {
		r.Undecided("getpathkinds:anchor", token.NoPos, "the type switches of funcIndex2 (over the navigated value) or funcGetpath were not found")
		return
	}
	if ok2 {
		for k := range sl {
			nav[k] = true
		}
	}
	var missing []string
	for k := range nav {
		if !get[k] {
			missing = append(missing, k)
		}
	}
	sort.Strings(missing)
	r.Check(len(missing) == 0, "getpathkinds", c.Decl(c.Gojq, "funcGetpath").Pos(), "funcGetpath lets funcIndex2 navigate %v; navigation itself yields values from %v: %v %v — `\"abc\" | path(.[1:])` emits a path that `\"abc\" | getpath(…)` refuses, so `(.[1:]) |= f` on a string fails inside the update instead of at the navigation", keysOf(get), keysOf(nav), len(missing) == 0, missing)
}

// ---------------------------------------------------------------------------------------------------------------------
// R-C09-discriminator: the printer tells alternatives apart by a field that cannot be empty in the alternative it marks.

func init() {
	reg(&Rule{ID: "R-C09-discriminator", Props: []string{"C09"}, Floor: 6,
		Doc: "where a writeTo method chooses between alternatives of a node by comparing a string field with \"\", every grammar action that sets the field feeds it from a token that is never empty (an identifier, a variable, a keyword, a number, a format) — not from a string literal, which may be \"\": `import \"\" as a;` otherwise prints as `include \"\";`",
		Run: ruleDiscriminator})
	addDecided("C09", " Emptiness tests that select a printing alternative are on fields fed from never-empty tokens (R-C09-discriminator; D40).")
}

func ruleDiscriminator(c *Ctx, r *Rep) { discriminatorScan(c, r, true) }

// discriminatorScan: printer=true looks at the writeTo methods of query.go (R-C09-discriminator); printer=false at every
// other function of the package that tells alternatives of a node apart (R-C18-discriminator).
func discriminatorScan(c *Ctx, r *Rep, printer bool) {
	y := getYacc(c)
	if y.Err != "" {
		r.Undecided("discriminator:grammar", token.NoPos, "%s", y.Err)
		return
	}
	info := c.Gojq.TypesInfo
	// terminals a symbol can stand for through unit productions
	var terminals func(sym string, seen map[string]bool) (map[string]bool, bool)
	rulesOf := map[string][]*YRule{}
	for _, yr := range y.Rules {
		rulesOf[yr.LHS] = append(rulesOf[yr.LHS], yr)
	}
	terminals = func(sym string, seen map[string]bool) (map[string]bool, bool) {
		out := map[string]bool{}
		if len(rulesOf[sym]) == 0 {
			out[sym] = true
			return out, true
		}
		if seen[sym] {
			return out, true
		}
		seen[sym] = true
		for _, yr := range rulesOf[sym] {
			if len(yr.RHS) != 1 || (strings.TrimSpace(yr.Action) != "" && !strings.Contains(yr.Action, "$$ = $1")) {
				return nil, false
			}
			ts, ok := terminals(yr.RHS[0], seen)
			if !ok {
				return nil, false
			}
			for t := range ts {
				out[t] = true
			}
		}
		return out, true
	}
	// (type, field) -> feeding symbols
	type tf struct{ t, f string }
	feeds := map[tf][]string{}
	reLit := regexp.MustCompile(`&(\w+)\{([^{}]*)\}`)
	reKV := regexp.MustCompile(`(\w+):\s*\$(\d+)`)
	for _, yr := range y.Rules {
		for _, m := range reLit.FindAllStringSubmatch(yr.Action, -1) {
			for _, kv := range reKV.FindAllStringSubmatch(m[2], -1) {
				k, _ := strconv.Atoi(kv[2])
				if k >= 1 && k <= len(yr.RHS) {
					feeds[tf{m[1], kv[1]}] = append(feeds[tf{m[1], kv[1]}], yr.RHS[k-1])
				}
			}
		}
	}
	mayBeEmpty := map[string]bool{"tokString": true}
	n := 0
	for _, fd := range c.Decls(c.Gojq) {
		isPrinter := c.PhysFile(fd.Pos()) == "query.go" && fd.Name.Name == "writeTo"
		if isPrinter != printer || c.PhysFile(fd.Pos()) == "parser.go" {
			continue
		}
		tn := recvTypeName(fd)
		if !printer {
			tn = declKey(fd)
		}
		ast.Inspect(fd.Body, func(m ast.Node) bool {
			ifs, ok := m.(*ast.IfStmt)
			if !ok {
				return true
			}
			ast.Inspect(ifs.Cond, func(q ast.Node) bool {
				b, ok := q.(*ast.BinaryExpr)
				if !ok || (b.Op != token.EQL && b.Op != token.NEQ) {
					return true
				}
				if s, ok := constString(info, b.Y); !ok || s != "" {
					return true
				}
				sel, ok := unparen(b.X).(*ast.SelectorExpr)
				if !ok {
					return true
				}
				// the node type that owns the field
				owner := tn
				if s := info.Selections[sel]; s != nil {
					if nt := namedOf(s.Recv()); nt != nil {
						owner = nt.Obj().Name()
					}
				}
				syms := feeds[tf{owner, sel.Sel.Name}]
				if len(syms) == 0 {
					return true // not set from a grammar symbol directly (a field filled by the lexer's token of another rule shape)
				}
				n++
				key := fmt.Sprintf("discriminator:%s.%s", owner, sel.Sel.Name)
				if !printer {
					key = fmt.Sprintf("discriminator:%s:%s.%s", declKey(fd), owner, sel.Sel.Name)
				}
				var bad, und []string
				for _, sy := range syms {
					ts, ok := terminals(sy, map[string]bool{})
					if !ok {
						und = append(und, sy)
						continue
					}
					for t := range ts {
						if mayBeEmpty[t] {
							bad = append(bad, sy)
						}
					}
				}
				switch {
				case len(bad) > 0:
					if printer {
						r.Bad(key, b.Pos(), "%s.writeTo tells alternatives apart by `%s`, but the grammar feeds %s.%s from %v, a string literal, which may be empty: the alternative is then printed as the other one (`import \"\" as a;` prints as `include \"\";` and re-parses to a different node)", tn, c.Src(b), owner, sel.Sel.Name, bad)
					} else {
						r.Bad(key, b.Pos(), "%s tells alternatives apart by `%s`, but the grammar feeds %s.%s from %v, a string literal, which may be empty: `import \"\" as a;` is then compiled as `include \"\";` — the alias is dropped and the module's names arrive unprefixed", tn, c.Src(b), owner, sel.Sel.Name, bad)
					}
				case len(und) > 0:
					r.Undecided(key, b.Pos(), "%s.%s is fed from %v, which this rule cannot reduce to terminals", owner, sel.Sel.Name, und)
				default:
					r.OK(key, b.Pos(), "%s.%s is fed from %v: never empty", owner, sel.Sel.Name, syms)
				}
				return true
			})
			return true
		})
	}
	if n == 0 && !printer {
		r.OK("discriminator:none", token.NoPos, "no function outside the printer tests a grammar-fed string field for emptiness")
		return
	}
	if n == 0 {
		r.Undecided("discriminator:census", token.NoPos, "no emptiness test on a grammar-fed field in the printer")
	}
}

// ---------------------------------------------------------------------------------------------------------------------
// C20: caches and capture buffers that live as long as a run are bounded.

func init() {
	reg(&Rule{ID: "R-C20-cachebound", Props: []string{"C20", "C06"}, Floor: 1,
		Doc: "a native that stores into a cache which lives as long as the compiled query (a sync.Map) does so under a size test against a constant, or evicts (Clear/Delete) in the same function: the key can be computed from the input, so `range(infinite) | tostring | test(.)` would otherwise retain one compiled regexp per output",
		Run: ruleCacheBound})
	reg(&Rule{ID: "R-C20-capturetrim", Props: []string{"C20"}, Floor: 2,
		Doc: "an input iterator that reads through the capturing reader (the copy of a non-seekable input kept for error excerpts) gives the captured bytes back as it goes: its Next, or what Next calls, trims the capture buffer — otherwise `inputs` over a pipe retains the whole input",
		Run: ruleCaptureTrim})
	addDecided("C20", " The per-query regexp cache stores under a size test (R-C20-cachebound; D43); input iterators over the capturing reader trim the capture (R-C20-capturetrim; YAML input from a pipe did not, D44, repaired).")
}

func ruleCacheBound(c *Ctx, r *Rep) {
	info := c.Gojq.TypesInfo
	n := 0
	for _, fd := range c.Decls(c.Gojq) {
		walkStack(fd.Body, func(m ast.Node, stack []ast.Node) bool {
			call, ok := m.(*ast.CallExpr)
			if !ok || calleeName(info, call) != "sync.Map.Store" {
				return true
			}
			n++
			key := "cachebound:" + declKey(fd)
			bounded := ""
			for _, anc := range stack {
				ifs, ok := anc.(*ast.IfStmt)
				if !ok || !(call.Pos() >= ifs.Body.Pos() && call.End() <= ifs.Body.End()) {
					continue
				}
				ast.Inspect(ifs.Cond, func(q ast.Node) bool {
					b, ok := q.(*ast.BinaryExpr)
					if !ok {
						return true
					}
					switch b.Op {
					case token.LSS, token.LEQ, token.GTR, token.GEQ:
						_, okx := constInt(info, b.X)
						_, oky := constInt(info, b.Y)
						if okx != oky {
							bounded = c.Src(ifs.Cond)
						}
					}
					return true
				})
			}
			evicts := false
			ast.Inspect(fd.Body, func(q ast.Node) bool {
				if cl, ok := q.(*ast.CallExpr); ok {
					switch calleeName(info, cl) {
					case "sync.Map.Clear", "sync.Map.Delete", "sync.Map.LoadAndDelete", "sync.Map.CompareAndDelete":
						evicts = true
					}
				}
				return true
			})
			switch {
			case bounded != "":
				r.OK(key, call.Pos(), "%s stores into the cache only under `%s`", declKey(fd), bounded)
			case evicts:
				r.OK(key, call.Pos(), "%s evicts from the cache it stores into", declKey(fd))
			default:
				r.Bad(key, call.Pos(), "%s stores into a cache that lives as long as the compiled query, without a size test and without eviction: a key computed from the input (`range(infinite) | tostring | test(.)`) makes the retained state grow with the number of outputs consumed — 49,549 live heap objects after 5,000 outputs, 376,070 after 40,000", declKey(fd))
			}
			return true
		})
	}
	if n == 0 {
		r.Undecided("cachebound:census", token.NoPos, "no store into a sync.Map in package gojq (compileRegexp has one)")
	}
}

func ruleCaptureTrim(c *Ctx, r *Rep) {
	p := c.Cli
	info := p.TypesInfo
	// the capture buffer: a *bytes.Buffer field of the reader type that wraps the input
	isCaptureBuf := func(e ast.Expr) bool {
		sel, ok := unparen(e).(*ast.SelectorExpr)
		if !ok {
			return false
		}
		f, ok := info.Uses[sel.Sel].(*types.Var)
		if !ok || !f.IsField() {
			return false
		}
		pt, ok := f.Type().(*types.Pointer)
		return ok && isNamed(pt.Elem(), "bytes", "Buffer")
	}
	trims := map[*ast.FuncDecl]bool{}
	bufVar := map[types.Object]bool{}
	for _, fd := range c.Decls(p) {
		// locals bound to the capture buffer: if buf := i.ir.buf; …
		ast.Inspect(fd.Body, func(m ast.Node) bool {
			if as, ok := m.(*ast.AssignStmt); ok && len(as.Lhs) == len(as.Rhs) {
				for i, rhs := range as.Rhs {
					if isCaptureBuf(rhs) {
						if id, ok := as.Lhs[i].(*ast.Ident); ok {
							bufVar[info.ObjectOf(id)] = true
						}
					}
				}
			}
			return true
		})
		ast.Inspect(fd.Body, func(m ast.Node) bool {
			call, ok := m.(*ast.CallExpr)
			if !ok {
				return true
			}
			switch calleeName(info, call) {
			case "bytes.Buffer.Next", "bytes.Buffer.Reset", "bytes.Buffer.Truncate":
				if sel, ok := call.Fun.(*ast.SelectorExpr); ok {
					if isCaptureBuf(sel.X) {
						trims[fd] = true
					}
					if id, ok := unparen(sel.X).(*ast.Ident); ok && bufVar[info.ObjectOf(id)] {
						trims[fd] = true
					}
				}
			}
			return true
		})
	}
	// iterator types holding the capturing reader
	n := 0
	for _, fd := range c.Decls(p) {
		if fd.Name.Name != "Next" || fd.Recv == nil {
			continue
		}
		tn := recvTypeName(fd)
		obj := p.Types.Scope().Lookup(tn)
		if obj == nil {
			continue
		}
		st, ok := obj.Type().Underlying().(*types.Struct)
		if !ok {
			continue
		}
		holds := false
		for i := 0; i < st.NumFields(); i++ {
			if pt, ok := st.Field(i).Type().(*types.Pointer); ok {
				if nt := namedOf(pt.Elem()); nt != nil {
					if s2, ok := nt.Underlying().(*types.Struct); ok {
						for j := 0; j < s2.NumFields(); j++ {
							if bp, ok := s2.Field(j).Type().(*types.Pointer); ok && isNamed(bp.Elem(), "bytes", "Buffer") {
								holds = true
							}
						}
					}
				}
			}
		}
		if !holds {
			continue
		}
		n++
		// Next or a function of the package it calls trims
		ok2 := trims[fd]
		ast.Inspect(fd.Body, func(m ast.Node) bool {
			if call, ok := m.(*ast.CallExpr); ok {
				if f, ok := callee(info, call).(*types.Func); ok && f.Pkg() == p.Types {
					for d, t := range trims {
						if t && info.Defs[d.Name] == f {
							// a helper that trims only on the error path (getContents re-reads) does not count: it must be the
							// window reset, i.e. called on the success path — decided by name-independent shape: the helper itself
							// is not the excerpt builder (returns no string)
							if d.Type.Results == nil || len(d.Type.Results.List) == 0 {
								ok2 = true
							}
						}
					}
				}
			}
			return true
		})
		r.Check(ok2, "capturetrim:"+tn, fd.Pos(), "%s.Next gives captured bytes of a non-seekable input back as it goes (trims the capture buffer): %v — otherwise the whole input read so far is retained for the error excerpt, and `inputs` over a pipe grows with the number of values", tn, ok2)
	}
	if n == 0 {
		r.Undecided("capturetrim:census", token.NoPos, "no input iterator holds the capturing reader")
	}
}

// ---------------------------------------------------------------------------------------------------------------------
// R-C01-binddepth: a construct that names something for its body opens a scope depth for the name.

func init() {
	reg(&Rule{ID: "R-C01-binddepth", Props: []string{"C01"}, Floor: 3,
		Doc: "a lowering function that introduces a named variable with pushVariable — which hands out the slot of an existing variable of the same name at the same scope depth — and then compiles a body in which the name is visible has opened a scope depth (newScopeDepth) or a function scope (newScope) first, unless it is the root of a compilation: otherwise a nested binding of the same name takes over the slot that closures compiled against the outer binding read (`label $a | def f: break $a; … | label $a | f`)",
		Run: ruleBindDepth})
	addDecided("C01", " A named binding for a body is made at a scope depth of its own (R-C01-binddepth; D45).")
}

// bindDepthReviewed: a reuse of the slot that is harmless by the order of stores and reads.
var bindDepthReviewed = map[string]string{
	"compiler.compileQueryUpdate": "`l op= r` stores r's value in $%0 immediately before the _modify call that is its only reader; a nested op= inside r has finished reading its own $%0 before the outer store (its _modify is not a generator), and one inside l is compiled in a function scope of its own; `.a += ((.b += (1,2)) | .b)` and five other nestings agree with jq",
}

func ruleBindDepth(c *Ctx, r *Rep) {
	info := c.Gojq.TypesInfo
	n := 0
	for _, fd := range c.Decls(c.Gojq) {
		if recvTypeName(fd) != "compiler" || fd.Name.Name == "compilePattern" || fd.Name.Name == "initPatternVariables" {
			continue // the pattern helpers bind for their callers, which are held to the rule below
		}
		var pushes []*ast.CallExpr
		var opens []token.Pos
		var bodies []token.Pos
		ast.Inspect(fd.Body, func(m ast.Node) bool {
			call, ok := m.(*ast.CallExpr)
			if !ok {
				return true
			}
			switch calleeName(info, call) {
			case "gojq.compiler.pushVariable":
				pushes = append(pushes, call)
			case "gojq.compiler.newScopeDepth", "gojq.compiler.newScope":
				opens = append(opens, call.Pos())
			case "gojq.compiler.compileQuery", "gojq.compiler.compile":
				bodies = append(bodies, call.Pos())
			}
			return true
		})
		for _, p := range pushes {
			// a body compiled after the binding, in the same function
			after := false
			for _, b := range bodies {
				if b > p.Pos() {
					after = true
				}
			}
			if !after {
				// the binding stays visible to whatever the caller compiles next at the same depth (a data import: the
				// definitions and the body that follow it) while what was compiled before it at that depth (an included
				// module's functions, which may refer to a program variable of the same name) must keep its own slot
				n++
				key := fmt.Sprintf("binddepth:%s:%s", declKey(fd), c.Src(p))
				opened := false
				for _, o := range opens {
					if o < p.Pos() {
						opened = true
					}
				}
				root := fd.Name.Name == "compile" || fd.Name.Name == "Compile"
				if why, ok := bindDepthReviewed[declKey(fd)]; ok && !opened && !root {
					r.OK(key, p.Pos(), "enumerated — %s", why)
					continue
				}
				if opened || root {
					r.OK(key, p.Pos(), "%s binds at a depth of its own (or is the root)", declKey(fd))
				} else {
					r.Bad(key, p.Pos(), "%s binds a name with pushVariable for the code that follows it, at the depth of the code that precedes it: pushVariable hands out the slot of a variable of that name already bound at this depth, so functions compiled earlier against that variable read the new binding — `gojq --arg x X 'include \"i\"; import \"d\" as $x; initf'` with i.jq `def initf: $x;` yields the data, jq \"X\" (createVariable gives a slot of its own)", declKey(fd))
				}
				continue
			}
			n++
			key := fmt.Sprintf("binddepth:%s:%s", declKey(fd), c.Src(p))
			opened := false
			for _, o := range opens {
				if o < p.Pos() {
					opened = true
				}
			}
			root := fd.Name.Name == "compile" || fd.Name.Name == "Compile"
			switch {
			case opened:
				r.OK(key, p.Pos(), "%s opens a scope before it binds the name its body sees", declKey(fd))
			case root:
				r.OK(key, p.Pos(), "%s is the root of a compilation: no enclosing binding exists", declKey(fd))
			default:
				r.Bad(key, p.Pos(), "%s binds a name with pushVariable and compiles a body under it without opening a scope depth first: a binding of the same name nested in the body at the same depth is given the same slot, so a closure compiled against the outer binding reads the inner one — `[label $a | def f: break $a; (1,2) | label $a | ., f]` yields [1,2], jq [1]", declKey(fd))
			}
		}
	}
	// callers of the helpers that bind for them: compilePattern / initPatternVariables are called after the caller opened a depth
	for _, helper := range []string{"gojq.compiler.compilePattern", "gojq.compiler.initPatternVariables"} {
		for _, fd := range c.Decls(c.Gojq) {
			if recvTypeName(fd) != "compiler" || "gojq.compiler."+fd.Name.Name == helper {
				continue
			}
			var first token.Pos
			ast.Inspect(fd.Body, func(m ast.Node) bool {
				if call, ok := m.(*ast.CallExpr); ok && calleeName(info, call) == helper && !first.IsValid() {
					first = call.Pos()
				}
				return true
			})
			if !first.IsValid() || fd.Name.Name == "compilePattern" {
				continue
			}
			n++
			opened := false
			ast.Inspect(fd.Body, func(m ast.Node) bool {
				if call, ok := m.(*ast.CallExpr); ok && call.Pos() < first {
					switch calleeName(info, call) {
					case "gojq.compiler.newScopeDepth", "gojq.compiler.newScope":
						opened = true
					}
				}
				return true
			})
			r.Check(opened, fmt.Sprintf("binddepth:%s:%s", declKey(fd), strings.TrimPrefix(helper, "gojq.compiler.")), first, "%s opens a scope depth before it lets %s bind the pattern's names: %v", declKey(fd), strings.TrimPrefix(helper, "gojq.compiler."), opened)
		}
	}
	if n == 0 {
		r.Undecided("binddepth:census", token.NoPos, "no named binding for a body found in the compiler")
	}
}

// ---------------------------------------------------------------------------------------------------------------------
// Rules from the fifth batch of seeded changes.

func init() {
	reg(&Rule{ID: "R-C02-presence", Props: []string{"C02", "C03"}, Floor: 0,
		Doc: "in the update family (the functions that carry the allocator) the presence of an object key is decided by the comma-ok form of the lookup, never by comparing the looked-up value with nil: null is a value, and `del(.a)` must remove a key that holds null",
		Run: rulePresence})
	reg(&Rule{ID: "R-C02-nilkey", Props: []string{"C02", "C08"}, Floor: 1,
		Doc: "funcIndex2 yields a value only in the arms of its switch over the key that name a kind of key (string, number, array, object); the default arm, which receives null and every other kind, returns errors only: the path stack uses a nil component as its bottom sentinel, so a null key that navigates makes poppaths stop early and oppathend assert the wrong type",
		Run: ruleNilKey})
	reg(&Rule{ID: "R-C11-sortcompare", Props: []string{"C11"}, Floor: 2,
		Doc: "every comparator handed to a sort over JSON values in package gojq decides by Compare (or by Go's string order on object keys): a comparator over converted keys (floats) orders 9007199254740993 and 9007199254740992 as equal",
		Run: ruleSortCompare})
	reg(&Rule{ID: "R-C11-nojoin", Props: []string{"C11"}, Floor: 1,
		Doc: "Compare and what it calls build no composite text to compare (strings.Join, fmt.Sprint*, a JSON encoding): joining key lists with a separator is not injective ({\"\":null} against {}, \"a\\u0000b\" against \"a\",\"b\")",
		Run: ruleNoJoin})
	reg(&Rule{ID: "R-C16-more", Props: []string{"C16", "C08"}, Floor: 1,
		Doc: "(*json.Decoder).More, which is also false in front of a closing bracket, is consulted only by the token-level reader that tracks the container it is in: as a test for 'nothing follows this value' it accepts `1 ]`",
		Run: ruleDecoderMore})
	reg(&Rule{ID: "R-C07-ctxregister", Props: []string{"C07", "C20"}, Floor: 0,
		Doc: "nothing reachable from Next derives from or registers on the caller's context (context.AfterFunc, WithCancel, WithTimeout, WithDeadline, WithValue): a registration per call accumulates on a context that outlives the run",
		Run: ruleCtxRegister})
	reg(&Rule{ID: "R-C16-closeinnext", Props: []string{"C16", "C15"}, Floor: 0,
		Doc: "no Next method of an input iterator calls the iterator's own Close: Close is terminal for the whole iterator (later files, standard input), an error in one file ends that file only",
		Run: ruleCloseInNext})
	reg(&Rule{ID: "R-C01-reentrynet", Props: []string{"C01", "C20"}, Floor: 1,
		Doc: "where a VM clause continues execution from its backtracking branch (a catch clause, an alternative), the branches of the type switch that selects what to push have the same net effect on the data stack: a branch that keeps the value its sibling pops leaves one entry per turn of a forward loop",
		Run: ruleReentryNet})
	addDecided("C02", " Presence of a key is decided by comma-ok in the update family (R-C02-presence); a key that is not a string, number, array or object never navigates (R-C02-nilkey); opiter tests pathIntact before it can leave (R-C02-nav).")
	addDecided("C11", " Sort comparators decide by Compare (R-C11-sortcompare); Compare joins no text (R-C11-nojoin).")
	addDecided("C16", " Decoder.More is consulted by the token-level reader only (R-C16-more); Next never calls the iterator's own Close (R-C16-closeinnext).")
	addDecided("C01", " Sibling branches of a clause's re-entry have equal stack effect (R-C01-reentrynet).")
}

func hasAllocatorParam(info *types.Info, fd *ast.FuncDecl) bool {
	if fd.Type.Params == nil {
		return false
	}
	for _, f := range fd.Type.Params.List {
		if t := info.TypeOf(f.Type); t != nil {
			if n := namedOf(t); n != nil && n.Obj().Name() == "allocator" {
				return true
			}
		}
	}
	return false
}

func rulePresence(c *Ctx, r *Rep) {
	info := c.Gojq.TypesInfo
	n, fam := 0, 0
	for _, fd := range c.Decls(c.Gojq) {
		if !hasAllocatorParam(info, fd) {
			continue
		}
		fam++
		// variables bound to a single-value map lookup
		looked := map[types.Object]bool{}
		isLookup := func(e ast.Expr) bool {
			ix, ok := unparen(e).(*ast.IndexExpr)
			if !ok {
				return false
			}
			_, ok = info.TypeOf(ix.X).Underlying().(*types.Map)
			return ok
		}
		ast.Inspect(fd.Body, func(m ast.Node) bool {
			if as, ok := m.(*ast.AssignStmt); ok && len(as.Lhs) == 1 && len(as.Rhs) == 1 && isLookup(as.Rhs[0]) {
				if id, ok := as.Lhs[0].(*ast.Ident); ok {
					looked[info.ObjectOf(id)] = true
				}
			}
			return true
		})
		ast.Inspect(fd.Body, func(m ast.Node) bool {
			b, ok := m.(*ast.BinaryExpr)
			if !ok || (b.Op != token.EQL && b.Op != token.NEQ) {
				return true
			}
			for _, pr := range [][2]ast.Expr{{b.X, b.Y}, {b.Y, b.X}} {
				if id, ok := unparen(pr[1]).(*ast.Ident); !ok || id.Name != "nil" {
					continue
				}
				x := unparen(pr[0])
				hit := isLookup(x)
				if id, ok := x.(*ast.Ident); ok && looked[info.ObjectOf(id)] {
					hit = true
				}
				if hit {
					n++
					r.Bad("presence:"+declKey(fd)+":"+c.Src(b), b.Pos(), "%s decides by `%s` whether an object has a key: the looked-up value is nil for a missing key and for a key that holds null alike, so deleting a null-valued key does nothing (`{\"a\":null} | del(.a)` keeps a)", declKey(fd), c.Src(b))
				}
			}
			return true
		})
	}
	if fam == 0 {
		r.Undecided("presence:census", token.NoPos, "no function carries the allocator")
	} else if n == 0 {
		r.OK("presence:none", token.NoPos, "%d functions of the update family examined: none compares a looked-up value with nil", fam)
	}
}

func ruleNilKey(c *Ctx, r *Rep) {
	info := c.Gojq.TypesInfo
	fd := c.Decl(c.Gojq, "funcIndex2")
	if fd == nil || fd.Type.Params == nil {
		r.Undecided("nilkey:anchor", token.NoPos, "funcIndex2 not found")
		return
	}
	var params []types.Object
	for _, f := range fd.Type.Params.List {
		for _, nm := range f.Names {
			params = append(params, info.Defs[nm])
		}
	}
	if len(params) < 3 {
		r.Undecided("nilkey:params", fd.Pos(), "funcIndex2 has fewer than three parameters")
		return
	}
	found := false
	ast.Inspect(fd.Body, func(m ast.Node) bool {
		ts, ok := m.(*ast.TypeSwitchStmt)
		if !ok || found {
			return true
		}
		var x ast.Expr
		switch a := ts.Assign.(type) {
		case *ast.AssignStmt:
			x = a.Rhs[0].(*ast.TypeAssertExpr).X
		case *ast.ExprStmt:
			x = a.X.(*ast.TypeAssertExpr).X
		}
		id, ok := unparen(x).(*ast.Ident)
		if !ok || info.ObjectOf(id) != params[2] {
			return true
		}
		found = true
		for _, s := range ts.Body.List {
			cc := s.(*ast.CaseClause)
			named := cc.List != nil
			for _, e := range cc.List {
				if types.ExprString(e) == "nil" {
					named = false
				}
			}
			if named {
				continue
			}
			// default (or an explicit nil arm): every return is an error literal
			okAll, any := true, false
			for _, st := range cc.Body {
				ast.Inspect(st, func(q ast.Node) bool {
					rs, ok := q.(*ast.ReturnStmt)
					if !ok || len(rs.Results) != 1 {
						return true
					}
					any = true
					u, ok := unparen(rs.Results[0]).(*ast.UnaryExpr)
					if !ok || u.Op != token.AND {
						okAll = false
						return true
					}
					cl, ok := u.X.(*ast.CompositeLit)
					if !ok || !strings.HasSuffix(types.ExprString(cl.Type), "Error") {
						okAll = false
					}
					return true
				})
			}
			r.Check(okAll && any, "nilkey:funcIndex2:default", cc.Pos(), "the arm of funcIndex2 that receives null and every other kind of key returns errors only: %v", okAll && any)
		}
		return false
	})
	if !found {
		r.Undecided("nilkey:switch", fd.Pos(), "funcIndex2 does not switch over the type of its key")
	}
}

func ruleSortCompare(c *Ctx, r *Rep) {
	info := c.Gojq.TypesInfo
	n := 0
	for _, fd := range c.Decls(c.Gojq) {
		if f := c.PhysFile(fd.Pos()); f == "parser.go" || f == "builtin.go" {
			continue
		}
		ast.Inspect(fd.Body, func(m ast.Node) bool {
			call, ok := m.(*ast.CallExpr)
			if !ok {
				return true
			}
			nm := calleeName(info, call)
			var cmpArg ast.Expr
			switch nm {
			case "sort.Slice", "sort.SliceStable":
				if len(call.Args) == 2 {
					cmpArg = call.Args[1]
				}
			case "slices.SortFunc", "slices.SortStableFunc", "slices.BinarySearchFunc", "slices.MinFunc", "slices.MaxFunc":
				cmpArg = call.Args[len(call.Args)-1]
			default:
				return true
			}
			if cmpArg == nil {
				return true
			}
			// does the sorted slice hold JSON values (an `any`, or a struct/pointer with an `any` field)?
			holdsJSON := false
			if st, ok := info.TypeOf(call.Args[0]).Underlying().(*types.Slice); ok {
				var has func(t types.Type, depth int) bool
				has = func(t types.Type, depth int) bool {
					if depth > 3 {
						return false
					}
					switch u := t.Underlying().(type) {
					case *types.Interface:
						return u.NumMethods() == 0
					case *types.Pointer:
						return has(u.Elem(), depth+1)
					case *types.Struct:
						for i := 0; i < u.NumFields(); i++ {
							if has(u.Field(i).Type(), depth+1) {
								return true
							}
						}
					case *types.Array:
						return has(u.Elem(), depth+1)
					}
					return false
				}
				holdsJSON = has(st.Elem(), 0)
			}
			if !holdsJSON {
				return true
			}
			n++
			key := fmt.Sprintf("sortcompare:%s:%s", declKey(fd), nm)
			usesCompare := false
			var body ast.Node = cmpArg
			if id, ok := unparen(cmpArg).(*ast.Ident); ok {
				if f, ok := info.Uses[id].(*types.Func); ok {
					if f.Name() == "Compare" {
						usesCompare = true
					} else if d := c.Decl(c.Gojq, f.Name()); d != nil {
						body = d.Body
					}
				}
			}
			ast.Inspect(body, func(q ast.Node) bool {
				if cl, ok := q.(*ast.CallExpr); ok && calleeName(info, cl) == "gojq.Compare" {
					usesCompare = true
				}
				return true
			})
			if !usesCompare {
				// object keys: Go's string order is jq's order on strings
				strOrder := false
				ast.Inspect(body, func(q ast.Node) bool {
					if b, ok := q.(*ast.BinaryExpr); ok && (b.Op == token.LSS || b.Op == token.GTR) {
						tx, ty := info.TypeOf(b.X), info.TypeOf(b.Y)
						if tx != nil && ty != nil {
							bx, ok1 := tx.Underlying().(*types.Basic)
							by, ok2 := ty.Underlying().(*types.Basic)
							if ok1 && ok2 && bx.Info()&types.IsString != 0 && by.Info()&types.IsString != 0 {
								strOrder = true
							}
						}
					}
					return true
				})
				if strOrder {
					r.OK(key, call.Pos(), "the comparator of %s in %s orders object keys by Go's string order, which is jq's order on strings", nm, declKey(fd))
					return true
				}
			}
			r.Check(usesCompare, key, call.Pos(), "the comparator of %s in %s decides by Compare: %v — a comparator over keys converted beforehand (toFloat) cannot tell integers above 2^53 apart, so sort is no longer ordered by <= and unique keeps duplicates", nm, declKey(fd), usesCompare)
			return true
		})
	}
	if n == 0 {
		r.Undecided("sortcompare:census", token.NoPos, "no sort over JSON values found in package gojq")
	}
}

func ruleNoJoin(c *Ctx, r *Rep) {
	info := c.Gojq.TypesInfo
	fd := c.Decl(c.Gojq, "Compare")
	if fd == nil {
		r.Undecided("nojoin:anchor", token.NoPos, "Compare not found")
		return
	}
	// Compare and the package functions it calls (depth 2)
	seen := map[*ast.FuncDecl]bool{}
	var bad []string
	var walk func(d *ast.FuncDecl, depth int)
	walk = func(d *ast.FuncDecl, depth int) {
		if seen[d] || depth > 2 {
			return
		}
		seen[d] = true
		ast.Inspect(d.Body, func(m ast.Node) bool {
			call, ok := m.(*ast.CallExpr)
			if !ok {
				return true
			}
			nm := calleeName(info, call)
			switch {
			case nm == "strings.Join", strings.HasPrefix(nm, "fmt.Sprint"), nm == "json.Marshal", nm == "gojq.jsonMarshal", nm == "gojq.Marshal", strings.HasPrefix(nm, "strings.Builder."), nm == "bytes.Join":
				bad = append(bad, fmt.Sprintf("%s in %s", nm, declKey(d)))
			}
			if f, ok := callee(info, call).(*types.Func); ok && f.Pkg() == c.Gojq.Types {
				if t := c.Decl(c.Gojq, f.Name()); t != nil {
					walk(t, depth+1)
				}
			}
			return true
		})
	}
	walk(fd, 0)
	sort.Strings(bad)
	r.Check(len(bad) == 0, "nojoin:Compare", fd.Pos(), "Compare and the %d package functions it reaches build no composite text to compare: %v %v", len(seen)-1, len(bad) == 0, bad)
}

func ruleDecoderMore(c *Ctx, r *Rep) {
	n := 0
	for _, p := range []*packages.Package{c.Gojq, c.Cli} {
		if p == nil {
			continue
		}
		info := p.TypesInfo
		for _, fd := range c.Decls(p) {
			ast.Inspect(fd.Body, func(m ast.Node) bool {
				call, ok := m.(*ast.CallExpr)
				if !ok {
					return true
				}
				if o := callee(info, call); o == nil || objPath(o) != "encoding/json.(Decoder).More" {
					return true
				}
				n++
				// the function also reads with Token: it is the token-level reader, which knows what container it is in
				tokens := false
				ast.Inspect(fd.Body, func(q ast.Node) bool {
					if cl, ok := q.(*ast.CallExpr); ok {
						if o := callee(info, cl); o != nil && objPath(o) == "encoding/json.(Decoder).Token" {
							tokens = true
						}
					}
					return true
				})
				r.Check(tokens, "more:"+declKey(fd), call.Pos(), "%s consults (*json.Decoder).More and reads tokens itself: %v — More is false in front of `]` and `}` too, so as a test that nothing follows a decoded value it accepts `1 ]` and `{\"a\":1}}`", declKey(fd), tokens)
				return true
			})
		}
	}
	if n == 0 {
		r.Undecided("more:census", token.NoPos, "(*json.Decoder).More is not used (the --stream reader uses it)")
	}
}

func ruleCtxRegister(c *Ctx, r *Rep) {
	info := c.Gojq.TypesInfo
	n, bad := 0, 0
	for _, fd := range c.Decls(c.Gojq) {
		ast.Inspect(fd.Body, func(m ast.Node) bool {
			call, ok := m.(*ast.CallExpr)
			if !ok {
				return true
			}
			switch nm := calleeName(info, call); nm {
			case "context.AfterFunc", "context.WithCancel", "context.WithTimeout", "context.WithDeadline", "context.WithValue", "context.WithCancelCause", "context.WithoutCancel":
				n++
				bad++
				r.Bad("ctxregister:"+declKey(fd)+":"+nm, call.Pos(), "%s calls %s: the library polls the caller's context, it never derives from it or registers on it — a callback registered per Next call stays on the caller's context and keeps the run alive", declKey(fd), nm)
			}
			return true
		})
	}
	if bad == 0 {
		r.OK("ctxregister:none", token.NoPos, "package gojq derives nothing from and registers nothing on a context")
	}
}

func ruleCloseInNext(c *Ctx, r *Rep) {
	p := c.Cli
	info := p.TypesInfo
	n, bad := 0, 0
	for _, fd := range c.Decls(p) {
		if fd.Name.Name != "Next" || fd.Recv == nil || len(fd.Recv.List) != 1 || len(fd.Recv.List[0].Names) != 1 {
			continue
		}
		recv := info.Defs[fd.Recv.List[0].Names[0]]
		n++
		ast.Inspect(fd.Body, func(m ast.Node) bool {
			call, ok := m.(*ast.CallExpr)
			if !ok {
				return true
			}
			sel, ok := call.Fun.(*ast.SelectorExpr)
			if !ok || sel.Sel.Name != "Close" {
				return true
			}
			if id, ok := unparen(sel.X).(*ast.Ident); ok && info.ObjectOf(id) == recv {
				bad++
				r.Bad("closeinnext:"+declKey(fd), call.Pos(), "%s calls its own Close: Close ends the whole iterator (the files and standard input still to come are never read), where an error in one input ends that input only", declKey(fd))
			}
			return true
		})
	}
	if bad == 0 {
		r.OK("closeinnext:none", token.NoPos, "%d Next methods of the command examined: none calls its own Close", n)
	}
}

// ruleReentryNet: in the backtracking branch of a VM clause that continues execution (pc is reassigned and control goes back
// to the loop), the arms of a type switch over the error differ only in what they push: their push/pop counts agree.
func ruleReentryNet(c *Ctx, r *Rep) {
	vm := getVM(c)
	if vm.Err != "" {
		r.Undecided("vm-model", token.NoPos, "%s", vm.Err)
		return
	}
	n := 0
	for _, cl := range vm.Clauses {
		name := strings.Join(cl.Ops, ",")
		ast.Inspect(cl.CC, func(m ast.Node) bool {
			ts, ok := m.(*ast.TypeSwitchStmt)
			if !ok {
				return true
			}
			// a switch over the error being handled: what differs between its arms is the value handed to the handler
			var tag ast.Expr
			switch a := ts.Assign.(type) {
			case *ast.AssignStmt:
				tag = a.Rhs[0].(*ast.TypeAssertExpr).X
			case *ast.ExprStmt:
				tag = a.X.(*ast.TypeAssertExpr).X
			}
			if t := vm.info.TypeOf(tag); t == nil || types.TypeString(t, nil) != "error" {
				return true
			}
			// arms that fall out of the switch (no break/return/goto as last statement) continue to the shared tail
			type eff struct{ push, pop int }
			var arms []string
			var effs []eff
			for _, s := range ts.Body.List {
				cc := s.(*ast.CaseClause)
				if len(cc.Body) > 0 {
					switch cc.Body[len(cc.Body)-1].(type) {
					case *ast.BranchStmt, *ast.ReturnStmt:
						continue
					}
				}
				var e eff
				for _, st := range cc.Body {
					ast.Inspect(st, func(q ast.Node) bool {
						if call, ok := q.(*ast.CallExpr); ok {
							switch vm.envMethod(call) {
							case "push":
								e.push++
							case "pop":
								e.pop++
							}
						}
						return true
					})
				}
				label := "default"
				if cc.List != nil {
					label = types.ExprString(cc.List[0])
				}
				arms = append(arms, label)
				effs = append(effs, e)
			}
			if len(arms) < 2 {
				return true
			}
			n++
			same := true
			for _, e := range effs[1:] {
				if e.push-e.pop != effs[0].push-effs[0].pop {
					same = false
				}
			}
			var desc []string
			for i, a := range arms {
				desc = append(desc, fmt.Sprintf("%s: +%d −%d", a, effs[i].push, effs[i].pop))
			}
			r.Check(same, "reentrynet:"+name, ts.Pos(), "the arms of the type switch in %s that continue to the shared tail have the same net effect on the data stack (%s): %v — an arm that pushes without the pop its sibling makes leaves the stale input of the try under the result, one entry per turn of `until`/`while`", name, strings.Join(desc, "; "), same)
			return true
		})
	}
	if n == 0 {
		r.Undecided("reentrynet:census", token.NoPos, "no VM clause selects what to push by a type switch with two continuing arms (opforktrybegin has one)")
	}
}

// ---------------------------------------------------------------------------------------------------------------------
// R-C15-errorcode: under --exit-status a failed run is never mistaken for a successful one.

func init() {
	reg(&Rule{ID: "R-C15-errorcode", Props: []string{"C15"}, Floor: 1,
		Doc: "the --exit-status hook replaces the result by the last-output status exactly when the run did not fail; where it recognises a failure by the error having an ExitCode method, the error that stands for 'diagnostics already printed' (the type marked isEmptyError) has that method itself, with the default error status as its fall-back — behind an Unwrap the plain type assertion of the hook no longer sees it, and a type error under -e exits 0, 1 or 4",
		Run: ruleErrorCode})
	addDecided("C15", " Under --exit-status the already-reported error carries an exit status of its own (R-C15-errorcode).")
}

func ruleErrorCode(c *Ctx, r *Rep) {
	p := c.Cli
	fd := c.Decl(p, "cli.runInternal")
	if fd == nil {
		r.Undecided("errorcode:anchor", token.NoPos, "cli.runInternal not found")
		return
	}
	// the hook: a deferred literal that assigns the exitCodeError cell to err under a condition
	var cond ast.Expr
	ast.Inspect(fd.Body, func(m ast.Node) bool {
		d, ok := m.(*ast.DeferStmt)
		if !ok {
			return true
		}
		fl, ok := d.Call.Fun.(*ast.FuncLit)
		if !ok {
			return true
		}
		ast.Inspect(fl.Body, func(q ast.Node) bool {
			ifs, ok := q.(*ast.IfStmt)
			if !ok {
				return true
			}
			for _, st := range ifs.Body.List {
				if as, ok := st.(*ast.AssignStmt); ok && len(as.Lhs) == 1 && len(as.Rhs) == 1 && types.ExprString(as.Lhs[0]) == "err" && strings.Contains(types.ExprString(as.Rhs[0]), "exitCodeError") {
					cond = ifs.Cond
					if ifs.Init != nil {
						cond = nil
						// if _, ok := err.(interface{ ExitCode() int }); !ok
						if as2, ok := ifs.Init.(*ast.AssignStmt); ok && len(as2.Rhs) == 1 {
							cond = as2.Rhs[0]
						}
					}
				}
			}
			return true
		})
		return true
	})
	if cond == nil {
		r.Undecided("errorcode:hook", fd.Pos(), "the deferred --exit-status hook (`err = cli.exitCodeError` under a condition) was not found in runInternal")
		return
	}
	src := c.Src(cond)
	// a helper of the package that looks for the ExitCode method (by assertion or errors.As) is read through
	if call, ok := unparen(cond).(*ast.CallExpr); ok {
		if f, ok := callee(p.TypesInfo, call).(*types.Func); ok && f.Pkg() == p.Types {
			if d := c.Decl(p, f.Name()); d != nil && strings.Contains(c.Src(d.Body), "ExitCode") {
				src = "ExitCode (through " + f.Name() + ")"
				cond = &ast.TypeAssertExpr{X: call, Lparen: call.Pos(), Rparen: call.End()}
			}
		}
	}
	switch {
	case strings.Contains(src, "err == nil") || strings.Contains(src, "nil == err"):
		r.OK("errorcode:hook", cond.Pos(), "the hook recognises a successful run by err == nil")
		return
	case strings.Contains(src, "ExitCode"):
		// decided by a type assertion (or a helper) on ExitCode: the already-printed error must have the method directly
		if _, isAssert := unparen(cond).(*ast.TypeAssertExpr); !isAssert {
			r.Bad("errorcode:hook", cond.Pos(), "the --exit-status hook decides by `%s` whether the run failed: only a plain type assertion on the error itself is known to see the ExitCode method of the already-reported error; through a helper (errors.As over a chain, say) the answer depends on what the wrapped error is, and a type error under -e exits 0, 1 or 4 instead of 5", src)
			return
		}
	default:
		r.Undecided("errorcode:hook", cond.Pos(), "the hook decides by `%s`, which this rule cannot read", src)
		return
	}
	n := 0
	for _, d := range c.Decls(p) {
		if d.Name.Name != "isEmptyError" || d.Recv == nil {
			continue
		}
		tn := recvTypeName(d)
		n++
		ec := c.Decl(p, tn+".ExitCode")
		if ec == nil {
			r.Bad("errorcode:"+tn, d.Pos(), "%s, the error that stands for diagnostics already printed, has no ExitCode method: the --exit-status hook takes an error without one for a successful run and replaces it by the last-output status (a type error under -e then exits 0, 1 or 4 instead of 5)", tn)
			continue
		}
		// its fall-back is the default error status
		fallback := false
		ast.Inspect(ec.Body, func(q ast.Node) bool {
			if rs, ok := q.(*ast.ReturnStmt); ok && len(rs.Results) == 1 {
				if id, ok := unparen(rs.Results[0]).(*ast.Ident); ok && id.Name == "exitCodeDefaultErr" {
					fallback = true
				}
			}
			return true
		})
		delegates := false
		ast.Inspect(ec.Body, func(q ast.Node) bool {
			if _, ok := q.(*ast.IfStmt); ok {
				delegates = true
			}
			return true
		})
		if !delegates {
			r.OK("errorcode:"+tn, ec.Pos(), "%s.ExitCode returns a status of its own unconditionally", tn)
			continue
		}
		r.Check(fallback, "errorcode:"+tn, ec.Pos(), "%s.ExitCode falls back to the default error status when the wrapped error has none: %v", tn, fallback)
	}
	if n == 0 {
		r.Undecided("errorcode:census", token.NoPos, "no error type is marked isEmptyError")
	}
}

// ---------------------------------------------------------------------------------------------------------------------
// R-C09-scanindex: a scanning helper returns the offset it leaves the lexer at.

func init() {
	reg(&Rule{ID: "R-C09-scanindex", Props: []string{"C09", "C17"}, Floor: 3,
		Doc: "a lexer method whose int result its caller uses as the end of the token (a bound of a slice of the source) returns the offset the lexer is at when it returns: l.offset itself, the result of such a method, or a variable that held one of these at a point from which every path to the return moves the offset by a net zero — a look-ahead that is given back only in part ({a::1}: one of two colons) leaves a byte outside every token",
		Run: ruleScanIndex})
	addDecided("C09", " The index a scanning helper returns is the lexer's offset at that moment (R-C09-scanindex).")
}

func ruleScanIndex(c *Ctx, r *Rep) {
	info := c.Gojq.TypesInfo
	methods := map[types.Object]*ast.FuncDecl{}
	for _, fd := range c.Decls(c.Gojq) {
		if c.PhysFile(fd.Pos()) == "lexer.go" && recvTypeName(fd) == "lexer" {
			if o := info.Defs[fd.Name]; o != nil {
				methods[o] = fd
			}
		}
	}
	// index-returning methods: their (first) result reaches a bound of a slice of `.source`
	indexFn := map[*ast.FuncDecl]bool{}
	for _, fd := range methods {
		// variables bound to a call result
		boundTo := map[types.Object]*ast.FuncDecl{}
		ast.Inspect(fd.Body, func(m ast.Node) bool {
			if as, ok := m.(*ast.AssignStmt); ok && len(as.Rhs) == 1 {
				if call, ok := unparen(as.Rhs[0]).(*ast.CallExpr); ok {
					if t := methods[callee(info, call)]; t != nil && len(as.Lhs) >= 1 {
						if id, ok := as.Lhs[0].(*ast.Ident); ok {
							boundTo[info.ObjectOf(id)] = t
						}
					}
				}
			}
			return true
		})
		ast.Inspect(fd.Body, func(m ast.Node) bool {
			se, ok := m.(*ast.SliceExpr)
			if !ok || !strings.HasSuffix(types.ExprString(se.X), ".source") {
				return true
			}
			for _, b := range []ast.Expr{se.Low, se.High} {
				if b == nil {
					continue
				}
				ast.Inspect(b, func(q ast.Node) bool {
					switch x := q.(type) {
					case *ast.CallExpr:
						if t := methods[callee(info, x)]; t != nil {
							indexFn[t] = true
						}
					case *ast.Ident:
						if t := boundTo[info.ObjectOf(x)]; t != nil {
							indexFn[t] = true
						}
					}
					return true
				})
			}
			return true
		})
	}
	n := 0
	for fd := range indexFn {
		recv := info.Defs[fd.Recv.List[0].Names[0]]
		isOffset := func(e ast.Expr) bool {
			e = unparen(e)
			if u, ok := e.(*ast.UnaryExpr); ok && u.Op == token.SUB {
				e = unparen(u.X)
			}
			sel, ok := e.(*ast.SelectorExpr)
			if !ok || sel.Sel.Name != "offset" {
				return false
			}
			id, ok := unparen(sel.X).(*ast.Ident)
			return ok && info.ObjectOf(id) == recv
		}
		isIndexCall := func(e ast.Expr) bool {
			call, ok := unparen(e).(*ast.CallExpr)
			return ok && indexFn[methods[callee(info, call)]]
		}
		// movement of one cfg node: (delta, ok); !ok: a lexer method other than peek is called, or a non-constant move
		move := func(nd ast.Node) (int, bool) {
			d, ok := 0, true
			ast.Inspect(nd, func(q ast.Node) bool {
				switch x := q.(type) {
				case *ast.FuncLit:
					return false
				case *ast.IncDecStmt:
					if sel, isSel := unparen(x.X).(*ast.SelectorExpr); isSel && sel.Sel.Name == "offset" {
						if x.Tok == token.INC {
							d++
						} else {
							d--
						}
					}
				case *ast.AssignStmt:
					for i, l := range x.Lhs {
						if sel, isSel := unparen(l).(*ast.SelectorExpr); isSel && sel.Sel.Name == "offset" {
							k, isConst := constInt(info, x.Rhs[min(i, len(x.Rhs)-1)])
							switch {
							case x.Tok == token.ADD_ASSIGN && isConst:
								d += int(k)
							case x.Tok == token.SUB_ASSIGN && isConst:
								d -= int(k)
							default:
								ok = false
							}
						}
					}
				case *ast.CallExpr:
					if sel, isSel := x.Fun.(*ast.SelectorExpr); isSel {
						if id, isId := unparen(sel.X).(*ast.Ident); isId && info.ObjectOf(id) == recv && sel.Sel.Name != "peek" {
							if _, isFn := info.Uses[sel.Sel].(*types.Func); isFn {
								ok = false
							}
						}
					}
				}
				return true
			})
			return d, ok
		}
		g := cfg.New(fd.Body, func(*ast.CallExpr) bool { return true })
		locate := func(nd ast.Node) (*cfg.Block, int, bool) {
			var bb *cfg.Block
			bi, bl := -1, token.Pos(-1)
			for _, b := range g.Blocks {
				for i, x := range b.Nodes {
					if x.Pos() <= nd.Pos() && nd.End() <= x.End() {
						if l := x.End() - x.Pos(); bl < 0 || l < bl {
							bb, bi, bl = b, i, l
						}
					}
				}
			}
			return bb, bi, bi >= 0
		}
		ast.Inspect(fd.Body, func(m ast.Node) bool {
			if _, ok := m.(*ast.FuncLit); ok {
				return false
			}
			rs, ok := m.(*ast.ReturnStmt)
			if !ok || len(rs.Results) == 0 {
				return true
			}
			n++
			e := rs.Results[0]
			key := fmt.Sprintf("scanindex:%s:return %s", declKey(fd), c.Src(e))
			if isOffset(e) || isIndexCall(e) {
				r.OK(key, rs.Pos(), "%s returns the offset itself (or what a scanning helper returns)", declKey(fd))
				return true
			}
			id, ok := unparen(e).(*ast.Ident)
			if !ok {
				r.Undecided(key, rs.Pos(), "%s returns `%s` as the end of the token: not the offset, a helper's result or a variable", declKey(fd), c.Src(e))
				return true
			}
			obj := info.ObjectOf(id)
			// every assignment of the variable that is an offset/helper result: from each, all paths to this return are net zero
			rb, ri, okr := locate(rs)
			if !okr {
				r.Undecided(key, rs.Pos(), "the return was not found in the control-flow graph")
				return true
			}
			var defs []ast.Node
			okDefs := true
			ast.Inspect(fd.Body, func(q ast.Node) bool {
				if as, ok := q.(*ast.AssignStmt); ok && len(as.Rhs) >= 1 {
					for i, l := range as.Lhs {
						if lid, ok := l.(*ast.Ident); ok && info.ObjectOf(lid) == obj {
							rhs := as.Rhs[min(i, len(as.Rhs)-1)]
							if len(as.Rhs) == 1 && len(as.Lhs) > 1 {
								rhs = as.Rhs[0]
							}
							if isOffset(rhs) || isIndexCall(rhs) {
								defs = append(defs, as)
							} else {
								okDefs = false
							}
						}
					}
				}
				return true
			})
			if !okDefs || len(defs) == 0 {
				r.Undecided(key, rs.Pos(), "%s is assigned something other than the offset or a scanning helper's result", id.Name)
				return true
			}
			bad := ""
			for _, d := range defs {
				db, di, okd := locate(d)
				if !okd {
					continue
				}
				// DFS over (block, index, delta); a definition of the variable on the way restarts the count (stop there)
				type st struct {
					b     *cfg.Block
					i, dl int
				}
				seen := map[[3]int]bool{}
				stack := []st{{db, di + 1, 0}}
				for len(stack) > 0 && bad == "" {
					s := stack[len(stack)-1]
					stack = stack[:len(stack)-1]
					dl := s.dl
					dead := false
					for i := s.i; i < len(s.b.Nodes); i++ {
						nd := s.b.Nodes[i]
						if s.b == rb && i == ri {
							if dl != 0 {
								bad = fmt.Sprintf("on a path from `%s` the offset has moved by %+d when `%s` is returned", c.Src(d), dl, id.Name)
							}
							dead = true
							break
						}
						redefined := false
						for _, d2 := range defs {
							if nd.Pos() <= d2.Pos() && d2.End() <= nd.End() {
								redefined = true
							}
						}
						if redefined {
							dead = true
							break
						}
						mv, ok := move(nd)
						if !ok {
							bad = fmt.Sprintf("between `%s` and the return the lexer is moved by `%s`, which this rule cannot count", c.Src(d), c.Src(nd))
							break
						}
						dl += mv
						if dl > 8 || dl < -8 {
							dead = true
							break
						}
					}
					if dead || bad != "" {
						continue
					}
					for _, nx := range s.b.Succs {
						k := [3]int{int(nx.Index), 0, dl}
						if seen[k] {
							continue
						}
						seen[k] = true
						stack = append(stack, st{nx, 0, dl})
					}
				}
			}
			r.Check(bad == "", key, rs.Pos(), "%s returns %s, which held the offset, after a net movement of zero on every path: %v %s", declKey(fd), id.Name, bad == "", bad)
			return true
		})
	}
	if n == 0 {
		r.Undecided("scanindex:census", token.NoPos, "no lexer method returns an index into the source")
	}
}

// ---------------------------------------------------------------------------------------------------------------------
// R-C01-limitbreak: limit stops in the turn that delivers the last item.

func init() {
	reg(&Rule{ID: "R-C01-limitbreak", Props: []string{"C01", "C16", "C20"}, Floor: 1,
		Doc: "in the shipped definition of limit/2 (read off builtin.go) the item is emitted and the break is taken in the same turn of the foreach: the extract is `$item, <something that breaks>`, not one conditional whose branches are the emission and the break — with the latter the break needs one more item from the generator, which `limit(1; inputs)` takes from the input and loses",
		Run: ruleLimitBreak})
}

func ruleLimitBreak(c *Ctx, r *Rep) {
	m, err := getBuiltinLit(c)
	if err != nil {
		r.Undecided("limitbreak:builtin.go", token.NoPos, "%v", err)
		return
	}
	lst, _ := m.fields["limit"].([]any)
	n := 0
	for _, d := range lst {
		fdn, ok := d.(*litNode)
		if !ok || fdn == nil {
			continue
		}
		hasBreak := func(x any) bool {
			f := false
			litWalk(x, func(n *litNode) {
				if n.typ == "Term" && nStr(n, "Break") != "" {
					f = true
				}
			})
			return f
		}
		emitsItem := func(x any) bool { return litMentionsFunc(x, "$item") }
		if !hasBreak(fdn) {
			continue
		}
		n++
		verdict, why := "undecided", "the definition emits and breaks in a shape this rule does not know"
		litWalk(nSub(fdn, "Body"), func(q *litNode) {
			switch q.typ {
			case "Query":
				if opOf(q) == "OpComma" && emitsItem(nSub(q, "Left")) && !hasBreak(nSub(q, "Left")) && hasBreak(nSub(q, "Right")) {
					verdict, why = "ok", "the extract is `$item, …break…`: emission and break happen in the same turn"
				}
			case "If":
				thenB, elseB := nSub(q, "Then"), nSub(q, "Else")
				if (emitsItem(thenB) && hasBreak(elseB) && !hasBreak(thenB)) || (emitsItem(elseB) && hasBreak(thenB) && !hasBreak(elseB)) {
					if verdict != "ok" {
						verdict, why = "bad", "emission of $item and the break are the two branches of one conditional: the break is only taken when the generator has delivered one item more than asked for"
					}
				}
			}
		})
		key := fmt.Sprintf("limitbreak:limit/%d", len(nList(fdn, "Args")))
		switch verdict {
		case "ok":
			r.OK(key, token.NoPos, "%s", why)
		case "bad":
			r.Bad(key, token.NoPos, "limit: %s — `[limit(2; inputs)]` consumes three inputs, and `first(inputs)` two", why)
		default:
			r.Undecided(key, token.NoPos, "%s", why)
		}
	}
	if n == 0 {
		r.Undecided("limitbreak:census", token.NoPos, "no shipped definition of limit contains a break")
	}
}

// ---------------------------------------------------------------------------------------------------------------------
// R-C16-nullisvalue: the input layer never takes a decoded null for "nothing".

func init() {
	reg(&Rule{ID: "R-C16-nullisvalue", Props: []string{"C16", "C12"}, Floor: 0,
		Doc: "no method of an input iterator of the command compares a value of type any with nil: a decoded null is a value like any other (a YAML document `null`, a JSON `null` in a stream), and a test that takes it for 'no document' drops it",
		Run: ruleNullIsValue})
	addDecided("C16", " No input iterator compares a decoded value with nil (R-C16-nullisvalue).")
}

func ruleNullIsValue(c *Ctx, r *Rep) {
	p := c.Cli
	info := p.TypesInfo
	n, bad := 0, 0
	for _, fd := range c.Decls(p) {
		if fd.Recv == nil {
			continue
		}
		tn := recvTypeName(fd)
		if !strings.HasSuffix(tn, "InputIter") && !strings.HasSuffix(tn, "Iter") && tn != "jsonStream" {
			continue
		}
		n++
		ast.Inspect(fd.Body, func(m ast.Node) bool {
			b, ok := m.(*ast.BinaryExpr)
			if !ok || (b.Op != token.EQL && b.Op != token.NEQ) {
				return true
			}
			for _, pr := range [][2]ast.Expr{{b.X, b.Y}, {b.Y, b.X}} {
				if id, ok := unparen(pr[1]).(*ast.Ident); !ok || id.Name != "nil" {
					continue
				}
				t := info.TypeOf(pr[0])
				if t == nil {
					continue
				}
				if it, ok := t.Underlying().(*types.Interface); ok && it.NumMethods() == 0 {
					if _, named := t.(*types.Named); !named {
						bad++
						r.Bad("nullisvalue:"+declKey(fd)+":"+c.Src(b), b.Pos(), "%s compares the value `%s` with nil: a decoded null is a value, and an iterator that takes it for the absence of a document drops it (`gojq -n --yaml-output null | gojq --yaml-input .` prints nothing)", declKey(fd), c.Src(pr[0]))
					}
				}
			}
			return true
		})
	}
	if n == 0 {
		r.Undecided("nullisvalue:census", token.NoPos, "no input iterator methods found in the command")
	} else if bad == 0 {
		r.OK("nullisvalue:none", token.NoPos, "%d methods of input iterators examined: none compares a decoded value with nil", n)
	}
}

// ---------------------------------------------------------------------------------------------------------------------
// R-C17-positionsource: an error position that is printed came from the error.

func init() {
	reg(&Rule{ID: "R-C17-positionsource", Props: []string{"C17", "C15"}, Floor: 1,
		Doc: "in the Error method of a parse-error type of the command, a message variable declared without a value has been assigned from the underlying error on every path that reaches the formatting: where it can keep its zero value, an error kind the method does not know (a YAML alias without anchor, a failed tag conversion) is reported with an empty message at a fabricated position (line 1, column 0)",
		Run: rulePositionSource})
	addDecided("C17", " A printed position was taken from the error on every path (R-C17-positionsource; D46).")
}

func rulePositionSource(c *Ctx, r *Rep) {
	p := c.Cli
	info := p.TypesInfo
	n := 0
	for _, fd := range c.Decls(p) {
		if fd.Name.Name != "Error" || fd.Recv == nil || !strings.HasSuffix(recvTypeName(fd), "ParseError") {
			continue
		}
		// local variables declared without a value (var index int / var message string)
		zeroDecl := map[types.Object]bool{}
		ast.Inspect(fd.Body, func(m ast.Node) bool {
			if ds, ok := m.(*ast.DeclStmt); ok {
				if gd, ok := ds.Decl.(*ast.GenDecl); ok {
					for _, sp := range gd.Specs {
						if vs, ok := sp.(*ast.ValueSpec); ok && len(vs.Values) == 0 {
							for _, nm := range vs.Names {
								if o := info.Defs[nm]; o != nil {
									// the message (a string); a position that keeps its zero value while the error itself is still
									// printed (jsonParseError on a read error) fabricates a caret but loses nothing: not this rule's
									if b, ok := o.Type().Underlying().(*types.Basic); ok && b.Info()&types.IsString != 0 {
										zeroDecl[o] = true
									}
								}
							}
						}
					}
				}
			}
			return true
		})
		if len(zeroDecl) == 0 {
			continue
		}
		g := cfg.New(fd.Body, func(*ast.CallExpr) bool { return true })
		assigns := func(nd ast.Node, obj types.Object) bool {
			f := false
			ast.Inspect(nd, func(q ast.Node) bool {
				if as, ok := q.(*ast.AssignStmt); ok {
					for _, l := range as.Lhs {
						if id, ok := l.(*ast.Ident); ok && info.ObjectOf(id) == obj {
							f = true
						}
					}
				}
				return true
			})
			return f
		}
		// uses of such a variable in a call of the package (the line/caret computation, the final formatting)
		ast.Inspect(fd.Body, func(m ast.Node) bool {
			call, ok := m.(*ast.CallExpr)
			if !ok {
				return true
			}
			if f, ok := callee(info, call).(*types.Func); !ok || f.Pkg() == nil || (f.Pkg() != p.Types && f.Pkg().Path() != "fmt") {
				return true
			}
			for obj := range zeroDecl {
				used := false
				for _, a := range call.Args {
					ast.Inspect(a, func(q ast.Node) bool {
						if _, isCall := q.(*ast.CallExpr); isCall && q != ast.Node(a) {
							return true
						}
						if id, ok := q.(*ast.Ident); ok && info.Uses[id] == obj {
							used = true
						}
						return true
					})
				}
				if !used {
					continue
				}
				// is the call reachable from the entry without passing an assignment of obj?
				var tb *cfg.Block
				ti := -1
				var tl token.Pos = -1
				for _, b := range g.Blocks {
					for i, x := range b.Nodes {
						if x.Pos() <= call.Pos() && call.End() <= x.End() {
							if l := x.End() - x.Pos(); tl < 0 || l < tl {
								tb, ti, tl = b, i, l
							}
						}
					}
				}
				if tb == nil || len(g.Blocks) == 0 {
					continue
				}
				n++
				seen := map[int32]bool{}
				var st []*cfg.Block
				reach := false
				st = append(st, g.Blocks[0])
				for len(st) > 0 && !reach {
					b := st[len(st)-1]
					st = st[:len(st)-1]
					if seen[b.Index] {
						continue
					}
					seen[b.Index] = true
					blocked := false
					for i, nd := range b.Nodes {
						if b == tb && i == ti {
							reach = true
							break
						}
						if assigns(nd, obj) {
							blocked = true
							break
						}
					}
					if reach || blocked {
						continue
					}
					st = append(st, b.Succs...)
				}
				key := fmt.Sprintf("positionsource:%s:%s:%s", declKey(fd), obj.Name(), calleeName(info, call))
				r.Check(!reach, key, call.Pos(), "%s reaches `%s` with %s assigned from the error on every path: %v — on a path where it keeps its zero value an error kind the method does not know (`y: *foo`, `y: !!int abc`) is reported with no message at all, at line 1, column 0", declKey(fd), calleeName(info, call), obj.Name(), !reach)
			}
			return true
		})
	}
	if n == 0 {
		r.Undecided("positionsource:census", token.NoPos, "no Error method of a parse-error type of the command uses a position variable declared without a value")
	}
}

// ---------------------------------------------------------------------------------------------------------------------
// Rules from the sixth batch of seeded changes.

func init() {
	reg(&Rule{ID: "R-C19-iterflag", Props: []string{"C19"}, Floor: 1,
		Doc: "a name registered with WithFunction and with WithIterFunction is refused whatever the arities: the merged entry carries one iterator flag for the name, and compileFunc appends opiter from that flag for every arity — the refusal is not weakened by a further condition (disjoint arity masks, say)",
		Run: ruleIterFlag})
	reg(&Rule{ID: "R-C18-resolvedefault", Props: []string{"C18"}, Floor: 1,
		Doc: "resolvePath returns its path argument unchanged only under filepath.IsAbs: every other path that is not one of the two prefixes (`~/`, `$ORIGIN/`) is joined with the directory of the importing file, whether or not it starts with `./`",
		Run: ruleResolveDefault})
	reg(&Rule{ID: "R-C17-errortoken", Props: []string{"C17"}, Floor: 1,
		Doc: "the token the lexer's Error method stores in the ParseError is the token as scanned (or the one-character spelling of a character token), never a part of it: the caret is computed as Offset - len(Token), so a token cut short moves it",
		Run: ruleErrorToken})
	addDecided("C19", " One name cannot be both an iterator and a plain function, whatever the arities (R-C19-iterflag).")
	addDecided("C18", " resolvePath leaves only absolute paths unchanged (R-C18-resolvedefault); a cache of loaded data is keyed by everything the loader is given (R-C14-cachekey).")
	addDecided("C17", " The ParseError's token is the scanned token, uncut (R-C17-errortoken); under --stream the re-scan of a failing value is tried before the token-error adjustment (R-C17-tokenoffset).")
}

func ruleIterFlag(c *Ctx, r *Rep) {
	info := c.Gojq.TypesInfo
	fd := c.Decl(c.Gojq, "withFunction")
	if fd == nil {
		r.Undecided("iterflag:anchor", token.NoPos, "withFunction not found")
		return
	}
	// the struct of a registered function has one bool for the iterator kind?
	perName := false
	if tn, ok := c.Gojq.Types.Scope().Lookup("function").(*types.TypeName); ok {
		if st, ok := tn.Type().Underlying().(*types.Struct); ok {
			for i := 0; i < st.NumFields(); i++ {
				if b, ok := st.Field(i).Type().Underlying().(*types.Basic); ok && b.Kind() == types.Bool {
					perName = true
				}
			}
		}
	}
	if !perName {
		r.Undecided("iterflag:function", fd.Pos(), "the entry of a registered function no longer carries a single bool for its kind; this rule does not know the new representation")
		return
	}
	found := false
	ast.Inspect(fd.Body, func(m ast.Node) bool {
		ifs, ok := m.(*ast.IfStmt)
		if !ok || found {
			return true
		}
		panics := false
		for _, st := range ifs.Body.List {
			if es, ok := st.(*ast.ExprStmt); ok {
				if call, ok := es.X.(*ast.CallExpr); ok {
					if id, ok := call.Fun.(*ast.Ident); ok && id.Name == "panic" {
						panics = true
					}
				}
			}
		}
		if !panics {
			return true
		}
		// the condition mentions the kind flag
		mentionsIter := false
		ast.Inspect(ifs.Cond, func(q ast.Node) bool {
			if sel, ok := q.(*ast.SelectorExpr); ok {
				if f, ok := info.Uses[sel.Sel].(*types.Var); ok && f.IsField() {
					if b, ok := f.Type().Underlying().(*types.Basic); ok && b.Kind() == types.Bool {
						mentionsIter = true
					}
				}
			}
			return true
		})
		if !mentionsIter {
			return true
		}
		found = true
		_, isConj := unparen(ifs.Cond).(*ast.BinaryExpr)
		weakened := false
		if isConj {
			if b := unparen(ifs.Cond).(*ast.BinaryExpr); b.Op == token.LAND {
				weakened = true
			}
		}
		r.Check(!weakened, "iterflag:guard", ifs.Pos(), "withFunction refuses a second registration of a name whenever its kind differs (`%s`), with no further condition: %v — refused only for overlapping arities, WithFunction(f/0) plus WithIterFunction(f/1) leaves one flag for both, and f/0's array result is silently iterated", c.Src(ifs.Cond), !weakened)
		return true
	})
	if !found {
		r.Undecided("iterflag:guard", fd.Pos(), "no refusal (a panic under a condition on the kind flag) found in withFunction")
	}
}

func ruleResolveDefault(c *Ctx, r *Rep) {
	info := c.Gojq.TypesInfo
	fd := c.Decl(c.Gojq, "resolvePath")
	if fd == nil || fd.Type.Params == nil || len(fd.Type.Params.List) == 0 {
		r.Undecided("resolvedefault:anchor", token.NoPos, "resolvePath not found")
		return
	}
	pathObj := info.Defs[fd.Type.Params.List[0].Names[0]]
	n := 0
	walkStack(fd.Body, func(m ast.Node, stack []ast.Node) bool {
		rs, ok := m.(*ast.ReturnStmt)
		if !ok || len(rs.Results) != 1 {
			return true
		}
		id, ok := unparen(rs.Results[0]).(*ast.Ident)
		if !ok || info.ObjectOf(id) != pathObj {
			return true
		}
		n++
		// the enclosing case (or if) tests filepath.IsAbs(path)
		abs := false
		for _, anc := range stack {
			var conds []ast.Expr
			switch a := anc.(type) {
			case *ast.CaseClause:
				conds = a.List
			case *ast.IfStmt:
				conds = []ast.Expr{a.Cond}
			}
			for _, e := range conds {
				ast.Inspect(e, func(q ast.Node) bool {
					if call, ok := q.(*ast.CallExpr); ok && calleeName(info, call) == "filepath.IsAbs" {
						abs = true
					}
					return true
				})
			}
		}
		r.Check(abs, "resolvedefault:return path", rs.Pos(), "resolvePath returns its argument unchanged under filepath.IsAbs only: %v — a relative `search` that does not start with `./` (`../shared`, `data`) would otherwise be resolved against the working directory of the process instead of the importing file's directory", abs)
		return true
	})
	if n == 0 {
		r.Undecided("resolvedefault:census", fd.Pos(), "resolvePath never returns its argument unchanged (the absolute case does)")
	}
}

func ruleErrorToken(c *Ctx, r *Rep) {
	info := c.Gojq.TypesInfo
	fd := c.Decl(c.Gojq, "lexer.Error")
	if fd == nil {
		r.Undecided("errortoken:anchor", token.NoPos, "lexer.Error not found")
		return
	}
	// the variable that becomes ParseError.Token
	var tokObj types.Object
	ast.Inspect(fd.Body, func(m ast.Node) bool {
		cl, ok := m.(*ast.CompositeLit)
		if !ok {
			return true
		}
		if nt := namedOf(info.TypeOf(cl)); nt == nil || nt.Obj().Name() != "ParseError" {
			return true
		}
		var tok ast.Expr
		for i, el := range cl.Elts {
			if kv, ok := el.(*ast.KeyValueExpr); ok {
				if k, ok := kv.Key.(*ast.Ident); ok && k.Name == "Token" {
					tok = kv.Value
				}
			} else if i == 1 {
				tok = el
			}
		}
		if id, ok := unparen(tok).(*ast.Ident); ok {
			tokObj = info.ObjectOf(id)
		}
		return true
	})
	if tokObj == nil {
		r.Undecided("errortoken:literal", fd.Pos(), "the ParseError literal of lexer.Error does not take its token from a variable")
		return
	}
	var bad []string
	n := 0
	ast.Inspect(fd.Body, func(m ast.Node) bool {
		as, ok := m.(*ast.AssignStmt)
		if !ok || len(as.Lhs) != len(as.Rhs) {
			return true
		}
		for i, l := range as.Lhs {
			id, ok := l.(*ast.Ident)
			if !ok || info.ObjectOf(id) != tokObj {
				continue
			}
			n++
			rhs := unparen(as.Rhs[i])
			switch x := rhs.(type) {
			case *ast.SelectorExpr:
				if x.Sel.Name == "token" {
					continue // l.token
				}
			case *ast.CallExpr:
				// string(rune(l.tokenType)): a conversion, not a cut
				if tv, ok := info.Types[x.Fun]; ok && tv.IsType() {
					continue
				}
			}
			bad = append(bad, c.Src(as))
		}
		return true
	})
	r.Check(len(bad) == 0 && n > 0, "errortoken:lexer.Error", fd.Pos(), "lexer.Error stores the scanned token (or the spelling of a character token) in the ParseError: %v %v — Offset points behind the whole token, and the caret is Offset - len(Token): a token cut to 40 bytes moves the caret len(token) - 40 columns to the right", len(bad) == 0 && n > 0, bad)
}

// ---------------------------------------------------------------------------------------------------------------------
// R-C18-fieldcache: a map kept in a struct field as a cache is keyed by everything its values depend on.

func init() {
	reg(&Rule{ID: "R-C18-fieldcache", Props: []string{"C18", "C06"}, Floor: 0,
		Doc: "where a function of package gojq looks a key up in a map-typed struct field and stores into the same field (a cache), every parameter field the stored value depends on is determined by the key: a cache of loaded data keyed by the import path alone returns the first file for every later import of that name, whatever its `search` metadata resolves to",
		Run: ruleFieldCache})
}

func ruleFieldCache(c *Ctx, r *Rep) {
	info := c.Gojq.TypesInfo
	n := 0
	for _, fd := range c.Decls(c.Gojq) {
		var recv types.Object
		if fd.Recv != nil && len(fd.Recv.List) == 1 && len(fd.Recv.List[0].Names) == 1 {
			recv = info.Defs[fd.Recv.List[0].Names[0]]
		}
		params := map[types.Object]bool{}
		if fd.Type.Params != nil {
			for _, f := range fd.Type.Params.List {
				for _, nm := range f.Names {
					if o := info.Defs[nm]; o != nil {
						params[o] = true
					}
				}
			}
		}
		isFieldMap := func(e ast.Expr) (string, bool) {
			sel, ok := unparen(e).(*ast.SelectorExpr)
			if !ok {
				return "", false
			}
			f, ok := info.Uses[sel.Sel].(*types.Var)
			if !ok || !f.IsField() {
				return "", false
			}
			if _, ok := f.Type().Underlying().(*types.Map); !ok {
				return "", false
			}
			return types.ExprString(sel), true
		}
		// stores and lookups per field
		type site struct {
			key, val ast.Expr
			pos      token.Pos
		}
		stores := map[string][]site{}
		lookups := map[string]bool{}
		ast.Inspect(fd.Body, func(m ast.Node) bool {
			as, ok := m.(*ast.AssignStmt)
			if !ok {
				return true
			}
			for i, l := range as.Lhs {
				if ix, ok := unparen(l).(*ast.IndexExpr); ok {
					if f, ok := isFieldMap(ix.X); ok && i < len(as.Rhs) {
						stores[f] = append(stores[f], site{ix.Index, as.Rhs[i], as.Pos()})
					}
				}
			}
			if len(as.Lhs) == 2 && len(as.Rhs) == 1 {
				if ix, ok := unparen(as.Rhs[0]).(*ast.IndexExpr); ok {
					if f, ok := isFieldMap(ix.X); ok {
						lookups[f] = true
					}
				}
			}
			return true
		})
		if len(stores) == 0 {
			continue
		}
		// a registry, not a cache: the branch taken when the key is already present stores too (a merge of registrations)
		registry := map[string]bool{}
		ast.Inspect(fd.Body, func(m ast.Node) bool {
			ifs, ok := m.(*ast.IfStmt)
			if !ok || ifs.Init == nil {
				return true
			}
			as, ok := ifs.Init.(*ast.AssignStmt)
			if !ok || len(as.Lhs) != 2 || len(as.Rhs) != 1 {
				return true
			}
			ix, ok := unparen(as.Rhs[0]).(*ast.IndexExpr)
			if !ok {
				return true
			}
			f, ok := isFieldMap(ix.X)
			if !ok {
				return true
			}
			okId, isId := as.Lhs[1].(*ast.Ident)
			if cid, isCond := unparen(ifs.Cond).(*ast.Ident); !isId || !isCond || info.ObjectOf(cid) != info.ObjectOf(okId) {
				return true
			}
			for _, s := range stores[f] {
				if s.pos >= ifs.Body.Pos() && s.pos < ifs.Body.End() {
					registry[f] = true
				}
			}
			return true
		})
		assigns := map[types.Object][]ast.Expr{}
		ast.Inspect(fd.Body, func(m ast.Node) bool {
			as, ok := m.(*ast.AssignStmt)
			if !ok {
				return true
			}
			for i, l := range as.Lhs {
				if id, ok := l.(*ast.Ident); ok {
					if o := info.ObjectOf(id); o != nil {
						assigns[o] = append(assigns[o], as.Rhs[min(i, len(as.Rhs)-1)])
					}
				}
			}
			return true
		})
		var deps func(e ast.Expr, out map[string]bool, seen map[types.Object]bool)
		deps = func(e ast.Expr, out map[string]bool, seen map[types.Object]bool) {
			var visit func(n ast.Node) bool
			visit = func(n ast.Node) bool {
				switch x := n.(type) {
				case *ast.SelectorExpr:
					// a chain rooted at a parameter: p.f.g
					root := unparen(x.X)
					chain := x.Sel.Name
					for {
						if s2, ok := root.(*ast.SelectorExpr); ok {
							chain = s2.Sel.Name + "." + chain
							root = unparen(s2.X)
							continue
						}
						break
					}
					if id, ok := root.(*ast.Ident); ok {
						o := info.ObjectOf(id)
						if o == recv && recv != nil {
							return false // configuration of the receiver: the same for every call
						}
						if params[o] {
							if _, isFn := info.Uses[x.Sel].(*types.Func); isFn {
								// p.f.Method(): depends on p.f
								if i := strings.LastIndex(chain, "."); i >= 0 {
									out[o.Name()+"."+chain[:i]] = true
								} else {
									out[o.Name()] = true
								}
							} else {
								out[o.Name()+"."+chain] = true
							}
							return false
						}
					}
					return true
				case *ast.Ident:
					o, ok := info.Uses[x].(*types.Var)
					if !ok || o.IsField() {
						return true
					}
					if o == recv {
						return true
					}
					if params[o] {
						out[o.Name()] = true
						return true
					}
					if seen[o] {
						return true
					}
					seen[o] = true
					for _, rhs := range assigns[o] {
						deps(rhs, out, seen)
					}
				}
				return true
			}
			ast.Inspect(e, visit)
		}
		for f, ss := range stores {
			if !lookups[f] || registry[f] {
				continue // not read back in this function, or merged on a hit: not a cache lookup/fill pair
			}
			for _, s := range ss {
				n++
				kd, vd := map[string]bool{}, map[string]bool{}
				deps(s.key, kd, map[types.Object]bool{})
				deps(s.val, vd, map[types.Object]bool{})
				var missing []string
				for d := range vd {
					covered := false
					for k := range kd {
						if d == k || strings.HasPrefix(d, k+".") {
							covered = true
						}
					}
					if !covered {
						missing = append(missing, d)
					}
				}
				sort.Strings(missing)
				r.Check(len(missing) == 0, "fieldcache:"+declKey(fd)+":"+f, s.pos, "%s fills the cache %s under a key that determines everything the stored value depends on (key: %v): %v %v — the first caller's value is otherwise handed to every later caller whose key is equal and whose other arguments are not (a data file imported by name from two directories with their own `search`)", declKey(fd), f, keysOf(kd), len(missing) == 0, missing)
			}
		}
	}
	if n == 0 {
		r.OK("fieldcache:none", token.NoPos, "no function of package gojq uses a map-typed struct field as a cache")
	}
}

// ---------------------------------------------------------------------------------------------------------------------
// R-C02-release: a value that comes back from the update function is not trusted to be unshared.

func init() {
	reg(&Rule{ID: "R-C02-release", Props: []string{"C02", "C05"}, Floor: 1,
		Doc: "before setpath stores a new value under an allocator, it gives up the allocator's ownership of every container reachable from that value (a method of the allocator that deletes its argument's address and recurses into arrays and objects, called on the new value ahead of update): the update function may have put a container allocated by an earlier step into its output, twice, and an in-place write through one of the two positions would change the other",
		Run: ruleRelease})
	addDecided("C02", " Ownership of what the update function returns is given up before it is stored (R-C02-release; D50).")
}

func ruleRelease(c *Ctx, r *Rep) {
	info := c.Gojq.TypesInfo
	fd := c.Decl(c.Gojq, "setpath")
	if fd == nil || fd.Type.Params == nil {
		r.Undecided("release:anchor", token.NoPos, "setpath not found")
		return
	}
	var params []types.Object
	for _, f := range fd.Type.Params.List {
		for _, nm := range f.Names {
			params = append(params, info.Defs[nm])
		}
	}
	var allocObj, newObj types.Object
	for _, p := range params {
		if n := namedOf(p.Type()); n != nil && n.Obj().Name() == "allocator" {
			allocObj = p
		}
	}
	if len(params) >= 3 {
		newObj = params[2]
	}
	if allocObj == nil || newObj == nil {
		r.Undecided("release:params", fd.Pos(), "setpath does not take (value, path, new value, allocator)")
		return
	}
	var updatePos token.Pos
	ast.Inspect(fd.Body, func(m ast.Node) bool {
		if call, ok := m.(*ast.CallExpr); ok && calleeName(info, call) == "gojq.update" && !updatePos.IsValid() {
			updatePos = call.Pos()
		}
		return true
	})
	good := ""
	ast.Inspect(fd.Body, func(m ast.Node) bool {
		call, ok := m.(*ast.CallExpr)
		if !ok || len(call.Args) != 1 || (updatePos.IsValid() && call.Pos() > updatePos) {
			return true
		}
		sel, ok := call.Fun.(*ast.SelectorExpr)
		if !ok {
			return true
		}
		if id, ok := unparen(sel.X).(*ast.Ident); !ok || info.ObjectOf(id) != allocObj {
			return true
		}
		if id, ok := unparen(call.Args[0]).(*ast.Ident); !ok || info.ObjectOf(id) != newObj {
			return true
		}
		d := c.Decl(c.Gojq, "allocator."+sel.Sel.Name)
		if d == nil {
			return true
		}
		deletes, recurses, arrays, objects := false, false, false, false
		ast.Inspect(d.Body, func(q ast.Node) bool {
			switch x := q.(type) {
			case *ast.CallExpr:
				if id, ok := x.Fun.(*ast.Ident); ok && id.Name == "delete" {
					deletes = true
				}
				if s2, ok := x.Fun.(*ast.SelectorExpr); ok && s2.Sel.Name == sel.Sel.Name {
					recurses = true
				}
			case *ast.CaseClause:
				for _, e := range x.List {
					switch types.ExprString(e) {
					case "[]any":
						arrays = true
					case "map[string]any":
						objects = true
					}
				}
			}
			return true
		})
		if deletes && recurses && arrays && objects {
			good = "allocator." + sel.Sel.Name
		}
		// (fourth session) every container is walked, owned or not: inside the container arms nothing returns before the
		// recursion (an unowned wrapper built by the update function can hold an owned container twice)
		prunes := token.NoPos
		ast.Inspect(d.Body, func(q ast.Node) bool {
			cc, ok := q.(*ast.CaseClause)
			if !ok {
				return true
			}
			isContainer := false
			for _, e := range cc.List {
				if t := types.ExprString(e); t == "[]any" || t == "map[string]any" {
					isContainer = true
				}
			}
			if !isContainer {
				return true
			}
			var recPos token.Pos
			for _, st := range cc.Body {
				ast.Inspect(st, func(z ast.Node) bool {
					if x, ok := z.(*ast.CallExpr); ok {
						if s2, ok := x.Fun.(*ast.SelectorExpr); ok && s2.Sel.Name == sel.Sel.Name && !recPos.IsValid() {
							recPos = x.Pos()
						}
					}
					return true
				})
			}
			for _, st := range cc.Body {
				ast.Inspect(st, func(z ast.Node) bool {
					if rs, ok := z.(*ast.ReturnStmt); ok && (!recPos.IsValid() || rs.Pos() < recPos) {
						prunes = rs.Pos()
					}
					return true
				})
			}
			return true
		})
		r.Check(!prunes.IsValid(), "release:walks-everything", d.Pos(), "allocator.%s returns from a container arm before recursing into the elements (%s): %v — a wrapper the update function has just built is not owned, but it can hold an owned container twice: `{\"a\":{\"x\":1}} | (.a.x, .a, .a.p.x) |= (if type==\"object\" then {p:.,q:.} else .+1 end)` then writes q.x through p.x", sel.Sel.Name, c.Pos(prunes), prunes.IsValid())
		// and setpath reaches the call on every path that stores the new value: no return before it except the error
		// returns of the argument checks (returns of an error composite)
		early := token.NoPos
		ast.Inspect(fd.Body, func(q ast.Node) bool {
			rs, ok := q.(*ast.ReturnStmt)
			if !ok || rs.Pos() > call.Pos() || len(rs.Results) != 1 {
				return true
			}
			if u, ok := unparen(rs.Results[0]).(*ast.UnaryExpr); ok && u.Op == token.AND {
				if cl, ok := u.X.(*ast.CompositeLit); ok {
					if t := info.TypeOf(cl); t != nil && (types.Implements(types.NewPointer(t), errorIface()) || types.Implements(t, errorIface())) {
						return true
					}
				}
			}
			early = rs.Pos()
			return true
		})
		r.Check(!early.IsValid(), "release:no-early-return", fd.Pos(), "setpath returns a value before it has released the new value (%s): %v — a shortcut for the empty path (`return n`) skips the release when the update function's result replaces the root", c.Pos(early), early.IsValid())
		return true
	})
	r.Check(good != "", "release:setpath", fd.Pos(), "setpath gives up ownership of the containers in the new value before update stores it (%s): %v — `{\"a\":[[0]]} | (.a[0][0], .a, .a[0][0]) |= (if type == \"number\" then .+1 else [.[0], .[0]] end)` otherwise yields [[2],[2]] where the defining reduction gives [[2],[1]]: the duplicated array is still owned and is written in place through one of its two positions", good, good != "")
}

// ---------------------------------------------------------------------------------------------------------------------
// R-C02-inplaceslice: a slice update writes into the owned array only what does not look back into it.

func init() {
	reg(&Rule{ID: "R-C02-inplaceslice", Props: []string{"C02", "C08", "C05"}, Floor: 1,
		Doc: "where updateArraySlice reuses the array it owns for the result of a slice update (instead of building a new one), it has checked that the replacement contains no slice of that array (a negated call, in the same condition, of a function that compares data pointers against the array's span): the update function was handed such a slice as its input, and written back in place `[0,1] | (.[1:],.[1:]) |= [.]` makes the array an element of itself — a cyclic value that overflows the stack of whatever walks it next",
		Run: ruleInPlaceSlice})
	addDecided("C02", " The in-place branch of a slice update refuses a replacement that contains a slice of the array itself (R-C02-inplaceslice; D7).")
}

func ruleInPlaceSlice(c *Ctx, r *Rep) {
	info := c.Gojq.TypesInfo
	fd := c.Decl(c.Gojq, "updateArraySlice")
	if fd == nil || fd.Type.Params == nil {
		r.Undecided("inplaceslice:anchor", token.NoPos, "updateArraySlice not found")
		return
	}
	arr := info.Defs[fd.Type.Params.List[0].Names[0]]
	n := 0
	ast.Inspect(fd.Body, func(m ast.Node) bool {
		cc, ok := m.(*ast.CaseClause)
		if !ok || len(cc.List) != 1 || types.ExprString(cc.List[0]) != "[]any" {
			return true
		}
		ast.Inspect(cc, func(q ast.Node) bool {
			ifs, ok := q.(*ast.IfStmt)
			if !ok {
				return true
			}
			reuses := false
			for _, st := range ifs.Body.List {
				if as, ok := st.(*ast.AssignStmt); ok && len(as.Rhs) == 1 {
					if id, ok := unparen(as.Rhs[0]).(*ast.Ident); ok && info.ObjectOf(id) == arr {
						reuses = true
					}
				}
			}
			if !reuses {
				return true
			}
			n++
			checked := ""
			ast.Inspect(ifs.Cond, func(w ast.Node) bool {
				u, ok := w.(*ast.UnaryExpr)
				if !ok || u.Op != token.NOT {
					return true
				}
				call, ok := unparen(u.X).(*ast.CallExpr)
				if !ok || len(call.Args) != 2 {
					return true
				}
				if id, ok := unparen(call.Args[1]).(*ast.Ident); !ok || info.ObjectOf(id) != arr {
					return true
				}
				f, ok := callee(info, call).(*types.Func)
				if !ok {
					return true
				}
				d := c.Decl(c.Gojq, f.Name())
				if d == nil {
					return true
				}
				ptr, span, rec := false, false, false
				ast.Inspect(d.Body, func(z ast.Node) bool {
					if cl, ok := z.(*ast.CallExpr); ok {
						if s, ok := cl.Fun.(*ast.SelectorExpr); ok && s.Sel.Name == "Pointer" {
							ptr = true
						}
						if id, ok := cl.Fun.(*ast.Ident); ok && id.Name == "cap" {
							span = true
						}
						if id, ok := cl.Fun.(*ast.Ident); ok && id.Name == f.Name() {
							rec = true
						}
					}
					return true
				})
				if ptr && span && rec {
					checked = f.Name()
				}
				return true
			})
			r.Check(checked != "", "inplaceslice:[]any", ifs.Pos(), "updateArraySlice reuses its own array for the result only after !%s(replacement, array), which compares data pointers with the array's span recursively: %v — without it `[0,1] | (.[1:],.[1:]) |= [.]` builds a cyclic value and the process dies with a stack overflow", checked, checked != "")
			return true
		})
		return false
	})
	if n == 0 {
		r.Undecided("inplaceslice:census", fd.Pos(), "updateArraySlice has no branch that reuses its array for an array-valued replacement")
	}
}
