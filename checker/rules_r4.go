package main

// Rules added in the fourth round (defects D31, D32 and the fourth batch of seeded changes); see DESIGN.md sections 3 and 8.

import (
	"fmt"
	"go/ast"
	"go/constant"
	"go/token"
	"go/types"
	"os"
	"sort"
	"strconv"
	"strings"
)

func init() {
	reg(&Rule{ID: "R-C08-nativearity", Props: []string{"C08", "C19"}, Floor: 3,
		Doc: "in the VM's native-call clause every fixed-position read args[K] lies under a condition that bounds the argument count above K: the clause dispatches on the callee's name, and a function registered with WithFunction may carry any name with any arity",
		Run: ruleNativeArity})
	addDecided("C08", " R-C08-nativearity: the positional reads of the native-call clause of the VM are bounded by the call's own argument count (D31).")
	addDecided("C19", " R-C08-nativearity: a host function that shares the name of a path-aware native but not its arity cannot reach that native's path bookkeeping (D31).")
}

// addDecided appends to a property's "decided" text whether or not the property is registered yet.
func addDecided(id, text string) {
	if p := props[id]; p != nil {
		p.Decided += text
	} else {
		pendingDecided[id] += text
	}
}

// ruleNativeArity: execute.go's opcall clause pops argcnt arguments into args := env.args[:argcnt] and, when a path is
// being tracked, reads args[0], args[1], args[2] depending on the *name* stored in the instruction. The name of a host
// function is chosen by the user, the arity too; a read args[K] that is not control-dependent on argcnt > K indexes
// past the slice for `path(getpath)` with a 0-ary host function named getpath — a run-time panic out of Next.
func ruleNativeArity(c *Ctx, r *Rep) {
	vm := getVM(c)
	if vm.Err != "" {
		r.Undecided("vm-model", token.NoPos, "%s", vm.Err)
		return
	}
	cl := vm.ByOp["opcall"]
	if cl == nil {
		r.Undecided("opcall", token.NoPos, "no opcall clause in the dispatch switch")
		return
	}
	info := vm.info
	// args := <x>[:argcnt]
	var argsObj, cntObj types.Object
	ast.Inspect(cl.CC, func(n ast.Node) bool {
		as, ok := n.(*ast.AssignStmt)
		if !ok || as.Tok != token.DEFINE || len(as.Lhs) != len(as.Rhs) {
			return true
		}
		for i, rhs := range as.Rhs {
			se, ok := unparen(rhs).(*ast.SliceExpr)
			if !ok || se.High == nil || se.Low != nil {
				continue
			}
			hi, ok := unparen(se.High).(*ast.Ident)
			id, ok2 := as.Lhs[i].(*ast.Ident)
			if !ok || !ok2 {
				continue
			}
			if t, ok := info.TypeOf(rhs).Underlying().(*types.Slice); !ok || !types.Identical(t.Elem(), types.NewInterfaceType(nil, nil)) {
				continue
			}
			argsObj, cntObj = info.Defs[id], info.Uses[hi]
		}
		return true
	})
	if argsObj == nil || cntObj == nil {
		r.Undecided("args", cl.CC.Pos(), "the clause no longer binds its argument slice as `args := <buffer>[:<count>]`; the rule does not know which reads are positional")
		return
	}
	isCnt := func(e ast.Expr) bool {
		e = unparen(e)
		if id, ok := e.(*ast.Ident); ok {
			return info.Uses[id] == cntObj
		}
		if call, ok := e.(*ast.CallExpr); ok && len(call.Args) == 1 {
			if f, ok := call.Fun.(*ast.Ident); ok && f.Name == "len" {
				if id, ok := unparen(call.Args[0]).(*ast.Ident); ok {
					return info.Uses[id] == argsObj
				}
			}
		}
		return false
	}
	intOf := func(e ast.Expr) (int64, bool) {
		tv, ok := info.Types[e]
		if !ok || tv.Value == nil || tv.Value.Kind() != constant.Int {
			return 0, false
		}
		return constant.Int64Val(tv.Value)
	}
	// lower bound on the count implied by a condition holding (conjunctions only); mention reports whether the count
	// is referred to at all; notRead is set when a reference to the count is in a form the rule does not evaluate
	notRead := false
	var lower func(e ast.Expr) (min int64, mention bool)
	lower = func(e ast.Expr) (int64, bool) {
		e = unparen(e)
		b, ok := e.(*ast.BinaryExpr)
		if !ok {
			return 0, mentions(e, isCnt)
		}
		if b.Op == token.LAND {
			l, lm := lower(b.X)
			rr, rm := lower(b.Y)
			return max(l, rr), lm || rm
		}
		x, y, op := b.X, b.Y, b.Op
		if !isCnt(x) && isCnt(y) {
			x, y = y, x
			switch op {
			case token.LSS:
				op = token.GTR
			case token.LEQ:
				op = token.GEQ
			case token.GTR:
				op = token.LSS
			case token.GEQ:
				op = token.LEQ
			}
		}
		if isCnt(x) {
			if k, ok := intOf(y); ok {
				switch op {
				case token.EQL, token.GEQ:
					return k, true
				case token.GTR:
					return k + 1, true
				case token.NEQ, token.LSS, token.LEQ:
					return 0, true // understood: no lower bound follows
				}
			}
			notRead = true
			return 0, true
		}
		if mentions(e, isCnt) {
			notRead = true
			return 0, true
		}
		return 0, false
	}
	n := 0
	walkStack(cl.CC, func(m ast.Node, stack []ast.Node) bool {
		ix, ok := m.(*ast.IndexExpr)
		if !ok {
			return true
		}
		id, ok := unparen(ix.X).(*ast.Ident)
		if !ok || info.Uses[id] != argsObj {
			return true
		}
		k, ok := intOf(ix.Index)
		if !ok {
			return true // args[i] under `for i := range argcnt`: bounded by construction of the loop
		}
		n++
		var bound int64
		mention := false
		notRead = false
		for i := len(stack) - 1; i >= 0; i-- {
			switch s := stack[i].(type) {
			case *ast.IfStmt:
				if ix.Pos() >= s.Body.Pos() && ix.End() <= s.Body.End() {
					b, mt := lower(s.Cond)
					bound, mention = max(bound, b), mention || mt
				}
			case *ast.CaseClause:
				if i == 0 {
					continue
				}
				sw, ok := stack[i-1].(*ast.BlockStmt)
				if !ok || i < 2 {
					continue
				}
				if ss, ok := stack[i-2].(*ast.SwitchStmt); ok && sw == ss.Body {
					if ss.Tag == nil {
						if len(s.List) == 1 {
							b, mt := lower(s.List[0])
							bound, mention = max(bound, b), mention || mt
						} else {
							// a disjunction of conditions: the weakest bound holds
							lb := int64(1 << 30)
							for _, e := range s.List {
								b, mt := lower(e)
								lb, mention = min(lb, b), mention || mt
							}
							if len(s.List) > 0 {
								bound = max(bound, lb)
							}
						}
					} else if isCnt(ss.Tag) {
						lb := int64(1 << 30)
						for _, e := range s.List {
							if v, ok := intOf(e); ok {
								lb = min(lb, v)
							} else {
								lb = 0
							}
						}
						if len(s.List) > 0 {
							bound, mention = max(bound, lb), true
						}
					} else if mentions(ss.Tag, isCnt) {
						mention, notRead = true, true
					}
				}
			}
		}
		arm := ""
		for i := len(stack) - 1; i >= 0; i-- {
			if cc, ok := stack[i].(*ast.CaseClause); ok && cc != cl.CC && len(cc.List) > 0 {
				if s := firstStringLit(cc.List[0]); s != "" {
					arm = s
					break
				}
			}
		}
		key := "args[" + strconv.Itoa(int(k)) + "]:" + arm
		switch {
		case bound > k:
			r.OK(key, ix.Pos(), "args[%d] in the %q arm is read only when the argument count is at least %d", k, arm, bound)
		case mention && !notRead:
			r.Bad(key, ix.Pos(), "args[%d] in the %q arm is read under a condition that only guarantees %d arguments: a call of that name with %d arguments indexes past the argument slice (a run-time panic out of Next)", k, arm, bound, bound)
		case mention:
			r.Undecided(key, ix.Pos(), "args[%d] in the %q arm lies under a condition on the argument count that this rule cannot evaluate to a bound above %d", k, arm, k)
		default:
			r.Bad(key, ix.Pos(), "args[%d] in the %q arm of the native-call clause is read whatever the argument count: the arm is chosen by the callee's name alone, and a WithFunction callback may bear that name with fewer than %d parameters (`path(%s)` then panics with index out of range)", k, arm, k+1, arm)
		}
		return true
	})
	if n == 0 {
		r.Info("census", cl.CC.Pos(), "no positional read of the argument slice in the native-call clause")
	}
}

// firstStringLit returns the first string constant literal inside e ("" if none).
func firstStringLit(e ast.Expr) string {
	s := ""
	ast.Inspect(e, func(n ast.Node) bool {
		if s != "" {
			return false
		}
		if bl, ok := n.(*ast.BasicLit); ok && bl.Kind == token.STRING {
			if v, err := strconv.Unquote(bl.Value); err == nil {
				s = v
			}
		}
		return true
	})
	return s
}

// ---------------------------------------------------------------------------------------------------------------------
// R-C19-argvalues: the arguments of a native call are evaluated as values.

func init() {
	reg(&Rule{ID: "R-C19-argvalues", Props: []string{"C19", "C02"}, Floor: 6,
		Doc: "in every emission template of a native call (operators, natives, WithFunction callbacks) each argument that the VM does not navigate from is evaluated inside an opexpbegin/opexpend bracket, unless the lowering code has established through its value predicate that the argument is a literal, a variable or the input itself (R-C19-valuepred checks that predicate): an argument evaluated with path tracking on leaves its navigation on the path stack, so `(.a + 0) |= 7` updates .a instead of failing and path(g(.a)) differs between a Go callback and the equivalent def",
		Run: ruleArgValues})
	addDecided("C19", " R-C19-argvalues/R-C19-valuepred: arguments of natives and host callbacks are evaluated as values (bracketed, or syntactically unable to navigate), as the arguments bound by a jq definition with $-parameters are (D32).")
	addDecided("C02", " R-C19-argvalues: navigation performed while evaluating the argument of a native never stays on the path stack, so a computed result is never mistaken for the location the argument visited (D32).")
}

// vmFirstArgTracked: the natives for which the VM navigates from args[0] (pathIntact is applied to a value read from
// args[0]); their first argument is evaluated with path tracking on by design.
func vmFirstArgTracked(vm *VM) (map[string]bool, bool) {
	out := map[string]bool{}
	cl := vm.ByOp["opcall"]
	if cl == nil {
		return nil, false
	}
	seen := false
	ast.Inspect(cl.CC, func(n ast.Node) bool {
		cc, ok := n.(*ast.CaseClause)
		if !ok || cc == cl.CC || len(cc.List) == 0 {
			return true
		}
		name := firstStringLit(cc.List[0])
		if name == "" {
			return true
		}
		fromArgs0 := map[types.Object]bool{}
		isArgs0 := func(e ast.Expr) bool {
			ix, ok := unparen(e).(*ast.IndexExpr)
			if !ok {
				return false
			}
			tv, ok := vm.info.Types[ix.Index]
			return ok && tv.Value != nil && tv.Value.String() == "0" && types.ExprString(ix.X) == "args"
		}
		for _, st := range cc.Body {
			ast.Inspect(st, func(m ast.Node) bool {
				switch x := m.(type) {
				case *ast.AssignStmt:
					for i, rhs := range x.Rhs {
						if i < len(x.Lhs) && isArgs0(rhs) {
							if id, ok := x.Lhs[i].(*ast.Ident); ok {
								fromArgs0[vm.info.ObjectOf(id)] = true
							}
						}
					}
				case *ast.CallExpr:
					if vm.envMethod(x) == "pathIntact" && len(x.Args) == 1 {
						seen = true
						a := unparen(x.Args[0])
						if isArgs0(a) {
							out[name] = true
						} else if id, ok := a.(*ast.Ident); ok && fromArgs0[vm.info.ObjectOf(id)] {
							out[name] = true
						}
					}
				}
				return true
			})
		}
		return true
	})
	return out, seen
}

// valuePredicates: the bool methods on *Query that compileCallInternal consults (the "this argument cannot navigate" test).
func valuePredicates(c *Ctx) map[string]*types.Func {
	out := map[string]*types.Func{}
	fd := c.Decl(c.Gojq, "compiler.compileCallInternal")
	if fd == nil {
		return out
	}
	info := c.Gojq.TypesInfo
	ast.Inspect(fd.Body, func(n ast.Node) bool {
		call, ok := n.(*ast.CallExpr)
		if !ok {
			return true
		}
		sel, ok := call.Fun.(*ast.SelectorExpr)
		if !ok {
			return true
		}
		fn, ok := info.Uses[sel.Sel].(*types.Func)
		if !ok {
			return true
		}
		sig := fn.Type().(*types.Signature)
		if sig.Recv() == nil || sig.Results().Len() != 1 || sig.Params().Len() != 0 {
			return true
		}
		if b, ok := sig.Results().At(0).Type().(*types.Basic); !ok || b.Kind() != types.Bool {
			return true
		}
		if n := namedOf(sig.Recv().Type()); n != nil && n.Obj().Name() == "Query" {
			out[fn.Name()] = fn
		}
		return true
	})
	return out
}

// cciInputs: compileCallInternal as called for a native (internal = true), 1..3 arguments, indexing 0 or 1.
func cciInputs() []map[string]tVal {
	var out []map[string]tVal
	for n := 1; n <= 3; n++ {
		for ix := 0; ix <= 1 && ix < n; ix++ {
			args := make([]tVal, n)
			for i := range args {
				args[i] = topaque(fmt.Sprintf("arg%d", i))
			}
			out = append(out, map[string]tVal{"args": tlist(args...), "internal": tbool(true), "indexing": {k: tvInt, i: ix},
				"name": tstr(fmt.Sprintf("%d-args/indexing-%d", n, ix))})
		}
	}
	return out
}

var cciRoot = tplRoot{fn: "compileCallInternal", entry: 1, end: 1, inputs: cciInputs, name: "compileCallInternal/native", limit: 6000}

func ruleArgValues(c *Ctx, r *Rep) {
	vm := getVM(c)
	if vm.Err != "" {
		r.Undecided("vm-model", token.NoPos, "%s", vm.Err)
		return
	}
	tracked, seen := vmFirstArgTracked(vm)
	if !seen {
		r.Undecided("vm-tracked", token.NoPos, "no pathIntact test found in the arms of the native-call clause: cannot tell which natives navigate from their first argument")
		return
	}
	preds := valuePredicates(c)
	info := c.Gojq.TypesInfo
	fd := c.Decl(c.Gojq, "compiler.compileCallInternal")
	if fd == nil {
		r.Undecided("argvalues:compileCallInternal", token.NoPos, "not found")
		return
	}
	// ---- part A: what compileCallInternal emits for indexing = k: the arguments from k on are values ----
	inert := map[string]bool{"oppush": true, "opload": true, "opconst": true}
	type agg struct {
		calls, bracketed, inert, tracked, claimed int
		bad, undec, badTpl                        string
	}
	byLabel := map[string]*agg{}
	var labels []string
	for _, v := range tplVariantsOf(c, cciRoot, fd) {
		if v.Unsupported != "" || v.AssertProblem != "" {
			continue
		}
		seq, why := tplToBC(v.Items)
		if why != "" {
			continue
		}
		probs, reached, _, _ := bcVerifyFrom(seq, 0, cciRoot.entry, false)
		if len(probs) > 0 {
			continue // R-C01-template reports inconsistent templates
		}
		expAt := append([]int(nil), bcLastExp...)
		a := byLabel[v.Label]
		if a == nil {
			a = &agg{}
			byLabel[v.Label] = a
			labels = append(labels, v.Label)
		}
		var nargs, indexing int
		fmt.Sscanf(strings.TrimPrefix(v.Label, "call:"), "%d-args/indexing-%d", &nargs, &indexing)
		// what the lowering code established about each argument through its value predicate
		claimed, denied := map[int]bool{}, map[int]bool{}
		opaque := false
		for _, ch := range v.Choices {
			if !strings.HasPrefix(ch, "cond:") {
				continue
			}
			for name := range preds {
				if !strings.Contains(ch, "."+name+"()") {
					continue
				}
				eq := strings.LastIndex(ch, "=")
				cond := strings.TrimPrefix(ch[:eq], "cond:")
				if at := strings.LastIndex(cond, "@"); at > 0 {
					cond = cond[:at]
				}
				val := ch[eq+1:] == "1"
				if strings.HasPrefix(cond, "!") {
					val = !val
					cond = cond[1:]
				}
				var ix int
				if n, err := fmt.Sscanf(cond, "arg%d."+name+"()", &ix); n != 1 || err != nil || cond != fmt.Sprintf("arg%d.%s()", ix, name) {
					opaque = true
					continue
				}
				if val {
					claimed[ix] = true
				} else {
					denied[ix] = true
				}
			}
		}
		if os.Getenv("VERIF_ARGV_DEBUG") == v.Label {
			fmt.Fprintf(os.Stderr, "%s | %s | claimed=%v denied=%v opaque=%v\n", tplRender(v.Items), strings.Join(v.Choices, " "), claimed, denied, opaque)
		}
		ci := len(seq) - 1
		if ci < 0 || seq[ci].Op != "opcall" || !reached[ci] {
			a.undec = fmt.Sprintf("the template does not end with the call [%s]", tplRender(v.Items))
			continue
		}
		a.calls++
		var order []string
		segs := map[string][]int{}
		for j := 0; j < ci; j++ {
			lp := v.Items[j].loop
			if lp == v.Items[ci].loop {
				continue // emitted outside the argument loop (store, bracket, reload of the input)
			}
			key := argLoopKey(v.Items[ci].loop, lp)
			if _, ok := segs[key]; !ok {
				order = append(order, key)
			}
			segs[key] = append(segs[key], j)
		}
		if len(order) != nargs {
			a.undec = fmt.Sprintf("%d argument segments found for a call with %d arguments [%s]", len(order), nargs, tplRender(v.Items))
			continue
		}
		for k, key := range order {
			argIx := nargs - 1 - k
			idxs := segs[key]
			isInert := true
			for _, j := range idxs {
				if v.Items[j].isHole || !inert[seq[j].Op] {
					isInert = false
				}
			}
			// the instruction that evaluates the argument on the inline flow: the last of the segment that is not the
			// closing bracket itself
			last := -1
			for _, j := range idxs {
				if seq[j].Op != "opexpend" && reached[j] {
					last = j
				}
			}
			depth := -1
			if last >= 0 && last < len(expAt) {
				depth = expAt[last]
			}
			switch {
			case argIx < indexing:
				a.tracked++
			case isInert:
				a.inert++
			case depth > 0:
				a.bracketed++
			case depth < 0:
				a.undec = fmt.Sprintf("argument %d: no instruction of its segment is on the inline flow [%s]", argIx, tplRender(v.Items))
			case claimed[argIx] && !denied[argIx] && !opaque:
				a.claimed++
			case opaque:
				a.undec = fmt.Sprintf("argument %d is evaluated outside a bracket under a condition on the value predicate this rule cannot read {%s}", argIx, strings.Join(v.Choices, ", "))
			default:
				if a.bad == "" {
					a.bad = fmt.Sprintf("argument %d of a native call with %d arguments (indexing = %d) is evaluated at exp nesting 0, with path tracking on, although the lowering code has not established that it cannot navigate", argIx, nargs, indexing)
					a.badTpl = tplRender(v.Items) + " {" + strings.Join(v.Choices, ", ") + "}"
				}
			}
		}
	}
	sort.Strings(labels)
	total := 0
	for _, lb := range labels {
		a := byLabel[lb]
		total += a.calls
		key := "argvalues:" + strings.TrimPrefix(lb, "call:")
		switch {
		case a.bad != "":
			r.Bad(key, fd.Pos(), "%s — template [%s]", a.bad, a.badTpl)
		case a.undec != "":
			r.Undecided(key, fd.Pos(), "%s", a.undec)
		case a.calls == 0:
			r.Undecided(key, fd.Pos(), "no template could be modelled")
		default:
			r.OK(key, fd.Pos(), "%d templates: %d argument evaluations bracketed, %d inert (push/load only), %d navigated from by design (below indexing), %d outside a bracket under the value predicate", a.calls, a.bracketed, a.inert, a.tracked, a.claimed)
		}
	}
	if total == 0 {
		r.Undecided("argvalues:census", token.NoPos, "no template of compileCallInternal could be modelled")
	}
	if t := tplTruncatedInputs[cciRoot.fn+"/"+cciRoot.name]; t > 0 {
		r.Info("argvalues:truncated", fd.Pos(), "the exploration of %d argument-count/indexing combinations stopped at its variant limit", t)
	}
	// ---- part B: every call site that asks for native argument evaluation passes indexing >= 0, except path(f) ----
	sites := 0
	for _, caller := range c.Decls(c.Gojq) {
		walkStack(caller.Body, func(n ast.Node, stack []ast.Node) bool {
			call, ok := n.(*ast.CallExpr)
			if !ok || len(call.Args) != 4 {
				return true
			}
			sel, ok := call.Fun.(*ast.SelectorExpr)
			if !ok || sel.Sel.Name != "compileCallInternal" {
				return true
			}
			if tv, ok := info.Types[call.Args[2]]; !ok || tv.Value == nil || tv.Value.String() != "true" {
				return true // internal = false: the arguments are closures, not evaluated here
			}
			sites++
			what := c.Src(call.Args[0])
			if cl, ok := unparen(call.Args[0]).(*ast.CompositeLit); ok && len(cl.Elts) == 3 {
				what = c.Src(cl.Elts[0])
			}
			key := fmt.Sprintf("argvalues:site:%s:%s", declKey(caller), what)
			if v, ok := constInt(info, call.Args[3]); ok {
				// a constant: fine when >= 0; with no arguments nothing is evaluated
				if v >= 0 {
					r.OK(key, call.Pos(), "compileCallInternal(…, true, %d): the arguments from %d on are evaluated as values", v, v)
				} else if isEmptyArgs(info, call.Args[1]) || tripleCountZero(info, call.Args[0]) {
					r.OK(key, call.Pos(), "compileCallInternal(…, true, %d) with no arguments", v)
				} else {
					r.Bad(key, call.Pos(), "%s asks compileCallInternal to evaluate the arguments of a native with indexing = %d: none of them is bracketed, their navigation stays on the path stack ((.a + 0) |= 7 updates .a; path(g(.a)) with a Go callback differs from the equivalent def)", declKey(caller), v)
				}
				return true
			}
			id, ok := unparen(call.Args[3]).(*ast.Ident)
			if !ok {
				r.Undecided(key, call.Pos(), "indexing argument %s is neither a constant nor a variable", c.Src(call.Args[3]))
				return true
			}
			obj := info.Uses[id]
			// every assignment of the variable: a constant in an arm of a switch over the native's name
			var bad, und []string
			nAsg := 0
			ast.Inspect(caller.Body, func(m ast.Node) bool {
				cc, ok := m.(*ast.CaseClause)
				if !ok {
					return true
				}
				for _, st := range cc.Body {
					as, ok := st.(*ast.AssignStmt)
					if !ok || len(as.Lhs) != 1 || len(as.Rhs) != 1 {
						continue
					}
					lid, ok := as.Lhs[0].(*ast.Ident)
					if !ok || info.ObjectOf(lid) != obj {
						continue
					}
					nAsg++
					v, ok := constInt(info, as.Rhs[0])
					if !ok {
						und = append(und, c.Src(as))
						continue
					}
					var names []string
					for _, e := range cc.List {
						if s, ok := constString(info, e); ok {
							names = append(names, s)
						} else {
							und = append(und, c.Src(e))
						}
					}
					switch {
					case cc.List == nil: // default arm: all other natives
						if v != 0 {
							bad = append(bad, fmt.Sprintf("default: indexing = %d (every native the VM does not navigate from must get 0)", v))
						}
					case v < 0:
						for _, nm := range names {
							if nm != "path" {
								bad = append(bad, fmt.Sprintf("%s: indexing = %d", nm, v))
							}
						}
					case v > 0:
						for _, nm := range names {
							if !tracked[nm] {
								bad = append(bad, fmt.Sprintf("%s: indexing = %d although the VM does not navigate from its first argument", nm, v))
							}
						}
						if v > 1 {
							bad = append(bad, fmt.Sprintf("indexing = %d: more than the first argument left unbracketed", v))
						}
					}
				}
				return true
			})
			// assignments outside a case clause are not understood
			total := 0
			ast.Inspect(caller.Body, func(m ast.Node) bool {
				if as, ok := m.(*ast.AssignStmt); ok {
					for _, l := range as.Lhs {
						if lid, ok := l.(*ast.Ident); ok && info.ObjectOf(lid) == obj {
							total++
						}
					}
				}
				return true
			})
			switch {
			case len(bad) > 0:
				r.Bad(key, call.Pos(), "%s chooses the number of path-tracked leading arguments per native name: %s", declKey(caller), strings.Join(bad, "; "))
			case len(und) > 0 || total != nAsg || nAsg == 0:
				r.Undecided(key, call.Pos(), "the assignments of %s in %s are not all constants in arms of a switch over the name (%v)", id.Name, declKey(caller), und)
			default:
				r.OK(key, call.Pos(), "%s: indexing is -1 only for path (whose argument is the tracked expression itself), 1 only for natives the VM navigates from through args[0] %v, 0 for every other native", declKey(caller), keysOf(tracked))
			}
			return true
		})
	}
	if sites < 3 {
		r.Undecided("argvalues:sites", token.NoPos, "only %d call sites of compileCallInternal with internal = true found", sites)
	}
}

// tripleCountZero: the native triple [3]any{callback, 0, name} (R-C01-calltriple ties the count to the arguments pushed).
func tripleCountZero(info *types.Info, e ast.Expr) bool {
	cl, ok := unparen(e).(*ast.CompositeLit)
	if !ok || len(cl.Elts) != 3 {
		return false
	}
	v, ok := constInt(info, cl.Elts[1])
	return ok && v == 0
}

func isEmptyArgs(info *types.Info, e ast.Expr) bool {
	e = unparen(e)
	if id, ok := e.(*ast.Ident); ok && id.Name == "nil" {
		return true
	}
	return false
}

// argLoopKey: the prefix of the item's loop vector that is one index longer than the call's vector ("[1 0]" under "[]" → "[1").
func argLoopKey(callLoop, itemLoop string) string {
	base := strings.Fields(strings.Trim(callLoop, "[]"))
	it := strings.Fields(strings.Trim(itemLoop, "[]"))
	if len(it) <= len(base) {
		return itemLoop
	}
	return strings.Join(it[:len(base)+1], " ")
}

// ---------------------------------------------------------------------------------------------------------------------
// R-C19-valuepred: the predicate that lets compileCallInternal leave an argument unbracketed only admits queries whose
// lowering cannot navigate.

func init() {
	reg(&Rule{ID: "R-C19-valuepred", Props: []string{"C19", "C02"}, Floor: 4,
		Doc: "the value predicate consulted by compileCallInternal (a bool method of *Query) answers true only for a term without suffixes whose compileTerm arm emits constants or nothing, or a function term it has tested to be a $-variable (for which compileFunc emits pop+load or a constant, and lookupFuncOrVariable never returns a function): everything else may navigate and must be bracketed",
		Run: ruleValuePred})
}

func ruleValuePred(c *Ctx, r *Rep) {
	preds := valuePredicates(c)
	if len(preds) == 0 {
		r.Info("valuepred:none", token.NoPos, "compileCallInternal consults no value predicate: every argument evaluated as a value must be bracketed (R-C19-argvalues)")
		return
	}
	info := c.Gojq.TypesInfo
	// compileTerm's arms by TermType constant
	ct := c.Decl(c.Gojq, "compiler.compileTerm")
	if ct == nil {
		r.Undecided("valuepred:compileTerm", token.NoPos, "compileTerm not found")
		return
	}
	arms := map[string]*ast.CaseClause{}
	ast.Inspect(ct.Body, func(n ast.Node) bool {
		sw, ok := n.(*ast.SwitchStmt)
		if !ok || sw.Tag == nil {
			return true
		}
		if nt := namedOf(info.TypeOf(sw.Tag)); nt == nil || nt.Obj().Name() != "TermType" {
			return true
		}
		for _, s := range sw.Body.List {
			cc := s.(*ast.CaseClause)
			for _, e := range cc.List {
				if id, ok := unparen(e).(*ast.Ident); ok {
					arms[id.Name] = cc
				}
			}
		}
		return false
	})
	// classification of one compileTerm arm
	classify := func(cc *ast.CaseClause) string {
		cls := "const"
		for _, st := range cc.Body {
			switch x := st.(type) {
			case *ast.ReturnStmt:
				if len(x.Results) == 1 {
					if id, ok := unparen(x.Results[0]).(*ast.Ident); ok && id.Name == "nil" {
						continue
					}
					if call, ok := unparen(x.Results[0]).(*ast.CallExpr); ok {
						if sel, ok := call.Fun.(*ast.SelectorExpr); ok && sel.Sel.Name == "compileFunc" && len(call.Args) == 1 {
							if s, ok := unparen(call.Args[0]).(*ast.SelectorExpr); ok && s.Sel.Name == "Func" {
								cls = "func"
								continue
							}
						}
					}
				}
				return "other"
			case *ast.ExprStmt:
				call, ok := x.X.(*ast.CallExpr)
				if !ok {
					return "other"
				}
				sel, ok := call.Fun.(*ast.SelectorExpr)
				if !ok || sel.Sel.Name != "append" || len(call.Args) != 1 {
					return "other"
				}
				u, ok := unparen(call.Args[0]).(*ast.UnaryExpr)
				if !ok {
					return "other"
				}
				cl, ok := u.X.(*ast.CompositeLit)
				if !ok {
					return "other"
				}
				op := ""
				for _, el := range cl.Elts {
					if kv, ok := el.(*ast.KeyValueExpr); ok {
						if k, ok := kv.Key.(*ast.Ident); ok && k.Name == "op" {
							if id, ok := kv.Value.(*ast.Ident); ok {
								op = id.Name
							}
						}
					}
				}
				if op != "opconst" && op != "oppush" {
					return "other"
				}
			default:
				return "other"
			}
		}
		return cls
	}
	isDollarTest := func(e ast.Expr) bool {
		b, ok := unparen(e).(*ast.BinaryExpr)
		if !ok || b.Op != token.EQL {
			return false
		}
		x, y := unparen(b.X), unparen(b.Y)
		if _, ok := x.(*ast.BasicLit); ok {
			x, y = y, x
		}
		tv, ok := info.Types[y]
		if !ok || tv.Value == nil || tv.Value.String() != "36" { // '$'
			return false
		}
		ix, ok := x.(*ast.IndexExpr)
		if !ok {
			return false
		}
		iv, ok := info.Types[ix.Index]
		if !ok || iv.Value == nil || iv.Value.String() != "0" {
			return false
		}
		s, ok := unparen(ix.X).(*ast.SelectorExpr)
		return ok && s.Sel.Name == "Name"
	}
	for name, fn := range preds {
		fd := c.Decl(c.Gojq, "Query."+fn.Name())
		if fd == nil || fd.Body == nil {
			r.Undecided("valuepred:"+name, token.NoPos, "declaration of %s not found", name)
			continue
		}
		// (1) a query with suffixes (or without a term) is refused before anything else
		suffixGuard := false
		for _, st := range fd.Body.List {
			ifs, ok := st.(*ast.IfStmt)
			if !ok {
				break
			}
			retFalse := false
			for _, b := range ifs.Body.List {
				if rs, ok := b.(*ast.ReturnStmt); ok && len(rs.Results) == 1 {
					if id, ok := unparen(rs.Results[0]).(*ast.Ident); ok && id.Name == "false" {
						retFalse = true
					}
				}
			}
			if !retFalse {
				continue
			}
			for _, d := range disjuncts(ifs.Cond) {
				b, ok := unparen(d).(*ast.BinaryExpr)
				if !ok {
					continue
				}
				if call, ok := unparen(b.X).(*ast.CallExpr); ok && len(call.Args) == 1 {
					if f, ok := call.Fun.(*ast.Ident); ok && f.Name == "len" {
						if s, ok := unparen(call.Args[0]).(*ast.SelectorExpr); ok && s.Sel.Name == "SuffixList" {
							if tv, ok := info.Types[b.Y]; ok && tv.Value != nil && tv.Value.String() == "0" && (b.Op == token.GTR || b.Op == token.NEQ) {
								suffixGuard = true
							}
						}
					}
				}
			}
		}
		r.Check(suffixGuard, "valuepred:"+name+":suffix", fd.Pos(), "%s refuses a term that carries suffixes before looking at its type (a suffix is an index, an iteration or an optional: navigation): %v", name, suffixGuard)
		// (2) the arms of the switch over the term type that can answer true
		var sw *ast.SwitchStmt
		ast.Inspect(fd.Body, func(n ast.Node) bool {
			if s, ok := n.(*ast.SwitchStmt); ok && s.Tag != nil && sw == nil {
				if nt := namedOf(info.TypeOf(s.Tag)); nt != nil && nt.Obj().Name() == "TermType" {
					sw = s
				}
			}
			return true
		})
		if sw == nil {
			r.Undecided("valuepred:"+name+":switch", fd.Pos(), "%s does not decide by a switch over the term type; the rule cannot enumerate what it admits", name)
			continue
		}
		// every return outside the switch must be `false`
		outsideOK := true
		ast.Inspect(fd.Body, func(n ast.Node) bool {
			if n == ast.Node(sw) {
				return false
			}
			if rs, ok := n.(*ast.ReturnStmt); ok && len(rs.Results) == 1 {
				if id, ok := unparen(rs.Results[0]).(*ast.Ident); !ok || id.Name != "false" {
					outsideOK = false
				}
			}
			return true
		})
		if !outsideOK {
			r.Undecided("valuepred:"+name+":outside", fd.Pos(), "%s can answer true outside its switch over the term type", name)
		}
		n := 0
		for _, s := range sw.Body.List {
			cc := s.(*ast.CaseClause)
			// what the arm returns
			var rets []ast.Expr
			simple := true
			for _, st := range cc.Body {
				rs, ok := st.(*ast.ReturnStmt)
				if !ok || len(rs.Results) != 1 {
					simple = false
					continue
				}
				rets = append(rets, rs.Results[0])
			}
			allFalse := simple
			for _, e := range rets {
				if id, ok := unparen(e).(*ast.Ident); !ok || id.Name != "false" {
					allFalse = false
				}
			}
			if allFalse && len(rets) > 0 {
				continue
			}
			if cc.List == nil {
				r.Bad("valuepred:"+name+":default", cc.Pos(), "%s answers something other than false for the term types it does not name: a term type whose lowering navigates (an index, a call, a sub-query) is then evaluated with path tracking on", name)
				continue
			}
			for _, e := range cc.List {
				id, ok := unparen(e).(*ast.Ident)
				if !ok {
					continue
				}
				n++
				key := "valuepred:" + name + ":" + id.Name
				arm := arms[id.Name]
				if arm == nil {
					r.Undecided(key, e.Pos(), "compileTerm has no arm for %s", id.Name)
					continue
				}
				switch classify(arm) {
				case "const":
					r.OK(key, e.Pos(), "%s admits %s, whose compileTerm arm emits only constants (or nothing)", name, id.Name)
				case "func":
					okd := simple && len(rets) == 1 && isDollarTest(rets[0])
					r.Check(okd, key, e.Pos(), "%s admits %s only when the function name starts with '$' (a variable, which compileFunc lowers to pop+load or a constant): %v — any other call may navigate (.a is not a call, but first(.a), getpath(…), recurse are)", name, id.Name, okd)
				default:
					r.Bad(key, e.Pos(), "%s admits %s, whose compileTerm arm compiles sub-queries or navigation: such an argument is evaluated with path tracking on, its navigation stays on the path stack", name, id.Name)
				}
			}
		}
		if n == 0 {
			r.Info("valuepred:"+name+":none", fd.Pos(), "%s admits no term type", name)
		}
	}
	// (3) supporting facts for the $-variable case
	if lf := c.Decl(c.Gojq, "compiler.lookupFuncOrVariable"); lf != nil {
		// every return of a non-nil function lies under a condition derived from name[0] != '$'
		derived := map[types.Object]bool{}
		isNotDollar := func(e ast.Expr) bool {
			b, ok := unparen(e).(*ast.BinaryExpr)
			if !ok || b.Op != token.NEQ {
				return false
			}
			tv, ok := info.Types[b.Y]
			return ok && tv.Value != nil && tv.Value.String() == "36"
		}
		ast.Inspect(lf.Body, func(n ast.Node) bool {
			if as, ok := n.(*ast.AssignStmt); ok && as.Tok == token.DEFINE && len(as.Lhs) == len(as.Rhs) {
				for i, rhs := range as.Rhs {
					if isNotDollar(rhs) {
						if id, ok := as.Lhs[i].(*ast.Ident); ok {
							derived[info.Defs[id]] = true
						}
					}
				}
			}
			return true
		})
		okAll, found := true, false
		walkStack(lf.Body, func(n ast.Node, stack []ast.Node) bool {
			rs, ok := n.(*ast.ReturnStmt)
			if !ok || len(rs.Results) != 2 {
				return true
			}
			if id, ok := unparen(rs.Results[0]).(*ast.Ident); ok && id.Name == "nil" {
				return true
			}
			found = true
			guarded := false
			for _, anc := range stack {
				if ifs, ok := anc.(*ast.IfStmt); ok && rs.Pos() >= ifs.Body.Pos() && rs.End() <= ifs.Body.End() {
					if isNotDollar(ifs.Cond) {
						guarded = true
					}
					if id, ok := unparen(ifs.Cond).(*ast.Ident); ok && derived[info.Uses[id]] {
						guarded = true
					}
				}
			}
			if !guarded {
				okAll = false
			}
			return true
		})
		if found {
			r.Check(okAll, "valuepred:lookup", lf.Pos(), "lookupFuncOrVariable returns a function only for names that do not start with '$' (a $-name in argument position is never a call): %v", okAll)
		}
	}
	// compileFunc's templates for a $-name: pop/load/const only, apart from the variants that assume a function was found
	for _, root := range tplRoots {
		if root.fn != "compileFunc" || root.name != "" {
			continue
		}
		fd := c.Decl(c.Gojq, "compiler.compileFunc")
		if fd == nil {
			continue
		}
		okOps := map[string]bool{"oppop": true, "opload": true, "opconst": true, "oppush": true}
		n, bad := 0, ""
		for _, v := range tplVariantsOf(c, root, fd) {
			if !strings.HasPrefix(v.Label, "Func:$") || v.Unsupported != "" {
				continue
			}
			assumedFunc := false
			for _, it := range v.Items {
				if !it.isHole && (it.ins.Op == "opcall" || it.ins.Op == "opcallrec") && !it.ins.Native {
					assumedFunc = true // lookupFuncOrVariable's function result: excluded by valuepred:lookup
				}
			}
			if assumedFunc {
				continue
			}
			n++
			for _, it := range v.Items {
				if it.isHole || !okOps[it.ins.Op] {
					if bad == "" {
						bad = tplRender(v.Items)
					}
				}
			}
		}
		if n == 0 {
			r.Undecided("valuepred:dollar-templates", fd.Pos(), "no template of compileFunc for a $-name could be modelled")
		} else {
			r.Check(bad == "", "valuepred:dollar-templates", fd.Pos(), "the %d templates of compileFunc for a $-name without arguments consist of pop, load and constants only: %v %s", n, bad == "", bad)
		}
	}
}

// disjuncts splits a || b || c.
func disjuncts(e ast.Expr) []ast.Expr {
	e = unparen(e)
	if b, ok := e.(*ast.BinaryExpr); ok && b.Op == token.LOR {
		return append(disjuncts(b.X), disjuncts(b.Y)...)
	}
	return []ast.Expr{e}
}
