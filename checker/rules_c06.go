package main

import (
	"go/ast"
	"go/token"
	"go/types"
	"sort"
	"strings"

	"golang.org/x/tools/go/ssa"
)

func init() {
	regProp(&PropInfo{
		ID:    "C06",
		Title: "A compiled query can be run from many goroutines at once",
		Decided: "necessary conditions for race freedom, as which memory a run may write: no store rooted at a package-level variable of gojq outside init (R-C06-global); in functions reachable from Next/Run/native callbacks/Iter.Next no store rooted at *Code, *code, compiler state or an AST node (R-C06-shared); " +
			"AST field stores reachable from Compile target nodes that are fresh (a local copy or a freshly parsed tree) (R-C06-ast); the only compiler state written at run time is the sync.Map regexp cache, used through Load/Store (R-C06-regexp); " +
			"no write into a JSON container the run does not own (R-C05-own, shared with C05); a fresh env per run (R-C05-envfresh); package gojq uses no locks or channels besides the ctx.Done() receive (census).",
		NotCovered: "schedules themselves; deadlock freedom beyond the lock/channel census; user-supplied iterators, callbacks and `input`; data races inside the standard library.",
	})
	reg(&Rule{ID: "R-C06-global", Props: []string{"C06"}, Floor: 1,
		Doc: "no store, map update or delete rooted at a package-level variable of package gojq outside init",
		Run: ruleC06Global})
	reg(&Rule{ID: "R-C06-shared", Props: []string{"C06", "C05"}, Floor: 1,
		Doc: "functions reachable at run time (Next, Run, natives, iterators) contain no store rooted at *Code, *code, compiler/scope tables or AST nodes",
		Run: ruleC06Shared})
	reg(&Rule{ID: "R-C06-ast", Props: []string{"C06"}, Floor: 2,
		Doc: "every field store into an AST node type in package gojq (outside the parser) targets a node that is fresh: a local copy (direct fields only) or a freshly parsed tree",
		Run: ruleC06AST})
	reg(&Rule{ID: "R-C06-regexp", Props: []string{"C06"}, Floor: 3,
		Doc: "compiler.regexpCache is a sync.Map reached only through Load/Store; census of channel operations and sync primitives in package gojq",
		Run: ruleC06Regexp})
}

// addrRoot walks an address/value chain down to its root, reporting whether a pointer load was crossed.
func addrRoot(v ssa.Value) (root ssa.Value, crossedLoad bool, chain []ssa.Value) {
	for depth := 0; depth < 32; depth++ {
		chain = append(chain, v)
		switch x := v.(type) {
		case *ssa.FieldAddr:
			v = x.X
		case *ssa.IndexAddr:
			v = x.X
		case *ssa.Field:
			v = x.X
		case *ssa.Index:
			v = x.X
		case *ssa.Slice:
			v = x.X
		case *ssa.UnOp:
			if x.Op != token.MUL {
				return v, crossedLoad, chain
			}
			crossedLoad = true
			v = x.X
		case *ssa.ChangeType:
			v = x.X
		case *ssa.TypeAssert:
			v = x.X
		case *ssa.Lookup:
			crossedLoad = true
			v = x.X
		case *ssa.Extract:
			if n, ok := x.Tuple.(*ssa.Next); ok {
				if r, ok := n.Iter.(*ssa.Range); ok {
					crossedLoad = true
					v = r.X
					continue
				}
			}
			return v, crossedLoad, chain
		default:
			return v, crossedLoad, chain
		}
	}
	return v, crossedLoad, chain
}

func astNodeTypes(c *Ctx) map[string]bool {
	out := map[string]bool{}
	for _, f := range c.Gojq.Syntax {
		if c.File(f.Pos()) != "query.go" {
			continue
		}
		for _, d := range f.Decls {
			if gd, ok := d.(*ast.GenDecl); ok && gd.Tok == token.TYPE {
				for _, s := range gd.Specs {
					ts := s.(*ast.TypeSpec)
					if _, ok := ts.Type.(*ast.StructType); ok {
						out[ts.Name.Name] = true
					}
				}
			}
		}
	}
	return out
}

func namedOf(t types.Type) *types.Named {
	if p, ok := t.(*types.Pointer); ok {
		t = p.Elem()
	}
	n, _ := t.(*types.Named)
	return n
}

// chainTouches reports the first named gojq type in `names` that the address chain goes through.
func chainTouches(chain []ssa.Value, names map[string]bool) string {
	for _, v := range chain {
		var base types.Type
		switch x := v.(type) {
		case *ssa.FieldAddr:
			base = x.X.Type()
		case *ssa.Field:
			base = x.X.Type()
		default:
			continue
		}
		if n := namedOf(base); n != nil && n.Obj().Pkg() != nil && n.Obj().Pkg().Path() == pathGojq && names[n.Obj().Name()] {
			return n.Obj().Name()
		}
	}
	return ""
}

type storeSite struct {
	fn   *ssa.Function
	in   ssa.Instruction
	addr ssa.Value
	kind string
}

func storeSites(fns []*ssa.Function) []storeSite {
	var out []storeSite
	for _, f := range fns {
		for _, b := range f.Blocks {
			for _, in := range b.Instrs {
				switch x := in.(type) {
				case *ssa.Store:
					out = append(out, storeSite{f, in, x.Addr, "store"})
				case *ssa.MapUpdate:
					out = append(out, storeSite{f, in, x.Map, "mapupdate"})
				case ssa.CallInstruction:
					if b, ok := x.Common().Value.(*ssa.Builtin); ok && (b.Name() == "delete" || b.Name() == "clear") && len(x.Common().Args) > 0 {
						out = append(out, storeSite{f, in, x.Common().Args[0], b.Name()})
					}
				}
			}
		}
	}
	return out
}

func instrPos(in ssa.Instruction) token.Pos {
	if p := in.Pos(); p.IsValid() {
		return p
	}
	if v, ok := in.(ssa.Value); ok && v.Pos().IsValid() {
		return v.Pos()
	}
	// fall back to an operand position
	for _, op := range in.Operands(nil) {
		if *op != nil && (*op).Pos().IsValid() {
			return (*op).Pos()
		}
	}
	return in.Parent().Pos()
}

func ruleC06Global(c *Ctx, r *Rep) {
	fns := c.PkgFuncs(c.Gojq)
	n := 0
	for _, s := range storeSites(fns) {
		if s.fn.Name() == "init" || strings.HasPrefix(s.fn.Name(), "init#") || (s.fn.Parent() != nil && strings.HasPrefix(topName(s.fn), "init")) {
			continue
		}
		root, _, _ := addrRoot(s.addr)
		n++
		if g, ok := root.(*ssa.Global); ok && g.Pkg != nil && g.Pkg.Pkg.Path() == pathGojq {
			r.Bad(fnDisplay(s.fn)+":"+s.kind+"→"+g.Name(), instrPos(s.in), "%s rooted at package-level variable %s outside init: shared by all goroutines", s.kind, g.Name())
		}
	}
	r.OK("census", token.NoPos, "%d store/map-update/delete sites outside init examined in package gojq; none is rooted at a package-level variable", n)
	// globals assigned only in init / declaration: list them
	var names []string
	for _, name := range c.Gojq.Types.Scope().Names() {
		if _, ok := c.Gojq.Types.Scope().Lookup(name).(*types.Var); ok {
			names = append(names, name)
		}
	}
	r.Info("globals", token.NoPos, "package-level variables: %s", strings.Join(names, ", "))
}

func runtimeRoots(c *Ctx) []*ssa.Function {
	var roots []*ssa.Function
	for _, k := range []string{"env.Next", "Code.Run", "Code.RunWithContext", "env.execute"} {
		if f := c.SSAFunc(c.Gojq, k); f != nil {
			roots = append(roots, f)
		}
	}
	o := getOwn(c)
	// every function whose address is taken (native callbacks, method values) and every Next method
	for _, f := range c.PkgFuncs(c.Gojq) {
		if o.addrTaken[f] || (f.Name() == "Next" && f.Signature.Recv() != nil) {
			roots = append(roots, f)
		}
	}
	// closures returned by argFuncN/mathFuncN wrappers and bound method values are reached through the call graph / AnonFuncs
	return roots
}

func ruleC06Shared(c *Ctx, r *Rep) {
	shared := map[string]bool{"Code": true, "code": true, "compiler": true, "scopeinfo": true, "funcinfo": true, "varinfo": true, "codeinfo": true, "function": true}
	for n := range astNodeTypes(c) {
		shared[n] = true
	}
	roots := runtimeRoots(c)
	if len(roots) < 50 {
		r.Undecided("roots", token.NoPos, "only %d run-time roots found (expected Next, Run and the native callbacks)", len(roots))
		return
	}
	reach := c.Reachable(roots...)
	// compile-time entry points are not run-time: Query.Run* compiles with a fresh compiler, so functions
	// reachable only through Compile are excluded by construction (Compile is not a root and nothing at run time calls it).
	var fns []*ssa.Function
	for f := range reach {
		if f.Pkg != nil && f.Pkg.Pkg.Path() == pathGojq && f.Blocks != nil {
			fns = append(fns, f)
		} else if f.Pkg == nil && f.Blocks != nil && fnOrigin(f).Pkg != nil && fnOrigin(f).Pkg.Pkg.Path() == pathGojq {
			fns = append(fns, f)
		}
	}
	sort.Slice(fns, func(i, j int) bool { return fns[i].Pos() < fns[j].Pos() })
	compileReach := false
	for _, f := range fns {
		if f.Name() == "Compile" || f.Name() == "compileQuery" {
			compileReach = true
		}
	}
	if compileReach {
		r.Undecided("reach", token.NoPos, "the compiler is reachable from the run-time roots in the call graph; the shared-store rule cannot separate compile time from run time")
		return
	}
	n := 0
	// closures that may be created at compile time (or in init) and run at run time: a store through a captured
	// variable writes memory that is shared by every run of the Code (e.g. an error object allocated once per break site)
	var croots []*ssa.Function
	for _, k := range []string{"Compile"} {
		if f := c.SSAFunc(c.Gojq, k); f != nil {
			croots = append(croots, f)
		}
	}
	for _, f := range c.PkgFuncs(c.Gojq) {
		if f.Parent() == nil && (f.Name() == "init" || strings.HasPrefix(f.Name(), "init#")) {
			croots = append(croots, f)
		}
	}
	if init := c.SSAPkg(c.Gojq).Func("init"); init != nil {
		croots = append(croots, init)
	}
	compileReachSet := c.Reachable(croots...)
	captured := 0
	for _, s := range storeSites(fns) {
		root, crossed, chain := addrRoot(s.addr)
		n++
		if fv, isFV := root.(*ssa.FreeVar); isFV {
			captured++
			par := s.fn.Parent()
			for par != nil && par.Parent() != nil && !compileReachSet[par] {
				par = par.Parent()
			}
			if par != nil && compileReachSet[par] && closureEscapes(getOwn(c), s.fn, 0) {
				r.Bad(fnDisplay(s.fn)+":"+s.kind+"→captured "+fv.Name(), instrPos(s.in), "%s at run time through variable %s captured by a closure that is created at compile time (in %s): the memory is shared by every run and every goroutine using the compiled query", s.kind, fv.Name(), fnDisplay(par))
			}
			continue
		}
		if _, isAlloc := root.(*ssa.Alloc); isAlloc && !crossed {
			continue // initialising a fresh local value (composite literal or local copy)
		}
		if c.PhysFile(s.fn.Pos()) == "parser.go" {
			continue // the parser (reachable through modulemeta → Parse) only writes nodes of the tree it is building from a string
		}
		if t := chainTouches(chain, shared); t != "" {
			if fr := ptrFreshness(getOwn(c), root, map[ssa.Value]bool{}); fr == 2 || (fr == 1 && !crossed) {
				continue // a freshly parsed tree (modulemeta) or a local copy
			}
			r.Bad(fnDisplay(s.fn)+":"+s.kind+"→"+t, instrPos(s.in), "%s at run time into memory reached through %s, which is shared by every run of the compiled query (inline cache / memo field / in-place normalisation)", s.kind, t)
		}
	}
	r.OK("census", token.NoPos, "%d functions of package gojq reachable at run time from %d roots; %d store sites examined (%d through captured variables); none goes through Code, code, compiler tables, an AST node or a variable captured at compile time", len(fns), len(roots), n, captured)
}

// ptrFreshness: 0 = not fresh, 1 = shallow (a local copy: only its own fields are private), 2 = deep (a freshly parsed tree).
func ptrFreshness(o *Own, v ssa.Value, seen map[ssa.Value]bool) int {
	if seen[v] {
		return 2
	}
	seen[v] = true
	switch x := v.(type) {
	case *ssa.Alloc:
		return 1
	case *ssa.Extract:
		if call, ok := x.Tuple.(*ssa.Call); ok {
			if sc := call.Common().StaticCallee(); sc != nil {
				return resultFreshness(o, sc, x.Index, seen)
			}
		}
	case *ssa.Call:
		if sc := x.Common().StaticCallee(); sc != nil {
			return resultFreshness(o, sc, 0, seen)
		}
	case *ssa.Phi:
		m := 2
		for _, e := range x.Edges {
			if f := ptrFreshness(o, e, seen); f < m {
				m = f
			}
		}
		return m
	case *ssa.Parameter:
		f := x.Parent()
		if f.Parent() != nil || o.addrTaken[f] || len(o.callSites[f]) == 0 || (f.Object() != nil && f.Object().Exported()) {
			return 0
		}
		idx := -1
		for i, p := range f.Params {
			if p == x {
				idx = i
			}
		}
		m := 2
		for _, cs := range o.callSites[f] {
			args := cs.Common().Args
			if idx < 0 || idx >= len(args) {
				return 0
			}
			root, crossed, _ := addrRoot(args[idx])
			fr := ptrFreshness(o, root, seen)
			if crossed && fr < 2 {
				fr = 0
			}
			if fr < m {
				m = fr
			}
		}
		return m
	}
	return 0
}

func resultFreshness(o *Own, sc *ssa.Function, idx int, seen map[ssa.Value]bool) int {
	if fnQual(sc) == pathGojq+".Parse" {
		return 2 // trusted source: Parse builds a new tree on every call
	}
	if !o.inPkg[sc] {
		return 0
	}
	m := 2
	found := false
	for _, b := range sc.Blocks {
		for _, in := range b.Instrs {
			if ret, ok := in.(*ssa.Return); ok && idx < len(ret.Results) {
				found = true
				res := ret.Results[idx]
				if c, ok := res.(*ssa.Const); ok && c.IsNil() {
					continue
				}
				root, crossed, _ := addrRoot(res)
				fr := ptrFreshness(o, root, seen)
				if crossed && fr < 2 {
					fr = 0
				}
				if fr < m {
					m = fr
				}
			}
		}
	}
	if !found {
		return 0
	}
	return m
}

func ruleC06AST(c *Ctx, r *Rep) {
	nodes := astNodeTypes(c)
	if len(nodes) < 15 {
		r.Undecided("ast-types", token.NoPos, "only %d AST struct types found in query.go", len(nodes))
		return
	}
	o := getOwn(c)
	var fns []*ssa.Function
	for _, f := range c.PkgFuncs(c.Gojq) {
		if c.PhysFile(f.Pos()) == "parser.go" {
			continue // the parser builds the tree it returns
		}
		fns = append(fns, f)
	}
	literalInits := 0
	defer func() {
		r.Info("census:literal-inits", token.NoPos, "%d field initialisations of fresh AST composite literals not listed individually", literalInits)
	}()
	for _, s := range storeSites(fns) {
		root, crossed, chain := addrRoot(s.addr)
		t := chainTouches(chain, nodes)
		if t == "" {
			continue
		}
		key := fnDisplay(s.fn) + ":" + s.kind + "→" + t
		if a, isAlloc := root.(*ssa.Alloc); isAlloc && !crossed && a.Comment != "t" {
			if strings.HasPrefix(a.Comment, "complit") || a.Comment == "new" {
				literalInits++
				continue // field initialisation of a composite literal
			}
		}
		fr := ptrFreshness(o, root, map[ssa.Value]bool{})
		switch {
		case fr == 2:
			r.OK(key, instrPos(s.in), "store into %s reached from a freshly parsed tree", t)
		case fr == 1 && !crossed:
			r.OK(key, instrPos(s.in), "store into a direct field of a local copy of %s", t)
		case fr == 1 && crossed:
			r.Bad(key, instrPos(s.in), "store into %s reached through a pointer loaded from a local copy: the pointee is still shared with the caller's AST (a parsed Query may be compiled from several goroutines)", t)
		default:
			r.Bad(key, instrPos(s.in), "store into AST node type %s that is not provably fresh (a parsed Query is documented as reusable and builtinFuncDefs is shared by all compiles)", t)
		}
	}
}

func ruleC06Regexp(c *Ctx, r *Rep) {
	info := c.Gojq.TypesInfo
	tn, _ := c.Gojq.Types.Scope().Lookup("compiler").(*types.TypeName)
	if tn == nil {
		r.Undecided("compiler", token.NoPos, "type compiler not found")
		return
	}
	st := tn.Type().Underlying().(*types.Struct)
	var fld *types.Var
	for i := 0; i < st.NumFields(); i++ {
		if st.Field(i).Name() == "regexpCache" {
			fld = st.Field(i)
		}
	}
	if fld == nil {
		r.Undecided("compiler.regexpCache", token.NoPos, "field not found")
		return
	}
	isSyncMap := func(t types.Type) bool {
		n := namedOf(t)
		return n != nil && n.Obj().Pkg() != nil && n.Obj().Pkg().Path() == "sync" && n.Obj().Name() == "Map"
	}
	// safe for concurrent runs: a sync.Map, a sync/atomic value, or a struct made of these only
	var safeType func(t types.Type) bool
	safeType = func(t types.Type) bool {
		if isSyncMap(t) {
			return true
		}
		if n := namedOf(t); n != nil && n.Obj().Pkg() != nil && n.Obj().Pkg().Path() == "sync/atomic" {
			return true
		}
		if st, ok := t.Underlying().(*types.Struct); ok && st.NumFields() > 0 {
			for i := 0; i < st.NumFields(); i++ {
				if !safeType(st.Field(i).Type()) {
					return false
				}
			}
			return true
		}
		return false
	}
	r.Check(safeType(fld.Type()), "compiler.regexpCache:type", fld.Pos(), "compiler.regexpCache has type %s: a sync.Map, a sync/atomic value or a struct made of these only (it is written by concurrent runs): %v", fld.Type(), safeType(fld.Type()))
	// every use of a *sync.Map value in package gojq is a method call Load/Store/LoadOrStore or passing it on
	uses, bad := 0, 0
	for _, fd := range c.Decls(c.Gojq) {
		walkStack(fd.Body, func(n ast.Node, stack []ast.Node) bool {
			e, ok := n.(ast.Expr)
			if !ok {
				return true
			}
			t := info.TypeOf(e)
			if t == nil || !isSyncMap(t) {
				return true
			}
			if _, isIdentOrSel := e.(*ast.Ident); !isIdentOrSel {
				if _, ok := e.(*ast.SelectorExpr); !ok {
					return true
				}
			}
			if len(stack) == 0 {
				return true
			}
			parent := stack[len(stack)-1]
			switch p := parent.(type) {
			case *ast.SelectorExpr:
				if p.X == e {
					uses++
					switch p.Sel.Name {
					case "Load", "Store", "LoadOrStore":
					default:
						bad++
						r.Bad(declKey(fd)+":"+p.Sel.Name, p.Pos(), "sync.Map used through %s", p.Sel.Name)
					}
				}
			case *ast.UnaryExpr, *ast.CallExpr, *ast.KeyValueExpr, *ast.Field, *ast.StarExpr:
				// &c.regexpCache, passing the pointer on
			case *ast.AssignStmt:
				bad++
				r.Bad(declKey(fd)+":copy", p.Pos(), "sync.Map copied or reassigned")
			}
			return true
		})
	}
	r.Check(bad == 0 && uses >= 2, "sync.Map:uses", fld.Pos(), "%d method uses of the regexp cache, all Load/Store", uses)
	// census: channel operations, go statements, sync primitives
	var recvs, sends, gos, selects int
	var recvDesc []string
	for _, fd := range c.Decls(c.Gojq) {
		ast.Inspect(fd.Body, func(n ast.Node) bool {
			switch x := n.(type) {
			case *ast.UnaryExpr:
				if x.Op == token.ARROW {
					recvs++
					recvDesc = append(recvDesc, declKey(fd)+": "+c.Src(x))
				}
			case *ast.SendStmt:
				sends++
			case *ast.GoStmt:
				gos++
			case *ast.SelectStmt:
				selects++
			}
			return true
		})
	}
	syncUses := []string{}
	for id, obj := range info.Uses {
		if obj.Pkg() != nil && obj.Pkg().Path() == "sync" {
			if _, ok := obj.(*types.TypeName); ok {
				syncUses = append(syncUses, obj.Name()+"@"+c.Pos(id.Pos()))
			}
		}
	}
	sort.Strings(syncUses)
	okc := sends == 0 && gos == 0 && recvs <= 1
	for _, u := range syncUses {
		if !strings.HasPrefix(u, "Map@") {
			okc = false
		}
	}
	r.Check(okc, "census:concurrency", token.NoPos, "package gojq: %d channel receives %v, %d sends, %d go statements, %d selects, sync types used: %v (no locks, no goroutines: nothing to deadlock on)", recvs, recvDesc, sends, gos, selects, syncUses)
}

// closureEscapes: the closure value outlives the activation of the function that creates it
// (returned, stored, wrapped in an interface or struct, or handed to an in-package function that keeps it).
// Closures that are only called, deferred, or passed to a callee that merely calls them are private to the activation.
func closureEscapes(o *Own, fn *ssa.Function, depth int) bool {
	if depth > 4 {
		return true
	}
	if strings.Contains(fn.Synthetic, "range-over-func") {
		return false // the yield body of a range-over-func loop is only valid, and only called, during the loop
	}
	mc := o.closureOf[fn]
	if mc == nil {
		return true
	}
	return valueEscapes(o, mc, depth)
}

func valueEscapes(o *Own, v ssa.Value, depth int) bool {
	rs := v.Referrers()
	if rs == nil {
		return true
	}
	for _, ref := range *rs {
		switch x := ref.(type) {
		case *ssa.DebugRef:
		case ssa.CallInstruction:
			cc := x.Common()
			if cc.Value == v {
				continue // called / deferred directly
			}
			sc := cc.StaticCallee()
			if sc == nil {
				return true
			}
			if !o.inPkg[sc] {
				continue // standard-library callee (sort.Slice, strings.Map, …) or range-over-func driver: calls it, does not keep it
			}
			for i, a := range cc.Args {
				if a == v && i < len(sc.Params) && valueEscapes(o, sc.Params[i], depth+1) {
					return true
				}
			}
		case *ssa.Phi:
			if valueEscapes(o, x, depth+1) {
				return true
			}
		default:
			return true // Return, Store, MakeInterface, MakeClosure binding, field/struct construction …
		}
	}
	return false
}
