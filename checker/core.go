package main

import (
	"bytes"
	"fmt"
	"go/ast"
	"go/constant"
	"go/printer"
	"go/token"
	"go/types"
	"os"
	"path/filepath"
	"sort"
	"strings"

	"golang.org/x/tools/go/callgraph"
	"golang.org/x/tools/go/callgraph/cha"
	"golang.org/x/tools/go/callgraph/vta"
	"golang.org/x/tools/go/packages"
	"golang.org/x/tools/go/ssa"
	"golang.org/x/tools/go/ssa/ssautil"
	"golang.org/x/tools/go/types/typeutil"
)

// Config is one build configuration under which /repo is loaded.
type Config struct {
	Name  string
	Tags  string
	GOOS  string
	GOARCH string
}

// Ctx is the loaded, type-checked program plus lazily built SSA and call graph.
type Ctx struct {
	Repo string
	Cfg  Config
	Fset *token.FileSet
	All  []*packages.Package
	Gojq *packages.Package
	Cli  *packages.Package
	Cmd  *packages.Package

	prog    *ssa.Program
	ssaPkgs map[*packages.Package]*ssa.Package
	cg      *callgraph.Graph
	allFns  map[*ssa.Function]bool

	declIndex map[*packages.Package]map[string]*ast.FuncDecl
}

const (
	pathGojq = "github.com/itchyny/gojq"
	pathCli  = "github.com/itchyny/gojq/cli"
	pathCmd  = "github.com/itchyny/gojq/cmd/gojq"
)

// Load type-checks ./... of repo under cfg. Any load or type error is returned
// (the caller turns it into UNDECIDED, never into a violation).
func Load(repo string, cfg Config) (*Ctx, error) {
	env := os.Environ()
	clean := env[:0:0]
	for _, kv := range env {
		if strings.HasPrefix(kv, "GOWORK=") || strings.HasPrefix(kv, "GOOS=") ||
			strings.HasPrefix(kv, "GOARCH=") || strings.HasPrefix(kv, "GOFLAGS=") {
			continue
		}
		clean = append(clean, kv)
	}
	clean = append(clean, "GOWORK=off", "GOFLAGS=-mod=mod", "CGO_ENABLED=0")
	if cfg.GOOS != "" {
		clean = append(clean, "GOOS="+cfg.GOOS)
	}
	if cfg.GOARCH != "" {
		clean = append(clean, "GOARCH="+cfg.GOARCH)
	}
	pc := &packages.Config{
		Mode:  packages.LoadAllSyntax,
		Dir:   repo,
		Tests: false,
		Env:   clean,
		Fset:  token.NewFileSet(),
	}
	if cfg.Tags != "" {
		pc.BuildFlags = []string{"-tags=" + cfg.Tags}
	}
	pkgs, err := packages.Load(pc, "./...")
	if err != nil {
		return nil, fmt.Errorf("packages.Load: %v", err)
	}
	c := &Ctx{Repo: repo, Cfg: cfg, Fset: pc.Fset, All: pkgs,
		declIndex: map[*packages.Package]map[string]*ast.FuncDecl{}}
	var errs []string
	packages.Visit(pkgs, nil, func(p *packages.Package) {
		for _, e := range p.Errors {
			errs = append(errs, e.Error())
		}
	})
	if len(errs) > 0 {
		if len(errs) > 5 {
			errs = errs[:5]
		}
		return nil, fmt.Errorf("load/type errors: %s", strings.Join(errs, "; "))
	}
	for _, p := range pkgs {
		switch p.PkgPath {
		case pathGojq:
			c.Gojq = p
		case pathCli:
			c.Cli = p
		case pathCmd:
			c.Cmd = p
		}
	}
	if c.Gojq == nil || c.Cli == nil || c.Cmd == nil {
		return nil, fmt.Errorf("expected packages gojq, cli, cmd/gojq; got %d packages", len(pkgs))
	}
	return c, nil
}

// Pos renders a position relative to the repository root.
func (c *Ctx) Pos(p token.Pos) string {
	if !p.IsValid() {
		return "-"
	}
	pp := c.Fset.Position(p)
	rel, err := filepath.Rel(c.Repo, pp.Filename)
	if err != nil || strings.HasPrefix(rel, "..") {
		rel = pp.Filename
	}
	return fmt.Sprintf("%s:%d", rel, pp.Line)
}

// File returns the base file name of a position.
func (c *Ctx) File(p token.Pos) string {
	return filepath.Base(c.Fset.Position(p).Filename)
}

// PhysFile returns the base name of the physical file holding pos (ignoring //line directives).
func (c *Ctx) PhysFile(p token.Pos) string {
	if f := c.Fset.File(p); f != nil {
		return filepath.Base(f.Name())
	}
	return ""
}

// RelFile returns the repo-relative file of a position.
func (c *Ctx) RelFile(p token.Pos) string {
	pp := c.Fset.Position(p)
	rel, err := filepath.Rel(c.Repo, pp.Filename)
	if err != nil {
		return pp.Filename
	}
	return rel
}

func recvTypeName(fd *ast.FuncDecl) string {
	if fd.Recv == nil || len(fd.Recv.List) == 0 {
		return ""
	}
	t := fd.Recv.List[0].Type
	for {
		switch x := t.(type) {
		case *ast.StarExpr:
			t = x.X
			continue
		case *ast.IndexExpr:
			t = x.X
			continue
		case *ast.IndexListExpr:
			t = x.X
			continue
		case *ast.ParenExpr:
			t = x.X
			continue
		case *ast.Ident:
			return x.Name
		}
		return ""
	}
}

// declKey is "recv.Method" or "Func".
func declKey(fd *ast.FuncDecl) string {
	if r := recvTypeName(fd); r != "" {
		return r + "." + fd.Name.Name
	}
	return fd.Name.Name
}

func (c *Ctx) index(p *packages.Package) map[string]*ast.FuncDecl {
	if m, ok := c.declIndex[p]; ok {
		return m
	}
	m := map[string]*ast.FuncDecl{}
	for _, f := range p.Syntax {
		for _, d := range f.Decls {
			if fd, ok := d.(*ast.FuncDecl); ok && fd.Body != nil {
				m[declKey(fd)] = fd
			}
		}
	}
	c.declIndex[p] = m
	return m
}

// Decl finds a function declaration by key ("env.Next", "Compile"); nil if absent.
func (c *Ctx) Decl(p *packages.Package, key string) *ast.FuncDecl {
	return c.index(p)[key]
}

// Decls returns all function declarations of a package, sorted by key.
func (c *Ctx) Decls(p *packages.Package) []*ast.FuncDecl {
	m := c.index(p)
	keys := make([]string, 0, len(m))
	for k := range m {
		keys = append(keys, k)
	}
	sort.Strings(keys)
	out := make([]*ast.FuncDecl, len(keys))
	for i, k := range keys {
		out[i] = m[k]
	}
	return out
}

// EnclosingDecl returns the FuncDecl containing pos in package p.
func (c *Ctx) EnclosingDecl(p *packages.Package, pos token.Pos) *ast.FuncDecl {
	for _, fd := range c.index(p) {
		if fd.Pos() <= pos && pos < fd.End() {
			return fd
		}
	}
	return nil
}

// SSA builds (once) the SSA program for all packages.
func (c *Ctx) SSA() *ssa.Program {
	if c.prog != nil {
		return c.prog
	}
	prog, pkgs := ssautil.AllPackages(c.All, ssa.InstantiateGenerics)
	prog.Build()
	c.prog = prog
	c.ssaPkgs = map[*packages.Package]*ssa.Package{}
	for i, p := range c.All {
		c.ssaPkgs[p] = pkgs[i]
	}
	return prog
}

func (c *Ctx) SSAPkg(p *packages.Package) *ssa.Package {
	c.SSA()
	return c.ssaPkgs[p]
}

// AllFuncs returns all SSA functions (including anonymous and instantiations).
func (c *Ctx) AllFuncs() map[*ssa.Function]bool {
	if c.allFns == nil {
		c.allFns = ssautil.AllFunctions(c.SSA())
	}
	return c.allFns
}

// PkgFuncs returns every SSA function (incl. closures) whose source lies in package p, sorted.
func (c *Ctx) PkgFuncs(p *packages.Package) []*ssa.Function {
	var out []*ssa.Function
	for f := range c.AllFuncs() {
		if f.Pkg != nil && f.Pkg.Pkg == p.Types && f.Blocks != nil && (f.Synthetic == "" || f.Parent() != nil) {
			out = append(out, f)
		} else if f.Pkg == nil && f.Origin() != nil && f.Origin().Pkg != nil && f.Origin().Pkg.Pkg == p.Types && f.Blocks != nil {
			out = append(out, f) // generic instantiation
		}
	}
	sort.Slice(out, func(i, j int) bool {
		if out[i].Pos() != out[j].Pos() {
			return out[i].Pos() < out[j].Pos()
		}
		return out[i].String() < out[j].String()
	})
	return out
}

// SSAFunc finds the SSA function for a declaration.
func (c *Ctx) SSAFunc(p *packages.Package, key string) *ssa.Function {
	fd := c.Decl(p, key)
	if fd == nil {
		return nil
	}
	obj, _ := p.TypesInfo.Defs[fd.Name].(*types.Func)
	if obj == nil {
		return nil
	}
	return c.SSA().FuncValue(obj)
}

// CallGraph builds (once) the VTA call graph.
func (c *Ctx) CallGraph() *callgraph.Graph {
	if c.cg == nil {
		prog := c.SSA()
		c.cg = vta.CallGraph(c.AllFuncs(), cha.CallGraph(prog))
	}
	return c.cg
}

// Reachable returns the set of functions reachable in the call graph from roots.
func (c *Ctx) Reachable(roots ...*ssa.Function) map[*ssa.Function]bool {
	cg := c.CallGraph()
	seen := map[*ssa.Function]bool{}
	var stack []*ssa.Function
	for _, r := range roots {
		if r != nil && !seen[r] {
			seen[r] = true
			stack = append(stack, r)
		}
	}
	for len(stack) > 0 {
		f := stack[len(stack)-1]
		stack = stack[:len(stack)-1]
		// closures created by f are considered reachable with f
		for _, an := range f.AnonFuncs {
			if !seen[an] {
				seen[an] = true
				stack = append(stack, an)
			}
		}
		n := cg.Nodes[f]
		if n == nil {
			continue
		}
		for _, e := range n.Out {
			if g := e.Callee.Func; g != nil && !seen[g] {
				seen[g] = true
				stack = append(stack, g)
			}
		}
	}
	return seen
}

// ---- AST helpers ----

func (c *Ctx) Src(n ast.Node) string {
	var buf bytes.Buffer
	printer.Fprint(&buf, c.Fset, n)
	s := buf.String()
	s = strings.Join(strings.Fields(s), " ")
	return s
}

func callee(info *types.Info, call *ast.CallExpr) types.Object {
	return typeutil.Callee(info, call)
}

// calleeName renders "pkg.Func" or "(recv).Method" for a resolved callee, "" if dynamic.
func calleeName(info *types.Info, call *ast.CallExpr) string {
	o := callee(info, call)
	if o == nil {
		return ""
	}
	return objName(o)
}

func objName(o types.Object) string {
	if f, ok := o.(*types.Func); ok {
		sig := f.Type().(*types.Signature)
		if r := sig.Recv(); r != nil {
			t := r.Type()
			if p, ok := t.(*types.Pointer); ok {
				t = p.Elem()
			}
			tn := types.TypeString(t, func(p *types.Package) string { return p.Name() })
			if i := strings.Index(tn, "["); i >= 0 {
				tn = tn[:i]
			}
			return tn + "." + f.Name()
		}
		if f.Pkg() != nil {
			return f.Pkg().Name() + "." + f.Name()
		}
		return f.Name()
	}
	if o.Pkg() != nil {
		return o.Pkg().Name() + "." + o.Name()
	}
	return o.Name()
}

// objPath renders "import/path.Name" or "import/path.(Recv).Name".
func objPath(o types.Object) string {
	if o == nil {
		return ""
	}
	pp := ""
	if o.Pkg() != nil {
		pp = o.Pkg().Path()
	}
	if f, ok := o.(*types.Func); ok {
		if r := f.Type().(*types.Signature).Recv(); r != nil {
			t := r.Type()
			if p, ok := t.(*types.Pointer); ok {
				t = p.Elem()
			}
			tn := types.TypeString(t, func(p *types.Package) string { return "" })
			return pp + ".(" + tn + ")." + f.Name()
		}
	}
	return pp + "." + o.Name()
}

func constInt(info *types.Info, e ast.Expr) (int64, bool) {
	tv, ok := info.Types[e]
	if !ok || tv.Value == nil {
		return 0, false
	}
	if tv.Value.Kind() != constant.Int {
		return 0, false
	}
	return constant.Int64Val(tv.Value)
}

func constString(info *types.Info, e ast.Expr) (string, bool) {
	tv, ok := info.Types[e]
	if !ok || tv.Value == nil || tv.Value.Kind() != constant.String {
		return "", false
	}
	return constant.StringVal(tv.Value), true
}

func unparen(e ast.Expr) ast.Expr {
	for {
		p, ok := e.(*ast.ParenExpr)
		if !ok {
			return e
		}
		e = p.X
	}
}

// namedConsts returns the package-level constants of the named type, sorted by value.
func namedConsts(pkg *types.Package, typeName string) []*types.Const {
	var out []*types.Const
	tn, _ := pkg.Scope().Lookup(typeName).(*types.TypeName)
	if tn == nil {
		return nil
	}
	for _, n := range pkg.Scope().Names() {
		if k, ok := pkg.Scope().Lookup(n).(*types.Const); ok && types.Identical(k.Type(), tn.Type()) {
			out = append(out, k)
		}
	}
	sort.Slice(out, func(i, j int) bool {
		a, _ := constant.Int64Val(out[i].Val())
		b, _ := constant.Int64Val(out[j].Val())
		return a < b
	})
	return out
}

func isNamed(t types.Type, pkgPath, name string) bool {
	if p, ok := t.(*types.Pointer); ok {
		t = p.Elem()
	}
	n, ok := t.(*types.Named)
	if !ok {
		return false
	}
	o := n.Obj()
	return o.Name() == name && o.Pkg() != nil && o.Pkg().Path() == pkgPath
}

// isJSONContainer reports []any or map[string]any (or [][]any).
func isJSONContainer(t types.Type) bool {
	switch u := t.Underlying().(type) {
	case *types.Slice:
		if isEmptyIface(u.Elem()) {
			return true
		}
		if s, ok := u.Elem().Underlying().(*types.Slice); ok && isEmptyIface(s.Elem()) {
			return true
		}
	case *types.Map:
		if b, ok := u.Key().Underlying().(*types.Basic); ok && b.Kind() == types.String && isEmptyIface(u.Elem()) {
			return true
		}
	}
	return false
}

func isEmptyIface(t types.Type) bool {
	i, ok := t.Underlying().(*types.Interface)
	return ok && i.NumMethods() == 0 && i.NumEmbeddeds() == 0
}

// walkStack traverses n keeping the ancestor stack.
func walkStack(n ast.Node, f func(n ast.Node, stack []ast.Node) bool) {
	var stack []ast.Node
	ast.Inspect(n, func(x ast.Node) bool {
		if x == nil {
			stack = stack[:len(stack)-1]
			return true
		}
		ok := f(x, stack)
		if ok {
			stack = append(stack, x)
		}
		return ok
	})
}
