package main

import (
	"go/ast"
	"go/types"
	"sort"
)

// Emit is one `&code{op: X, v: E}` construction site in package gojq.
type Emit struct {
	Fn     *ast.FuncDecl
	FnKey  string
	Lit    *ast.CompositeLit
	Op     string   // constant name, "" if not constant
	V      ast.Expr // nil if absent
	InLazy bool     // inside a func literal passed to (*compiler).lazy
	InList *ast.CallExpr // the c.appends(...) call it is an argument of, if any
	ListIx int
	Stack  []ast.Node
}

var emitCache = map[*Ctx][]*Emit{}

func getEmits(c *Ctx) []*Emit {
	if e, ok := emitCache[c]; ok {
		return e
	}
	info := c.Gojq.TypesInfo
	var out []*Emit
	for _, fd := range c.Decls(c.Gojq) {
		walkStack(fd.Body, func(n ast.Node, stack []ast.Node) bool {
			cl, ok := n.(*ast.CompositeLit)
			if !ok {
				return true
			}
			t := info.TypeOf(cl)
			if t == nil || !isNamed(t, pathGojq, "code") {
				return true
			}
			if _, isPtr := t.(*types.Pointer); isPtr {
				return true
			}
			e := &Emit{Fn: fd, FnKey: declKey(fd), Lit: cl, Stack: append([]ast.Node(nil), stack...)}
			st, _ := t.Underlying().(*types.Struct)
			for i, el := range cl.Elts {
				name := ""
				var val ast.Expr
				if kv, ok := el.(*ast.KeyValueExpr); ok {
					name = kv.Key.(*ast.Ident).Name
					val = kv.Value
				} else if st != nil && i < st.NumFields() {
					name = st.Field(i).Name()
					val = el
				}
				switch name {
				case "op":
					if id, ok := unparen(val).(*ast.Ident); ok {
						if k, ok := info.Uses[id].(*types.Const); ok {
							e.Op = k.Name()
						}
					}
				case "v":
					e.V = val
				}
			}
			for i := len(stack) - 1; i >= 0; i-- {
				switch x := stack[i].(type) {
				case *ast.FuncLit:
					if i > 0 {
						if call, ok := stack[i-1].(*ast.CallExpr); ok && calleeName(info, call) == "gojq.compiler.lazy" {
							e.InLazy = true
						}
					}
				case *ast.CallExpr:
					if calleeName(info, x) == "gojq.compiler.appends" && e.InList == nil {
						e.InList = x
						for j, a := range x.Args {
							if a.Pos() <= cl.Pos() && cl.End() <= a.End() {
								e.ListIx = j
							}
						}
					}
				}
			}
			out = append(out, e)
			return true
		})
	}
	sort.Slice(out, func(i, j int) bool { return out[i].Lit.Pos() < out[j].Lit.Pos() })
	emitCache[c] = out
	return out
}

// sameObj reports whether two expressions are identifiers (or selector chains) denoting the same object.
func sameObj(info *types.Info, a, b ast.Expr) bool {
	a, b = unparen(a), unparen(b)
	switch x := a.(type) {
	case *ast.Ident:
		y, ok := b.(*ast.Ident)
		if !ok {
			return false
		}
		ox, oy := info.ObjectOf(x), info.ObjectOf(y)
		return ox != nil && ox == oy
	case *ast.SelectorExpr:
		y, ok := b.(*ast.SelectorExpr)
		return ok && x.Sel.Name == y.Sel.Name && sameObj(info, x.X, y.X)
	case *ast.IndexExpr:
		y, ok := b.(*ast.IndexExpr)
		return ok && sameObj(info, x.X, y.X) && sameExprShape(info, x.Index, y.Index)
	}
	return false
}

// sameExprShape: structural equality of small index expressions (idents by object, literals by value, + - * over them, len(x)).
func sameExprShape(info *types.Info, a, b ast.Expr) bool {
	a, b = unparen(a), unparen(b)
	if va, ok := constInt(info, a); ok {
		vb, ok2 := constInt(info, b)
		return ok2 && va == vb
	}
	switch x := a.(type) {
	case *ast.Ident, *ast.SelectorExpr, *ast.IndexExpr:
		return sameObj(info, a, b)
	case *ast.BinaryExpr:
		y, ok := b.(*ast.BinaryExpr)
		return ok && x.Op == y.Op && sameExprShape(info, x.X, y.X) && sameExprShape(info, x.Y, y.Y)
	case *ast.CallExpr:
		y, ok := b.(*ast.CallExpr)
		if !ok || len(x.Args) != len(y.Args) {
			return false
		}
		fx, ok1 := unparen(x.Fun).(*ast.Ident)
		fy, ok2 := unparen(y.Fun).(*ast.Ident)
		if !ok1 || !ok2 || fx.Name != fy.Name {
			return false
		}
		for i := range x.Args {
			if !sameExprShape(info, x.Args[i], y.Args[i]) {
				return false
			}
		}
		return true
	}
	return false
}
