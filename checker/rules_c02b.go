package main

import (
	"go/ast"
	"go/token"
	"go/types"
	"sort"
	"strings"
)

func init() {
	reg(&Rule{ID: "R-C02-nav", Props: []string{"C02"}, Floor: 6,
		Doc: "every VM site that records a path component is control-dependent on the tracking guard and, where a navigation starts from a user value, preceded by pathIntact() of the value navigated from with an invalid-path error on failure; oppathend checks the final value",
		Run: ruleC02Nav})
	reg(&Rule{ID: "R-C02-expbalance", Props: []string{"C02"}, Floor: 5,
		Doc: "per compiler function, opexpbegin and opexpend emissions correspond 1:1, and a conditional opexpend has a removal of the pending opexpbegin on its other branch",
		Run: ruleC02ExpBalance})
	reg(&Rule{ID: "R-C02-marksweep", Props: []string{"C02"}, Floor: 3,
		Doc: "update/updateObject/updateArrayIndex/updateArraySlice only mark deleted positions: no deletion-marker branch returns a resliced (shortened) array; only deleteEmpty shortens, after all paths were applied",
		Run: ruleC02MarkSweep})
	reg(&Rule{ID: "R-C01-patternvars", Props: []string{"C01"}, Floor: 1,
		Doc: "every variable compilePattern binds by name (pushVariable) is appended to the list compileBind uses to reset variables between ?// alternatives",
		Run: ruleC01PatternVars})
}

func ruleC02Nav(c *Ctx, r *Rep) {
	vm := getVM(c)
	if vm.Err != "" {
		r.Undecided("vm-model", token.NoPos, "%s", vm.Err)
		return
	}
	info := vm.info
	isGuard := func(cond ast.Expr) bool {
		// !env.paths.empty() && env.expdepth == 0 (possibly with further conjuncts): a negated call of the path stack's
		// empty method and a comparison of the bracket depth with 0, both conjuncts of the condition
		notEmpty, depthZero := false, false
		var walk func(e ast.Expr)
		walk = func(e ast.Expr) {
			e = unparen(e)
			if b, ok := e.(*ast.BinaryExpr); ok && b.Op == token.LAND {
				walk(b.X)
				walk(b.Y)
				return
			}
			if u, ok := e.(*ast.UnaryExpr); ok && u.Op == token.NOT {
				if call, ok := unparen(u.X).(*ast.CallExpr); ok && vm.envMethod(call) == "paths.empty" {
					notEmpty = true
				}
			}
			if b, ok := e.(*ast.BinaryExpr); ok && b.Op == token.EQL {
				if sel, ok := unparen(b.X).(*ast.SelectorExpr); ok && sel.Sel.Name == "expdepth" {
					if v, ok := constInt(info, b.Y); ok && v == 0 {
						depthZero = true
					}
				}
			}
		}
		walk(cond)
		return notEmpty && depthZero
	}
	isPathErr := func(e ast.Expr) bool {
		u, ok := unparen(e).(*ast.UnaryExpr)
		if !ok || u.Op != token.AND {
			return false
		}
		cl, ok := u.X.(*ast.CompositeLit)
		if !ok {
			return false
		}
		n := namedOf(info.TypeOf(cl))
		return n != nil && strings.HasPrefix(n.Obj().Name(), "invalidPath")
	}
	n := 0
	for _, cl := range vm.Clauses {
		name := strings.Join(cl.Ops, ",")
		if name == "oppathbegin" {
			continue
		}
		walkStack(cl.CC, func(m ast.Node, stack []ast.Node) bool {
			call, ok := m.(*ast.CallExpr)
			if !ok || vm.envMethod(call) != "paths.push" {
				return true
			}
			n++
			key := "nav:" + name
			// (a) control-dependent on the tracking guard
			guarded := false
			var guardIf *ast.IfStmt
			for i := len(stack) - 1; i >= 0; i-- {
				if ifs, ok := stack[i].(*ast.IfStmt); ok && isGuard(ifs.Cond) {
					guarded = true
					guardIf = ifs
				}
			}
			if !guarded {
				r.Bad(key+":guard", call.Pos(), "path component recorded in %s outside `if !env.paths.empty() && env.expdepth == 0`: paths are then recorded while no path expression is being tracked, or inside a bracketed sub-expression", name)
				return true
			}
			// (b) the innermost type-switch arm decides whether this is a navigation start
			arm := ""
			for i := len(stack) - 1; i >= 0; i-- {
				if cc, ok := stack[i].(*ast.CaseClause); ok && cc != cl.CC && len(cc.List) > 0 {
					arm = c.Src(cc.List[0])
					break
				}
			}
			// opiter: the push is shared by the arms; its starting arms are checked below
			if name == "opiter" {
				r.OK(key+":guard", call.Pos(), "recorded under the tracking guard; the starting arms ([]any, map[string]any) are checked separately")
				return true
			}
			// pathIntact(x) before the push, inside the guard, failing with an invalidPath error
			intact := false
			// dominance in structured code: the check is a statement of a list, and the push lies in a later statement of
			// the same list (a check sitting in one branch of another conditional does not cover the other branch)
			dominates := func(ifs *ast.IfStmt) bool {
				dom := false
				ast.Inspect(guardIf.Body, func(q ast.Node) bool {
					var list []ast.Stmt
					switch b := q.(type) {
					case *ast.BlockStmt:
						list = b.List
					case *ast.CaseClause:
						list = b.Body
					default:
						return true
					}
					for i, st := range list {
						if st != ast.Stmt(ifs) {
							continue
						}
						for _, later := range list[i+1:] {
							if later.Pos() <= call.Pos() && call.End() <= later.End() {
								dom = true
							}
						}
					}
					return true
				})
				return dom
			}
			ast.Inspect(guardIf.Body, func(q ast.Node) bool {
				ifs, ok := q.(*ast.IfStmt)
				if !ok || ifs.Pos() > call.Pos() {
					return true
				}
				if !dominates(ifs) {
					return true
				}
				if !mentions(ifs.Cond, func(e ast.Expr) bool {
					cl2, ok := e.(*ast.CallExpr)
					return ok && vm.envMethod(cl2) == "pathIntact"
				}) && (ifs.Init == nil || !mentions(ifs.Init, func(e ast.Expr) bool {
					cl2, ok := e.(*ast.CallExpr)
					return ok && vm.envMethod(cl2) == "pathIntact"
				})) {
					return true
				}
				// the failure branch assigns a path error to err and leaves
				setsErr, leaves := false, false
				for _, s := range ifs.Body.List {
					if as, ok := s.(*ast.AssignStmt); ok && len(as.Lhs) == 1 && vm.isVar(as.Lhs[0], "err") && isPathErr(as.Rhs[0]) {
						setsErr = true
					}
					if b, ok := s.(*ast.BranchStmt); ok && b.Tok == token.BREAK && b.Label != nil {
						leaves = true
					}
				}
				// must be in the same arm as the push (or enclose it)
				sameArm := true
				if arm != "" {
					sameArm = false
					for i := len(stack) - 1; i >= 0; i-- {
						if cc, ok := stack[i].(*ast.CaseClause); ok && cc != cl.CC && cc.Pos() <= ifs.Pos() && ifs.End() <= cc.End() {
							sameArm = true
						}
					}
				}
				if setsErr && leaves && sameArm {
					intact = true
				}
				return true
			})
			label := key
			if arm != "" {
				label += ":" + arm
			}
			r.Check(intact, label, call.Pos(), "navigation in %s%s records a path component only after pathIntact(<value navigated from>) with an invalid-path error on failure: %v (navigating from a computed value must raise an error, never silently update elsewhere)", name, map[bool]string{true: " arm " + arm, false: ""}[arm != ""], intact)
			return true
		})
	}
	// opiter's starting arms
	if cl := vm.ByOp["opiter"]; cl != nil {
		ast.Inspect(cl.CC, func(m ast.Node) bool {
			cc, ok := m.(*ast.CaseClause)
			if !ok || cc == cl.CC || len(cc.List) != 1 {
				return true
			}
			t := info.TypeOf(cc.List[0])
			if t == nil || !isJSONContainer(t) {
				return true
			}
			n++
			okc := false
			for k, s := range cc.Body {
				ifs, ok := s.(*ast.IfStmt)
				if !ok || !isGuard(ifs.Cond) || !strings.Contains(c.Src(ifs.Cond), "pathIntact(") {
					continue
				}
				// nothing before the test can leave the clause: an early exit for the empty container in front of it lets
				// `path([] | .[])` pass without the invalid-path error
				leavesBefore := false
				for _, prev := range cc.Body[:k] {
					ast.Inspect(prev, func(q ast.Node) bool {
						switch q.(type) {
						case *ast.BranchStmt, *ast.ReturnStmt:
							leavesBefore = true
						}
						return true
					})
				}
				if leavesBefore {
					continue
				}
				for _, b := range ifs.Body.List {
					if as, ok := b.(*ast.AssignStmt); ok && len(as.Lhs) == 1 && vm.isVar(as.Lhs[0], "err") && isPathErr(as.Rhs[0]) {
						okc = true
					}
				}
			}
			r.Check(okc, "nav:opiter:"+typeStr(t), cc.Pos(), "opiter's %s arm (a navigation start) checks pathIntact under the tracking guard and fails with an invalid-path error: %v", typeStr(t), okc)
			return true
		})
	}
	// oppathend checks the final value
	if cl := vm.ByOp["oppathend"]; cl != nil {
		ok := strings.Contains(c.Src(cl.CC), "pathIntact(") && mentions(cl.CC, func(e ast.Expr) bool { return isPathErr(e) })
		n++
		r.Check(ok, "nav:oppathend", cl.CC.Pos(), "oppathend verifies the final value with pathIntact and fails with an invalid-path error: %v", ok)
	}
	// the set of path-recording sites must not shrink silently
	if n < 6 {
		r.Undecided("nav:census", token.NoPos, "only %d navigation obligations found", n)
	}
	_ = sort.Strings
	_ = types.Typ
}

func ruleC02ExpBalance(c *Ctx, r *Rep) {
	info := c.Gojq.TypesInfo
	emits := getEmits(c)
	byFn := map[string][]*Emit{}
	for _, e := range emits {
		if e.Op == "opexpbegin" || e.Op == "opexpend" {
			byFn[e.FnKey] = append(byFn[e.FnKey], e)
		}
	}
	var fns []string
	for fn := range byFn {
		fns = append(fns, fn)
	}
	sort.Strings(fns)
	for _, fn := range fns {
		var b, e []*Emit
		for _, x := range byFn[fn] {
			if x.Op == "opexpbegin" {
				b = append(b, x)
			} else {
				e = append(e, x)
			}
		}
		r.Check(len(b) == len(e), "count:"+fn, byFn[fn][0].Lit.Pos(), "%s emits opexpbegin %d time(s) and opexpend %d time(s): an unmatched begin leaves expdepth > 0 and silently disables path tracking for the rest of the run", fn, len(b), len(e))
		for ei, end := range e {
			if end.InList != nil {
				continue // literal lists are balanced path by path by the bytecode verifier
			}
			// conditional end? the innermost enclosing if that does not also enclose the matching begin
			var begin *Emit
			if ei < len(b) {
				begin = b[ei]
			}
			var ifs *ast.IfStmt
			inElse := false
			for i := len(end.Stack) - 1; i >= 0; i-- {
				if x, ok := end.Stack[i].(*ast.IfStmt); ok {
					if begin != nil && x.Pos() <= begin.Lit.Pos() && begin.Lit.End() <= x.End() {
						break // begin and end live under the same condition
					}
					ifs = x
					inElse = x.Else != nil && x.Else.Pos() <= end.Lit.Pos() && end.Lit.End() <= x.Else.End()
					break
				}
				if _, ok := end.Stack[i].(*ast.ForStmt); ok {
					continue
				}
			}
			key := "end:" + fn
			if ifs == nil {
				r.OK(key, end.Lit.Pos(), "opexpend is emitted unconditionally after its opexpbegin")
				continue
			}
			// the other branch must remove the pending opexpbegin: one of the three idioms, under a test that the slot holds it / nothing was emitted since
			var other ast.Stmt
			if inElse {
				other = ifs.Body
			} else {
				other = ifs.Else
			}
			removes := ""
			test := c.Src(ifs.Cond)
			slotTest := strings.Contains(test, "op == opexpbegin") || strings.Contains(test, "== len(c.codes)") || strings.Contains(test, "len(c.codes) ==")
			if other != nil {
				ast.Inspect(other, func(m ast.Node) bool {
					as, ok := m.(*ast.AssignStmt)
					if !ok {
						return true
					}
					l := c.Src(as.Lhs[0])
					rr := c.Src(as.Rhs[0])
					switch {
					case strings.HasSuffix(l, ".op") && rr == "opnop":
						removes = "rewrites the slot to opnop"
					case strings.HasPrefix(l, "c.codes[") && strings.HasPrefix(rr, "c.codes["):
						removes = "overwrites the slot with the instruction emitted after it"
					case l == "c.codes" && strings.HasPrefix(rr, "c.codes[:"):
						removes = "truncates the slot away"
					}
					return true
				})
			} else if !inElse {
				// `if i == indexing { if slot is expbegin {remove} else {emit end} }`: the conditional is the outer loop test; handled by the inner if
				removes = ""
			}
			_ = info
			if other == nil {
				// idiom: the decision was taken earlier and kept in a boolean: `if !flag { remove }` … `if flag { emit end }`
				if id, ok := unparen(ifs.Cond).(*ast.Ident); ok && !inElse {
					rem := ""
					ast.Inspect(end.Fn.Body, func(m ast.Node) bool {
						i2, ok := m.(*ast.IfStmt)
						if !ok {
							return true
						}
						u, ok := unparen(i2.Cond).(*ast.UnaryExpr)
						if !ok || u.Op != token.NOT {
							return true
						}
						if x, ok := unparen(u.X).(*ast.Ident); !ok || info.ObjectOf(x) != info.ObjectOf(id) {
							return true
						}
						ast.Inspect(i2.Body, func(q ast.Node) bool {
							if as, ok := q.(*ast.AssignStmt); ok {
								l, rr := c.Src(as.Lhs[0]), c.Src(as.Rhs[0])
								if (strings.HasSuffix(l, ".op") && rr == "opnop") || (l == "c.codes" && strings.HasPrefix(rr, "c.codes[:")) {
									rem = c.Pos(as.Pos())
								}
							}
							return true
						})
						return true
					})
					if rem != "" {
						r.OK(key, end.Lit.Pos(), "opexpend is emitted iff `%s`; the pending opexpbegin is removed under `!%s` at %s", id.Name, id.Name, rem)
						continue
					}
				}
				// the emission is guarded by a condition with no else: accepted only for the loop-position test `i == indexing`
				if strings.Contains(test, "== indexing") {
					r.OK(key, end.Lit.Pos(), "opexpend is emitted at the argument position that was bracketed (loop-position test %s)", test)
				} else {
					r.Bad(key, end.Lit.Pos(), "opexpend in %s is emitted only if `%s` and nothing removes the pending opexpbegin otherwise", fn, test)
				}
				continue
			}
			r.Check(removes != "" && slotTest, key, end.Lit.Pos(), "conditional opexpend in %s: on the other branch of `%s` the pending opexpbegin is removed (%s), under a test that the slot still holds it: %v", fn, test, removes, slotTest)
		}
	}
	if len(fns) < 4 {
		r.Undecided("census", token.NoPos, "only %d functions emit exp brackets", len(fns))
	}
}

func ruleC01PatternVars(c *Ctx, r *Rep) {
	info := c.Gojq.TypesInfo
	fd := c.Decl(c.Gojq, "compiler.compilePattern")
	if fd == nil {
		r.Undecided("compilePattern", token.NoPos, "not found")
		return
	}
	n := 0
	walkStack(fd.Body, func(m ast.Node, stack []ast.Node) bool {
		call, ok := m.(*ast.CallExpr)
		if !ok || calleeName(info, call) != "gojq.compiler.pushVariable" || len(stack) == 0 {
			return true
		}
		n++
		okc := false
		if as, ok := stack[len(stack)-1].(*ast.AssignStmt); ok && len(as.Lhs) == 1 {
			if id, ok := as.Lhs[0].(*ast.Ident); ok {
				obj := info.ObjectOf(id)
				ast.Inspect(fd.Body, func(q ast.Node) bool {
					if ap, ok := q.(*ast.CallExpr); ok && len(ap.Args) == 2 {
						if f, ok := ap.Fun.(*ast.Ident); ok && f.Name == "append" {
							if a, ok := unparen(ap.Args[1]).(*ast.Ident); ok && info.ObjectOf(a) == obj && c.Src(ap.Args[0]) == "vs" {
								okc = true
							}
						}
					}
					return true
				})
			}
		}
		r.Check(okc, "compilePattern:pushVariable", call.Pos(), "the variable bound by name in compilePattern is recorded in vs: %v (compileBind resets exactly the variables in vs to null before the next ?// alternative; an unrecorded one keeps the abandoned sibling's binding)", okc)
		return true
	})
	if n == 0 {
		r.Undecided("compilePattern", fd.Pos(), "no pushVariable call found")
	}
}

func ruleC02MarkSweep(c *Ctx, r *Rep) {
	info := c.Gojq.TypesInfo
	isMarkerCmp := func(e ast.Expr) bool {
		return mentions(e, func(x ast.Expr) bool {
			be, ok := x.(*ast.BinaryExpr)
			if !ok || be.Op != token.EQL {
				return false
			}
			cl, ok := unparen(be.Y).(*ast.CompositeLit)
			if !ok {
				return false
			}
			st, ok := info.TypeOf(cl).Underlying().(*types.Struct)
			return ok && st.NumFields() == 0
		})
	}
	n := 0
	for _, fn := range []string{"updateObject", "updateArrayIndex", "updateArraySlice"} {
		fd := c.Decl(c.Gojq, fn)
		if fd == nil {
			r.Undecided(fn, token.NoPos, "not found")
			continue
		}
		walkStack(fd.Body, func(m ast.Node, stack []ast.Node) bool {
			rs, ok := m.(*ast.ReturnStmt)
			if !ok || len(rs.Results) == 0 {
				return true
			}
			// is this return inside a deletion-marker branch?  `if … n == struct{}{} …` or `case struct{}:`
			inMarker := false
			for i := len(stack) - 1; i >= 0; i-- {
				switch x := stack[i].(type) {
				case *ast.IfStmt:
					if isMarkerCmp(x.Cond) {
						inMarker = true
					}
				case *ast.CaseClause:
					for _, e := range x.List {
						if t := info.TypeOf(e); t != nil {
							if st, ok := t.Underlying().(*types.Struct); ok && st.NumFields() == 0 {
								inMarker = true
							}
						}
					}
				}
			}
			if !inMarker {
				return true
			}
			n++
			_, sliced := unparen(rs.Results[0]).(*ast.SliceExpr)
			r.Check(!sliced, fn+":marker-return", rs.Pos(), "%s returns %s on a deletion-marker path: %s", fn, c.Src(rs.Results[0]), map[bool]string{true: "the array keeps its length (deletions are only marked; indices of later paths keep their original meaning)", false: "a RESLICED array — later negative indices and slice bounds of the same delpaths/del/|= empty are then resolved against the shortened length (`[0,1,2,3,4] | del(.[3:], .[-5])` gives [0,1,2] instead of [1,2])"}[!sliced])
			return true
		})
	}
	if n < 3 {
		r.Undecided("census", token.NoPos, "only %d deletion-marker returns found", n)
	}
}
